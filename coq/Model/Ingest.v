(** C05  Binning of contact records: create/_ingest.py
      _sanitize_records (chrom decoding, one-based shift, bounds validation, tril handling,
                         bin assignment by division or searchsorted),
      _sanitize_pixels, aggregate_records, the per-chunk pipelines of `cooler cload pairs`
      and `cooler load -f bg2|coo`;  util.GenomeSegmentation tables.        No proofs here. *)
From Cooler Require Export Model.Extent Model.Pixels.

(** one side of a record: (chromosome code, anchor position, other sided payload).
    The chromosome code is the pd.Categorical code against gs.contigs: the chromosome id, or -1 for a
    name that is not in the bin table.  The payload stands for every further "sided" column
    (bg2: `end`). *)
Definition side := (Z * Z * Z)%type.
Definition sc (s : side) : Z := fst (fst s).
Definition sp (s : side) : Z := snd (fst s).
Definition sx (s : side) : Z := snd s.
Definition record := (side * side)%type.

Inductive tril_action := TrilNone | TrilReflect | TrilDrop | TrilRaise.

(** a sanitized record: (bin1_id, bin2_id, side1, side2); the sided columns keep the input
    coordinates (the one-based shift is applied to a copy) and are swapped when reflected *)
Definition outrec := (Z * Z * side * side)%type.
Definition ob1 (o : outrec) : Z := fst (fst (fst o)).
Definition ob2 (o : outrec) : Z := snd (fst (fst o)).
Definition okey (o : outrec) : key := (ob1 o, ob2 o).

(* ----------------------------------------------------------- GenomeSegmentation tables *)
Definition gs_chromsizes (blocks : list (list bin)) : list Z := chromsizes blocks.
(** chrom_binoffset = r_[0, cumsum(nbins_per_chrom)] *)
Definition chrom_binoffset (blocks : list (list bin)) (c : Z) : Z := chrom_offset blocks (Z.to_nat c).
(** chrom_abspos = r_[0, cumsum(chromsizes)] *)
Definition chrom_abspos (blocks : list (list bin)) (c : Z) : Z := sumZ (firstn (Z.to_nat c) (gs_chromsizes blocks)).
(** start_abspos = chrom_abspos[bins.chrom.codes] + bins.start *)
Definition start_abspos (blocks : list (list bin)) : list Z :=
  map (fun x => chrom_abspos blocks (bchrom x) + bstart x) (table blocks).
Definition chromsize_of (blocks : list (list bin)) (c : Z) : Z := nth (Z.to_nat c) (gs_chromsizes blocks) 0.

(* ----------------------------------------------------------- bin assignment *)
(** binsize is None:  lo + searchsorted(start_abspos[lo:hi], chrom_abspos[cid] + pos, "right") - 1 *)
Definition assign_var (blocks : list (list bin)) (c p : Z) : Z :=
  let lo := chrom_binoffset blocks c in
  let hi := chrom_binoffset blocks (c + 1) in
  lo + searchsorted_right (slice (start_abspos blocks) lo hi) (chrom_abspos blocks c + p) - 1.
(** binsize given:  chrom_binoffset[cid] + anchor // binsize *)
Definition assign_fixed (blocks : list (list bin)) (b c p : Z) : Z := chrom_binoffset blocks c + p / b.
(** gs.binsize = get_binsize(bins) is computed once, when the GenomeSegmentation is built *)
Definition gs_binsize (blocks : list (list bin)) : option Z := get_binsize (table blocks).
Definition assign_bs (bs : option Z) (blocks : list (list bin)) (c p : Z) : Z :=
  match bs with
  | Some b => assign_fixed blocks b c p
  | None => assign_var blocks c p
  end.
Definition assign (blocks : list (list bin)) (c p : Z) : Z := assign_bs (gs_binsize blocks) blocks c p.

(* ----------------------------------------------------------- _sanitize_records, phase by phase *)
(** working row: the (possibly swapped) record with its chrom-id and anchor arrays *)
Definition wrow := (record * (Z * Z * Z * Z))%type.
Definition wc1 (w : wrow) : Z := fst (fst (fst (snd w))).
Definition wa1 (w : wrow) : Z := snd (fst (fst (snd w))).
Definition wc2 (w : wrow) : Z := snd (fst (snd w)).
Definition wa2 (w : wrow) : Z := snd (snd w).

Definition known (r : record) : bool := (0 <=? sc (fst r)) && (0 <=? sc (snd r)).
Definition shift1 (one_based : bool) (p : Z) : Z := if one_based then p - 1 else p.
Definition to_wrow (one_based : bool) (r : record) : wrow :=
  (r, (sc (fst r), shift1 one_based (sp (fst r)), sc (snd r), shift1 one_based (sp (snd r)))).

Definition is_neg (w : wrow) : bool := (wa1 w <? 0) || (wa2 w <? 0).
(** the bounds check as it is in the code: [>] , not [>=]  (known finding D2) *)
Definition is_excess (blocks : list (list bin)) (w : wrow) : bool :=
  (chromsize_of blocks (wc1 w) <? wa1 w) || (chromsize_of blocks (wc2 w) <? wa2 w).
Definition is_tril (w : wrow) : bool :=
  (wc2 w <? wc1 w) || ((wc1 w =? wc2 w) && (wa2 w <? wa1 w)).
Definition swap_w (w : wrow) : wrow :=
  ((snd (fst w), fst (fst w)), (wc2 w, wa2 w, wc1 w, wa1 w)).
Definition assign_w (bs : option Z) (blocks : list (list bin)) (w : wrow) : outrec :=
  (assign_bs bs blocks (wc1 w) (wa1 w), assign_bs bs blocks (wc2 w) (wa2 w), fst (fst w), snd (fst w)).

(** None = BadInputError for the whole chunk *)
Definition sanitize_records (blocks : list (list bin)) (one_based validate : bool) (ta : tril_action)
           (chunk : list record) : option (list outrec) :=
  let bs := gs_binsize blocks in
  (* drop records from non-requested chromosomes *)
  let rows := map (to_wrow one_based) (filter known chunk) in
  (* check bounds *)
  if validate && existsb is_neg rows then None
  else if validate && existsb (is_excess blocks) rows then None
  else
    (* lower-triangle records *)
    let rows' :=
      match ta with
      | TrilNone => Some rows
      | TrilReflect => Some (map (fun w => if is_tril w then swap_w w else w) rows)
      | TrilDrop => Some (filter (fun w => negb (is_tril w)) rows)
      | TrilRaise => if existsb is_tril rows then None else Some rows
      end in
    match rows' with
    | None => None
    | Some rs => Some (map (assign_w bs blocks) rs)
    end.

(** the same function, record by record *)
Inductive outcome := ODrop | OErr | OKeep (o : outrec).
Definition sanitize1_bs (bs : option Z) (blocks : list (list bin)) (one_based validate : bool) (ta : tril_action)
           (r : record) : outcome :=
  if negb (known r) then ODrop
  else
    let w := to_wrow one_based r in
    if validate && (is_neg w || is_excess blocks w) then OErr
    else if is_tril w then
      match ta with
      | TrilNone => OKeep (assign_w bs blocks w)
      | TrilReflect => OKeep (assign_w bs blocks (swap_w w))
      | TrilDrop => ODrop
      | TrilRaise => OErr
      end
    else OKeep (assign_w bs blocks w).
Definition sanitize1 (blocks : list (list bin)) (one_based validate : bool) (ta : tril_action)
           (r : record) : outcome := sanitize1_bs (gs_binsize blocks) blocks one_based validate ta r.
Definition is_err (o : outcome) : bool := match o with OErr => true | _ => false end.
Definition kept (o : outcome) : list outrec := match o with OKeep x => [x] | _ => [] end.
Definition collect (l : list outcome) : option (list outrec) :=
  if existsb is_err l then None else Some (flat_map kept l).

(** stable sort by (bin1_id, bin2_id): DataFrame.sort_values(["bin1_id","bin2_id"]) *)
Fixpoint insert_by {A} (k : A -> key) (x : A) (l : list A) : list A :=
  match l with
  | [] => [x]
  | y :: t => if kltb (k x) (k y) then x :: l else y :: insert_by k x t
  end.
Definition sort_by {A} (k : A -> key) (l : list A) : list A := fold_right (insert_by k) [] l.

(* ----------------------------------------------------------- _sanitize_pixels *)
(** a pre-binned record: (bin1_id, bin2_id, sided payload 1, sided payload 2, value) *)
Definition pxrec := (Z * Z * Z * Z * Z)%type.
Definition pb1 (r : pxrec) : Z := fst (fst (fst (fst r))).
Definition pb2 (r : pxrec) : Z := snd (fst (fst (fst r))).
Definition px1 (r : pxrec) : Z := snd (fst (fst r)).
Definition px2 (r : pxrec) : Z := snd (fst r).
Definition pval (r : pxrec) : Z := snd r.
Definition shift_px (one_based : bool) (r : pxrec) : pxrec :=
  (shift1 one_based (pb1 r), shift1 one_based (pb2 r), px1 r, px2 r, pval r).
Definition swap_px (r : pxrec) : pxrec := (pb2 r, pb1 r, px2 r, px1 r, pval r).
Definition sanitize_pixels (one_based : bool) (ta : tril_action) (chunk : list pxrec) : option (list pxrec) :=
  let rows := map (shift_px one_based) chunk in
  let tril := fun r => pb2 r <? pb1 r in
  match ta with
  | TrilNone => Some rows
  | TrilReflect => Some (map (fun r => if tril r then swap_px r else r) rows)
  | TrilDrop => Some (filter (fun r => negb (tril r)) rows)
  | TrilRaise => if existsb tril rows then None else Some rows
  end.

(* ----------------------------------------------------------- aggregate_records *)
(** groupby([bin1_id, bin2_id], sort=True).size() : one pixel per distinct key, value = multiplicity *)
Definition aggregate_records (recs : list outrec) : list pixel :=
  aggregate (map (fun o => (okey o, 1)) recs).
(** ... with a summed value column (the payload of side 1 is used as the value here) *)
Definition aggregate_values (recs : list pxrec) : list pixel :=
  aggregate (map (fun r => ((pb1 r, pb2 r), pval r)) recs).

(* ----------------------------------------------------------- the loaders *)
Fixpoint all_some {A} (l : list (option (list A))) : option (list A) :=
  match l with
  | [] => Some []
  | None :: _ => None
  | Some x :: t => match all_some t with None => None | Some r => Some (x ++ r) end
  end.

(** cooler cload pairs: per chunk sanitize (schema "pairs", validate) then aggregate; the partial
    results are merged by summation; no pixel validation (boundscheck/triucheck/dupcheck off).
    The merge walks the bin1 index of the partial files up to nbins, so a pixel whose bin1_id is
    >= nbins (only reachable through known finding D2) never reaches the output, whereas
    bin2_id = nbins is stored.   None = the command fails. *)
Definition cload_pairs (blocks : list (list bin)) (zero_based : bool) (ta : tril_action)
           (chunks : list (list record)) : option (list pixel) :=
  match all_some (map (sanitize_records blocks (negb zero_based) true ta) chunks) with
  | None => None
  | Some recs => Some (filter (fun p => row p <? zlen (table blocks)) (aggregate_records recs))
  end.

(** _validate_pixels as configured by `cooler load`: bounds, upper-triangularity (when the storage
    is symmetric-upper) and no duplicate pixel inside one chunk *)
Fixpoint has_dup (l : list key) : bool :=
  match l with
  | [] => false
  | k :: t => existsb (keqb k) t || has_dup t
  end.
Definition validate_pixels_b (nbins : Z) (triu : bool) (chunk : list pixel) : bool :=
  forallb (fun p => (0 <=? row p) && (row p <? nbins) && (0 <=? col p) && (col p <? nbins)) chunk
  && (negb triu || forallb (fun p => row p <=? col p) chunk)
  && negb (has_dup (keys chunk)).

(** cooler load -f bg2: sanitize_records (schema "bg2": anchor = start, sided = chrom,start,end; validate)
    per chunk, pixels validated, chunks merged by summing the count column.
    The record's value travels in a parallel list. *)
Definition load_bg2_chunk (blocks : list (list bin)) (one_based : bool) (ta : tril_action) (symm : bool)
           (chunk : list (record * Z)) : option (list pixel) :=
  (* the value column is not sided: give each record its index so that it can be found again *)
  match sanitize_records blocks one_based true ta (map fst chunk) with
  | None => None
  | Some _ =>
      let bs := gs_binsize blocks in
      let f := fun rv : record * Z =>
        match sanitize1_bs bs blocks one_based true ta (fst rv) with
        | OKeep o => [(okey o, snd rv)]
        | _ => []
        end in
      let px := flat_map f chunk in
      if validate_pixels_b (zlen (table blocks)) symm px then Some px else None
  end.
Definition load_bg2 (blocks : list (list bin)) (one_based : bool) (ta : tril_action) (symm : bool)
           (chunks : list (list (record * Z))) : option (list pixel) :=
  match all_some (map (load_bg2_chunk blocks one_based ta symm) chunks) with
  | None => None
  | Some px => Some (aggregate px)
  end.

(** cooler load -f coo *)
Definition load_coo_chunk (nbins : Z) (one_based : bool) (ta : tril_action) (symm : bool)
           (chunk : list pxrec) : option (list pixel) :=
  match sanitize_pixels one_based ta chunk with
  | None => None
  | Some rs =>
      let px := map (fun r => ((pb1 r, pb2 r), pval r)) rs in
      if validate_pixels_b nbins symm px then Some px else None
  end.
Definition load_coo (nbins : Z) (one_based : bool) (ta : tril_action) (symm : bool)
           (chunks : list (list pxrec)) : option (list pixel) :=
  match all_some (map (load_coo_chunk nbins one_based ta symm) chunks) with
  | None => None
  | Some px => Some (aggregate px)
  end.

(** executable reading of "the bin that contains the anchor": position k of the table is a bin of
    chromosome c with start <= p < end *)
Definition contains_b (blocks : list (list bin)) (c p k : Z) : bool :=
  match nth_error (table blocks) (Z.to_nat k) with
  | Some x => (0 <=? k) && (bchrom x =? c) && (bstart x <=? p) && (p <? bend x)
  | None => false
  end.
