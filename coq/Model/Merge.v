(** k-way merge of coolers (src/cooler/_reduce.py: merge_breakpoints, CoolerMerger, merge_coolers)
    and unordered ingestion (src/cooler/create/_create.py: create_from_unordered).
    Executable model, no proofs here.  Used by C07 and C06.

    Conventions: a pixel record is [(key, v)] with [key = (bin1_id, bin2_id)] and [v : V] the row of
    requested value columns ([V = Z] for a single count column in the theorems, [V = list Z] in the
    executable multi-column model).  Exceptions of the Python code are values of [res]. *)
From Cooler Require Export Model.Pixels Model.Bins.

Inductive err := EFuel | EIndex | EValue.
Inductive res (A : Type) : Type := Ok (a : A) | Err (e : err).
Arguments Ok {A} a.
Arguments Err {A} e.
Definition bind {A B} (r : res A) (f : A -> res B) : res B :=
  match r with Ok a => f a | Err e => Err e end.
Fixpoint mapM {A B} (f : A -> res B) (l : list A) : res (list B) :=
  match l with
  | [] => Ok []
  | x :: t => bind (f x) (fun y => bind (mapM f t) (fun ys => Ok (y :: ys)))
  end.

(* ------------------------------------------------------------------ merge_breakpoints *)

(** combined_index = np.zeros(indexes[0].shape); for i: combined_index += indexes[i] *)
Fixpoint vadd (a b : list Z) : list Z :=
  match a, b with x :: a', y :: b' => (x + y) :: vadd a' b' | _, _ => [] end.
Definition combined_index (indexes : list (list Z)) : list Z :=
  fold_left vadd indexes (repeat 0 (length (hd [] indexes))).

(** bisect.bisect_right(a, x, lo=lo) on a non-decreasing array: first position >= lo whose element is > x *)
Fixpoint count_le (l : list Z) (x : Z) : nat :=
  match l with [] => O | y :: r => if y <=? x then S (count_le r x) else O end.
Definition bisect_right (a : list Z) (x : Z) (lo : nat) : nat := (lo + count_le (skipn lo a) x)%nat.

(** the [while True] loop of merge_breakpoints on explicit fuel; returns the bin1 ids appended to
    [bin1_partition] after the initial 0.  [ci[hi]] out of range is Python's IndexError. *)
Fixpoint mb_loop (fuel : nat) (ci : list Z) (buf nnz : Z) (lo : nat) (start : Z) : res (list nat) :=
  match fuel with
  | O => Err EFuel
  | S f =>
      let hi0 := (bisect_right ci (Z.min (start + buf) nnz) lo - 1)%nat in
      let hi := if (hi0 =? lo)%nat then S hi0 else hi0 in
      match nth_error ci hi with
      | None => Err EIndex
      | Some v =>
          if v =? nnz then Ok [hi]
          else match mb_loop f ci buf nnz hi v with Ok p => Ok (hi :: p) | Err e => Err e end
      end
  end.

Definition merge_breakpoints (fuel : nat) (indexes : list (list Z)) (bufsize : Z) : res (list nat) :=
  let ci := combined_index indexes in
  match ci with
  | [] => Err EIndex
  | _ => match mb_loop fuel ci bufsize (last ci 0) 0 0 with Ok p => Ok (O :: p) | Err e => Err e end
  end.
(** second return value of the Python function *)
Definition cum_nrecords (indexes : list (list Z)) (part : list nat) : list Z :=
  map (fun h => nth h (combined_index indexes) 0) part.
(** fuel that is always enough (theorem breakpoints_partition): the length of the index = n_bins + 1 *)
Definition merge_breakpoints_auto (indexes : list (list Z)) (bufsize : Z) : res (list nat) :=
  merge_breakpoints (length (combined_index indexes)) indexes bufsize.

(* ------------------------------------------------------------------ generic merger *)
Section Generic.
Context {V : Type}.
Notation recd := (key * V)%type.

(** pandas groupby(["bin1_id","bin2_id"], sort=True): groups in ascending key order, the values of a
    group in order of appearance *)
Fixpoint gins (k : key) (v : V) (g : list (key * list V)) : list (key * list V) :=
  match g with
  | [] => [(k, [v])]
  | (k', vs) :: t =>
      match kcmp k k' with
      | Eq => (k', vs ++ [v]) :: t
      | Lt => (k, [v]) :: g
      | Gt => (k', vs) :: gins k v t
      end
  end.
Definition group (l : list recd) : list (key * list V) :=
  fold_left (fun acc p => gins (fst p) (snd p) acc) l [].
Definition groupby_agg (agg : list V -> V) (l : list recd) : list recd :=
  map (fun g => (fst g, agg (snd g))) (group l).

(** the values stored at key k, in order of appearance (reference reading of "that pixel over the inputs") *)
Definition vals (l : list recd) (k : key) : list V :=
  map snd (filter (fun p => keqb (fst p) k) l).

(** what the merger reads of a cooler: indexes/bin1_offset and the pixel table *)
Record mcool := { mc_off : list Z; mc_px : list recd }.

(** indexes/bin1_offset of a pixel table over n bins: number of records in rows < b, b = 0..n
    (what index_pixels computes for a table sorted by bin1_id) *)
Definition index_of (n : nat) (px : list recd) : list Z :=
  map (fun b => zlen (filter (fun p => fst (fst p) <? b) px)) (zrange 0 (S n)).
Definition mk_cool (n : nat) (px : list recd) : mcool := {| mc_off := index_of n px; mc_px := px |}.

(** frames = [c.pixels()[start:stop] for c, start, stop in zip(coolers, starts, stops) if stop - start > 0];
    pd.concat(frames) *)
Definition epoch_frames (inputs : list mcool) (starts stops : list Z) : list recd :=
  concat (map (fun x => slice (mc_px (fst x)) (fst (snd x)) (snd (snd x)))
              (combine inputs (combine starts stops))).

(** CoolerMerger.__iter__: one aggregated chunk per epoch that holds records *)
Fixpoint merger_epochs (agg : list V -> V) (inputs : list mcool) (starts : list Z) (part : list nat)
  : list (list recd) :=
  match part with
  | [] => []
  | b :: rest =>
      let stops := map (fun c => nth b (mc_off c) 0) inputs in
      match epoch_frames inputs starts stops with
      | [] => merger_epochs agg inputs stops rest                 (* if not frames: starts = stops; continue *)
      | fr => groupby_agg agg fr :: merger_epochs agg inputs stops rest
      end
  end.
Definition cooler_merger (agg : list V -> V) (inputs : list mcool) (mergebuf : Z) : res (list (list recd)) :=
  bind (merge_breakpoints_auto (map mc_off inputs) mergebuf) (fun part =>
    Ok (merger_epochs agg inputs (map (fun _ => 0) inputs) (tl part))).

(** validate_pixels (create/_ingest.py) on one chunk *)
Fixpoint sort_ins (p : recd) (l : list recd) : list recd :=
  match l with
  | [] => [p]
  | q :: t => if kltb (fst p) (fst q) then p :: l else q :: sort_ins p t
  end.
Definition sort_values (l : list recd) : list recd := fold_left (fun acc p => sort_ins p acc) l [].
Fixpoint has_dup (l : list recd) : bool :=
  match l with
  | [] => false
  | p :: t => existsb (fun q => keqb (fst p) (fst q)) t || has_dup t
  end.
Definition validate_pixels (n : Z) (boundscheck triucheck dupcheck ensure_sorted : bool) (ch : list recd)
  : res (list recd) :=
  if boundscheck && existsb (fun p => (fst (fst p) <? 0) || (snd (fst p) <? 0)) ch then Err EValue
  else if boundscheck && existsb (fun p => (n <=? fst (fst p)) || (n <=? snd (fst p))) ch then Err EValue
  else if triucheck && existsb (fun p => snd (fst p) <? fst (fst p)) ch then Err EValue
  else if dupcheck && has_dup ch then Err EValue
  else Ok (if ensure_sorted then sort_values ch else ch).

(** create(): every chunk goes through the validator, then write_pixels (whose integer range check is
    [vcheck]); the result is the pixel table plus its index *)
Record copts := { o_bounds : bool; o_triu : bool; o_dup : bool; o_sort : bool }.
Definition check_chunk (n : Z) (o : copts) (vcheck : V -> bool) (ch : list recd) : res (list recd) :=
  bind (validate_pixels n (o_bounds o) (o_triu o) (o_dup o) (o_sort o) ch) (fun ch' =>
    if forallb (fun p => vcheck (snd p)) ch' then Ok ch' else Err EValue).
Definition create_g (n : nat) (o : copts) (vcheck : V -> bool) (chunks : list (list recd)) : res mcool :=
  bind (mapM (check_chunk (Z.of_nat n) o vcheck) chunks) (fun cs => Ok (mk_cool n (concat cs))).
Definition merge_g (n : nat) (o : copts) (vcheck : V -> bool) (agg : list V -> V)
           (inputs : list mcool) (mergebuf : Z) : res mcool :=
  match inputs with
  | [] => Err EIndex                                                   (* coolers[0] *)
  | _ => bind (cooler_merger agg inputs mergebuf) (create_g n o vcheck)
  end.

(** consecutive pairs zip(edges[:-1], edges[1:]) *)
Fixpoint pairs (e : list nat) : list (nat * nat) :=
  match e with
  | a :: ((b :: _) as t) => (a, b) :: pairs t
  | _ => []
  end.
Definition nslice {A} (l : list A) (lo hi : nat) : list A := firstn (hi - lo) (skipn lo l).

(** create_from_unordered with the edge list of the optional first merge pass made explicit *)
Definition unordered_g (n : nat) (o : copts) (vcheck : V -> bool) (agg : list V -> V)
           (chunks : list (list recd)) (mergebuf : Z) (edges : option (list nat)) : res mcool :=
  bind (mapM (fun ch => create_g n o vcheck [ch]) chunks) (fun temps =>
  bind (match edges with
        | Some e => mapM (fun lh => merge_g n o vcheck agg (nslice temps (fst lh) (snd lh)) mergebuf) (pairs e)
        | None => Ok temps
        end) (fun finals =>
  merge_g n o vcheck agg finals mergebuf)).
End Generic.
Arguments mcool V : clear implicits.

(** edges = np.linspace(0, n, max(int(np.sqrt(n)), 2), dtype=int): k points i*n/(k-1) truncated *)
Definition linspace_int (n k : nat) : list nat :=
  map (fun i => (i * n / (k - 1))%nat) (seq 0 k).
Definition unordered_edges (n : nat) (max_merge : Z) : option (list nat) :=
  if (max_merge <? Z.of_nat n) && (0 <? max_merge)
  then Some (linspace_int n (Nat.max (Nat.sqrt n) 2))
  else None.

(* ------------------------------------------------------------------ executable multi-column model *)

(** aggregation functions of a value column; integer sums are accumulated by pandas in int64 and wrap *)
Inductive aggop := ASum | AMax | AMin.
Definition wrap64 (x : Z) : Z := (x + 2 ^ 63) mod 2 ^ 64 - 2 ^ 63.
Definition agg_col (op : aggop) (vs : list Z) : Z :=
  match op with
  | ASum => wrap64 (sumZ vs)
  | AMax => fold_right Z.max (hd 0 vs) vs
  | AMin => fold_right Z.min (hd 0 vs) vs
  end.
Definition agg_row (ops : list aggop) (rows : list (list Z)) : list Z :=
  map (fun iop => agg_col (snd iop) (map (fun r => nth (fst iop) r 0) rows))
      (combine (seq 0 (length ops)) ops).

(** signed integer dtype of width [bits]: the range check of write_pixels *)
Definition fits (bits v : Z) : bool := (- 2 ^ (bits - 1) <=? v) && (v <=? 2 ^ (bits - 1) - 1).
Definition fits_row (bits : list Z) (r : list Z) : bool :=
  forallb (fun bv => fits (fst bv) (snd bv)) (combine bits r).

(** a cooler as merge_coolers sees it. Column names are tokens (0 = "count"); [c_cols] = (name, bits). *)
Record cooler := {
  c_names : list Z;               (* chroms/name *)
  c_bins : list bin;              (* bins/chrom,start,end *)
  c_symm : bool;                  (* storage-mode = symmetric-upper *)
  c_cols : list (Z * Z);          (* value columns of pixels/: (name, signed integer width) *)
  c_off : list Z;                 (* indexes/bin1_offset *)
  c_px : list (key * list Z);     (* pixel records, values aligned with c_cols *)
  c_sum : Z                       (* info["sum"] *)
}.
Definition c_nbins (c : cooler) : nat := length (c_bins c).

Fixpoint col_pos (cols : list (Z * Z)) (name : Z) : option nat :=
  match cols with
  | [] => None
  | (nm, _) :: t => if nm =? name then Some O else option_map S (col_pos t name)
  end.
Definition col_bits (cols : list (Z * Z)) (name : Z) : option Z :=
  option_map (fun i => snd (nth i cols (0, 0))) (col_pos cols name).
Fixpoint all_some {A} (l : list (option A)) : option (list A) :=
  match l with
  | [] => Some []
  | Some x :: t => option_map (cons x) (all_some t)
  | None :: _ => None
  end.
(** the records of a cooler restricted to the requested columns (in the requested order) *)
Definition project (c : cooler) (poss : list nat) : mcool (list Z) :=
  {| mc_off := c_off c;
     mc_px := map (fun p => (fst p, map (fun i => nth i (snd p) 0) poss)) (c_px c) |}.

Definition list_eqb {A} (eqb : A -> A -> bool) :=
  fix go (a b : list A) : bool :=
    match a, b with
    | [], [] => true
    | x :: a', y :: b' => eqb x y && go a' b'
    | _, _ => false
    end.
Definition bin_eqb (x y : bin) : bool :=
  (bchrom x =? bchrom y) && (bstart x =? bstart y) && (bend x =? bend y).
Definition opt_eqb (a b : option Z) : bool :=
  match a, b with Some x, Some y => x =? y | None, None => true | _, _ => false end.
Definition pair_eqb (a b : Z * Z) : bool := (fst a =? fst b) && (snd a =? snd b).

(** CoolerMerger.__init__: same resolution and chromosomes (fixed bin size) or same bin table *)
Definition compatible (c0 c : cooler) : bool :=
  match get_binsize (c_bins c0) with
  | Some _ =>
      opt_eqb (get_binsize (c_bins c)) (get_binsize (c_bins c0))
      && list_eqb Z.eqb (c_names c) (c_names c0)
      && list_eqb pair_eqb (get_chromsizes (c_bins c)) (get_chromsizes (c_bins c0))
  | None =>
      list_eqb Z.eqb (c_names c) (c_names c0) && list_eqb bin_eqb (c_bins c) (c_bins c0)
  end.

Definition sum_count (columns : list Z) (px : list (key * list Z)) : Z :=
  match col_pos (map (fun c => (c, 0)) columns) 0 with
  | Some i => wrap64 (sumZ (map (fun p => nth i (snd p) 0) px))
  | None => 0
  end.

(** merge_coolers(output, inputs, mergebuf, columns, dtypes, agg) followed by reading the output back.
    [dtypes]/[aggs] are association lists over column names; missing entries take the defaults
    (np.result_type of the inputs = widest; "sum"). *)
Definition lookup {A} (l : list (Z * A)) (k : Z) : option A :=
  option_map snd (find (fun x => fst x =? k) l).
Definition merge_coolers (inputs : list cooler) (mergebuf : Z) (columns : option (list Z))
           (dtypes : list (Z * Z)) (aggs : list (Z * aggop)) : res cooler :=
  match inputs with
  | [] => Err EIndex
  | c0 :: _ =>
      if negb (forallb c_symm inputs || forallb (fun c => negb (c_symm c)) inputs) then Err EValue else
      let symm := c_symm c0 in
      let columns := match columns with Some l => l | None => [0] end in
      match all_some (map (fun c => all_some (map (col_pos (c_cols c)) columns)) inputs),
            all_some (map (fun c => all_some (map (col_bits (c_cols c)) columns)) inputs) with
      | Some poss, Some bitss =>
          let out_bits := map (fun jc =>
                match lookup dtypes (snd jc) with
                | Some b => b
                | None => fold_right Z.max 0 (map (fun bs => nth (fst jc) bs 0) bitss)
                end) (combine (seq 0 (length columns)) columns) in
          let ops := map (fun c => match lookup aggs c with Some op => op | None => ASum end) columns in
          if negb (forallb (compatible c0) inputs) then Err EValue else
          let n := c_nbins c0 in
          let o := {| o_bounds := true; o_triu := symm; o_dup := true; o_sort := false |} in
          bind (merge_g n o (fits_row out_bits) (agg_row ops)
                        (map (fun cp => project (fst cp) (snd cp)) (combine inputs poss)) mergebuf)
               (fun m => Ok {| c_names := c_names c0; c_bins := c_bins c0; c_symm := symm;
                               c_cols := combine columns out_bits;
                               c_off := mc_off m; c_px := mc_px m;
                               c_sum := sum_count columns (mc_px m) |})
      | _, _ => Err EValue
      end
  end.

(** create_cooler(uri, bins, chunks, columns, dtypes, ordered=False, symmetric_upper, mergebuf, max_merge,
    boundscheck, triucheck, dupcheck, ensure_sorted): every column is summed *)
Definition create_from_unordered (names : list Z) (bins : list bin) (symm : bool) (cols : list (Z * Z))
           (boundscheck triucheck dupcheck ensure_sorted : bool)
           (chunks : list (list (key * list Z))) (mergebuf max_merge : Z) : res cooler :=
  let n := length bins in
  let o := {| o_bounds := boundscheck; o_triu := symm && triucheck; o_dup := dupcheck; o_sort := ensure_sorted |} in
  bind (unordered_g n o (fits_row (map snd cols)) (agg_row (map (fun _ => ASum) cols))
                    chunks mergebuf (unordered_edges (length chunks) max_merge))
       (fun m => Ok {| c_names := names; c_bins := bins; c_symm := symm; c_cols := cols;
                       c_off := mc_off m; c_px := mc_px m;
                       c_sum := sum_count (map fst cols) (mc_px m) |}).

(** what the correspondence run compares (small printed terms) *)
Definition observe (r : res cooler) : res (bool * list (Z * Z) * list Z * list (key * list Z) * Z) :=
  match r with
  | Ok c => Ok (c_symm c, c_cols c, c_off c, c_px c, c_sum c)
  | Err e => Err e
  end.
Definition mb_observe (indexes : list (list Z)) (bufsize : Z) : res (list nat * list Z) :=
  match merge_breakpoints_auto indexes bufsize with
  | Ok p => Ok (p, cum_nrecords indexes p)
  | Err e => Err e
  end.
