"""C05 — each valid input record is counted once, in the pixel that contains it.

Correspondence: cooler.create.sanitize_records / sanitize_pixels / aggregate_records and the CLI
`cooler cload pairs`, `cooler load -f bg2|coo` (in-process via click's CliRunner) against the Gallina model
coq/Model/Ingest.v, on the bin-table families of C04 (uniform, shorter last, LONGER last, one-bin, variable)
x record multisets with positions on every bin edge, at 0, L-1, L, L+1, -1, unknown chromosomes, both triangle
orientations x zero/one-based x reflect/drop/None/raise x sided payload x orders x chunkings.
Property oracle (independent of the code under test): per-record interval lookup on the bin frame + Counter.
"""
from __future__ import annotations

import os
import random
from collections import Counter

import numpy as np
import pandas as pd

import coqio as C
from gen_bins import blocks_from_widths, names_for, random_blocks, table_from_blocks

PROP = "C05"
D2 = "pos-equals-chromlen-zero-based"
RULE = ("tables: corpus (uniform / shorter last / LONGER last / one-bin / variable, incl. the D1 tables) + seeded random tables; per table: "
        "record sets drawn from the positions {0, L-1, every bin edge, edge+-1} of every chromosome pair (valid stream), the same with one "
        "record at -1 / L / L+1 (after the one-based shift) or on an unknown chromosome (malformed stream), each run x {zero,one}-based x "
        "{reflect,drop,None,raise} x {pairs,bg2 schema, sided payload} x {chromosome columns as strings / integer ids / pandas Categorical with "
        "categories in bin order, alphabetical, reversed, with unused extras, subset} x {positions int64,int32,uint32} x {given,reversed,shuffled order} x {1 chunk, 2 chunks, singletons}; "
        "every loader (sanitize_records, cload pairs, cload tabix incl. nproc 2 / max-split, load bg2) on inputs with runs of 1-3 consecutive records "
        "whose chrom1 and/or chrom2 is unlisted (same or different unlisted names) at the start / middle / end, interleaved with listed ones; "
        "LARGE genomes with few bins (cumulative length just below / at / above 2^31 and 2^32, chromosome lengths up to 2^31-1, fixed and variable bins) with the "
        "bin table handed over with int64 / int32 / uint32 coordinates and as returned by Cooler.bins()[:], records on every bin edge; "
        "histories: consecutive ingestions in one process against bin tables that agree in chromosomes and bin count but differ in boundaries; "
        "invalid-record grid for pre-binned input: {row id out of range only, column id only, both, negative} x {symmetric, square, no triangle check} x "
        "{create_cooler, load -f coo, load -f bg2}: refused with no cooler left, the same input without the bad record counted once; "
        "sanitize_pixels on random bin-id records; aggregate_records on every accepted output; CLI: cload pairs / load bg2 / load coo on "
        "small files with several chunks. One evaluation = one API call or CLI run compared with the model and the oracle. "
        "non-trivial = at least one retained record on a table with >=2 bins; distinct by full input")
TRUSTED = ["pandas Categorical codes / boolean-mask assignment / sort_values / groupby.size are observed through the public functions, not modelled separately",
           "create_cooler(ordered=False) merging of the per-chunk results is property C06/C07; here it is modelled as the canonical sum"]
ASSUMPTIONS = ["anchor // binsize on int64 equals floor division (exact)"]
RESIDUE = ["`cooler cload tabix`/pairix (pysam retrieval) is not modelled and not exercised here",
           "text parsing by pandas.read_csv (column selection is property C16/D8) is observed only through the CLI runs"]

TRIL = {"reflect": "TrilReflect", "drop": "TrilDrop", None: "TrilNone", "raise": "TrilRaise"}
UNK = "chrUn_x"
UNLISTED = {-1: UNK, -2: "chrUn_y", -3: "0_scaffold"}      # chromosome codes < 0: names that are not in the bin table


def name_of(names, c):
    return names[c] if c >= 0 else UNLISTED.get(c, UNK)


# ------------------------------------------------------------------ oracle (reads the property, never the code)
def bin_containing(blocks, c, a):
    k = 0
    for blk in blocks:
        for (cc, s, e) in blk:
            if cc == c and s <= a < e:
                return k
            k += 1
    return None


def oracle_records(blocks, one_based, ta, chunk):
    """chunk: list of [c1,p1,x1,c2,p2,x2] (c = chromosome id or -1).  Returns 'error' or the list of rows
    [b1,b2,c1,p1,x1,c2,p2,x2] that must come out (as a multiset), per the property text."""
    out = []
    for (c1, p1, x1, c2, p2, x2) in chunk:
        if c1 < 0 or c2 < 0:
            continue                                   # unlisted chromosome: dropped
        a1, a2 = p1 - one_based, p2 - one_based
        L1, L2 = blocks[c1][-1][2], blocks[c2][-1][2]
        if not (0 <= a1 < L1 and 0 <= a2 < L2):
            return "error"                             # outside its chromosome: rejected
        lower = (c1, a1) > (c2, a2)
        if lower and ta == "raise":
            return "error"
        if lower and ta == "drop":
            continue
        if lower and ta == "reflect":
            (c1, p1, x1, a1), (c2, p2, x2, a2) = (c2, p2, x2, a2), (c1, p1, x1, a1)
        out.append([bin_containing(blocks, c1, a1), bin_containing(blocks, c2, a2), c1, p1, x1, c2, p2, x2])
    return out


def d2_input(blocks, one_based, chunk):
    """signature predicate over the input: some record on known chromosomes has a (shifted) position equal to
    its chromosome length, and no record lies further out (those are rejected anyway)"""
    hit = False
    for (c1, p1, _x1, c2, p2, _x2) in chunk:
        if c1 < 0 or c2 < 0:
            continue
        for c, p in ((c1, p1), (c2, p2)):
            a, L = p - one_based, blocks[c][-1][2]
            if a < 0 or a > L:
                return False
            hit = hit or a == L
    return hit


def oracle_pixels(one_based, ta, chunk):
    out = []
    for (b1, b2, x1, x2, v) in chunk:
        b1, b2 = b1 - one_based, b2 - one_based
        if b1 > b2:
            if ta == "raise":
                return "error"
            if ta == "drop":
                continue
            if ta == "reflect":
                b1, b2, x1, x2 = b2, b1, x2, x1
        out.append([b1, b2, x1, x2, v])
    return out


# ------------------------------------------------------------------ implementation side (worker process)
POS_DTYPES = {"int64": np.int64, "int32": np.int32, "uint32": np.uint32}


def chrom_column(names, values, how):
    """representation of a chromosome-name column: object strings or a pandas Categorical whose category list is in
    bin order / alphabetical / reversed / has unused extras / is only the subset that occurs (other names -> NaN -> dropped)"""
    if how in (None, "object"):
        return values, None
    present = set(values)
    if how == "cat_bin":
        cats = list(names) + sorted(present - set(names))
    elif how == "cat_alpha":
        cats = sorted(set(names) | present)
    elif how == "cat_rev":
        cats = (list(names) + sorted(present - set(names)))[::-1]
    elif how == "cat_extra":
        cats = ["aaa_unused"] + sorted(names, reverse=True) + ["zzz_unused"] + sorted(present - set(names))
    elif how == "cat_subset":
        cats = sorted(n for n in present if n in set(names))      # unlisted names are not categories: they become NaN, i.e. dropped
    else:
        raise AssertionError(how)
    return values, pd.CategoricalDtype(cats)


def fits(vals, dt):
    info = np.iinfo(dt)
    return all(info.min <= int(v) <= info.max for v in vals)


def bins_variant(bins, how, tmpdir="/tmp"):
    """the bin table handed to the code under test: start/end columns as int64 (default) / int32 / uint32, or the frame that
    Cooler.bins()[:] returns for a cooler created from it (categorical chrom, 32-bit coordinates)"""
    if how in (None, "int64"):
        return bins
    cache = bins.attrs.setdefault("_variants", {})
    if how in cache:
        return cache[how]
    if how in ("int32", "uint32"):
        dt = POS_DTYPES[how]
        v = bins.copy()
        if fits(list(bins["start"]) + list(bins["end"]), dt):
            v["start"] = v["start"].astype(dt)
            v["end"] = v["end"].astype(dt)
    else:   # "cooler"
        import cooler
        import tempfile
        v = bins
        if fits(list(bins["end"]), np.int32):
            d = tempfile.mkdtemp(prefix="binsrt_", dir=str(tmpdir))
            uri = os.path.join(d, "b.cool")
            cooler.create_cooler(uri, bins[["chrom", "start", "end"]], {"bin1_id": np.array([0]), "bin2_id": np.array([0]), "count": np.array([1])})
            v = cooler.Cooler(uri).bins()[:]
            import shutil
            shutil.rmtree(d, ignore_errors=True)
    v.attrs = {}
    cache[how] = v
    return v


def rec_df(names, anchor, xname, chunk, decode=True, with_x=True, with_count=None, chrom_repr="object", pos_dtype="int64", suf=("1", "2")):
    nm = (lambda c: name_of(names, c)) if decode else (lambda c: c)
    pdt = POS_DTYPES[pos_dtype or "int64"]
    if not fits([r[1] for r in chunk] + [r[4] for r in chunk], pdt):
        pdt = np.int64                                   # a coordinate that the narrow type cannot hold is handed over as int64
    c1 = [nm(r[0]) for r in chunk]
    c2 = [nm(r[3]) for r in chunk]
    d = {"chrom1": c1, anchor + suf[0]: np.array([r[1] for r in chunk], dtype=pdt)}
    if with_x:
        d[xname + suf[0]] = np.array([r[2] for r in chunk], dtype=np.int64)
    d["chrom2"] = c2
    d[anchor + suf[1]] = np.array([r[4] for r in chunk], dtype=pdt)
    if with_x:
        d[xname + suf[1]] = np.array([r[5] for r in chunk], dtype=np.int64)
    df = pd.DataFrame(d)
    if not decode:
        df["chrom1"] = df["chrom1"].astype(np.int64)
        df["chrom2"] = df["chrom2"].astype(np.int64)
    elif chrom_repr not in (None, "object"):
        _, dt = chrom_column(names, c1 + c2, chrom_repr)     # one dtype for both columns (reflection swaps their values)
        df["chrom1"] = pd.Categorical(c1, dtype=dt)
        df["chrom2"] = pd.Categorical(c2, dtype=dt)
    if with_count is not None:
        df["count"] = np.array(with_count, dtype=np.int64)
    return df


def rows_out(names, anchor, xname, df, decode=True, with_x=True, suf=("1", "2")):
    idx = {n: i for i, n in enumerate(names)}
    cc = (lambda v: idx[str(v)]) if decode else int
    cols = ["bin1_id", "bin2_id", "chrom1", anchor + suf[0], "chrom2", anchor + suf[1]] + ([xname + suf[0], xname + suf[1]] if with_x else [])
    rows = []
    for vals in zip(*[df[c_] for c_ in cols]):
        rows.append([int(vals[0]), int(vals[1]), cc(vals[2]), int(vals[3]), int(vals[6]) if with_x else 0,
                     cc(vals[4]), int(vals[5]), int(vals[7]) if with_x else 0])
    return rows


def classify(e):
    from cooler.create import BadInputError
    if isinstance(e, BadInputError):
        return "BadInputError"
    for k in ("ValueError", "KeyError", "IndexError", "TypeError", "OSError"):
        if any(b.__name__ == k for b in type(e).__mro__):
            return k
    return type(e).__name__


def run_sanitize(bins, names, case):
    """-> list per chunk: 'BadInputError' | {'rows': [...], 'agg': [...], 'agg_unsorted': [...], 'agg_x': [...]}"""
    from cooler.create import aggregate_records, sanitize_records
    o = case["opts"]
    schema = o["schema"]
    layout = o.get("layout", "std")
    suf = ("1", "2")
    kw = dict(is_one_based=bool(o["one_based"]), tril_action=o["tril"], sort=bool(o["sort"]), validate=bool(o["validate"]),
              decode_chroms=bool(o["decode"]))
    if layout == "std":
        anchor, xname = ("pos", "x") if schema == "pairs" else ("start", "end")
        if schema == "pairs" and o["with_x"]:
            kw["sided_fields"] = ("chrom", "pos", "x")
    elif layout == "coord":      # no preset: every option spelled out, custom anchor column name
        schema, anchor, xname = None, "coord", "x"
        kw.update(chrom_field="chrom", anchor_field="coord", suffixes=("1", "2"),
                  sided_fields=("chrom", "coord", "x") if o["with_x"] else ("chrom", "coord"))
    else:                        # "suffix_ab": custom suffixes on the anchor columns (no reflection: the chromosome columns are fixed names)
        schema, anchor, xname, suf = None, "p", "x", ("_a", "_b")
        kw.update(chrom_field="chrom", anchor_field="p", suffixes=suf, sided_fields=())
    res = []
    try:
        f = sanitize_records(bins_variant(bins, o.get("bins_dtype"), case.get("_tmpdir", "/tmp")), schema=schema, **kw)
    except Exception as e:  # noqa: BLE001
        return ["ctor:" + classify(e)]
    for chunk in case["chunks"]:
        df = rec_df(names, anchor, xname, chunk, decode=o["decode"], with_x=o["with_x"],
                    chrom_repr=o.get("chrom_repr"), pos_dtype=o.get("pos_dtype"), suf=suf)
        try:
            out = f(df)
            rows = rows_out(names, anchor, xname, out, decode=o["decode"], with_x=o["with_x"], suf=suf)
            r = {"rows": rows, "agg": [], "agg_unsorted": [], "agg_x": []}
            if len(out):
                trip = lambda a: [[int(x), int(y), int(z)] for x, y, z in zip(a["bin1_id"], a["bin2_id"], a["count"])]  # noqa: E731
                r["agg"] = trip(aggregate_records(sort=True)(out))
                r["agg_unsorted"] = sorted(trip(aggregate_records(sort=False)(out)))
                if o["with_x"]:
                    xc = xname + suf[0]
                    a = aggregate_records(sort=True, count=True, agg={xc: "sum"})(out)
                    r["agg_x"] = [[int(b1), int(b2), int(c), int(sx)] for b1, b2, c, sx in zip(a["bin1_id"], a["bin2_id"], a["count"], a[xc])]
            res.append(r)
        except Exception as e:  # noqa: BLE001
            res.append(classify(e))
    return res


def run_ctor(bins, case):
    """constructor-level refusals"""
    from cooler.create import sanitize_records
    try:
        sanitize_records(bins, **case["kwargs"])
        return "ok"
    except Exception as e:  # noqa: BLE001
        return classify(e)


def run_api_coo(tmpdir, tag, bins, case):
    """cooler.create_cooler on pre-binned (COO) records: 'refused' (raised and left no cooler) | the stored pixel rows"""
    import cooler
    o = case["opts"]
    d = os.path.join(tmpdir, f"api{os.getpid()}_{tag}")
    os.makedirs(d, exist_ok=True)
    uri = os.path.join(d, "o.cool")
    recs = [r for ch in case["chunks"] for r in ch]
    px = pd.DataFrame({"bin1_id": np.array([r[0] for r in recs], dtype=np.int64), "bin2_id": np.array([r[1] for r in recs], dtype=np.int64),
                       "count": np.array([r[4] for r in recs], dtype=np.int64)})
    try:
        try:
            cooler.create_cooler(uri, bins, px, symmetric_upper=bool(o["symmetric"]), triucheck=bool(o["triucheck"]), ensure_sorted=True)
        except Exception as e:  # noqa: BLE001
            left = False
            try:
                left = os.path.exists(uri) and bool(cooler.fileops.is_cooler(uri))
            except Exception:  # noqa: BLE001
                left = False
            return "refused" + ("+cooler-left-behind" if left else "")
        return read_pixels(uri)
    finally:
        import shutil
        shutil.rmtree(d, ignore_errors=True)


def run_gsfetch(bins, names, case):
    """GenomeSegmentation.fetch (the bin rows the tabix / pairix aggregators receive for a work chunk): ids of the returned rows"""
    from cooler.util import GenomeSegmentation, get_chromsizes
    b = bins_variant(bins, case["opts"].get("bins_dtype"), case.get("_tmpdir", "/tmp"))
    gs = GenomeSegmentation(get_chromsizes(b), b)
    out = []
    for (c, s, e) in case["regions"]:
        try:
            df = gs.fetch((names[c], s, e))
            out.append([int(i) for i in df.index])
        except Exception as ex:  # noqa: BLE001
            out.append(classify(ex))
    return out


def run_pixels(bins, case):
    """-> list per chunk: 'BadInputError' | {'rows': [...], 'agg': [[b1,b2,sum]...]}"""
    from cooler.create import aggregate_records, sanitize_pixels
    o = case["opts"]
    kw = dict(is_one_based=bool(o["one_based"]), tril_action=o["tril"], sort=bool(o["sort"]))
    if o["with_x"]:
        kw["sided_fields"] = ("x",)
    f1, f2 = o.get("fields") or ("bin1_id", "bin2_id")
    if o.get("fields"):
        kw.update(bin1_field=f1, bin2_field=f2)
    f = sanitize_pixels(bins_variant(bins, o.get("bins_dtype"), case.get("_tmpdir", "/tmp")), **kw)
    bdt = POS_DTYPES[o.get("pos_dtype") or "int64"]
    vdt = np.float64 if o.get("val_dtype") == "float" else np.int64
    res = []
    for chunk in case["chunks"]:
        d = {f1: np.array([r[0] for r in chunk], dtype=bdt), f2: np.array([r[1] for r in chunk], dtype=bdt)}
        if o["with_x"]:
            d["x1"] = np.array([r[2] for r in chunk], dtype=np.int64)
            d["x2"] = np.array([r[3] for r in chunk], dtype=np.int64)
        d["count"] = np.array([r[4] for r in chunk], dtype=vdt)
        try:
            out = f(pd.DataFrame(d)).rename(columns={f1: "bin1_id", f2: "bin2_id"})
            rows = [[int(t.bin1_id), int(t.bin2_id), int(t.x1) if o["with_x"] else 0, int(t.x2) if o["with_x"] else 0, int(t.count)]
                    for t in out.itertuples(index=False)]
            if any(float(t.count) != int(t.count) for t in out.itertuples(index=False)):
                rows = "non-integral value"
            agg = aggregate_records(sort=True, count=False, agg={"count": "sum"})(out) if len(out) else None
            aggl = [] if agg is None else [[int(a), int(b_), int(c)] for a, b_, c in zip(agg["bin1_id"], agg["bin2_id"], agg["count"])]
            res.append({"rows": rows, "agg": aggl})
        except Exception as e:  # noqa: BLE001
            res.append(classify(e))
    return res


def write_bins_arg(d, blocks, names, ideal_b):
    if ideal_b is not None:
        p = os.path.join(d, "cs.tsv")
        with open(p, "w") as f:
            for n, blk in zip(names, blocks):
                f.write(f"{n}\t{blk[-1][2]}\n")
        return f"{p}:{ideal_b}"
    p = os.path.join(d, "bins.bed")
    with open(p, "w") as f:
        for blk in blocks:
            for (c, s, e) in blk:
                f.write(f"{names[c]}\t{s}\t{e}\n")
    return p


def read_pixels(path):
    import cooler
    clr = cooler.Cooler(path)
    px = clr.pixels()[:]
    if any(float(c) != int(c) for c in px["count"]):
        return "non-integral count"
    if "val" in px.columns:
        return [[int(a), int(b), int(c), int(v)] for a, b, c, v in zip(px["bin1_id"], px["bin2_id"], px["count"], px["val"])]
    return [[int(a), int(b), int(c)] for a, b, c in zip(px["bin1_id"], px["bin2_id"], px["count"])]


def run_cli(tmpdir, k, blocks, names, case):
    """-> 'exit:<n>' | list of [b1,b2,count]"""
    from click.testing import CliRunner
    from cooler.cli import cli
    o = case["opts"]
    d = os.path.join(tmpdir, f"cli{os.getpid()}_{k}")
    os.makedirs(d, exist_ok=True)
    try:
        bins_arg = write_bins_arg(d, blocks, names, o.get("ideal_b"))
        recs = [r for ch in case["chunks"] for r in ch]
        csz = max(1, len(case["chunks"][0])) if case["chunks"] else 1
        inp = os.path.join(d, "in.txt")
        out = os.path.join(d, "out.cool")
        nm = lambda c: name_of(names, c)  # noqa: E731
        args = []
        if case["fn"] == "cload_pairs":
            with open(inp, "w") as f:
                if o.get("header"):
                    f.write("## pairs format v1.0\n#columns: readID chr1 pos1 chr2 pos2\n")
                for i, r in enumerate(recs):
                    if o.get("d8"):    # regression D8 (repaired): field numbers in non-ascending order
                        f.write(f"{r[4]}\t{nm(r[3])}\tr{i}\t{r[1]}\t{nm(r[0])}\t{i % 5 + 1}\n")
                    else:
                        f.write(f"r{i}\t{nm(r[0])}\t{r[1]}\t{nm(r[3])}\t{r[4]}\t{i % 5 + 1}\n")
            fields = ["-c1", "5", "-p1", "4", "-c2", "2", "-p2", "1"] if o.get("d8") else ["-c1", "2", "-p1", "3", "-c2", "4", "-p2", "5"]
            args = ["cload", "pairs"] + fields + ["--chunksize", str(csz)] + (["--field", "val=6:dtype=int"] if o.get("field") else [])
            if not o["one_based"]:
                args.append("--zero-based")
        elif case["fn"] == "cload_tabix":
            import pysam
            with open(inp, "w") as f:
                for i, r in enumerate(recs):
                    f.write(f"{nm(r[0])}\t{r[1]}\t{nm(r[3])}\t{r[4]}\n")
            pysam.tabix_index(inp, seq_col=0, start_col=1, end_col=1, zerobased=not o["one_based"], force=True)
            inp = inp + ".gz"
            args = ["cload", "tabix", "--nproc", str(o.get("nproc", 1)), "-c2", "3", "-p2", "4"] + (["--max-split", str(o["max_split"])] if o.get("max_split") else []) + ([] if o["one_based"] else ["--zero-based"])
        elif case["fn"] == "load_bg2":
            with open(inp, "w") as f:
                if o.get("comment"):
                    f.write("# a comment line\n")
                for r, v in zip(recs, [v for vs in case["values"] for v in vs]):
                    if o.get("d8"):
                        f.write(f"{nm(r[0])}\t{r[1]}\t{r[2]}\t{nm(r[3])}\t{r[4]}\t{r[5]}\t77\t{v}\n")
                    else:
                        f.write(f"{nm(r[0])}\t{r[1]}\t{r[2]}\t{nm(r[3])}\t{r[4]}\t{r[5]}\t{v}\n")
            args = ["load", "-f", "bg2", "--chunksize", str(csz)] + (["--field", "count=8"] if o.get("d8") else [])
            if o["one_based"]:
                args.append("--one-based")
        else:
            with open(inp, "w") as f:
                if o.get("comment"):
                    f.write("# a comment line\n")
                for r in recs:
                    if o.get("d8"):
                        f.write(f"{r[0]}\t{r[1]}\t{r[4]}\t55\t{r[4] + 100}\n")
                    else:
                        f.write(f"{r[0]}\t{r[1]}\t{r[4]}\n")
            args = ["load", "-f", "coo", "--chunksize", str(csz)] + (["--field", "foo=5", "--field", "count=3"] if o.get("d8") else [])
            if o["one_based"]:
                args.append("--one-based")
        if case["fn"] == "cload_tabix":
            pass
        elif o["tril"] == "drop":
            args += ["--input-copy-status", "duplex"]
        elif o["tril"] is None:
            args.append("--no-symmetric-upper")
        if o.get("float") and case["fn"].startswith("load"):
            args.append("--count-as-float")
        args += [bins_arg, inp, out]
        res = CliRunner().invoke(cli, args)
        if res.exit_code != 0:
            left = False
            if o.get("grid") and os.path.exists(out):
                import cooler
                try:
                    left = bool(cooler.fileops.is_cooler(out))
                except Exception:  # noqa: BLE001
                    left = False
            return f"exit:{min(res.exit_code, 1)}" + ("+cooler-left-behind" if left else "")
        return read_pixels(out)
    finally:
        import shutil
        shutil.rmtree(d, ignore_errors=True)


def run_case(tmpdir, tag, bins, blocks, names, case):
    case = dict(case, _tmpdir=tmpdir)
    try:
        if case["fn"] == "sanitize_records":
            return run_sanitize(bins, names, case)
        if case["fn"] == "sanitize_pixels":
            return run_pixels(bins, case)
        if case["fn"] == "ctor":
            return run_ctor(bins, case)
        if case["fn"] == "gs_fetch":
            return run_gsfetch(bins, names, case)
        if case["fn"] == "api_coo":
            return run_api_coo(tmpdir, tag, bins, case)
        if case.get("opts", {}).get("nproc", 1) > 1:
            return "deferred"          # a process pool cannot be started from a pool worker: the parent runs it
        return run_cli(tmpdir, tag, blocks, names, case)
    except TimeoutError:
        raise
    except Exception as e:  # noqa: BLE001
        return "crash:" + type(e).__name__ + ":" + str(e)[:200]


def table_worker(job):
    tmpdir, k, widths, cases = job
    import signal

    def _alarm(*_):
        raise TimeoutError("per-table wall-clock limit")
    signal.signal(signal.SIGALRM, _alarm)
    signal.alarm(300)
    try:
        blocks = blocks_from_widths(widths)
        names = names_for(len(widths))
        bins = table_from_blocks(blocks)
        return [run_case(tmpdir, f"{k}_{j}", bins, blocks, names, case) for j, case in enumerate(cases)]
    except TimeoutError:
        return "timeout"
    finally:
        signal.alarm(0)


# ------------------------------------------------------------------ histories: consecutive ingestions in ONE process
def random_composition(rng, L, k):
    cuts = sorted(rng.sample(range(1, L), k - 1)) if k > 1 else []
    return [b_ - a_ for a_, b_ in zip([0] + cuts, cuts + [L])]


def family_same_layout(rng, size=3):
    """bin tables that agree in chromosome names, chromosome lengths AND total number of bins but differ in their bin
    boundaries (and in how the bins are shared out among the chromosomes); the first one is fixed-width where possible"""
    b = rng.choice([2, 3, 5, 10])
    nc = rng.choice([2, 3])
    base = [[b] * rng.randint(1, 3) + [rng.randint(1, b)] for _ in range(nc)]
    base[0] = [b] * rng.randint(2, 3) + [rng.randint(1, b)]
    lengths = [sum(w) for w in base]
    nb = sum(len(w) for w in base)
    fam, seen = [base], {str(base)}
    tries = 0
    while len(fam) < size and tries < 200:
        tries += 1
        counts = [1] * nc
        for _ in range(nb - nc):
            cand = [c for c in range(nc) if counts[c] < lengths[c]]
            counts[rng.choice(cand)] += 1
        widths = [random_composition(rng, lengths[c], counts[c]) for c in range(nc)]
        if str(widths) not in seen:
            seen.add(str(widths))
            fam.append(widths)
    return fam


def history_cases(hist):
    """per table of the family: the ingestions to run, a pure function of the history description"""
    r = random.Random(hist["hseed"])
    out = []
    for hidx, widths in enumerate(hist["family"]):
        cases = gen_exhaustive_edges(widths)[:: 3]
        cases += gen_record_cases(r, widths, 5, True)
        cases += gen_pixel_cases(r, widths, 1)
        cases += [c for c in gen_cli_cases(r, widths, 4) if c["opts"].get("nproc", 1) == 1]
        cases += [c for c in gen_unlisted_runs(r, widths, ["cload_tabix"]) if c["opts"].get("nproc", 1) == 1]
        for cidx, c in enumerate(cases):
            c.update(history={k_: hist[k_] for k_ in ("family", "order", "hseed")}, hidx=hidx, cidx=cidx)
            c["label"] = "history:" + hist["order"] + ":" + c["label"]
        out.append(cases)
    return out


def history_worker(job):
    """ONE process: the ingestions of all tables of a family, alternating between the tables / table after table / in reverse;
    each table's bin frame is built once and reused by all its ingestions"""
    tmpdir, k, hist = job
    import signal

    def _alarm(*_):
        raise TimeoutError("per-history wall-clock limit")
    signal.signal(signal.SIGALRM, _alarm)
    signal.alarm(300)
    try:
        per = history_cases(hist)
        nt = len(per)
        tabs = []
        for widths in hist["family"]:
            blocks = blocks_from_widths(widths)
            tabs.append((table_from_blocks(blocks), blocks, names_for(len(widths))))
        if hist["order"] == "alternate":
            m = max(len(cs) for cs in per)
            sched = [(i, c) for c in range(m) for i in range(nt) if c < len(per[i])]
        elif hist["order"] == "blocks":
            sched = [(i, c) for i in range(nt) for c in range(len(per[i]))]
        else:
            sched = [(i, c) for i in reversed(range(nt)) for c in range(len(per[i]))]
        outs = [[None] * len(cs) for cs in per]
        for (i, c) in sched:
            bins, blocks, names = tabs[i]
            outs[i][c] = run_case(tmpdir, f"h{k}_{i}_{c}", bins, blocks, names, per[i][c])
        return outs
    except TimeoutError:
        return "timeout"
    finally:
        signal.alarm(0)


# ------------------------------------------------------------------ model side
def coq_blocks(blocks):
    return C.lst([C.lst([C.tup(C.z(c), C.z(s), C.z(e)) for (c, s, e) in blk]) for blk in blocks])


def coq_rec(r):
    return C.tup(C.tup(C.z(r[0]), C.z(r[1]), C.z(r[2])), C.tup(C.z(r[3]), C.z(r[4]), C.z(r[5])))


def coq_pxrec(r):
    return C.tup(*[C.z(v) for v in r])


def model_expr(case):
    if case["fn"] == "ctor":
        return "true"
    if case["fn"] == "api_coo":         # create_cooler on pre-binned records = the validated, summed pixel table (no sanitizing step)
        o = case["opts"]
        chunks = C.lst([C.lst([coq_pxrec(r) for r in ch]) for ch in case["chunks"]])
        return f"load_coo (zlen (table blocks)) false TrilNone {C.b(bool(o['symmetric']) and bool(o['triucheck']))} {chunks}"
    if case["fn"] == "gs_fetch":        # C04's model of GenomeSegmentation.fetch / bedslice
        regs = C.lst([C.tup(C.nat(c), C.z(s), C.z(e)) for (c, s, e) in case["regions"]])
        return f"map (fun r : nat * Z * Z => let '(c, s, e) := r in segmentation_fetch blocks c (Some s) (Some e)) {regs}"
    o = case["opts"]
    ta = TRIL[o["tril"]]
    if case["fn"] == "sanitize_records":
        chunks = C.lst([C.lst([coq_rec(r) for r in ch]) for ch in case["chunks"]])
        return (f"map (fun ch => match sanitize_records blocks {C.b(o['one_based'])} {C.b(o['validate'])} {ta} ch with "
                f"None => None | Some rs => Some (rs, aggregate_records rs, let bs := gs_binsize blocks in collect (map (sanitize1_bs bs blocks {C.b(o['one_based'])} {C.b(o['validate'])} {ta}) ch)) end) {chunks}")
    if case["fn"] == "sanitize_pixels":
        chunks = C.lst([C.lst([coq_pxrec(r) for r in ch]) for ch in case["chunks"]])
        return (f"map (fun ch => match sanitize_pixels {C.b(o['one_based'])} {ta} ch with None => None "
                f"| Some rs => Some (rs, aggregate_values rs) end) {chunks}")
    if case["fn"] == "cload_tabix":     # no validation, no reflection: on in-range upper-triangle records it is cload pairs without a triangle action
        chunks = C.lst([C.lst([coq_rec(r) for r in ch]) for ch in case["chunks"]])
        return f"cload_pairs blocks {C.b(not o['one_based'])} TrilNone {chunks}"
    if case["fn"] == "cload_pairs":
        chunks = C.lst([C.lst([coq_rec(r) for r in ch]) for ch in case["chunks"]])
        return f"cload_pairs blocks {C.b(not o['one_based'])} {ta} {chunks}"
    if case["fn"] == "load_bg2":
        chunks = C.lst([C.lst([C.tup(coq_rec(r), C.z(v)) for r, v in zip(ch, vs)]) for ch, vs in zip(case["chunks"], case["values"])])
        return f"load_bg2 blocks {C.b(o['one_based'])} {ta} {C.b(o['tril'] is not None)} {chunks}"
    if case["fn"] == "load_coo":
        chunks = C.lst([C.lst([coq_pxrec(r) for r in ch]) for ch in case["chunks"]])
        return f"load_coo (zlen (table blocks)) {C.b(o['one_based'])} {ta} {C.b(o['tril'] is not None)} {chunks}"
    raise AssertionError(case["fn"])


def unopt(x):
    return None if x is None else x[1]


def flat_out(o):
    """model outrec (b1, b2, (c,p,x), (c,p,x)) -> row"""
    b1, b2, s1, s2 = o
    return [b1, b2, s1[0], s1[1], s1[2], s2[0], s2[1], s2[2]]


# ------------------------------------------------------------------ generators
def chunkings(rng, recs):
    n = len(recs)
    yield "whole", [recs]
    if n >= 2:
        h = rng.randint(1, n - 1)
        yield "two", [recs[:h], recs[h:]]
    if n >= 3:
        yield "single", [[r] for r in recs]


def candidate_positions(blk):
    L = blk[-1][2]
    pts = {0, L - 1}
    for (_, s, e) in blk:
        pts |= {s - 1, s, s + 1, e - 1, e}
    return sorted(p for p in pts if 0 <= p < L), L


def gen_record_cases(rng, widths, n_sets, quick):
    """record sets for one table; yields case dicts (fn = sanitize_records)"""
    blocks = blocks_from_widths(widths)
    nc = len(blocks)
    pos = [candidate_positions(blk) for blk in blocks]
    xid = [0]

    def mk(c1, a1, c2, a2, ob):
        xid[0] += 2
        return [c1, a1 + ob, xid[0], c2, a2 + ob, xid[0] + 1]

    def good(ob):
        c1, c2 = rng.randrange(nc), rng.randrange(nc)
        if rng.random() < 0.4:
            c2 = c1
        return mk(c1, rng.choice(pos[c1][0]), c2, rng.choice(pos[c2][0]), ob)

    cases = []
    for _ in range(n_sets):
        ob = rng.randint(0, 1)
        ta = rng.choice(["reflect", "reflect", "drop", None, "raise"])
        schema = rng.choice(["pairs", "pairs", "bg2"])
        n = rng.choice([1, 2, 3, 4, 6, 9])
        recs = [good(ob) for _ in range(n)]
        stream = rng.random()
        label = "valid"
        if stream > 0.97:      # empty chunk / a chunk in which every record is dropped
            recs = [] if rng.random() < 0.5 else [mk(-1, 3, rng.randrange(nc), 0, ob), mk(rng.randrange(nc), 1 + ob, -1, 5, ob)]
            label = "empty" if not recs else "alldropped"
        elif stream < 0.30:      # one malformed record
            c1, c2 = rng.randrange(nc), rng.randrange(nc)
            L1 = pos[c1][1]
            bad = rng.choice([-1, L1, L1 + 1, L1, -2])
            r = mk(c1, bad, c2, rng.choice(pos[c2][0]), ob)
            if rng.random() < 0.5:
                r = r[3:] + r[:3]
            recs.insert(rng.randrange(len(recs) + 1), r)
            label = "edge" if bad == L1 else "out"
        elif stream < 0.45:    # unknown chromosome, possibly with a wild position
            r = mk(-1, rng.choice([-5, 0, 3, 10 ** 6]), rng.randrange(nc), 0, ob)
            r[4] = rng.choice(pos[r[3]][0]) + ob
            if rng.random() < 0.5:
                r = r[3:] + r[:3]
            recs.insert(rng.randrange(len(recs) + 1), r)
            label = "unknown"
        elif stream < 0.55:    # duplicates of one record (multiplicity)
            recs += [list(recs[0]) for _ in range(rng.randint(1, 3))]
            label = "dups"
        order = rng.choice(["given", "reversed", "shuffled"])
        if order == "reversed":
            recs = recs[::-1]
        elif order == "shuffled":
            rng.shuffle(recs)
        opts = {"schema": schema, "one_based": ob, "tril": ta, "sort": rng.random() < 0.5 if schema == "pairs" else True,
                "validate": True, "decode": True, "with_x": True if schema == "bg2" else rng.random() < 0.7}
        if rng.random() < 0.15:        # integer chromosome-id columns (decode_chroms=False), every tril action
            opts["decode"] = False
        if rng.random() < 0.06:
            opts["validate"] = False
        # representation of the input columns: chromosome names as strings or as categoricals in various category orders,
        # positions as int64 / int32 / uint32 (unsigned only where every position is representable and validation is on)
        opts["chrom_repr"] = rng.choice(["object", "object", "cat_bin", "cat_alpha", "cat_alpha", "cat_rev", "cat_extra", "cat_subset"]) if opts["decode"] else "object"
        opts["pos_dtype"] = rng.choice(["int64", "int64", "int32", "uint32"])
        # column layout: the preset, or every option spelled out with a custom anchor name / custom suffixes
        if schema == "pairs":
            opts["layout"] = rng.choice(["std", "std", "std", "coord", "suffix_ab" if ta != "reflect" else "coord"])
        if opts["pos_dtype"] == "uint32" and (not opts["validate"] or any(r[1] < 0 or r[4] < 0 for r in recs)):
            opts["pos_dtype"] = "int32"
        for cname, chunks in chunkings(rng, recs):
            if quick and cname != "whole" and rng.random() < 0.5:
                continue
            cases.append({"fn": "sanitize_records", "widths": widths, "opts": dict(opts), "chunks": chunks, "label": label + ":" + cname})
    return cases


def gen_exhaustive_edges(widths):
    """every (position in {-1,0,..,L+1 restricted to edges+-1}) x every chromosome, as a single record against a fixed partner,
    zero-based and one-based, reflect: the boundary sweep"""
    blocks = blocks_from_widths(widths)
    cases = []
    x = 1000
    for c, blk in enumerate(blocks):
        goodp, L = candidate_positions(blk)
        for a in sorted(set(goodp) | {-1, L, L + 1}):
            for ob in (0, 1):
                for swap in (False, True):
                    x += 2
                    r = [c, a + ob, x, 0, 0 + ob, x + 1]
                    if swap:
                        r = r[3:] + r[:3]
                    label = "valid" if 0 <= a < L else ("edge" if a == L else "out")
                    reprs = ("object", "cat_alpha", "cat_rev", "cat_bin", "cat_extra", "cat_subset")
                    cases.append({"fn": "sanitize_records", "widths": widths,
                                  "opts": {"schema": "pairs", "one_based": ob, "tril": "reflect", "sort": False, "validate": True, "decode": True, "with_x": True,
                                           "chrom_repr": reprs[(x // 2) % len(reprs)], "pos_dtype": ("int64", "int32")[(x // 2) % 2]},
                                  "chunks": [[r]], "label": "sweep:" + label})
    return cases


def gen_pixel_cases(rng, widths, n_sets):
    n = sum(len(w) for w in widths)
    cases = []
    for _ in range(n_sets):
        ob = rng.randint(0, 1)
        ta = rng.choice(["reflect", "drop", None, "raise"])
        m = rng.choice([1, 2, 4, 7])
        recs = [[rng.randrange(n) + ob, rng.randrange(n) + ob, 10 + 2 * i, 11 + 2 * i, rng.randint(1, 9)] for i in range(m)]
        if ta == "raise" and rng.random() < 0.6:
            recs = [[min(r[0], r[1]), max(r[0], r[1])] + r[2:] for r in recs]
        opts = {"one_based": ob, "tril": ta, "sort": rng.random() < 0.7, "with_x": rng.random() < 0.7,
                "pos_dtype": rng.choice(["int64", "int32", "uint32"]), "val_dtype": rng.choice(["int", "float"]),
                "fields": rng.choice([None, None, ["b1", "b2"]])}
        for cname, chunks in chunkings(rng, recs):
            cases.append({"fn": "sanitize_pixels", "widths": widths, "opts": dict(opts), "chunks": chunks, "label": "pixels:" + cname})
    return cases


def is_ideal(widths):
    b = widths[0][0]
    return all(all(w == b for w in ws[:-1]) and 1 <= ws[-1] <= b for ws in widths) and any(len(ws) > 1 for ws in widths)


def gen_cli_cases(rng, widths, n_runs):
    blocks = blocks_from_widths(widths)
    nc = len(blocks)
    n = sum(len(w) for w in widths)
    pos = [candidate_positions(blk) for blk in blocks]
    cases = []
    for _ in range(n_runs):
        fn = rng.choice(["cload_pairs", "cload_pairs", "load_bg2", "load_coo", "cload_tabix"])
        ob = rng.randint(0, 1)
        ta = rng.choice(["reflect", "reflect", "drop", None])
        opts = {"one_based": ob, "tril": ta, "ideal_b": widths[0][0] if (is_ideal(widths) and rng.random() < 0.5) else None, "header": rng.random() < 0.5,
                "d8": rng.random() < 0.3, "field": rng.random() < 0.3, "float": rng.random() < 0.3, "comment": rng.random() < 0.3}
        if fn == "cload_tabix":
            opts.update(tril=None, d8=False)
            ta = None
        m = rng.choice([2, 4, 7, 10])
        label = "valid"
        if fn == "load_coo":
            keys = set()
            while len(keys) < min(m, n * n):
                keys.add((rng.randrange(n), rng.randrange(n)))
            keys = sorted(keys)
            rng.shuffle(keys)
            if ta is not None:   # keep pixels unique after reflection, drop lower ones under duplex
                seen, ks = set(), []
                for (a, b_) in keys:
                    u = (min(a, b_), max(a, b_))
                    if u not in seen:
                        seen.add(u)
                        ks.append((a, b_))
                keys = ks
            recs = [[a + ob, b_ + ob, 0, 0, rng.randint(1, 9)] for (a, b_) in keys]
        else:
            recs = []
            for i in range(m):
                c1, c2 = rng.randrange(nc), rng.randrange(nc)
                a1, a2 = rng.choice(pos[c1][0]), rng.choice(pos[c2][0])
                recs.append([c1, a1 + ob, 0, c2, a2 + ob, 0])
            r = rng.random() if fn != "cload_tabix" else 0.3 + 0.7 * rng.random()     # the tabix loader does not validate: in-range input only
            if r < 0.15:
                c1 = rng.randrange(nc)
                recs.append([c1, pos[c1][1] + ob, 0, c1, 0 + ob, 0])          # position == chromosome length (D2)
                label = "edge"
            elif r < 0.25:
                c1 = rng.randrange(nc)
                recs.append([c1, rng.choice([-1, pos[c1][1] + 1]) + ob, 0, c1, 0 + ob, 0])
                label = "out"
            elif r < 0.4:
                recs.append([-1, 5, 0, rng.randrange(nc), 0 + ob, 0])
                label = "unknown"
            rng.shuffle(recs)
            if fn == "cload_tabix":      # upper-triangle ("flipped") records sorted by chrom1, pos1, as the indexed format requires
                recs = [r_ if (r_[0], r_[1]) <= (r_[3], r_[4]) or r_[3] < 0 else r_[3:] + r_[:3] for r_ in recs if r_[0] >= 0 or r_[3] >= 0]
                recs = [r_ if r_[0] >= 0 else r_[3:] + r_[:3] for r_ in recs]
                recs.sort(key=lambda r_: (r_[0], r_[1]))
            if fn == "load_bg2":
                # bg2 rows carry start/end of the bin that contains the anchor; keep one row per pixel (per chunk dupcheck)
                seen, rr = set(), []
                for r_ in recs:
                    if r_[0] < 0 or r_[3] < 0:
                        rr.append(r_)
                        continue
                    k1 = bin_containing(blocks, r_[0], r_[1] - ob)
                    k2 = bin_containing(blocks, r_[3], r_[4] - ob)
                    u = (k1, k2) if ta is None else tuple(sorted((k1 if k1 is not None else -1, k2 if k2 is not None else -1)))
                    if u in seen:
                        continue
                    seen.add(u)
                    rr.append(r_)
                recs = rr
                for r_ in recs:
                    r_[2] = r_[1] + 1
                    r_[5] = r_[4] + 1
        csz = (rng.choice([len(recs), max(1, len(recs) // 2), 3, 1]) or 1) if fn != "cload_tabix" else max(1, len(recs))
        chunks = [recs[i:i + csz] for i in range(0, len(recs), csz)]
        case = {"fn": fn, "widths": widths, "opts": opts, "chunks": chunks, "label": "cli:" + fn + ":" + label}
        if fn == "load_bg2":
            case["values"] = [[rng.randint(1, 9) for _ in ch] for ch in chunks]
        cases.append(case)
    return cases


def gen_unlisted_runs(rng, widths, fns):
    """every record loader on inputs in which records with an unlisted chrom1 and/or chrom2 come in runs of 1, 2, 3 consecutive
    records (same unlisted name repeated, or different ones), at the start, in the middle and at the end of the input / of a
    chromosome, interleaved with listed records.  Expected: the unlisted ones vanish, the rest is binned exactly."""
    blocks = blocks_from_widths(widths)
    nc = len(blocks)
    pos = [candidate_positions(blk) for blk in blocks]
    cases = []
    xid = [5000]

    def valid(ob, c1=None):
        c1 = rng.randrange(nc) if c1 is None else c1
        c2 = c1 if rng.random() < 0.5 else rng.randrange(nc)
        xid[0] += 2
        return [c1, rng.choice(pos[c1][0]) + ob, xid[0], c2, rng.choice(pos[c2][0]) + ob, xid[0] + 1]

    def run_of(ob, length, side, same, anchor=None):
        """`length` consecutive records whose chrom1 / chrom2 / both are unlisted; the listed side (if any) stays on one chromosome
        and one position so that the run stays consecutive in a position-sorted file"""
        c = rng.randrange(nc) if anchor is None else anchor[0]
        p = (rng.choice([pos[c][0][0], pos[c][0][-1], rng.choice(pos[c][0])]) if anchor is None else anchor[1]) + ob
        un = rng.choice([-1, -2, -3])
        out = []
        for i in range(length):
            u = un if same else (-1, -2, -3)[(i + un) % 3]
            q = rng.choice([0, 3, 10 ** 6]) + ob
            xid[0] += 2
            if side == "chrom2":
                out.append([c, p, xid[0], u, q, xid[0] + 1])
            elif side == "chrom1":
                out.append([u, q, xid[0], c, p, xid[0] + 1])
            else:
                out.append([u, q, xid[0], (-1, -2, -3)[(i + 1) % 3], q, xid[0] + 1])
        return out

    for fn in fns:
        ob = rng.randint(0, 1)
        ta = rng.choice(["reflect", "drop", None]) if fn != "cload_tabix" else None
        segs = []
        for si in range(rng.choice([3, 4, 5])):
            length = (1, 2, 3)[(si + xid[0]) % 3]
            side = rng.choice(["chrom2", "chrom2", "chrom1", "both"])
            segs.append(run_of(ob, length, side, same=rng.random() < 0.6))
            segs.append([valid(ob) for _ in range(rng.choice([1, 1, 2, 3]))])
        if rng.random() < 0.7:
            segs.append(run_of(ob, rng.choice([1, 2, 3]), "chrom2", same=True))     # the input ends with a run
        else:
            segs.insert(0, [valid(ob)])                                                # ... or starts with a listed record
        recs = [r for s_ in segs for r in s_]
        if fn == "cload_tabix":
            # the indexed format wants upper-triangle records sorted by (chrom1, pos1); a stable sort keeps each run consecutive,
            # and a listed record with the same chrom1/pos1 before the run makes the run follow a *different listed* chrom2
            recs = [r_ if (r_[0] < 0 or r_[3] < 0 or (r_[0], r_[1]) <= (r_[3], r_[4])) else r_[3:] + r_[:3] for r_ in recs]
            recs = [r_ if r_[0] >= 0 or r_[3] < 0 else r_[3:] + r_[:3] for r_ in recs]            # unlisted side -> chrom2 where possible
            order = {c: i for i, c in enumerate(list(range(nc)) + [-3, -2, -1])}
            recs.sort(key=lambda r_: (order[r_[0]], r_[1]))
        opts = {"one_based": ob, "tril": ta, "ideal_b": widths[0][0] if (is_ideal(widths) and rng.random() < 0.5) else None,
                "header": rng.random() < 0.5, "d8": False}
        if fn == "sanitize_records":
            opts = {"schema": rng.choice(["pairs", "bg2"]), "one_based": ob, "tril": ta, "sort": rng.random() < 0.5, "validate": True,
                    "decode": True, "with_x": True, "chrom_repr": rng.choice(["object", "cat_alpha", "cat_subset", "cat_extra"]), "pos_dtype": "int64"}
            if opts["schema"] == "bg2":
                opts["sort"] = True
            for cname, chunks in chunkings(rng, recs):
                cases.append({"fn": fn, "widths": widths, "opts": dict(opts), "chunks": chunks, "label": "unlisted-runs:" + cname})
            continue
        if fn == "load_bg2":
            seen, rr = set(), []
            for r_ in recs:
                if r_[0] >= 0 and r_[3] >= 0:
                    k1, k2 = bin_containing(blocks, r_[0], r_[1] - ob), bin_containing(blocks, r_[3], r_[4] - ob)
                    u = (k1, k2) if ta is None else tuple(sorted((k1, k2)))
                    if u in seen:
                        continue
                    seen.add(u)
                rr.append(r_)
            recs = rr
            for r_ in recs:
                r_[2], r_[5] = r_[1] + 1, r_[4] + 1
        else:
            for r_ in recs:
                r_[2] = r_[5] = 0
        if fn == "cload_tabix":
            csz = max(1, len(recs))
            opts["nproc"] = 2 if rng.random() < 0.15 else 1
            opts["max_split"] = rng.choice([None, 1, 2])
        else:
            csz = rng.choice([len(recs), 1, 2, 3, 4])
        chunks = [recs[i:i + csz] for i in range(0, len(recs), csz)]
        case = {"fn": fn, "widths": widths, "opts": opts, "chunks": chunks, "label": "cli:" + fn + ":unlisted-runs"}
        if fn == "load_bg2":
            case["values"] = [[rng.randint(1, 9) for _ in ch] for ch in chunks]
        cases.append(case)
    return cases


def big_genome_tables(rng, n):
    """LARGE genomes with FEW bins: cumulative length just below / at / above 2^31 and 2^32, chromosome lengths near 2^31-1,
    variable-size and fixed-size bins (numeric edge: 32-bit narrowing of genome-wide offsets)"""
    M31, M32 = 2 ** 31, 2 ** 32
    out = []

    def split(L, k, fixed):
        if fixed:
            b = -(-L // k)
            ws = [b] * (L // b) + ([L % b] if L % b else [])
            return ws
        cuts = sorted(rng.sample(range(1, min(L, 10 ** 9)), k - 1)) if k > 1 else []
        cuts = sorted({c * (L // min(L, 10 ** 9)) or 1 for c in cuts} - {0, L})
        return [b_ - a_ for a_, b_ in zip([0] + cuts, cuts + [L])]

    targets = [M31 - 1, M31, M31 + 1, M31 + 10 ** 6, M32 - 1, M32, M32 + 1, M32 + 10 ** 9, 3 * M31 - 3]
    for i in range(n):
        total = targets[i % len(targets)]
        fixed = i % 3 == 2
        nc = rng.choice([2, 3, 4]) if total <= 3 * (M31 - 1) else 4
        nc = max(nc, -(-total // (M31 - 1)))
        # chromosome lengths: as many as possible at the int32 maximum, the rest shares what is left
        lens = []
        left = total
        for c in range(nc):
            rest = nc - c - 1
            hi = min(M31 - 1, left - rest * 1000)
            lo = max(1000, left - rest * (M31 - 1))
            L = hi if rng.random() < 0.35 else rng.randint(lo, hi)
            lens.append(L)
            left -= L
        if left:
            lens[-1] += left
        rng.shuffle(lens)
        if fixed:
            b = rng.choice([2 ** 30, 10 ** 9, 2 ** 29, max(lens) // 2 + 1])
            widths = [[b] * (L // b) + ([L % b] if L % b else []) for L in lens]
            if not any(len(w) > 1 for w in widths):
                widths = [[L // 2, L - L // 2] if L > 1 else [L] for L in lens]
        else:
            widths = [split(L, rng.choice([1, 2, 3, 4]) if L > 4 else 1, False) for L in lens]
        assert [sum(w) for w in widths] == lens and all(x > 0 for w in widths for x in w), (widths, lens)
        out.append(widths)
    return out


BINS_DTYPES = ["int32", "cooler", "int64", "uint32", "int32", "cooler"]


def big_genome_cases(rng, widths, thorough):
    """boundary sweep + random record sets + pixels + text loaders on a large genome, the bin table handed over in every coordinate dtype"""
    cases = gen_exhaustive_edges(widths)
    if not thorough:
        cases = cases[rng.randrange(2):: 2]
    cases += gen_record_cases(rng, widths, 20 if thorough else 8, not thorough)
    cases += gen_pixel_cases(rng, widths, 2)
    for i, c in enumerate(cases):
        c["opts"]["bins_dtype"] = BINS_DTYPES[i % len(BINS_DTYPES)]
        c["label"] = "big:" + c["label"]
    cli = [c for c in gen_cli_cases(rng, widths, 6 if thorough else 3) if c["fn"] != "cload_tabix"]      # .tbi indexes stop at 2^29
    cli += [c for c in gen_unlisted_runs(rng, widths, ["cload_pairs", "load_bg2"])]
    for c in cli:
        c["label"] = c["label"].replace("cli:", "cli:big:")
    return cases + cli


def split_tables(rng):
    """chromosomes with 12-40 bins, so that `cload tabix --max-split N` really cuts each of them into N >= 3 work chunks"""
    b = rng.choice([5, 10, 100])
    fixed = [[b] * rng.randint(12, 40) + ([rng.randint(1, b)] if rng.random() < 0.5 else []) for _ in range(rng.choice([1, 2]))]
    var = [[rng.randint(1, 30) for _ in range(rng.randint(12, 40))] for _ in range(rng.choice([1, 2]))]
    return [fixed, var]


def gen_tabix_split(rng, widths, thorough):
    """ONE sparse record set (a record anchored in every bin, i.e. on every possible chunk boundary bin, both anchor orders before
    flipping, some unlisted partners) loaded by `cload tabix` under --max-split 1..8 (and nproc 2): every retained record
    must be counted exactly once whatever the split"""
    blocks = blocks_from_widths(widths)
    nc = len(blocks)
    ob = rng.randint(0, 1)
    recs = []
    for c, blk in enumerate(blocks):
        L = blk[-1][2]
        for (_, bs, be) in blk:
            if rng.random() < 0.75:
                p1 = rng.choice([bs, be - 1, rng.randint(bs, be - 1)])
                c2 = rng.choice([c, c, rng.randrange(nc), -1 if rng.random() < 0.2 else c])
                p2 = rng.randint(0, blocks[c2][-1][2] - 1) if c2 >= 0 else 7
                recs.append([c, p1 + ob, 0, c2, p2 + ob, 0])
            if rng.random() < 0.15:
                recs.append([c, bs + ob, 0, c, bs + ob, 0])                       # a second record in the same bin
    recs = [r_ if (r_[3] < 0 or (r_[0], r_[1]) <= (r_[3], r_[4])) else r_[3:] + r_[:3] for r_ in recs]      # flipped = upper triangle
    recs.sort(key=lambda r_: (r_[0], r_[1]))
    cases = []
    for ms in range(1, 9):
        for nproc in ((1, 2) if (ms in (3, 6) and thorough) or ms == 4 else (1,)):
            opts = {"one_based": ob, "tril": None, "ideal_b": widths[0][0] if is_ideal(widths) and ms % 2 else None, "header": False, "d8": False,
                    "max_split": ms, "nproc": nproc}
            cases.append({"fn": "cload_tabix", "widths": widths, "opts": opts, "chunks": [[list(r_) for r_ in recs]],
                          "label": f"cli:cload_tabix:split{ms}"})
    # the work-chunk selector itself: first / middle / last thirds of every chromosome, single bins, edges +-1
    regions = []
    for c, blk in enumerate(blocks):
        n, L = len(blk), blk[-1][2]
        t1, t2 = blk[n // 3][1], blk[2 * n // 3][1]
        regions += [[c, 0, t1], [c, t1, t2], [c, t2, L], [c, t1, L], [c, 0, t2], [c, t1 + 1, t2 - 1], [c, max(0, t1 - 1), min(L, t2 + 1)], [c, t1, t1], [c, 0, L]]
        for step in (2, 3, 5, 8):
            starts = [b_[1] for b_ in blk][::step] + [L]
            regions += [[c, a_, z_] for a_, z_ in zip(starts[:-1], starts[1:])]                 # the chunks balanced_partition would cut
        regions += [[c, b_[1], b_[2]] for b_ in blk[:: max(1, n // 8)]]
    cases.append({"fn": "gs_fetch", "widths": widths, "regions": regions, "opts": {"bins_dtype": rng.choice(["int64", "int32", "cooler"])},
                  "label": "gs_fetch:thirds"})
    return cases


def gen_invalid_grid(rng, widths):
    """option x invalid input, pre-binned path: {row id out of range only, column id only, both, negative row, negative column}
    x {symmetric-upper storage, square storage (-N), symmetric without the triangle check (API)} x {create_cooler, `cooler load -f coo`,
    `cooler load -f bg2` (position beyond the chromosome / negative)}.  The load with the bad record must be refused and leave no
    cooler; the same input without it must load and count every record once."""
    blocks = blocks_from_widths(widths)
    n = sum(len(w) for w in widths)
    nc = len(blocks)
    keys = sorted({(min(a, b_), max(a, b_)) for a, b_ in [(rng.randrange(n), rng.randrange(n)) for _ in range(6)]})
    base = [[a, b_, 0, 0, rng.randint(1, 9)] for (a, b_) in keys]
    far = n + rng.choice([0, 0, 1, 5])
    inr = rng.randrange(n)
    bads = {"row-oob": [far, inr, 0, 0, 3], "col-oob": [inr, far, 0, 0, 3], "both-oob": [n, far, 0, 0, 3],
            "row-neg": [-1, inr, 0, 0, 3], "col-neg": [inr, -1 - rng.randrange(2), 0, 0, 3]}
    cases = []
    for kind in [None] + list(bads):
        for (sym, triu) in ((1, 1), (0, 1), (1, 0), (0, 0)):
            recs = [list(r) for r in base] + ([list(bads[kind])] if kind else [])
            if kind and rng.random() < 0.5:
                recs.insert(rng.randrange(len(recs)), recs.pop())              # the bad record anywhere in the input
            cases.append({"fn": "api_coo", "widths": widths, "opts": {"symmetric": sym, "triucheck": triu, "grid": True},
                          "chunks": [recs], "label": f"grid:api_coo:{kind or 'valid'}:{'sym' if sym else 'square'}{'' if triu else ':notriu'}"})
        for ta in ("reflect", None):          # CLI: symmetric (default) and square (-N / --no-symmetric-upper)
            recs = [list(r) for r in base] + ([list(bads[kind])] if kind else [])
            csz = rng.choice([len(recs), 2, 3])
            cases.append({"fn": "load_coo", "widths": widths, "opts": {"one_based": 0, "tril": ta, "ideal_b": None, "header": False, "grid": True},
                          "chunks": [recs[i:i + csz] for i in range(0, len(recs), csz)],
                          "label": f"grid:load_coo:{kind or 'valid'}:{'sym' if ta else 'square'}"})
    # bg2: the anchor position decides the bin; out of range = beyond the chromosome end / negative (position == length is finding D2, not used here)
    pos = [candidate_positions(blk) for blk in blocks]
    seen, bgbase = set(), []
    for _ in range(8):
        c1, c2 = rng.randrange(nc), rng.randrange(nc)
        a1, a2 = rng.choice(pos[c1][0]), rng.choice(pos[c2][0])
        u = tuple(sorted((bin_containing(blocks, c1, a1), bin_containing(blocks, c2, a2))))
        if u not in seen:
            seen.add(u)
            bgbase.append([c1, a1, a1 + 1, c2, a2, a2 + 1])
    cb = rng.randrange(nc)
    Lb = pos[cb][1]
    for kind, badrec in [(None, None), ("row-beyond", [cb, Lb + 5, Lb + 6, 0, 0, 1]), ("col-beyond", [0, 0, 1, cb, Lb + 5, Lb + 6]),
                         ("row-neg", [cb, -3, -2, 0, 0, 1]), ("col-neg", [0, 0, 1, cb, -3, -2])]:
        for ta in ("reflect", None):
            recs = [list(r) for r in bgbase] + ([badrec] if badrec else [])
            csz = rng.choice([len(recs), 3])
            chunks = [recs[i:i + csz] for i in range(0, len(recs), csz)]
            cases.append({"fn": "load_bg2", "widths": widths, "opts": {"one_based": 0, "tril": ta, "ideal_b": None, "header": False, "grid": True},
                          "chunks": chunks, "values": [[rng.randint(1, 9) for _ in ch] for ch in chunks],
                          "label": f"grid:load_bg2:{kind or 'valid'}:{'sym' if ta else 'square'}"})
    return cases


LOADERS = ["cload_tabix", "cload_pairs", "load_bg2", "sanitize_records"]      # `cload pairix` needs pypairix, which is not installed

CORPUS = [
    [[10, 10, 15]], [[7, 23]], [[10, 10], [35]], [[5, 5, 5], [5, 9]],        # D1 (repaired): longer last bin
    [[10, 10], [10, 10, 5], [7]], [[10, 10, 10], [10, 10, 3], [10]], [[4, 4, 1], [4], [4, 4]], [[3], [3], [2]],
    [[1], [1, 1], [1]], [[3, 3, 2], [4, 4], [5]], [[6, 6, 6, 6], [2, 9, 1]], [[5, 5], [5, 5, 5], [5]], [[8]],
]
# regression corpus: the failing input of the known finding D2 (zero-based position == chromosome length), always run
D2_CASES = [
    {"fn": "sanitize_records", "widths": [[10, 10], [10, 10, 5], [7]],
     "opts": {"schema": "pairs", "one_based": 0, "tril": "reflect", "sort": False, "validate": True, "decode": True, "with_x": False},
     "chunks": [[[0, 20, 0, 0, 3, 0]]], "label": "D2:fixed"},
    {"fn": "sanitize_records", "widths": [[10, 10], [10, 12, 3], [7]],
     "opts": {"schema": "pairs", "one_based": 0, "tril": "reflect", "sort": False, "validate": True, "decode": True, "with_x": False},
     "chunks": [[[1, 25, 0, 1, 2, 0]]], "label": "D2:variable"},
    {"fn": "cload_pairs", "widths": [[10, 10], [10, 10, 5], [10]],
     "opts": {"one_based": 0, "tril": "reflect", "ideal_b": 10, "header": True},
     "chunks": [[[2, 10, 0, 2, 3, 0], [0, 1, 0, 1, 1, 0]]], "label": "D2:cload-last-chrom"},
]

# fixed CLI corpus: rejection, the D2 edge in the middle of the genome and at its end, one-based input ending at L
CLI_CORPUS = [
    {"fn": "cload_pairs", "widths": [[10, 10], [10, 10, 5], [7]], "opts": {"one_based": 0, "tril": "reflect", "ideal_b": None, "header": False},
     "chunks": [[[0, 3, 0, 1, 4, 0], [1, 26, 0, 0, 1, 0]], [[2, 6, 0, 2, 0, 0]]], "label": "cli:cload_pairs:out"},
    {"fn": "cload_pairs", "widths": [[10, 10], [10, 10, 5], [7]], "opts": {"one_based": 1, "tril": "reflect", "ideal_b": None, "header": True},
     "chunks": [[[1, 25, 0, 0, 20, 0], [2, 7, 0, 2, 1, 0]], [[0, 1, 0, 0, 1, 0], [2, 7, 0, 2, 1, 0]]], "label": "cli:cload_pairs:valid"},
    {"fn": "cload_pairs", "widths": [[10, 10], [10, 10, 5], [7]], "opts": {"one_based": 0, "tril": "reflect", "ideal_b": None, "header": True},
     "chunks": [[[0, 20, 0, 0, 3, 0], [2, 6, 0, 0, 0, 0]]], "label": "cli:cload_pairs:edge"},
    {"fn": "load_bg2", "widths": [[10, 10], [10, 10, 5], [10]], "opts": {"one_based": 0, "tril": "reflect", "ideal_b": 10, "header": False},
     "chunks": [[[0, 20, 30, 0, 0, 10], [1, 10, 20, 2, 0, 10]]], "values": [[3, 4]], "label": "cli:load_bg2:edge"},
    {"fn": "load_bg2", "widths": [[10, 10], [10, 10, 5], [10]], "opts": {"one_based": 0, "tril": "reflect", "ideal_b": 10, "header": False},
     "chunks": [[[2, 10, 20, 0, 0, 10]], [[1, 10, 20, 2, 0, 10]]], "values": [[3], [4]], "label": "cli:load_bg2:edge"},
    {"fn": "load_bg2", "widths": [[3, 3, 2], [4, 4], [5]], "opts": {"one_based": 1, "tril": "drop", "ideal_b": None, "header": False},
     "chunks": [[[0, 1, 3, 1, 5, 8], [1, 5, 8, 0, 1, 3], [2, 5, 5, 2, 1, 5]], [[2, 6, 6, 0, 1, 3]]], "values": [[3, 4, 5], [6]], "label": "cli:load_bg2:out"},
    {"fn": "load_coo", "widths": [[3, 3, 2], [4, 4], [5]], "opts": {"one_based": 1, "tril": "reflect", "ideal_b": None, "header": False},
     "chunks": [[[1, 1, 0, 0, 5], [6, 2, 0, 0, 7]], [[3, 6, 0, 0, 2], [2, 6, 0, 0, 1]]], "label": "cli:load_coo:valid"},
    {"fn": "cload_pairs", "widths": [[10, 10], [10, 10, 5], [7]], "opts": {"one_based": 1, "tril": "reflect", "ideal_b": None, "header": False, "d8": True},
     "chunks": [[[1, 25, 0, 0, 20, 0], [2, 7, 0, 2, 1, 0], [0, 11, 0, 1, 3, 0]]], "label": "cli:cload_pairs:D8"},
    {"fn": "load_coo", "widths": [[3, 3, 2], [4, 4], [5]], "opts": {"one_based": 0, "tril": "reflect", "ideal_b": None, "header": False, "d8": True},
     "chunks": [[[1, 0, 0, 0, 5], [2, 3, 0, 0, 7], [5, 5, 0, 0, 1]]], "label": "cli:load_coo:D8"},
    {"fn": "load_bg2", "widths": [[3, 3, 2], [4, 4], [5]], "opts": {"one_based": 0, "tril": "reflect", "ideal_b": None, "header": False, "d8": True},
     "chunks": [[[0, 0, 3, 1, 4, 8], [2, 0, 5, 0, 3, 6]]], "values": [[3, 4]], "label": "cli:load_bg2:D8"},
    {"fn": "cload_pairs", "widths": [[5], [4, 4, 4], [6]], "opts": {"one_based": 1, "tril": "reflect", "ideal_b": None, "header": True},
     "chunks": [[[-1, 3, 0, 1, 4, 0], [0, 2, 0, -1, 7, 0]]], "label": "cli:cload_pairs:alldropped"},
    {"fn": "cload_pairs", "widths": [[5], [4, 4, 4], [6]], "opts": {"one_based": 1, "tril": "reflect", "ideal_b": None, "header": False},
     "chunks": [], "label": "cli:cload_pairs:emptyfile"},
    {"fn": "cload_pairs", "widths": [[5], [4, 4, 4], [6]], "opts": {"one_based": 1, "tril": "reflect", "ideal_b": None, "header": False, "field": True},
     "chunks": [[[2, 6, 0, 0, 5, 0], [0, 1, 0, 0, 5, 0], [2, 1, 0, 2, 6, 0]], [[0, 5, 0, 2, 6, 0], [0, 3, 0, 0, 1, 0]]], "label": "cli:cload_pairs:field"},
    {"fn": "cload_tabix", "widths": [[10, 10], [10, 12, 3], [7]], "opts": {"one_based": 1, "tril": None, "ideal_b": None, "header": False},
     "chunks": [[[0, 3, 0, 0, 15, 0], [0, 4, 0, 1, 1, 0], [0, 12, 0, 1, 25, 0], [0, 12, 0, -1, 9, 0], [1, 5, 0, 1, 5, 0], [1, 11, 0, 2, 7, 0], [1, 23, 0, 2, 1, 0]]],
     "label": "cli:cload_tabix:valid"},
    {"fn": "cload_tabix", "widths": [[10, 10], [10, 10, 5], [7]], "opts": {"one_based": 0, "tril": None, "ideal_b": 10, "header": False},
     "chunks": [[[0, 0, 0, 0, 19, 0], [0, 9, 0, 1, 0, 0], [0, 10, 0, 2, 6, 0], [1, 24, 0, 1, 24, 0], [1, 24, 0, 2, 0, 0]]], "label": "cli:cload_tabix:valid"},
    {"fn": "load_coo", "widths": [[5], [4, 4, 4], [6]], "opts": {"one_based": 0, "tril": "reflect", "ideal_b": None, "header": False, "float": True, "comment": True},
     "chunks": [[[4, 0, 0, 0, 5], [1, 1, 0, 0, 7]], [[0, 3, 0, 0, 1]]], "label": "cli:load_coo:float"},
    {"fn": "load_coo", "widths": [[3, 3, 2], [4, 4], [5]], "opts": {"one_based": 0, "tril": None, "ideal_b": None, "header": False},
     "chunks": [[[1, 0, 0, 0, 5], [0, 1, 0, 0, 7], [5, 5, 0, 0, 1]]], "label": "cli:load_coo:valid"},
]

# regression corpus D27 (repaired): decode_chroms=False (integer chrom id columns) + reflect + a lower-triangle record
# raised "ValueError: assignment destination is read-only" under pandas copy-on-write
D27_CASES = [
    {"fn": "sanitize_records", "widths": [[10, 10], [35]],
     "opts": {"schema": "pairs", "one_based": 1, "tril": "reflect", "sort": True, "validate": True, "decode": False, "with_x": True},
     "chunks": [[[1, 35, 104, 1, 2, 105]]], "label": "D27:single"},
    {"fn": "sanitize_records", "widths": [[10, 10], [35]],
     "opts": {"schema": "pairs", "one_based": 1, "tril": "reflect", "sort": True, "validate": True, "decode": False, "with_x": True},
     "chunks": [[[1, 1, 100, 1, 1, 101], [1, 35, 104, 1, 2, 105], [0, 10, 102, 0, 1, 103], [0, 12, 106, 0, 1, 107]]], "label": "D27:chunk"},
    {"fn": "sanitize_records", "widths": [[3, 3, 2], [4, 4], [5]],
     "opts": {"schema": "bg2", "one_based": 0, "tril": "reflect", "sort": True, "validate": True, "decode": False, "with_x": True},
     "chunks": [[[2, 4, 5, 0, 7, 8], [1, 0, 4, -1, 3, 4], [1, 7, 8, 1, 0, 4]]], "label": "D27:bg2"},
    {"fn": "sanitize_records", "widths": [[3, 3, 2], [4, 4], [5]],
     "opts": {"schema": "pairs", "one_based": 0, "tril": "drop", "sort": False, "validate": True, "decode": False, "with_x": False},
     "chunks": [[[2, 4, 0, 0, 7, 0], [0, 1, 0, 1, 3, 0]]], "label": "D27:drop"},
]

# representation corpus: categorical chromosome columns whose category order differs from the bin-table order
# (names_for gives chrB, chrA, chr10: alphabetical order is chr10, chrA, chrB), all contigs present, no unknown name
# audit corpus: empty chunk, all-dropped chunk, a chromosome without records, single-bin chromosomes first and last,
# the explicit-options layouts, custom pixel field names, constructor refusals
AUDIT_CASES = [
    {"fn": "sanitize_records", "widths": [[5], [4, 4, 4], [6]],
     "opts": {"schema": "pairs", "one_based": 0, "tril": "reflect", "sort": True, "validate": True, "decode": True, "with_x": True, "layout": lay_},
     "chunks": ch_, "label": "audit:" + lab_}
    for lay_, lab_, ch_ in [
        ("std", "empty", [[]]),
        ("coord", "empty", [[]]),
        ("std", "alldropped", [[[-1, 3, 1, 0, 2, 2], [2, 1, 3, -1, -7, 4]]]),
        ("std", "no-records-on-middle-chromosome", [[[2, 5, 1, 0, 4, 2], [0, 0, 3, 0, 4, 4], [2, 0, 5, 2, 5, 6]]]),
        ("coord", "single-bin-first-last", [[[2, 5, 1, 0, 4, 2], [1, 11, 3, 0, 0, 4], [2, 0, 5, 1, 4, 6]]]),
    ]
] + [
    {"fn": "sanitize_records", "widths": [[5], [4, 4, 4], [6]],
     "opts": {"schema": "pairs", "one_based": 1, "tril": ta_, "sort": False, "validate": True, "decode": True, "with_x": True, "layout": "suffix_ab"},
     "chunks": [[[2, 6, 1, 0, 5, 2], [1, 12, 3, 0, 1, 4], [0, 1, 5, 1, 5, 6]]], "label": "audit:suffix_ab"}
    for ta_ in (None, "drop")
] + [
    {"fn": "sanitize_pixels", "widths": [[5], [4, 4, 4], [6]],
     "opts": {"one_based": 1, "tril": "reflect", "sort": True, "with_x": True, "fields": ["b1", "b2"], "pos_dtype": "int32", "val_dtype": "float"},
     "chunks": [[[5, 1, 10, 11, 2], [1, 1, 12, 13, 3], [2, 5, 14, 15, 4]], []], "label": "audit:fields"},
    {"fn": "ctor", "widths": [[5], [4, 4, 4], [6]], "kwargs": {"schema": "no-such-schema"}, "expect": "ValueError"},
]

REPR_CASES = [
    {"fn": "sanitize_records", "widths": [[10, 10], [10, 10, 5], [7]],
     "opts": {"schema": "pairs", "one_based": 0, "tril": ta_, "sort": False, "validate": True, "decode": True, "with_x": True,
              "chrom_repr": rp_, "pos_dtype": dt_},
     "chunks": [[[0, 3, 1, 1, 24, 2], [2, 6, 3, 0, 19, 4], [1, 0, 5, 2, 0, 6], [1, 12, 7, 1, 3, 8]]], "label": "repr:" + rp_}
    for rp_, ta_, dt_ in [("cat_alpha", "reflect", "int64"), ("cat_rev", "drop", "int32"), ("cat_bin", "reflect", "uint32"),
                          ("cat_extra", None, "int64"), ("cat_subset", "reflect", "int32"), ("cat_alpha", None, "uint32")]
]


# ------------------------------------------------------------------ judging one case
def agg_x_of(rows):
    acc = {}
    for r in rows:
        c, s_ = acc.get((r[0], r[1]), (0, 0))
        acc[(r[0], r[1])] = (c + 1, s_ + r[4])
    return [[a, b_, c, s_] for (a, b_), (c, s_) in sorted(acc.items())]


def judge_gsfetch(ctx, case, impl, model):
    blocks = blocks_from_widths(case["widths"])
    fl = [b for blk in blocks for b in blk]
    where = {tuple(b): k for k, b in enumerate(fl)}
    rec = {k: case[k] for k in ("fn", "widths", "regions", "opts")}
    ctx.case(rec, nontrivial=True, kind=case.get("label", "gs_fetch"))
    if isinstance(impl, str):
        ctx.compare("gs_fetch", rec, impl, "a result")
        ctx.fail(rec, {"implementation": impl}, None)
        return
    for (c, s, e), im, mo in zip(case["regions"], impl, model if model is not None else [None] * len(impl)):
        one = dict(rec, regions=[[c, s, e]])
        if model is not None:
            mo = unopt(mo)
            ctx.compare("gs_fetch", one, im, "ValueError" if mo is None else [where[tuple(b)] for b in mo])
        L = blocks[c][-1][2]
        if not (0 <= s <= e <= L):
            continue
        if s < e:
            want = [k for k, (cc, bs, be) in enumerate(fl) if cc == c and bs < e and be > s]
            ok = im == want
        else:
            ok = isinstance(im, list) and len(im) <= 1 and all(fl[k][0] == c and fl[k][1] <= s <= fl[k][2] for k in im)
        if not ok:
            ctx.fail(one, {"expected_bin_ids": want if s < e else "at most the bin containing the position", "got": im}, None)


def judge_api_coo(ctx, case, impl, model):
    nb = sum(len(w) for w in case["widths"])
    o = case["opts"]
    rec = {k: case[k] for k in ("fn", "widths", "opts", "chunks")}
    recs = [r for ch in case["chunks"] for r in ch]
    ctx.case(rec, nontrivial=True, kind=case.get("label", "api_coo"))
    if model is not None or True:
        mo = unopt(model) if model is not None else "skip"
        if mo != "skip":
            ctx.compare("api_coo", rec, impl, "refused" if mo is None else [list(p) for p in mo])
    bad = any(not (0 <= r[0] < nb and 0 <= r[1] < nb) for r in recs)
    lower = any(r[0] > r[1] for r in recs)
    if bad:          # a bin id outside the table: the load must be refused and leave no cooler, whatever the storage mode / checks
        if impl != "refused":
            ctx.fail(rec, {"expected": "refusal (no cooler written)", "got": impl if isinstance(impl, str) else impl[:10]}, None)
    elif lower and o["symmetric"] and o["triucheck"]:
        if not (isinstance(impl, str) and impl.startswith("refused")):
            ctx.fail(rec, {"expected": "refusal (lower-triangle record for symmetric-upper storage)", "got": impl[:10]}, None)
    else:
        cnt = Counter()
        for r in recs:
            cnt[(r[0], r[1])] += r[4]
        want = [[a, b_, v] for (a, b_), v in sorted(cnt.items())]
        if impl != want:
            ctx.fail(rec, {"expected": want[:10], "got": impl if isinstance(impl, str) else impl[:10]}, None)


def judge(ctx, case, impl, model):
    if case["fn"] == "api_coo":
        return judge_api_coo(ctx, case, impl, model)
    if case["fn"] == "gs_fetch":
        return judge_gsfetch(ctx, case, impl, model)
    if case["fn"] == "ctor":
        rec = {k: case[k] for k in ("fn", "widths", "kwargs", "expect")}
        ctx.case(rec, nontrivial=False, kind="ctor")
        if impl != case["expect"]:
            ctx.fail(rec, {"expected": case["expect"], "got": impl}, None)
        return
    blocks = blocks_from_widths(case["widths"])
    o = case["opts"]
    fn = case["fn"]
    ob, ta = int(o["one_based"]), o["tril"]
    nb = sum(len(w) for w in case["widths"])
    rec = {k: case[k] for k in ("fn", "widths", "opts", "chunks", "history", "hidx", "cidx") if k in case}
    if "values" in case:
        rec["values"] = case["values"]
    if isinstance(impl, str) and not impl.startswith("exit:"):       # crash / timeout of the whole case
        ctx.case(rec, kind=fn + ":" + impl.split(":")[0])
        ctx.compare(fn, rec, impl, "a result")
        ctx.fail(rec, {"implementation": impl}, None)
        return
    if fn == "sanitize_records":
        retained = 0
        for ch, im, mo in zip(case["chunks"], impl, model):
            mo = unopt(mo)
            # ---- correspondence
            if mo is None:
                exp = "BadInputError"
            else:
                mrows, magg, mcollect = mo
                rows = [flat_out(x) for x in mrows]
                if not o["with_x"]:
                    rows = [r[:4] + [0] + r[5:7] + [0] for r in rows]
                if o["sort"]:
                    rows = sorted(rows, key=lambda r: (r[0], r[1]))     # stable, like DataFrame.sort_values
                exp = {"rows": rows, "agg": [list(p) for p in magg], "agg_unsorted": [list(p) for p in magg],
                       "agg_x": agg_x_of(rows) if o["with_x"] else []}
                mc = unopt(mcollect)
                if mc is None or [flat_out(x) for x in mc] != [flat_out(x) for x in mrows]:
                    ctx.disagree("model: phased sanitize_records vs record-by-record collect", rec, "phased", "collect")
            ctx.compare("sanitize_records", dict(rec, chunk=ch), im, exp)
            # ---- property oracle (only where the property speaks: validated input)
            if not o["validate"]:
                continue
            want = oracle_records(blocks, ob, ta, [r if o["with_x"] else r[:2] + [0] + r[3:5] + [0] for r in ch])
            sig = D2 if d2_input(blocks, ob, ch) else None
            if want == "error":
                if im != "BadInputError":
                    ctx.fail(dict(rec, chunk=ch), {"expected": "rejection (BadInputError)", "got": im if isinstance(im, str) else im["rows"][:6]}, sig)
            elif isinstance(im, str):
                ctx.fail(dict(rec, chunk=ch), {"expected_rows": want[:6], "got": im}, sig)
            else:
                retained += len(want)
                okrows = sorted(im["rows"]) == sorted(want)
                cnt = Counter((r[0], r[1]) for r in want)
                okagg = im["agg"] == [[a, b_, n] for (a, b_), n in sorted(cnt.items())] and sum(x[2] for x in im["agg"]) == len(want) \
                    and im["agg_unsorted"] == im["agg"] and im["agg_x"] == (agg_x_of(want) if o["with_x"] else [])
                oksort = (not o["sort"]) or all((im["rows"][i][0], im["rows"][i][1]) <= (im["rows"][i + 1][0], im["rows"][i + 1][1]) for i in range(len(im["rows"]) - 1))
                if not (okrows and okagg and oksort):
                    ctx.fail(dict(rec, chunk=ch), {"expected_rows": sorted(want)[:8], "got_rows": sorted(im["rows"])[:8], "got_agg": im["agg"][:8]}, sig)
        ctx.case(rec, nontrivial=retained > 0 and nb >= 2, kind="sanitize_records:" + case["label"])
        return
    if fn == "sanitize_pixels":
        for ch, im, mo in zip(case["chunks"], impl, model):
            mo = unopt(mo)
            if mo is None:
                exp = "BadInputError"
            else:
                rows = [list(r) for r in mo[0]]
                if not o["with_x"]:
                    rows = [r[:2] + [0, 0] + r[4:] for r in rows]
                if o["sort"]:
                    rows = sorted(rows, key=lambda r: (r[0], r[1]))
                exp = {"rows": rows, "agg": [list(p) for p in mo[1]]}
            ctx.compare("sanitize_pixels", dict(rec, chunk=ch), im, exp)
            want = oracle_pixels(ob, ta, [r if o["with_x"] else r[:2] + [0, 0] + r[4:] for r in ch])
            if want == "error":
                if im != "BadInputError":
                    ctx.fail(dict(rec, chunk=ch), {"expected": "rejection", "got": im}, None)
            elif isinstance(im, str) or isinstance(im["rows"], str) or sorted(im["rows"]) != sorted(want):
                ctx.fail(dict(rec, chunk=ch), {"expected": sorted(want)[:8], "got": im if isinstance(im, str) else im["rows"][:8]}, None)
            else:
                cnt = Counter()
                for r in want:
                    cnt[(r[0], r[1])] += r[4]
                if im["agg"] != [[a, b_, v] for (a, b_), v in sorted(cnt.items())]:
                    ctx.fail(dict(rec, chunk=ch), {"expected_sums": sorted(cnt.items())[:8], "got_agg": im["agg"][:8]}, None)
        ctx.case(rec, nontrivial=nb >= 2, kind="sanitize_pixels:" + case["label"])
        return
    # ---- CLI runs
    mo = unopt(model)
    exp = "exit:1" if mo is None else [list(p) for p in mo]
    impl_vals = None
    if isinstance(impl, list) and impl and len(impl[0]) == 4:       # --field val=6: an extra summed value column
        impl_vals = [[r[0], r[1], r[3]] for r in impl]
        impl = [r[:3] for r in impl]
    ctx.compare(fn, rec, impl, exp)
    allrecs = [r for ch in case["chunks"] for r in ch]
    if fn == "load_coo":
        want = oracle_pixels(ob, ta, allrecs)
        total = None
        if want != "error":
            cnt = Counter()
            for r in want:
                cnt[(r[0], r[1])] += r[4]
            if any(not (0 <= a < nb and 0 <= b_ < nb) for (a, b_) in cnt):
                want = "error"
            else:
                total = [[a, b_, v] for (a, b_), v in sorted(cnt.items())]
        sig = None
    else:
        vals = [v for vs in case.get("values", []) for v in vs] or [1] * len(allrecs)
        tagged = [r[:2] + [i] + r[3:5] + [i] for i, r in enumerate(allrecs)]      # payload = record index, to find its value again
        want = oracle_records(blocks, ob, ta, tagged)
        total = None
        if want != "error":
            cnt = Counter()
            for r in want:
                cnt[(r[0], r[1])] += vals[r[4]]
            total = [[a, b_, v] for (a, b_), v in sorted(cnt.items())]
        sig = D2 if any(d2_input(blocks, ob, ch) for ch in case["chunks"]) else None
    if want == "error" and o.get("grid") and isinstance(impl, str) and impl.endswith("cooler-left-behind"):
        ctx.fail(rec, {"expected": "the refused load leaves no cooler", "got": impl}, sig)
    elif want == "error":
        if not (isinstance(impl, str) and impl.startswith("exit")):
            ctx.fail(rec, {"expected": "the command must fail (a record lies outside its chromosome)", "got": impl[:8]}, sig)
    elif isinstance(impl, str) or impl != total:
        ctx.fail(rec, {"expected": total[:10], "got": impl if isinstance(impl, str) else impl[:10]}, sig)
    elif o.get("field") and fn == "cload_pairs" and total:
        vs = Counter()
        for r in want:
            vs[(r[0], r[1])] += r[4] % 5 + 1
        if impl_vals != [[a, b_, v] for (a, b_), v in sorted(vs.items())]:
            ctx.fail(rec, {"expected_val_sums": sorted(vs.items())[:10], "got": impl_vals}, sig)
    ctx.case(rec, nontrivial=want != "error" and nb >= 2, kind=case["label"])


# ------------------------------------------------------------------ run
def run(ctx):
    import multiprocessing as mp
    thorough = ctx.tier == "thorough"
    rng = ctx.rng
    tables = [(w, "corpus") for w in CORPUS]
    for _ in range(150 if thorough else 30):
        tables.append((random_blocks(rng), "random"))
    per_table = {}
    for widths, label in tables:
        cases = []
        cases += gen_exhaustive_edges(widths) if (label == "corpus" or thorough or rng.random() < 0.3) else []
        cases += gen_record_cases(rng, widths, (60 if label == "corpus" else 25) if thorough else (34 if label == "corpus" else 12), not thorough)
        cases += gen_pixel_cases(rng, widths, 8 if thorough else 3)
        cases += gen_cli_cases(rng, widths, (8 if thorough else 4) if label == "corpus" else (2 if thorough else 1))
        if label == "corpus" or thorough:
            cases += gen_unlisted_runs(rng, widths, LOADERS if thorough else ["cload_tabix", LOADERS[1 + len(per_table) % 3], "cload_tabix"])
        elif rng.random() < 0.5:
            cases += gen_unlisted_runs(rng, widths, [rng.choice(LOADERS)])
        per_table.setdefault(canon_w(widths), [widths, []])[1].extend(cases)
    for widths in ([[10, 10], [10, 10, 5], [7]], [[3, 3, 2], [4, 4], [5]]) + (tuple(CORPUS[:6]) if thorough else ()):
        grid = gen_invalid_grid(rng, list(widths))
        for part, sel in (("#grid-coo", lambda c: c["fn"] != "load_bg2"), ("#grid-bg2", lambda c: c["fn"] == "load_bg2")):
            per_table.setdefault(canon_w(widths) + part, [list(widths), []])[1].extend([c for c in grid if sel(c)])     # own worker jobs
    for rep in range(3 if thorough else 1):
        for widths in split_tables(rng):
            per_table.setdefault(canon_w(widths), [widths, []])[1].extend(gen_tabix_split(rng, widths, thorough))
    for widths in big_genome_tables(rng, 27 if thorough else 9):
        per_table.setdefault(canon_w(widths), [widths, []])[1].extend(big_genome_cases(rng, widths, thorough))
    for case in D2_CASES + D27_CASES + REPR_CASES + AUDIT_CASES + CLI_CORPUS:
        per_table.setdefault(canon_w(case["widths"]), [case["widths"], []])[1].append(case)
    plan = list(per_table.values())
    n_plain = len(plan)

    # histories: state carried between ingestions in one process (same chromosomes and bin count, different bin boundaries)
    hists = []
    for rep in range(3 if thorough else 1):
        fam = family_same_layout(rng)
        for order in ("alternate", "blocks", "reversed"):
            hists.append({"family": fam, "order": order, "hseed": rng.randrange(1 << 30)})
    hjobs = [(str(ctx.tmp), hk, hist) for hk, hist in enumerate(hists)]
    for hist in hists:
        for widths, cases in zip(hist["family"], history_cases(hist)):
            plan.append([widths, cases])

    exprs = []
    for widths, cases in plan:
        bl = coq_blocks(blocks_from_widths(widths))
        exprs.append(f"valid_blocks_b {bl}")
        for c in cases:
            exprs.append(f"(let blocks := {bl} in {model_expr(c)})")
    wjobs = [(str(ctx.tmp), k, widths, cases) for k, (widths, cases) in enumerate(plan[:n_plain])]
    pool = mp.get_context("fork").Pool(4)
    try:
        async_h = pool.map_async(history_worker, hjobs, chunksize=1)
        async_res = pool.map_async(table_worker, wjobs, chunksize=1)
        model = C.coq_eval("From Cooler Require Import Model.Ingest.", exprs, tmpdir=ctx.tmp / "ingest", shard=150, jobs=3)
        impl = async_res.get(timeout=3000)
        for hist, res in zip(hists, async_h.get(timeout=3000)):
            impl.extend(["timeout"] * len(hist["family"]) if res == "timeout" else res)
    finally:
        pool.terminate()

    counts = Counter()
    pos = 0
    for (widths, cases), im in zip(plan, impl):
        if model[pos] is not True:
            ctx.disagree("generator produced a table the model calls invalid", {"widths": widths}, True, model[pos])
        ms = model[pos + 1: pos + 1 + len(cases)]
        pos += 1 + len(cases)
        if im == "timeout":
            ctx.fail({"widths": widths}, {"implementation": "timeout"}, None)
            continue
        for j_, (case, i_, m_) in enumerate(zip(cases, im, ms)):
            counts[case["fn"]] += 1
            if i_ == "deferred":
                i_ = run_deferred(ctx, f"par{pos}_{j_}", case)
            judge(ctx, case, i_, m_)
    ctx.extra["scopes"] = dict(counts, tables=len(plan))


def run_deferred(ctx, k, case):
    """CLI runs that start their own process pool (nproc > 1) are executed by the harness process itself"""
    try:
        return run_cli(str(ctx.tmp), k, blocks_from_widths(case["widths"]), names_for(len(case["widths"])), case)
    except Exception as e:  # noqa: BLE001
        return "crash:" + type(e).__name__ + ":" + str(e)[:200]


def canon_w(widths):
    return str(widths)


def replay(ctx, case):
    widths = case["widths"]
    case = dict(case)
    chunk = case.pop("chunk", None)
    if chunk is not None:
        case["chunks"] = [chunk]
    case.setdefault("label", "replay")
    if "history" in case:       # re-run the whole history in one process, judge the recorded ingestion
        outs = history_worker((str(ctx.tmp), 0, case["history"]))
        if outs == "timeout":
            return False
        hcase = history_cases(case["history"])[case["hidx"]][case["cidx"]]
        if chunk is not None:
            ci = hcase["chunks"].index(chunk) if chunk in hcase["chunks"] else None
        res = [outs[case["hidx"]][case["cidx"]]]
        case = hcase
    else:
        res = table_worker((str(ctx.tmp), 0, widths, [case]))
    if res == "timeout":
        return False
    if res[0] == "deferred":
        res = [run_deferred(ctx, "replay", case)]
    sub = type("Sub", (), {})()
    fails = []
    sub.case = lambda *a, **k: None
    sub.compare = lambda *a, **k: True
    sub.disagree = lambda *a, **k: None
    sub.fail = lambda c, d, s=None: fails.append((c, d, s))
    # the model side is not needed to re-judge the property: give judge a model value that is never compared
    if case["fn"] in ("sanitize_records", "sanitize_pixels"):
        model = [None] * len(case["chunks"])
    else:
        model = None
    judge(sub, case, res[0], model)
    return not fails
