(** Tie between the inner search loop of get_multiplier_sequence as TRANSLATED from _reduce.py on every run
    ([Gen.multseq_scan]: `while p >= 0: if target % resn[p] == 0: ...; break / else: p -= 1`, index based, fuelled) and
    the hand model ([scan_down] over the reversed prefix, [pred_mult]).  The statements around the loop are pinned
    ([Gen.multseq_source_pins]). *)
From Cooler Require Import Model.Zoom Gen.Translated.
From Coq Require Import Lia.
Open Scope Z_scope.

Lemma firstn_snoc_nth (l : list Z) : forall k, (k < length l)%nat -> firstn (S k) l = firstn k l ++ [nth k l 0].
Proof.
  induction l as [|x l IH]; intros k Hk; [cbn in Hk; lia|].
  destruct k as [|k]; [reflexivity|]. cbn [firstn nth]. cbn [firstn] in IH. rewrite (IH k) by (cbn in Hk; lia). reflexivity.
Qed.

Lemma gen_scan_eq_scan_down resn t : forall k, (k <= length resn)%nat ->
  Gen.multseq_scan (S k) resn t (Z.of_nat k - 1) = scan_down t (rev (firstn k resn)) (Z.of_nat k - 1).
Proof.
  induction k as [|k IH]; intro Hk.
  - reflexivity.
  - cbn [Gen.multseq_scan]. replace (Z.of_nat (S k) - 1) with (Z.of_nat k) by lia.
    replace (Z.of_nat k >=? 0) with true by lia.
    rewrite Nat2Z.id. rewrite firstn_snoc_nth by lia. rewrite rev_app_distr. cbn [rev app scan_down].
    destruct (t mod nth k resn 0 =? 0); [reflexivity|]. apply IH. lia.
Qed.

(** what the translated loop computes for position i, started as the source starts it (p = i - 1), is the model's (pred[i], mult[i]) *)
Theorem gen_multseq_is_pred_mult resn i : (i < length resn)%nat ->
  Gen.multseq_scan (S i) resn (nth i resn 0) (Gen.multseq_start (Z.of_nat i)) = pred_mult resn i.
Proof. intro Hi. unfold Gen.multseq_start, pred_mult. apply gen_scan_eq_scan_down. lia. Qed.

(** the fuel S i is enough: the loop makes at most i + 1 tests (p = i-1 down to -1), whatever larger fuel is given *)
Lemma gen_scan_fuel_irrelevant resn t : forall k f, (k <= length resn)%nat -> (S k <= f)%nat ->
  Gen.multseq_scan f resn t (Z.of_nat k - 1) = Gen.multseq_scan (S k) resn t (Z.of_nat k - 1).
Proof.
  induction k as [|k IH]; intros f Hk Hf.
  - destruct f; [lia|]. reflexivity.
  - destruct f as [|f]; [lia|]. cbn [Gen.multseq_scan]. replace (Z.of_nat (S k) - 1) with (Z.of_nat k) by lia.
    replace (Z.of_nat k >=? 0) with true by lia.
    destruct (t mod nth (Z.to_nat (Z.of_nat k)) resn 0 =? 0); [reflexivity|].
    replace (Z.of_nat k - 1) with (Z.of_nat k - 1) by lia. apply IH; lia.
Qed.

Theorem gen_multseq_pins : Gen.multseq_source_pins = true.
Proof. reflexivity. Qed.
