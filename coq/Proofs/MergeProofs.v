(** Proofs about the k-way merge model (Model/Merge.v): C07 and C06. *)
From Cooler Require Import Model.Merge Proofs.PixelsProofs Proofs.BinsProofs.
From Coq Require Import Sorted Permutation ZifyBool Arith.

(* ================================================================== A. merge_breakpoints *)

(** monotone (non-decreasing) offset array, positional form *)
Definition MonoN (l : list Z) : Prop :=
  forall i j, (i <= j < length l)%nat -> nth i l 0 <= nth j l 0.

Lemma ssorted_mono l : StronglySorted Z.le l -> MonoN l.
Proof.
  induction 1 as [|a l HS IH HF]; intros i j Hij; cbn [length] in Hij.
  - lia.
  - destruct i as [|i], j as [|j]; cbn [nth]; try lia.
    + rewrite Forall_forall in HF. apply HF. apply nth_In. lia.
    + apply IH. lia.
Qed.
Lemma sorted_mono l : Sorted Z.le l -> MonoN l.
Proof. intros H. apply ssorted_mono. apply Sorted_StronglySorted; [|exact H]. intros x y z; lia. Qed.

Lemma nth_skipn {A} (l : list A) lo i d : nth i (skipn lo l) d = nth (lo + i) l d.
Proof.
  revert l. induction lo as [|lo IH]; intros l; [reflexivity|].
  destruct l as [|x l]; cbn [skipn plus]; [destruct i; reflexivity|]. apply IH.
Qed.

Lemma count_le_facts l x :
  (count_le l x <= length l)%nat /\
  (forall i, (i < count_le l x)%nat -> nth i l 0 <= x) /\
  ((count_le l x < length l)%nat -> x < nth (count_le l x) l 0).
Proof.
  induction l as [|y r (IH1 & IH2 & IH3)]; cbn [count_le length].
  - repeat split; intros; lia.
  - destruct (y <=? x) eqn:E.
    + repeat split; [lia| |intros; cbn [nth]; apply IH3; lia].
      intros [|i] Hi; cbn [nth]; [lia|apply IH2; lia].
    + repeat split; [lia|intros; lia|intros _; cbn [nth]; lia].
Qed.

Lemma bisect_right_facts ci x lo : (lo <= length ci)%nat ->
  let r := bisect_right ci x lo in
  (lo <= r <= length ci)%nat /\
  (forall i, (lo <= i < r)%nat -> nth i ci 0 <= x) /\
  ((r < length ci)%nat -> x < nth r ci 0).
Proof.
  intros Hlo r. unfold bisect_right in r.
  destruct (count_le_facts (skipn lo ci) x) as (F1 & F2 & F3).
  rewrite skipn_length in F1, F3. subst r. repeat split; try lia.
  - intros i Hi. specialize (F2 (i - lo)%nat ltac:(lia)). rewrite nth_skipn in F2.
    replace (lo + (i - lo))%nat with i in F2 by lia. exact F2.
  - intros Hr. specialize (F3 ltac:(lia)). rewrite nth_skipn in F3. exact F3.
Qed.

(** the loop terminates within [length ci - 1 - lo] iterations and yields a strictly increasing
    list of positions whose last element carries all records *)
Lemma mb_loop_ok ci buf nnz : MonoN ci -> 0 <= buf ->
  nnz = nth (length ci - 1) ci 0 ->
  forall fuel lo start,
  (S lo < length ci)%nat -> start = nth lo ci 0 -> (length ci - 1 - lo <= fuel)%nat ->
  exists p, mb_loop fuel ci buf nnz lo start = Ok p /\ p <> [] /\
            StronglySorted lt (lo :: p) /\ Forall (fun h => (h < length ci)%nat) p /\
            nth (last p O) ci 0 = nnz.
Proof.
  intros HM Hbuf Hnnz. induction fuel as [|f IH]; intros lo start Hlo Hstart Hfuel; [lia|].
  cbn [mb_loop].
  set (tgt := Z.min (start + buf) nnz).
  destruct (bisect_right_facts ci tgt lo ltac:(lia)) as (B1 & B2 & B3).
  set (r := bisect_right ci tgt lo) in *.
  assert (Hstart_le : start <= tgt).
  { subst tgt start nnz. apply Z.min_glb; [lia|]. apply HM. lia. }
  assert (Hr : (lo < r)%nat).
  { destruct (Nat.eq_dec r lo) as [E|]; [|lia]. specialize (B3 ltac:(lia)). rewrite E in B3. lia. }
  set (hi0 := (r - 1)%nat).
  set (hi := if (hi0 =? lo)%nat then S hi0 else hi0).
  assert (Hhi : (lo < hi < length ci)%nat).
  { subst hi. destruct (hi0 =? lo)%nat eqn:E; [apply Nat.eqb_eq in E|apply Nat.eqb_neq in E]; subst hi0; lia. }
  destruct (nth_error ci hi) as [v|] eqn:Ev; [|apply nth_error_None in Ev; lia].
  assert (Hv : v = nth hi ci 0) by (symmetry; now apply nth_error_nth).
  destruct (v =? nnz) eqn:Evn.
  - exists [hi]. split; [reflexivity|]. split; [discriminate|]. split; [|split].
    + repeat constructor. lia.
    + repeat constructor. lia.
    + cbn [last]. lia.
  - assert (Hhi2 : (S hi < length ci)%nat).
    { destruct (Nat.eq_dec hi (length ci - 1)) as [E|]; [|lia]. rewrite E in Hv. lia. }
    destruct (IH hi v Hhi2 Hv ltac:(lia)) as (p & Ep & Pne & PS & PF & PL).
    rewrite Ep. exists (hi :: p). split; [reflexivity|]. split; [discriminate|]. split; [|split].
    + constructor; [exact PS|]. constructor; [lia|].
      inversion PS as [|? ? _ HF]; subst. eapply Forall_impl; [|exact HF]. cbn. intros; lia.
    + constructor; [lia|exact PF].
    + destruct p as [|q p']; [contradiction|]. exact PL.
Qed.

(* ---- the combined index *)
Definition colsum (idxs : list (list Z)) (i : nat) : Z :=
  fold_right (fun a s => nth i a 0 + s) 0 idxs.

Lemma vadd_facts a : forall b, length a = length b ->
  length (vadd a b) = length a /\ forall i, nth i (vadd a b) 0 = nth i a 0 + nth i b 0.
Proof.
  induction a as [|x a IH]; intros [|y b] Hl; cbn [length] in Hl; try discriminate; cbn [vadd length].
  - split; [reflexivity|]. intros [|i]; reflexivity.
  - destruct (IH b ltac:(lia)) as (L & N). split; [lia|]. intros [|i]; cbn [nth]; [reflexivity|apply N].
Qed.

Lemma fold_vadd_facts idxs : forall acc,
  Forall (fun a => length a = length acc) idxs ->
  length (fold_left vadd idxs acc) = length acc /\
  forall i, nth i (fold_left vadd idxs acc) 0 = nth i acc 0 + colsum idxs i.
Proof.
  induction idxs as [|a idxs IH]; intros acc HF; cbn [fold_left colsum fold_right].
  - split; [reflexivity|]. intros; lia.
  - inversion HF as [|? ? Ha HF']; subst.
    destruct (vadd_facts acc a ltac:(lia)) as (L & N).
    destruct (IH (vadd acc a)) as (L' & N').
    { eapply Forall_impl; [|exact HF']. cbn. intros; lia. }
    split; [lia|]. intros i. rewrite N', N. fold (colsum idxs i). lia.
Qed.

Lemma nth_repeat0 n i : nth i (repeat 0 n) 0 = 0.
Proof. revert i. induction n; intros [|i]; cbn; auto. Qed.

Lemma combined_index_facts idxs L :
  Forall (fun a => length a = L) idxs -> idxs <> [] ->
  length (combined_index idxs) = L /\ forall i, nth i (combined_index idxs) 0 = colsum idxs i.
Proof.
  intros HF Hne. unfold combined_index.
  assert (HL : length (hd [] idxs) = L).
  { destruct idxs; [contradiction|]. inversion HF; subst. reflexivity. }
  destruct (fold_vadd_facts idxs (repeat 0 (length (hd [] idxs)))) as (A & B).
  { rewrite repeat_length, HL. exact HF. }
  rewrite repeat_length in A. split; [lia|]. intros i. rewrite B, nth_repeat0. lia.
Qed.

Lemma colsum_mono idxs i j : Forall MonoN idxs -> Forall (fun a => (j < length a)%nat) idxs ->
  (i <= j)%nat -> colsum idxs i <= colsum idxs j.
Proof.
  induction idxs as [|a idxs IH]; intros HM HL Hij; cbn [colsum fold_right]; [lia|].
  inversion HM; inversion HL; subst. fold (colsum idxs i). fold (colsum idxs j).
  specialize (IH ltac:(assumption) ltac:(assumption) Hij).
  assert (nth i a 0 <= nth j a 0) by (match goal with H : MonoN a |- _ => apply H end; lia). lia.
Qed.

(** equal column sums at two positions force equality in every (monotone) input *)
Lemma colsum_eq_each idxs i j : Forall MonoN idxs -> Forall (fun a => (j < length a)%nat) idxs ->
  (i <= j)%nat -> colsum idxs i = colsum idxs j ->
  Forall (fun a => nth i a 0 = nth j a 0) idxs.
Proof.
  induction idxs as [|a idxs IH]; intros HM HL Hij E; [constructor|].
  inversion HM as [|? ? Ma HM']; inversion HL as [|? ? La HL']; subst.
  cbn [colsum fold_right] in E. fold (colsum idxs i) in E. fold (colsum idxs j) in E.
  pose proof (colsum_mono idxs i j HM' HL' Hij).
  assert (nth i a 0 <= nth j a 0) by (apply Ma; lia).
  constructor; [lia|]. apply IH; auto. lia.
Qed.

Lemma last_nth {A} (l : list A) d : last l d = nth (length l - 1) l d.
Proof.
  induction l as [|x l IH]; [reflexivity|]. destruct l as [|y l]; [reflexivity|].
  change (last (x :: y :: l) d) with (last (y :: l) d). rewrite IH. cbn [length].
  replace (S (S (length l)) - 1)%nat with (S (S (length l) - 1)) by lia. reflexivity.
Qed.

(** C07 theorem 1: for every family of monotone offset arrays of equal length L >= 2 that start at 0
    and every bufsize >= 1 (>= 0 suffices), fuel L is never exhausted, the partition starts at 0, is strictly
    increasing, stays inside the index, and every row from its last element on is empty in every input. *)
Theorem breakpoints_partition idxs L buf :
  idxs <> [] -> (2 <= L)%nat ->
  Forall (fun a => length a = L /\ MonoN a /\ nth 0 a 0 = 0) idxs -> 0 <= buf ->
  exists p, merge_breakpoints L idxs buf = Ok p /\
    hd 1%nat p = O /\ StronglySorted lt p /\ Forall (fun h => (h < L)%nat) p /\
    Forall (fun a => forall r, (last p O <= r < L)%nat -> nth r a 0 = nth (L - 1) a 0) idxs.
Proof.
  intros Hne HL HF Hbuf.
  assert (FL : Forall (fun a => length a = L) idxs) by (eapply Forall_impl; [|exact HF]; cbn; tauto).
  assert (FM : Forall MonoN idxs) by (eapply Forall_impl; [|exact HF]; cbn; tauto).
  destruct (combined_index_facts idxs L FL Hne) as (CL & CN).
  set (ci := combined_index idxs) in *.
  assert (FJ : forall j, (j < L)%nat -> Forall (fun a => (j < length a)%nat) idxs).
  { intros j Hj. eapply Forall_impl; [|exact FL]. cbn. intros; lia. }
  assert (CM : MonoN ci).
  { intros i j Hij. rewrite !CN. apply colsum_mono; auto. apply FJ. lia. }
  assert (C0 : nth 0 ci 0 = 0).
  { rewrite CN. clear -HF. induction idxs as [|a t IH]; [reflexivity|]. inversion HF as [|? ? (_ & _ & H0) HF']; subst.
    cbn [colsum fold_right]. fold (colsum t 0). rewrite IH by assumption. lia. }
  unfold merge_breakpoints. fold ci.
  destruct ci as [|c0 ci'] eqn:Eci; [cbn in CL; lia|]. rewrite <- Eci in *.
  destruct (mb_loop_ok ci buf (last ci 0) CM Hbuf (last_nth ci 0) L O 0 ltac:(lia) ltac:(lia) ltac:(lia))
    as (p & Ep & Pne & PS & PF & PLast).
  rewrite Ep. exists (O :: p). split; [reflexivity|]. split; [reflexivity|]. split; [exact PS|]. split.
  - constructor; [lia|]. rewrite CL in PF. exact PF.
  - assert (Hl : last (O :: p) O = last p O) by (destruct p; [contradiction|reflexivity]). rewrite Hl.
    assert (Hlt : (last p O < L)%nat).
    { rewrite Forall_forall in PF. rewrite <- CL. apply PF. destruct p; [contradiction|]. apply (@exists_last _ (n :: p)) in Pne.
      destruct Pne as (q & z & Eq). rewrite Eq. rewrite last_last. apply in_or_app. right. left. reflexivity. }
    rewrite last_nth, CL, !CN in PLast.
    pose proof (colsum_eq_each idxs (last p O) (L - 1) FM (FJ _ ltac:(lia)) ltac:(lia) PLast) as HE.
    rewrite Forall_forall in *. intros a Ha r Hr. specialize (HE a Ha).
    destruct (HF a Ha) as (La & Ma & _).
    assert (nth (last p O) a 0 <= nth r a 0) by (apply Ma; lia).
    assert (nth r a 0 <= nth (L - 1) a 0) by (apply Ma; lia). lia.
Qed.
