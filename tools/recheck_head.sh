#!/bin/bash
# usage: recheck_head.sh <seed-id> <PROP> "<note>" : apply seeded patch onto current /repo HEAD in a fresh worktree, run check, remove
id=$1; P=$2; WT=/tmp/rh_$id
git -C /repo worktree remove --force $WT 2>/dev/null
git -C /repo worktree add -q --detach $WT HEAD || exit 2
git -C $WT apply /verif/seeded/$id/patch.diff || { echo "patch does not apply on HEAD"; git -C /repo worktree remove --force $WT; exit 3; }
/verif/tools/recheck.sh $id $P $WT "$3"
git -C /repo worktree remove --force $WT
