"""Helpers shared by the C07 (merge) and C06 (unordered ingestion) checks:
bin-table fixtures, writing input coolers through the public API, raw h5py readers,
Coq literal printers for Model/Merge.v, wall-clock guard for implementation calls."""
from __future__ import annotations

import itertools
import os
import signal
from contextlib import contextmanager

import h5py
import numpy as np
import pandas as pd

import coqio as C
from gen_bins import table_from_blocks

IMPORTS = "From Cooler Require Import Model.Merge."

# ----------------------------------------------------------------- fixtures
# name -> (blocks [(chrom id, start, end)], chromosome names)
AXES = {
    # fixed width 10, one chromosome, 4 bins
    "A4": ([[(0, 0, 10), (0, 10, 20), (0, 20, 30), (0, 30, 40)]], ["chrB"]),
    # fixed width 10, two chromosomes, last bin of the first shorter: 5 bins
    "B5": ([[(0, 0, 10), (0, 10, 20), (0, 20, 25)], [(1, 0, 10), (1, 10, 20)]], ["chrB", "chrA"]),
    # variable widths, 4 bins
    "V4": ([[(0, 0, 7), (0, 7, 30), (0, 30, 33)], [(1, 0, 5)]], ["chrB", "chrA"]),
    # fixed width 10, 3 bins
    "A3": ([[(0, 0, 10), (0, 10, 20), (0, 20, 30)]], ["chrB"]),
    # fixed width 5, 6 bins
    "A6": ([[(0, 0, 5), (0, 5, 10), (0, 10, 15), (0, 15, 20), (0, 20, 25), (0, 25, 30)]], ["chrB"]),
    # ---- incompatible partners of A4 (all have 4 bins, so only the axes differ)
    "A4res": ([[(0, 0, 20), (0, 20, 40)], [(1, 0, 20), (1, 20, 40)]], ["chrB", "chrA"]),       # other resolution
    "A4res1": ([[(0, 0, 12), (0, 12, 24), (0, 24, 36), (0, 36, 40)]], ["chrB"]),                 # other resolution, same chromsizes, same nbins
    "A4len": ([[(0, 0, 10), (0, 10, 20), (0, 20, 30), (0, 30, 35)]], ["chrB"]),                 # same resolution, other length
    "A4name": ([[(0, 0, 10), (0, 10, 20), (0, 20, 30), (0, 30, 40)]], ["chrA"]),                # other name
    "A4var": ([[(0, 0, 10), (0, 10, 20), (0, 20, 29), (0, 29, 40)]], ["chrB"]),                 # variable table, same length
    # ---- incompatible partners of V4
    "V4edge": ([[(0, 0, 8), (0, 8, 30), (0, 30, 33)], [(1, 0, 5)]], ["chrB", "chrA"]),
    "V4len": ([[(0, 0, 7), (0, 7, 30), (0, 30, 33)], [(1, 0, 6)]], ["chrB", "chrA"]),
    "V4more": ([[(0, 0, 7), (0, 7, 30), (0, 30, 33)], [(1, 0, 5), (1, 5, 9)]], ["chrB", "chrA"]),
    "V4name": ([[(0, 0, 7), (0, 7, 30), (0, 30, 33)], [(1, 0, 5)]], ["chrB", "z"]),
}
NAME_TOK = {"chrB": 0, "chrA": 1, "z": 2, "chr10": 3}
COL_TOK = {"count": 0, "x": 1, "y": 2, "score": 3}
TOK_COL = {v: k for k, v in COL_TOK.items()}
AGG_COQ = {"sum": "ASum", "max": "AMax", "min": "AMin"}


def nbins(ax):
    return sum(len(b) for b in AXES[ax][0])


def bins_df(ax):
    blocks, names = AXES[ax]
    return table_from_blocks(blocks, categorical=True, names=names)


def coq_bins(ax):
    blocks, _ = AXES[ax]
    return C.lst([C.tup(C.z(c), C.z(s), C.z(e)) for blk in blocks for (c, s, e) in blk])


def coq_names(ax):
    return C.zl([NAME_TOK[n] for n in AXES[ax][1]])


_DT = {8: np.int8, 16: np.int16, 32: np.int32, 64: np.int64,
       "u8": np.uint8, "u16": np.uint16, "u32": np.uint32, "u64": np.uint64, "f32": np.float32, "f64": np.float64}


def np_dtype(tok):
    """dtype token -> numpy dtype: an int N is the signed integer of N bits, 'uN' unsigned, 'fN' float"""
    return _DT[tok]


def tok_of(dt):
    dt = np.dtype(dt)
    if dt.kind == "i":
        return dt.itemsize * 8
    return f"{dt.kind}{dt.itemsize * 8}"


def is_signed_int(tok):
    return isinstance(tok, int)


# ----------------------------------------------------------------- timeouts
class Timeout(Exception):
    pass


@contextmanager
def time_limit(seconds):
    def handler(signum, frame):
        raise Timeout()
    old = signal.signal(signal.SIGALRM, handler)
    signal.setitimer(signal.ITIMER_REAL, seconds)
    try:
        yield
    finally:
        signal.setitimer(signal.ITIMER_REAL, 0)
        signal.signal(signal.SIGALRM, old)


def classify(exc):
    """small enum of exception classes"""
    if isinstance(exc, Timeout):
        return "timeout"
    # "refused": the ValueError family (incl. BadInputError) and the TypeError pandas raises when two
    # categorical chromosome columns with different categories are compared
    for cls, nm in ((IndexError, "IndexError"), (KeyError, "KeyError"), (ValueError, "refused"),
                    (TypeError, "refused"), (OSError, "OSError"), (MemoryError, "MemoryError")):
        if isinstance(exc, cls):
            return nm
    return type(exc).__name__


# ----------------------------------------------------------------- coolers on disk
def pixel_frame(px, cols):
    """px: list of (bin1, bin2, [values per column]); cols: [(name, bits)] -> DataFrame with int64 id
    columns and value columns of the declared width"""
    d = {"bin1_id": np.array([p[0] for p in px], dtype=np.int64),
         "bin2_id": np.array([p[1] for p in px], dtype=np.int64)}
    for k, (nm, bits) in enumerate(cols):
        d[nm] = np.array([p[2][k] for p in px], dtype=np_dtype(bits))
    return pd.DataFrame(d)


def write_cooler(path, ax, symm, cols, px, bins_extra=False, mode="w"):
    """create an input cooler through the public API (ordered path); px must be free of duplicates.
    path may be a URI 'file::/group'; bins_extra adds a 'weight' column to the bin table"""
    import cooler
    df = pixel_frame(sorted(px), cols)
    bins = bins_df(ax)
    if bins_extra:
        bins["weight"] = np.linspace(0.5, 1.5, len(bins))
    cooler.create_cooler(str(path), bins, df, columns=[c for c, _ in cols],
                         dtypes={c: np_dtype(b) for c, b in cols}, symmetric_upper=bool(symm),
                         ordered=True, mode=mode)


def _canon_vals(kind, vals):
    out = []
    for v in vals:
        if kind == "S" or isinstance(v, (bytes, str)):
            out.append(v.decode() if isinstance(v, bytes) else str(v))
        elif kind == "f":
            out.append("nan" if v != v else float(v))
        else:
            out.append(int(v))
    return out


def bins_extra_of(bg):
    """every bins column besides chrom/start/end: {name: [dtype kind + bits | 'str', values]} (NaN spelled 'nan')"""
    d = {}
    for nm in sorted(bg.keys()):
        if nm in ("chrom", "start", "end"):
            continue
        dt = bg[nm].dtype
        kind = "S" if dt.kind in "SOU" else dt.kind
        d[nm] = ["str" if kind == "S" else f"{dt.kind}{dt.itemsize * 8}", _canon_vals(kind, bg[nm][:].tolist())]
    return d


def bins_df_extra(ax):
    """a bin table with extra per-bin columns of four kinds: float with NaN, float, integer, string"""
    df = bins_df(ax)
    n = len(df)
    df["weight"] = [np.nan if i % 3 == 1 else 0.5 + 0.25 * i for i in range(n)]
    df["gc"] = [0.125 * (i + 1) for i in range(n)]
    df["nsites"] = np.array([7 * i - 3 for i in range(n)], dtype=np.int64)
    # fixed-width byte strings: a column of Python str objects is refused by create() on the ordered AND the unordered
    # path alike ("Size must be positive"), so it cannot distinguish the two
    df["tag"] = np.array([f"b{i}x" for i in range(n)], dtype="S4")
    return df


def expected_bins_extra(ax):
    df = bins_df_extra(ax)
    return {"gc": ["f64", _canon_vals("f", df["gc"].tolist())], "nsites": ["i64", _canon_vals("i", df["nsites"].tolist())],
            "tag": ["str", [f"b{i}x" for i in range(len(df))]], "weight": ["f64", _canon_vals("f", df["weight"].tolist())]}


def read_raw(uri, want_cols=None):
    """raw content of a cooler group, independent of the cooler API"""
    path, _, grp = str(uri).partition("::")
    with h5py.File(path, "r") as f:
        g = f[grp] if grp else f
        pg = g["pixels"]
        names = [k for k in pg.keys() if k not in ("bin1_id", "bin2_id")]
        if want_cols is not None:
            names = [c for c in want_cols if c in names] + sorted(c for c in names if c not in want_cols)
        else:
            names = sorted(names, key=lambda c: COL_TOK.get(c, 99))
        b1 = pg["bin1_id"][:].tolist()
        b2 = pg["bin2_id"][:].tolist()
        colv = []
        cols = []
        for c in names:
            dt = pg[c].dtype
            cols.append([c, tok_of(dt)])
            colv.append([int(v) if dt.kind in "iu" else float(v) for v in pg[c][:].tolist()])
        a = g.attrs
        # every row on disk is read (after fix D21 an empty pixel stream leaves no preallocated rows)
        nrows = len(b1)
        px = [[int(b1[i]), int(b2[i]), [cv[i] for cv in colv]] for i in range(nrows)]
        off = [int(v) for v in g["indexes/bin1_offset"][:].tolist()]
        bg = g["bins"]
        cnames = [x.decode() if isinstance(x, bytes) else str(x) for x in g["chroms/name"][:].tolist()]
        bch = bg["chrom"][:].tolist()
        btab = [[cnames[int(c)] if not isinstance(c, (bytes, str)) else (c.decode() if isinstance(c, bytes) else c), int(s_), int(e_)]
                for c, s_, e_ in zip(bch, bg["start"][:].tolist(), bg["end"][:].tolist())]
        tot = a["sum"]
        tot = int(tot) if np.issubdtype(np.asarray(tot).dtype, np.integer) else float(tot)
        return {"cols": cols, "px": px, "off": off, "sum": tot, "nnz": int(a["nnz"]),
                "symm": str(a["storage-mode"]) == "symmetric-upper", "nbins": int(a["nbins"]),
                "bintype": str(a["bin-type"]), "rows_on_disk": len(b1),
                "bins_cols": sorted(g["bins"].keys()), "bins": btab, "bins_extra": bins_extra_of(bg)}


def coq_px(px):
    return C.lst([C.tup(C.tup(C.z(p[0]), C.z(p[1])), C.zl(p[2])) for p in px])


def coq_cooler(ax, raw):
    cols = C.lst([C.tup(C.z(COL_TOK[c]), C.z(b)) for c, b in raw["cols"]])
    return ("{| c_names := %s; c_bins := %s; c_symm := %s; c_cols := %s; c_off := %s; c_px := %s; c_sum := %s |}"
            % (coq_names(ax), coq_bins(ax), C.b(raw["symm"]), cols, C.zl(raw["off"]), coq_px(raw["px"]), C.z(raw["sum"])))


def parse_obs(v):
    """value of [observe (..)] -> canonical python: 'error:<kind>' or dict"""
    assert isinstance(v, tuple) and v[0] == "C", v
    if v[1] == "Err":
        return {"EFuel": "timeout", "EIndex": "IndexError", "EValue": "refused"}[v[2][1]]
    symm, cols, off, px, tot = v[2]
    return {"symm": symm, "cols": [[TOK_COL[c], b] for c, b in cols], "off": list(off),
            "px": [[p[0], p[1], list(p[2])] for p in px], "sum": tot, "nnz": len(px)}


def obs_of_raw(raw):
    return {"symm": raw["symm"], "cols": [list(c) for c in raw["cols"]], "off": raw["off"],
            "px": raw["px"], "sum": raw["sum"], "nnz": raw["nnz"], "bins": raw.get("bins"),
            "bins_extra": raw.get("bins_extra", {})}


def expected_bins(ax):
    """the bin table (chromosome name, start, end) of a fixture, as read_raw reports it"""
    blocks, names = AXES[ax]
    return [[names[c], s, e] for blk in blocks for (c, s, e) in blk]


# ----------------------------------------------------------------- pixel-table generators
def all_keys(n, symm):
    return [(i, j) for i in range(n) for j in range(n) if (i <= j or not symm)]


def random_px(rng, n, symm, ncols, maxnnz=None, lo=0, hi=9, first_row=0):
    keys = [k for k in all_keys(n, symm) if k[0] >= first_row]
    m = rng.randint(0, min(len(keys), maxnnz if maxnnz is not None else len(keys)))
    ks = sorted(rng.sample(keys, m))
    return [[i, j, [rng.randint(lo, hi) for _ in range(ncols)]] for (i, j) in ks]


def listdir_sorted(d):
    return sorted(os.listdir(d))
