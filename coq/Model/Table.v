(** Table selectors and bin annotation: cooler/core/_tableops.py get(), RangeSelector1D.__getitem__
    (core/_selectors.py:56-146) and cooler.api.annotate (api.py:572-662).  Cells are abstract integers
    (decoded strings/enums are identified with their codes).  No proofs here. *)
From Cooler Require Export Model.Query.

Definition column := list Z.
Definition table := list (Z * column).           (* (field id, values) *)

Fixpoint lookup_col (t : table) (f : Z) : option column :=
  match t with [] => None | (g, c) :: r => if g =? f then Some c else lookup_col r f end.

(** all-or-nothing map: a missing field is a KeyError *)
Fixpoint opt_all {A} (l : list (option A)) : option (list A) :=
  match l with
  | [] => Some []
  | None :: _ => None
  | Some x :: r => match opt_all r with Some r' => Some (x :: r') | None => None end
  end.

(** get(grp, lo, hi, fields): rows lo..hi-1 (h5py slice: clamped to the column length) of every requested
    column, labelled lo, lo+1, ...  ; hi = None reads to the end *)
Definition get (t : table) (lo : Z) (hi : option Z) (fields : list Z) : option (list Z * list (Z * column)) :=
  match opt_all (map (fun f => match lookup_col t f with
                               | Some c => Some (f, slice c lo (match hi with Some h => h | None => zlen c end))
                               | None => None end) fields) with
  | None => None
  | Some data =>
      Some (match data with [] => [] | (_, c) :: _ => zrange lo (length c) end, data)
  end.

(** RangeSelector1D.__getitem__ with a row slice / scalar: _process_slice, then the slicer *)
Definition selector_slice (t : table) (nmax : Z) (fields : list Z) (start stop : option Z) :=
  let '(lo, hi) := process_slice start stop nmax in get t lo (Some hi) fields.
Definition selector_scalar (t : table) (nmax : Z) (fields : list Z) (s : Z) :=
  match process_scalar s nmax with None => None | Some (lo, hi) => get t lo (Some hi) fields end.

(** ---- annotate *)
(** a contiguous part of the bin table: row k of [vrows] carries label vfirst + k; a row = its field values *)
Record view := { vfirst : Z; vrows : list (list Z) }.
Definition vlast (v : view) : Z := vfirst v + zlen (vrows v) - 1.

(** df.loc[beg:end] on a RangeIndex (end-inclusive, bounds need not exist) resp. selector[beg:end+1] *)
Definition loc_slice (v : view) (beg : Z) (end_ : option Z) : view :=
  let b := Z.max beg (vfirst v) in
  let e := match end_ with None => vlast v | Some e => Z.min e (vlast v) end in
  {| vfirst := b; vrows := slice (vrows v) (b - vfirst v) (e + 1 - vfirst v) |}.

(** positional take with Python semantics: negative positions wrap around, out of range is an IndexError *)
Definition iloc (rows : list (list Z)) (k : Z) : option (list Z) :=
  let n := zlen rows in
  if (0 <=? k) && (k <? n) then Some (nth (Z.to_nat k) rows [])
  else if (- n <=? k) && (k <? 0) then Some (nth (Z.to_nat (n + k)) rows [])
  else None.

Definition zmin_list (l : list Z) (d : Z) : Z := fold_right Z.min d l.
Definition zmax_list (l : list Z) (d : Z) : Z := fold_right Z.max d l.

(** the annotation rows for one bin-id column of the pixel frame ([nbins] = len(bins) as the code sees it) *)
Definition annotate_ids (v : view) (nbins : Z) (ids : list Z) : option (list (list Z)) :=
  let npix := zlen ids in
  let '(bmin, bmax) :=
      match ids with
      | [] => (0, Some 0)
      | x :: r => if nbins >? npix then (zmin_list r x, Some (zmax_list r x)) else (0, None)
      end in
  let ann := loc_slice v bmin bmax in
  let base := match vrows ann with [] => 0 | _ => vfirst ann end in
  opt_all (map (fun b => iloc (vrows ann) (b - base)) ids).

(** annotate(pixels, bins): pixels = (index label, bin1, bin2, other values); result keeps order and index,
    prepends the annotations of bin1 and bin2 *)
Definition pixrow := (Z * (Z * Z * list Z))%type.
Definition annotate (v : view) (nbins : Z) (px : list pixrow) : option (list (Z * (list Z * list Z * (Z * Z * list Z)))) :=
  match annotate_ids v nbins (map (fun r => fst (fst (snd r))) px), annotate_ids v nbins (map (fun r => snd (fst (snd r))) px) with
  | Some a1, Some a2 => Some (map (fun t => (fst (snd t), (fst (fst t), snd (fst t), snd (snd t)))) (combine (combine a1 a2) px))
  | _, _ => None
  end.

(** bins(): integer chromosome ids decoded through chroms/name when there is no enum header *)
Definition decode_chrom (names : list Z) (codes : list Z) : list Z := map (fun c => nth (Z.to_nat c) names (-1)) codes.
