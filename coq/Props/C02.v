(** C02  Every cooler any operation writes is a structurally valid CSR collection.
    Only statements, each closed by [exact] of a lemma proved in Proofs/IndexProofs.v.
    Model: Model/Index.v (util.rlencode, create._create.index_pixels / index_bins). *)
From Cooler Require Import Model.Index Proofs.PixelsProofs Proofs.IndexProofs.

(** the block-wise run-length encoder equals the one-shot encoder for every array and every
    block size c >= 1 (starts, lengths, values): the unbounded form of "drive it across the
    1e6-row block boundary" *)
Theorem C02_rlencode_chunked_eq : forall (a : list Z) (c : Z),
  1 <= c -> rlencode a (Some c) = rlencode a None.
Proof. exact rlencode_chunked_eq. Qed.
Print Assumptions C02_rlencode_chunked_eq.

(** ... and both equal the specification: a run starts exactly where an element differs
    from its predecessor *)
Theorem C02_rlencode_spec : forall (a : list Z) (c : Z),
  1 <= c -> rlencode a (Some c) = Some (rle_spec a) /\ rlencode a None = Some (rle_spec a).
Proof. exact rlencode_spec. Qed.
Print Assumptions C02_rlencode_spec.

(** index_pixels on a non-decreasing column of non-negative ids: n+1 entries,
    offset[b] = #{k | a[k] < b} for b = 0..n  (block size 1000000 as in the code) *)
Theorem C02_index_pixels_spec : forall (a : list Z) (n : Z),
  0 <= n -> NonDecr a -> Forall (fun x => 0 <= x) a ->
  index_pixels a n (zlen a) = Some (offsets_of n a).
Proof. exact index_pixels_spec. Qed.
Print Assumptions C02_index_pixels_spec.

Theorem C02_index_pixels_any_block : forall (c : Z) (a : list Z) (n : Z),
  1 <= c -> 0 <= n -> NonDecr a -> Forall (fun x => 0 <= x) a ->
  index_pixels_c c a n (zlen a) = Some (offsets_of n a).
Proof. exact index_pixels_c_spec. Qed.
Print Assumptions C02_index_pixels_any_block.

Theorem C02_index_bins_spec : forall (a : list Z) (n : Z),
  0 <= n -> NonDecr a -> Forall (fun x => 0 <= x) a ->
  index_bins a n (zlen a) = Some (offsets_of n a).
Proof. exact index_bins_spec. Qed.
Print Assumptions C02_index_bins_spec.
