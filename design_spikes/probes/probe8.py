import warnings; warnings.filterwarnings("ignore")
import numpy as np, pandas as pd, cooler, h5py, os, sys
from cooler import fileops
chromsizes=pd.Series({"a":30,"b":20}); bins=cooler.binnify(chromsizes,10)
good=pd.DataFrame({"bin1_id":[0,0,1,3],"bin2_id":[0,2,4,4],"count":[1,2,3,4]})
cooler.create_cooler("r.cool",bins,good)
fileops.ln("r.cool","r.cool::/a/b")
try: print("list after hard-link root->/a/b:",fileops.list_coolers("r.cool"))
except BaseException as e: print("list_coolers:",type(e).__name__)
cooler.create_cooler("s.cool::/x",bins,good)
fileops.ln("s.cool::/x","s.cool::/y",soft=True)
print(fileops.list_coolers("s.cool"))
fileops.ln("s.cool::/x","t.cool::/ext",soft=True)
print(fileops.list_coolers("t.cool"), fileops.is_cooler("t.cool::/ext"))
fileops.cp("s.cool::/x","t.cool::/copy"); print(fileops.list_coolers("t.cool"))
fileops.mv("t.cool::/copy","t.cool::/moved"); print(fileops.list_coolers("t.cool"))
# cp into root of existing file w/o overwrite
try:
    fileops.cp("s.cool::/x","t.cool"); print("cp to root of existing:",fileops.list_coolers("t.cool"))
except Exception as e: print("cp root existing:",type(e).__name__,e)
# cp to occupied dst
try:
    fileops.cp("s.cool::/x","t.cool::/moved"); print("cp to occupied ok?")
except Exception as e: print("cp occupied:",type(e).__name__)
# create append leaves others; recreate replaces
cooler.create_cooler("t.cool::/moved",bins,good.iloc[:2],mode="a"); print(fileops.list_coolers("t.cool"), len(cooler.Cooler("t.cool::/moved").pixels()[:]))
print(fileops.is_cooler("t.cool::/moved/pixels/count"), fileops.is_cooler("t.cool::/moved/pixels"))
