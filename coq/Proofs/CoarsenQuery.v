(** C08 composed with C02 and C03: what a user READS from a coarsened cooler.  For a valid symmetric-upper collection,
    the dense range query on the k-fold coarsened collection — every window of coarse bins, every read chunk size, every
    coarsening chunk / batch size — is the symmetric completion of the base's stored pixels re-keyed by the bin-index
    table (old bin -> coarse bin): cell (I, J) = sum of the stored values of all base pixels that fall into coarse pixel
    {I, J}. *)
From Cooler Require Import Model.Query Model.Index Model.Coarsen Proofs.PixelsProofs Proofs.QueryProofs Proofs.SpansProofs Proofs.QueryMain
     Proofs.BinsProofs Proofs.CoarsenProofs Proofs.IndexProofs Proofs.HistoryProofs Proofs.EndToEnd.
From Coq Require Import Lia.
Open Scope Z_scope.

Lemma symm_aggregate (l : list pixel) i j : symm (aggregate l) i j = symm l i j.
Proof. unfold symm. destruct (aggregate_canon l) as (_ & _ & Hlook). destruct (i <=? j); apply Hlook. Qed.

Theorem coarsen_then_dense_query blocks (c : Index.cooler) k chunksize batchsize cs i0 i1 j0 j1 :
  EntryOK (blocks, c) -> symmetric_upper c = true -> 1 <= k -> 1 <= chunksize -> 1 <= batchsize -> 1 <= cs ->
  let nb := map (coarsen_block k) blocks in
  let n' := zlen (concat nb) in
  0 <= i0 -> i0 <= i1 -> i1 <= n' -> 0 <= j0 -> j0 <= j1 -> j1 <= n' ->
  exists c' out,
    create_model (zlen nb) (map bchrom (concat nb))
                 (snd (coarsen_cooler (concat blocks) (map chrom_end blocks) (Index.pixels_of c) k chunksize batchsize)) true = Some c' /\
    fill_lower_query (epx_of (Index.pixels_of c')) (Index.bin1_offset c') (get_spans (Index.bin1_offset c') cs) (i0, i1, j0, j1) = Some out /\
    dense_of out (i0, i1, j0, j1) =
    map (fun I => map (fun J => symm (map (rekey (index_table (map zlen blocks) k)) (Index.pixels_of c)) I J)
                      (zrange j0 (Z.to_nat (j1 - j0))))
        (zrange i0 (Z.to_nat (i1 - i0))).
Proof.
  intros HE Hs Hk Hcz Hbz Hcs nb n' Hi0 Hi Hi1 Hj0 Hj Hj1.
  destruct (coarsen_valid blocks c k chunksize batchsize HE Hk Hcz Hbz) as (_ & Hsnd & c' & Hc' & HE' & Hpx & Hs').
  fold nb in Hc', HE'. rewrite Hs in Hc', Hs'.
  destruct HE' as (_ & HV' & Hch' & _).
  assert (Hnb : nbins c' = n').
  { destruct HV' as (_ & _ & _ & _ & _ & _ & _ & Lc & _). rewrite <- Lc, Hch'. apply zlen_map. }
  destruct (stored_cooler_range_queries c' cs i0 i1 j0 j1 HV' Hcs) as (_ & Hq); try lia.
  destruct (Hq Hs') as (out & Ho & _ & Hd).
  exists c', out. split; [exact Hc'|]. split; [exact Ho|]. rewrite Hd, Hpx, Hsnd.
  apply map_ext. intro I. apply map_ext. intro J. apply symm_aggregate.
Qed.
