#!/bin/bash
# usage: tools/coqbuild.sh Proofs/X.vo [more targets]   -- serialised (flock) make of targets under /verif/coq
cd /verif && /venv/bin/python - "$@" <<'PY'
import sys
sys.path.insert(0, "/verif/harness")
import common
ok, log = common.coq_make(sys.argv[1:], jobs=4, timeout=1500)
print(log[-4000:])
sys.exit(0 if ok else 1)
PY
