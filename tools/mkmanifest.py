#!/usr/bin/env python3
"""Assemble /verif/MANIFEST.json from manifest.d/*.json fragments (one per claimed property)
and manifest.d/_not_applicable.json.  Every property of properties.jsonl is either claimed or listed."""
import json, glob, os, sys
here = os.path.dirname(os.path.dirname(os.path.abspath(__file__)))
props = [json.loads(l)["id"] for l in open(os.path.join(here, "properties.jsonl"))]
checks = []
# only properties the lead has reviewed (check passes on the unchanged tree, theorems inspected) are claimed
reviewed = open(os.path.join(here, "manifest.d", "_claimed.txt")).read().split()
for f in sorted(glob.glob(os.path.join(here, "manifest.d", "C*.json"))):
    d = json.load(open(f))
    pid = d["property_id"]
    if pid not in reviewed:
        continue
    d.setdefault("quick_cmd", f"./check {pid} --tier quick")
    d.setdefault("thorough_cmd", f"./check {pid} --tier thorough")
    d.setdefault("evidence_file", f"/verif/evidence/{pid}.json")
    d.setdefault("replay_cmd_template", f"./check {pid} --replay {{path}}")
    d.setdefault("engine", "rocq-proof+correspondence")
    checks.append(d)
claimed = {c["property_id"] for c in checks}
na_path = os.path.join(here, "manifest.d", "_not_applicable.json")
na = json.load(open(na_path)) if os.path.exists(na_path) else {}
not_app = []
for p in props:
    if p not in claimed:
        not_app.append({"property_id": p, "reason": na.get(p, "not claimed: no theorem + correspondence check has been built for it yet (work in progress, see DESIGN.md)")})
man = {
    "version": 1,
    "setup_cmd": "./setup.sh",
    "hooks": {
        "guard": "OPEN2C_COOLER_VERIF",
        "enable": "no source hooks exist: checks observe /repo through the public API, the CLI and raw h5py reads with PYTHONPATH=/repo/src; ./check exports OPEN2C_COOLER_VERIF=1 for completeness",
        "baseline_off_cmd": "cd /repo && /venv/bin/python -m pytest -ra -q -p no:cacheprovider --timeout=900 --continue-on-collection-errors",
        "source_commits": [],
        "add_only": True,
    },
    "engines": [{
        "name": "rocq-proof+correspondence",
        "path": "/verif/check",
        "serves_properties": sorted(claimed),
        "kind_free_text": "Coq 8.16.1 theorems about a Gallina model (coq/Model, coq/Proofs, coq/Props) re-checked by make + Print Assumptions on every run; model tied to /repo by a fail-closed Python->Gallina translator (tools/py2v.py -> coq/Gen) and by a correspondence run that evaluates the model with vm_compute and the implementation on the same inputs; independent property oracle searches for a failing input",
    }],
    "checks": checks,
    "notes": "See DESIGN.md. Fix commits in /repo start with 'fix:'; known findings in /verif/known_findings.json.",
    "not_applicable": not_app,
}
json.dump(man, open(os.path.join(here, "MANIFEST.json"), "w"), indent=1)
print("claimed:", sorted(claimed), "unclaimed:", len(not_app))
