"""Shared generator / reference / Coq printers for C10 and C11 (balancing).

* tiny symmetric coolers (n <= 8 bins, 1-3 chromosomes, bin size 10) built through cooler.create_cooler
* option vectors of balance_cooler
* an INDEPENDENT dense reference of the documented procedure (numpy floats + Fractions); it never
  imports cooler
* printers of the same inputs as Gallina literals for coq/Model/Balance.v
"""
from __future__ import annotations

import math
import signal
from fractions import Fraction

import numpy as np

import coqio as C

IMPORTS = "From Cooler Require Import Model.Balance."


# ------------------------------------------------------------------ inputs
def offsets_of(per):
    off = [0]
    for p in per:
        off.append(off[-1] + p)
    return off


def chroms_of(per):
    return [k for k, p in enumerate(per) for _ in range(p)]


def build_cooler(path, per, pixels):
    import pandas as pd
    import cooler
    cs = pd.Series({f"c{k}": int(p) * 10 for k, p in enumerate(per)})
    bins = cooler.binnify(cs, 10)
    if is_float_counts(pixels):
        px = sorted((int(i), int(j), float(c)) for i, j, c in pixels)
        df = pd.DataFrame({"bin1_id": np.array([p[0] for p in px], dtype=np.int64),
                           "bin2_id": np.array([p[1] for p in px], dtype=np.int64),
                           "count": np.array([p[2] for p in px], dtype=np.float64)})
        cooler.create_cooler(str(path), bins, df, dtypes={"count": np.float64})
    else:
        px = sorted((int(i), int(j), int(c)) for i, j, c in pixels)
        df = pd.DataFrame({"bin1_id": np.array([p[0] for p in px], dtype=np.int64),
                           "bin2_id": np.array([p[1] for p in px], dtype=np.int64),
                           "count": np.array([p[2] for p in px], dtype=np.int64)})
        cooler.create_cooler(str(path), bins, df)
    return cooler.Cooler(str(path))


def is_float_counts(pixels):
    return any(isinstance(c, float) for _, _, c in pixels)


def den_of(pixels):
    """smallest power of two d with every count * d integral (1 for integer tables); counts are dyadic by construction"""
    d = 1
    while any((Fraction(c) * d).denominator != 1 for _, _, c in pixels):
        d *= 2
        assert d <= 2 ** 12
    return d


def float_counts(rng, pixels, kind=None):
    """turn an integer pixel list into a float64 one with dyadic fractional values:
    'frac01' all values in (0,1); 'fracgt1' values > 1 with a fraction; 'mixed' both plus some integers"""
    kind = kind or rng.choice(["frac01", "frac01", "fracgt1", "mixed"])
    den = rng.choice([8, 16])
    out = []
    for i, j, c in pixels:
        k = rng.choice(["frac01", "fracgt1", "int"]) if kind == "mixed" else kind
        if k == "frac01":
            v = rng.randint(1, den - 1) / den
        elif k == "fracgt1":
            v = rng.randint(1, 9) + rng.randint(1, den - 1) / den
        else:
            v = float(rng.randint(1, 6))
        out.append([i, j, v])
    return out


def random_pixels(rng, per, density=None, maxc=12, empty_rows=True):
    """upper-triangular pixel list with empty rows / isolated bins / non-zero diagonal"""
    n = sum(per)
    if density is None:
        density = rng.choice([0.35, 0.6, 0.85, 1.0])
    dead = set()
    if empty_rows and n >= 3 and rng.random() < 0.45:
        dead.add(rng.randrange(n))
    iso = set()
    if n >= 3 and rng.random() < 0.3:
        iso.add(rng.randrange(n))          # bin whose only entry is on the diagonal
    px = []
    for i in range(n):
        for j in range(i, n):
            if i in dead or j in dead:
                continue
            if (i in iso or j in iso) and i != j:
                continue
            if rng.random() < density or (i == j and i in iso):
                px.append([i, j, rng.randint(1, maxc)])
    return px


def random_per(rng, maxn=8):
    k = rng.choice([1, 2, 2, 3, 3])
    while True:
        per = [rng.randint(1, 4) for _ in range(k)]
        if sum(per) <= maxn and sum(per) >= 2:
            return per


TOLS = [1e-2, 1e-3, 1e-4, 1e-5, 1e-6, 1e-8, 1e-10]
DYADIC = [0.5, 0.75, 1.0, 1.0, 1.25, 1.5, 2.0, 0.625, 3.0]


def random_opts(rng, per, mode=None, simple=False):
    n = sum(per)
    if mode is None:
        mode = rng.choice(["gw", "gw", "cis", "trans"])
    if mode == "trans" and len(per) < 2:
        mode = "gw"
    o = {"cis": mode == "cis", "trans": mode == "trans",
         "diags": rng.choice([0, 0, 1, 1, 2, 3]),
         "mad": 0 if simple else rng.choice([0, 0, 1, 2, 3]),
         "nnz": 0 if simple else rng.choice([0, 0, 1, 2, 3]),
         "count": 0 if simple else rng.choice([0, 0, 0, 3, 8, 15, 0.5, 1.25, 2.5]),
         "black": None, "tol": rng.choice(TOLS), "iters": rng.choice([1, 2, 3, 50, 200, 200]),
         "x0": None, "rescale": rng.random() < 0.7}
    if not simple and rng.random() < 0.3:
        o["black"] = sorted(set(rng.randrange(n) for _ in range(rng.randint(1, 2))))
    if rng.random() < 0.3:
        x0 = [rng.choice(DYADIC) for _ in range(n)]
        if rng.random() < 0.5:
            x0[rng.randrange(n)] = None            # NaN
        if rng.random() < 0.4:
            x0[rng.randrange(n)] = 0.0
        o["x0"] = x0
    return o


def mode_of(o):
    return "cis" if o["cis"] else ("trans" if o["trans"] else "gw")


# ------------------------------------------------- independent dense reference
def dense_int(n, pixels):
    F = [[0] * n for _ in range(n)]
    for i, j, c in pixels:
        c = Fraction(c) if isinstance(c, float) else c          # float counts are dyadic: exact
        F[i][j] += c
        if i != j:
            F[j][i] += c
    return F


def keep_entry(o, chroms, i, j, for_trans_sweep=False):
    """is matrix entry (i, j) kept by the documented data filters"""
    if o["cis"] and chroms[i] != chroms[j]:
        return False
    if o["diags"] and abs(i - j) < o["diags"]:
        return False
    if for_trans_sweep and chroms[i] == chroms[j]:
        return False
    return True


def filtered(o, per, F, for_trans_sweep=False):
    n = len(F)
    ch = chroms_of(per)
    return [[F[i][j] if keep_entry(o, ch, i, j, for_trans_sweep) else 0 for j in range(n)] for i in range(n)]


def ref_masks(o, per, F, tie_masked=None):
    """documented bin filters on the dense matrix -> (initial weights as Fractions, ties)
    ties = bins sitting within 1e-9 (log space) of the float MAD cutoff: their float decision is not
    predictable; tie_masked (dict bin -> bool) overrides the decision for those bins."""
    n = len(F)
    Ff = filtered(o, per, F)
    if o["x0"] is None:
        b = [Fraction(1)] * n
    else:
        b = [Fraction(0) if v is None else Fraction(v) for v in o["x0"]]
    b = list(b)
    if o["nnz"] > 0:
        for i in range(n):
            if sum(1 for j in range(n) if Ff[i][j] != 0) < o["nnz"]:
                b[i] = Fraction(0)
    marg = [sum(Ff[i]) for i in range(n)]
    if o["count"]:
        for i in range(n):
            if marg[i] < o["count"]:
                b[i] = Fraction(0)
    ties = []
    if o["mad"] > 0:
        off = offsets_of(per)
        nm = [float("nan")] * n
        for lo, hi in zip(off[:-1], off[1:]):
            pos = [marg[i] for i in range(lo, hi) if marg[i] > 0]
            if pos:
                md = float(np.median(np.array(pos, dtype=float)))
                for i in range(lo, hi):
                    nm[i] = marg[i] / md
        logs = np.array([math.log(x) for x in nm if x == x and x > 0])
        if len(logs):
            med = float(np.median(logs))
            dev = float(np.median(np.abs(logs - med)))
            lc = med - o["mad"] * dev
            for i in range(n):
                x = nm[i]
                if x != x:
                    continue
                if x <= 0:
                    b[i] = Fraction(0)
                    continue
                if x == 1.0 and lc == 0.0:
                    continue        # exact in floats too (log 1 = 0, exp 0 = 1): strict "<" does not mask
                if abs(math.log(x) - lc) < 1e-9:
                    ties.append(i)
                    if tie_masked is not None:
                        if tie_masked.get(i, False):
                            b[i] = Fraction(0)
                        continue
                if math.log(x) < lc:
                    b[i] = Fraction(0)
    if o["black"]:
        for i in o["black"]:
            b[i] = Fraction(0)
    return b, ties


def exact_mad_masked(o, per, F):
    """the model's exact (4th-power) MAD decision per bin, mirrored with Fractions; used only to decide how a
    float tie can be handed to the model (through its blacklist)"""
    n = len(F)
    Ff = filtered(o, per, F)
    marg = [Fraction(sum(Ff[i])) for i in range(n)]
    off = offsets_of(per)
    nm = [None] * n

    def mid2(xs):
        s = sorted(xs)
        return (s[(len(s) - 1) // 2], s[len(s) // 2]) if s else None
    for lo, hi in zip(off[:-1], off[1:]):
        pos = [marg[i] for i in range(lo, hi) if marg[i] > 0]
        m = mid2(pos)
        if m:
            md = (m[0] + m[1]) / 2
            for i in range(lo, hi):
                nm[i] = marg[i] / md
    pos = [x for x in nm if x is not None and x > 0]
    m = mid2(pos)
    out = [False] * n
    if not m:
        return out
    med2 = m[0] * m[1]
    R = [max(x * x / med2, med2 / (x * x)) for x in pos]
    ra, rb = mid2(R)
    c4 = med2 * med2 / (ra * rb) ** o["mad"]
    for i in range(n):
        x = nm[i]
        if x is None:
            continue
        out[i] = True if x <= 0 else (x ** 4 < c4)
    return out


def groups_of(o, per):
    off = offsets_of(per)
    if o["cis"]:
        return [list(range(lo, hi)) for lo, hi in zip(off[:-1], off[1:])]
    return [list(range(off[-1]))]


def cweights_of(per):
    n = sum(per)
    return [Fraction(1) / (1 - Fraction(p, n)) for p in per for _ in range(p)]


def ref_loop_float(o, per, F, b0):
    """the documented iterative correction on the dense matrix, numpy floats.
    returns per group: dict(bias (floats, NaN marked, unrescaled), scale, var, iters, vars=[...], traj=[b_t ...])"""
    n = len(F)
    A = np.array(filtered(o, per, F, for_trans_sweep=o["trans"]), dtype=float)
    cw = np.array([float(x) for x in cweights_of(per)]) if o["trans"] else np.ones(n)
    out = []
    bias = np.array([float(x) for x in b0])
    for g in groups_of(o, per):
        g = np.array(g)
        sub = A[np.ix_(g, g)]
        b = bias[g].copy()
        c = cw[g]
        traj = [b.copy()]
        vs = []
        scale = None
        var = None
        it = 0
        allnan = False
        for _ in range(o["iters"]):
            it += 1
            u = b * c
            m = u * (sub @ u)
            nz = m[m != 0]
            if len(nz) == 0:
                allnan = True
                var = 0.0
                scale = float("nan")
                break
            mu = nz.mean()
            mm = m / mu
            mm[mm == 0] = 1
            b = b / mm
            traj.append(b.copy())
            var = float(((nz - mu) ** 2).mean())
            vs.append(var)
            scale = float(mu)
            if var < o["tol"]:
                break
        res = b.copy()
        if allnan:
            res[:] = np.nan
        else:
            res[res == 0] = np.nan
        out.append({"idx": g.tolist(), "bias": res, "scale": scale, "var": var, "iters": it, "vars": vs,
                    "traj": traj, "allnan": allnan})
    return out


def assemble(n, groups, rescale):
    w = np.full(n, np.nan)
    for g in groups:
        b = g["bias"].copy()
        if rescale and not g["allnan"]:
            b = b / math.sqrt(g["scale"])
        w[g["idx"]] = b
    return w


def near_tol(groups, tol, rel=1e-6):
    """some tested variance sits within rel of the tolerance: the iteration count is float-fragile"""
    for g in groups:
        for v in g["vars"]:
            if abs(v - tol) <= rel * tol:
                return True
    return False


def exact_sweep(A, u):
    """one exact sweep on Fractions: marginals m_i = u_i * sum_j A_ij u_j"""
    n = len(A)
    return [u[i] * sum(Fraction(A[i][j]) * u[j] for j in range(n)) for i in range(n)]


def rowsums_exact(A, w):
    """row sums of diag(w) A diag(w) with w given as floats (NaN -> excluded bin)"""
    n = len(A)
    wf = [None if (x != x) else Fraction(float(x)) for x in w]
    rs = []
    for i in range(n):
        if wf[i] is None:
            rs.append(None)
            continue
        rs.append(wf[i] * sum(Fraction(A[i][j]) * wf[j] for j in range(n) if wf[j] is not None))
    return rs


# -------------------------------------------------------------- implementation
class Timeout(Exception):
    pass


def _alarm(signum, frame):
    raise Timeout()


def with_limit(seconds, fn):
    old = signal.signal(signal.SIGALRM, _alarm)
    signal.setitimer(signal.ITIMER_REAL, seconds)
    try:
        return fn()
    except Timeout:
        return "timeout"
    except Exception as e:  # crash of the code under test is a result value
        return "error:" + type(e).__name__
    finally:
        signal.setitimer(signal.ITIMER_REAL, 0)
        signal.signal(signal.SIGALRM, old)


def call_balance(clr, o, chunksize, mapf, limit=60.0, **override):
    """balance_cooler through the public API; returns dict or 'timeout' / 'error:<Type>'.
    override: keyword arguments passed verbatim instead of the ones derived from o (e.g. ignore_diags=False,
    blacklist=[...] as a list, use_lock=True)"""
    import cooler

    def go():
        x0 = None
        if o["x0"] is not None:
            x0 = np.array([np.nan if v is None else v for v in o["x0"]], dtype=float)
        kw = dict(cis_only=o["cis"], trans_only=o["trans"], ignore_diags=o["diags"], mad_max=o["mad"],
                  min_nnz=o["nnz"], min_count=o["count"],
                  blacklist=None if o["black"] is None else np.array(o["black"], dtype=int),
                  rescale_marginals=o["rescale"], x0=x0, tol=o["tol"], max_iters=o["iters"],
                  chunksize=chunksize, map=mapf)
        kw.update(override)
        w, st = cooler.balance_cooler(clr, **kw)
        return {"w": np.array(w, dtype=float),
                "scale": np.atleast_1d(np.array(st["scale"], dtype=float)),
                "var": np.atleast_1d(np.array(st["var"], dtype=float)),
                "converged": [bool(x) for x in np.atleast_1d(st["converged"])]}
    return with_limit(limit, go)


# ------------------------------------------------------------------ Coq printers
def q_opt(v):
    return "None" if v is None else "(Some " + C.q(Fraction(v)) + ")"


def coq_opts(o, chunk, den=1):
    """den: common denominator of a float count table; the model runs on the integer numerators, so thresholds
    in count units are scaled: min_count * den (must be integral), tol * den^2"""
    o = dict(o)
    cnt = Fraction(o["count"]) * den
    assert cnt.denominator == 1, "min_count * den must be integral"
    o["count"] = int(cnt)
    o["tol"] = Fraction(o["tol"]) * den * den
    x0 = "None" if o["x0"] is None else "(Some " + C.lst([q_opt(v) for v in o["x0"]]) + ")"
    return ("(Build_opts " + " ".join([
        C.b(o["cis"]), C.b(o["trans"]), C.z(o["diags"]), C.z(o["mad"]), C.z(o["nnz"]), C.z(o["count"]),
        C.zl(o["black"] or []), C.q(Fraction(o["tol"])), C.nat(o["iters"]),
        "None" if chunk is None else "(Some " + C.z(chunk) + ")", x0]) + ")")


def model_den(o, pixels):
    """power of two making every count and the min_count threshold integral"""
    d = den_of(pixels)
    while (Fraction(o["count"]) * d).denominator != 1:
        d *= 2
        assert d <= 2 ** 12
    return d


def coq_px(pixels, den=None):
    den = den_of(pixels) if den is None else den
    return C.lst([C.tup(C.z(i), C.z(j), C.z(int(Fraction(c) * den))) for i, j, c in sorted(map(tuple, pixels))])


def coq_balance_args(o, per, pixels, chunk):
    n = sum(per)
    den = model_den(o, pixels)
    return (f"{coq_opts(o, chunk, den)} {C.nat(n)} {C.zl(chroms_of(per))} {C.zl(offsets_of(per))} "
            f"{coq_px(pixels, den)}")


def relclose(a, b, rel=1e-9, abs_=0.0):
    return abs(a - b) <= rel * max(abs(a), abs(b)) + abs_


def vec_close(w, ref, rel=1e-9):
    """NaN pattern exact, finite entries within rel"""
    if len(w) != len(ref):
        return False
    for a, b in zip(w, ref):
        an, bn = (a != a), (b != b)
        if an != bn:
            return False
        if not an and not relclose(float(a), float(b), rel):
            return False
    return True
