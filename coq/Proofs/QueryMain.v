(** C03 assembly: statements over [ValidCSR], the direct engine as a list, permutation with the symmetric
    completion, dense output, chunk-size independence, executable validity check, slice resolution. *)
From Cooler Require Import Model.Query Proofs.PixelsProofs Proofs.QueryProofs Proofs.SpansProofs.
From Coq Require Import Sorted Permutation ZifyBool.
Ltac Zify.zify_post_hook ::= Z.to_euclidean_division_equations.

Definition winP (bb : bbox) (r : ipixel) : bool := in_window bb (snd r).
Definition Upper (epx : list ipixel) : Prop := forall r, In r epx -> row (snd r) <= col (snd r).
Definition SpansOK (n : Z) (rows : list (list ipixel)) (spans : bbox -> list span) : Prop :=
  forall x0 x1 y0 y1, 0 <= x0 -> x0 <= x1 -> x1 <= n ->
    AdmissibleSpans rows x0 x1 (spans (x0, x1, y0, y1)) \/ (y1 <= y0 /\ spans (x0, x1, y0, y1) = []).

Lemma filter_nil_forall {A} (f : A -> bool) l : (forall x, In x l -> f x = false) -> filter f l = [].
Proof.
  induction l as [|a t IH]; intro H; [reflexivity|]. cbn [filter]. rewrite (H a (or_introl eq_refl)). apply IH.
  intros x Hx. apply H. now right.
Qed.

(** * the direct engine returns the stored records inside the window, in storage order *)
Section Direct.
Variables (n : Z) (rows : list (list ipixel)).
Hypothesis Hn : zlen rows = n.
Hypothesis Hlab : labelled_from 0 rows.
Let epx := concat rows.
Let off := psums 0 (map zlen rows).

Lemma direct_pairs i0 i1 j0 j1 : forall es e0, 0 <= e0 -> chain e0 es -> last es e0 <= n ->
  flat_map (fun sp => csr_reader epx off (i0, i1, j0, j1) sp false) (pairs_of_edges (e0 :: es)) =
  filter (colmask j0 j1) (seg rows e0 (last es e0)).
Proof.
  induction es as [|e1 es IH]; intros e0 H0 Hc Hl.
  - cbn [last]. change (pairs_of_edges [e0]) with (@nil span). cbn [flat_map]. now rewrite seg_empty.
  - destruct Hc as [Hc1 Hc2]. rewrite last_cons_default in Hl |- *.
    assert (Hcl := chain_last e1 es Hc2).
    replace (pairs_of_edges (e0 :: e1 :: es)) with ((e0, e1) :: pairs_of_edges (e1 :: es)) by reflexivity.
    cbn [flat_map]. rewrite (IH e1 ltac:(lia) Hc2 Hl).
    unfold epx, off. rewrite (reader_valid n rows Hn Hlab) by lia. cbv zeta.
    rewrite (seg_split rows e0 e1 (last es e1)) by lia. now rewrite filter_app.
Qed.

Lemma window_filter_seg i0 i1 j0 j1 : 0 <= i0 -> i0 <= i1 -> i1 <= n ->
  filter (winP (i0, i1, j0, j1)) epx = filter (colmask j0 j1) (seg rows i0 i1).
Proof.
  intros H0 H01 H1.
  assert (Hsp := rows_split3 rows (Z.to_nat i0) (Z.to_nat i1) ltac:(lia)).
  set (A := firstn (Z.to_nat i0) rows) in *. set (M := firstn (Z.to_nat i1 - Z.to_nat i0) (skipn (Z.to_nat i0) rows)) in *.
  set (T := skipn (Z.to_nat i1) rows) in *.
  assert (HsegM : seg rows i0 i1 = concat M). { unfold seg, slice, M. do 2 f_equal. lia. }
  assert (HlenA : zlen A = i0). { unfold zlen, A in *. rewrite firstn_length. lia. }
  assert (HlenM : zlen M = i1 - i0). { unfold zlen, M in *. rewrite firstn_length, skipn_length. lia. }
  pose proof Hlab as HL. rewrite Hsp in HL. apply labelled_app in HL. destruct HL as [HLA HL].
  apply labelled_app in HL. destruct HL as [HLM HLT].
  unfold epx. rewrite Hsp at 1. rewrite !concat_app, !filter_app, HsegM.
  rewrite (filter_nil_forall _ (concat A)), (filter_nil_forall _ (concat T)).
  - cbn [app]. rewrite app_nil_r. apply filter_ext_in. intros r Hr. apply (labelled_in _ M r HLM) in Hr.
    unfold winP, in_window, colmask. lia.
  - intros r Hr. apply (labelled_in _ T r HLT) in Hr. unfold winP, in_window. lia.
  - intros r Hr. apply (labelled_in _ A r HLA) in Hr. unfold winP, in_window. lia.
Qed.

Theorem direct_query_list spans i0 i1 j0 j1 : SpansOK n rows spans -> 0 <= i0 -> i0 <= i1 -> i1 <= n ->
  direct_query epx off spans (i0, i1, j0, j1) = filter (winP (i0, i1, j0, j1)) epx.
Proof.
  intros Hsp H0 H01 H1. unfold direct_query. rewrite window_filter_seg by lia.
  destruct (Hsp i0 i1 j0 j1 H0 H01 H1) as [[es [-> [Hc [Hl Ho]]]]|[Hy ->]].
  - assert (Hcl := chain_last i0 es Hc). rewrite (direct_pairs i0 i1 j0 j1 es i0 H0 Hc ltac:(lia)).
    rewrite (seg_split rows i0 (last es i0) i1) by lia.
    rewrite (seg_empty_off n rows Hn (last es i0) i1 ltac:(lia) Hl H1 Ho). now rewrite app_nil_r.
  - cbn [flat_map]. symmetry. apply filter_nil_forall. intros r _. unfold colmask. lia.
Qed.
End Direct.

(** * the symmetric completion as a list, and the fill-lower output as a permutation of its window *)
Definition offdiag (p : pixel) : bool := negb (row p =? col p).
Definition completion (P : list pixel) : list pixel := P ++ map flip (filter offdiag P).

Lemma flip_inj a b : flip a = flip b -> a = b.
Proof. intro H. rewrite <- (flip_flip a), <- (flip_flip b). now f_equal. Qed.
Lemma count_filter (f : pixel -> bool) l x :
  count_occ pixel_eq_dec (filter f l) x = if f x then count_occ pixel_eq_dec l x else 0%nat.
Proof.
  induction l as [|a t IH]; cbn [filter count_occ]; [now destruct (f x)|].
  destruct (f a) eqn:E; cbn [count_occ]; destruct (pixel_eq_dec a x) as [Heq|Hne]; rewrite IH; try reflexivity.
  - rewrite <- Heq, E. reflexivity.
  - rewrite <- Heq, E. reflexivity.
Qed.
Lemma count_map_flip l x : count_occ pixel_eq_dec (map flip l) x = count_occ pixel_eq_dec l (flip x).
Proof.
  induction l as [|a t IH]; cbn [map count_occ]; [reflexivity|].
  destruct (pixel_eq_dec (flip a) x) as [E|E], (pixel_eq_dec a (flip x)) as [E'|E']; rewrite IH; try reflexivity.
  - exfalso. apply E'. rewrite <- E. now rewrite flip_flip.
  - exfalso. apply E. rewrite E'. now rewrite flip_flip.
Qed.

Section Fill.
Variables (n : Z) (rows : list (list ipixel)).
Hypothesis Hn : zlen rows = n.
Hypothesis Hlab : labelled_from 0 rows.
Let epx := concat rows.
Let off := psums 0 (map zlen rows).
Variable spans : bbox -> list span.
Hypothesis Hspans : SpansOK n rows spans.
Hypothesis Hupper : Upper epx.

Theorem fill_lower_perm i0 i1 j0 j1 : 0 <= i0 -> i0 <= i1 -> i1 <= n -> 0 <= j0 -> j0 <= j1 -> j1 <= n ->
  exists out, fill_lower_query epx off spans (i0, i1, j0, j1) = Some out /\
    Permutation (map snd out) (filter (in_window (i0, i1, j0, j1)) (completion (map snd epx))).
Proof.
  intros. destruct (fill_lower_cnt n rows Hn Hlab spans Hspans Hupper i0 i1 j0 j1) as [out [Ho Hc]]; try assumption.
  exists out. split; [exact Ho|]. apply (Permutation_count_occ pixel_eq_dec). intro x.
  specialize (Hc x). unfold cnt in Hc. fold epx in Hc. rewrite Hc. unfold completion.
  rewrite count_filter, count_occ_app, count_map_flip, count_filter. unfold offdiag.
  destruct x as [[a b] v]. unfold flip, row, col; cbn [fst snd]. unfold in_window, row, col; cbn [fst snd].
  replace (b =? a) with (a =? b) by lia.
  destruct ((i0 <=? a) && (a <? i1) && (j0 <=? b) && (b <? j1)); cbn [andb]; [|reflexivity].
  destruct (negb (a =? b)); reflexivity.
Qed.
End Fill.

(** * dense output *)
Lemma look_filter_key (f : pixel -> bool) (g : key -> bool) l k : (forall p, f p = g (fst p)) ->
  look (filter f l) k = if g k then look l k else 0.
Proof.
  intro Hfg. induction l as [|[k' v] t IH]; cbn [filter look]; [now destruct (g k)|].
  rewrite Hfg. cbn [fst]. destruct (g k') eqn:E; cbn [look]; rewrite IH.
  - destruct (kcmp k k') eqn:Ek; destruct (g k) eqn:Eg; try lia. apply kcmp_eq in Ek. congruence.
  - destruct (kcmp k k') eqn:Ek; destruct (g k) eqn:Eg; try lia. apply kcmp_eq in Ek. congruence.
Qed.
Lemma kcmp_swap a b c d : kcmp (a, b) (c, d) = Eq <-> kcmp (b, a) (d, c) = Eq.
Proof. rewrite !kcmp_eq. split; intro H; inversion H; reflexivity. Qed.
Lemma look_map_flip l i j : look (map flip l) (i, j) = look l (j, i).
Proof.
  induction l as [|[[a b] v] t IH]; cbn [map look]; [reflexivity|]. unfold flip at 1, row, col, val; cbn [fst snd]. rewrite IH. f_equal.
  destruct (kcmp (i, j) (b, a)) eqn:E1, (kcmp (j, i) (a, b)) eqn:E2; try reflexivity.
  all: try (apply kcmp_swap in E1; congruence). all: try (apply kcmp_swap in E2; congruence).
Qed.
Lemma look_upper_zero (P : list pixel) i j : (forall p, In p P -> row p <= col p) -> j < i -> look P (i, j) = 0.
Proof.
  intros HU Hji. apply look_notin. intro Hin. apply in_map_iff in Hin. destruct Hin as [p [Hk Hp]].
  apply HU in Hp. destruct p as [[a b] v]. unfold row, col in Hp; cbn [fst snd] in *. inversion Hk; subst. lia.
Qed.

Lemma look_completion_window (P : list pixel) bb i j : (forall p, In p P -> row p <= col p) ->
  look (filter (in_window bb) (completion P)) (i, j) = if in_window bb ((i, j), 0) then symm P i j else 0.
Proof.
  intro HU. destruct bb as [[[i0 i1] j0] j1].
  rewrite (look_filter_key _ (fun k => in_window (i0, i1, j0, j1) (k, 0))) by (intros [[a b] v]; reflexivity).
  cbv beta. unfold pixel, key in *. destruct (in_window (i0, i1, j0, j1) (i, j, 0)); [|reflexivity].
  unfold completion. rewrite look_app, look_map_flip.
  rewrite (look_filter_key offdiag (fun k => negb (fst k =? snd k))) by (intros [[a b] v]; reflexivity). cbv beta. cbn [fst snd].
  unfold symm. destruct (i <=? j) eqn:E.
  - destruct (negb (j =? i)) eqn:E2; [|lia]. rewrite (look_upper_zero P j i HU) by lia. lia.
  - rewrite (look_upper_zero P i j HU) by lia. destruct (negb (j =? i)) eqn:E2; lia.
Qed.

Lemma dense_ext (out : list ipixel) bb (f : Z -> Z -> Z) : let '(i0, i1, j0, j1) := bb in
  (forall i j, i0 <= i < i1 -> j0 <= j < j1 -> look (map snd out) (i, j) = f i j) ->
  dense_of out bb = map (fun i => map (fun j => f i j) (zrange j0 (Z.to_nat (j1 - j0)))) (zrange i0 (Z.to_nat (i1 - i0))).
Proof.
  destruct bb as [[[i0 i1] j0] j1]. intro H. unfold dense_of.
  apply map_ext_in. intros i Hi. apply map_ext_in. intros j Hj. apply in_zrange in Hi, Hj. apply H; lia.
Qed.

(** * executable validity check: rows are recovered by filtering on the row id *)
Lemma list_eqb_eq {A} (eqb : A -> A -> bool) : (forall x y, eqb x y = true -> x = y) ->
  forall a b, list_eqb eqb a b = true -> a = b.
Proof.
  intro H. induction a as [|x a IH]; destruct b as [|y b]; cbn; intro E; try reflexivity; try discriminate.
  apply andb_prop in E. destruct E as [E1 E2]. f_equal; [now apply H|now apply IH].
Qed.
Lemma labelled_rows_of epx : forall m k, labelled_from k (map (fun i => filter (fun r => row (snd r) =? i) epx) (zrange k m)).
Proof.
  induction m as [|m IH]; intro k; [exact I|]. rewrite zrange_S. cbn [map labelled_from]. split; [|apply IH].
  apply Forall_forall. intros r Hr. apply filter_In in Hr. lia.
Qed.
Theorem valid_csr_b_sound n epx off : valid_csr_b n epx off = true -> ValidCSR n epx off.
Proof.
  unfold valid_csr_b. intro H. apply andb_prop in H. destruct H as [H H3]. apply andb_prop in H. destruct H as [H1 H2].
  exists (rows_of n epx). repeat split.
  - unfold rows_of, zlen, zrange. rewrite !map_length, seq_length. lia.
  - apply (list_eqb_eq ipixel_eqb); [|exact H2]. intros [i [[a b] v]] [i' [[a' b'] v']]. unfold ipixel_eqb, row, col, val; cbn [fst snd].
    intro E. assert (i = i' /\ a = a' /\ b = b' /\ v = v') as (-> & -> & -> & ->) by lia. reflexivity.
  - apply (list_eqb_eq Z.eqb); [|exact H3]. intros x y E. lia.
  - apply labelled_rows_of.
Qed.

(** * no coordinate is emitted twice *)
Lemma nodup_app {A} (a b : list A) : NoDup a -> NoDup b -> (forall x, In x a -> ~ In x b) -> NoDup (a ++ b).
Proof.
  induction a as [|x a IH]; intros Ha Hb Hd; [exact Hb|]. cbn [app]. inversion Ha; subst. constructor.
  - rewrite in_app_iff. intros [H|H]; [contradiction|]. exact (Hd x (or_introl eq_refl) H).
  - apply IH; [assumption|assumption|]. intros y Hy. apply Hd. now right.
Qed.
Lemma nodup_map_filter {A B} (f : A -> B) g l : NoDup (map f l) -> NoDup (map f (filter g l)).
Proof.
  induction l as [|a t IH]; intro H; [constructor|]. cbn [map] in H. inversion H; subst. cbn [filter].
  destruct (g a); [|now apply IH]. cbn [map]. constructor; [|now apply IH].
  intro Hin. apply in_map_iff in Hin. destruct Hin as [y [Hy Hy2]]. apply filter_In in Hy2.
  match goal with Hn : ~ In (f a) (map f t) |- _ => apply Hn end. apply in_map_iff. exists y. tauto.
Qed.
Definition kswap (k : key) : key := (snd k, fst k).
Lemma keys_map_flip l : keys (map flip l) = map kswap (keys l).
Proof. unfold keys. rewrite !map_map. apply map_ext. intros [[a b] v]. reflexivity. Qed.
Lemma nodup_map_kswap l : NoDup l -> NoDup (map kswap l).
Proof.
  induction l as [|k t IH]; intro H; [constructor|]. inversion H; subst. cbn [map]. constructor; [|now apply IH].
  intro Hin. apply in_map_iff in Hin. destruct Hin as [k' [E Hk']]. destruct k, k'; unfold kswap in E; cbn in E. inversion E; subst. contradiction.
Qed.
Lemma nodup_keys_completion (P : list pixel) : (forall p, In p P -> row p <= col p) -> NoDup (keys P) -> NoDup (keys (completion P)).
Proof.
  intros HU HN. unfold completion, keys. rewrite map_app. fold (keys P). fold (keys (map flip (filter offdiag P))).
  rewrite keys_map_flip. apply nodup_app; [exact HN| |].
  - apply nodup_map_kswap. unfold keys. now apply nodup_map_filter.
  - intros k Hk Hk2. apply in_map_iff in Hk. destruct Hk as [p [<- Hp]]. pose proof (HU p Hp) as Hle.
    apply in_map_iff in Hk2. destruct Hk2 as [k' [E Hk']]. apply in_map_iff in Hk'. destruct Hk' as [q [<- Hq]].
    apply filter_In in Hq. destruct Hq as [Hq Hod]. pose proof (HU q Hq) as Hle2.
    destruct p as [[a b] v], q as [[c d] w]. unfold kswap, offdiag, row, col in *; cbn [fst snd] in *. inversion E; subst. lia.
Qed.

(** * statements over ValidCSR, for the concrete get_spans and for every admissible cut function *)
Section Statements.
Variables (n : Z) (epx : list ipixel) (off : list Z).
Hypothesis HV : ValidCSR n epx off.
Variable cutsf : list Z -> list Z.
Hypothesis Hcuts : forall seq, StronglySorted Z.le seq -> seq <> [] -> AdmissibleCuts seq (cutsf seq).
Let P := map snd epx.

Theorem direct_query_spec i0 i1 j0 j1 : 0 <= i0 -> i0 <= i1 -> i1 <= n ->
  direct_query epx off (spans_with cutsf off) (i0, i1, j0, j1) = filter (winP (i0, i1, j0, j1)) epx.
Proof.
  destruct HV as [rows [Hn [-> [-> Hlab]]]]. intros.
  apply (direct_query_list n rows Hn Hlab); try assumption.
  intros x0 x1 y0 y1 ? ? ?. now apply (spans_with_admissible n rows cutsf Hn Hcuts).
Qed.

Theorem fill_lower_spec i0 i1 j0 j1 : Upper epx -> 0 <= i0 -> i0 <= i1 -> i1 <= n -> 0 <= j0 -> j0 <= j1 -> j1 <= n ->
  exists out, fill_lower_query epx off (spans_with cutsf off) (i0, i1, j0, j1) = Some out /\
    Permutation (map snd out) (filter (in_window (i0, i1, j0, j1)) (completion P)).
Proof.
  destruct HV as [rows [Hn [-> [-> Hlab]]]]. intros.
  apply (fill_lower_perm n rows Hn Hlab); try assumption.
  intros x0 x1 y0 y1 ? ? ?. now apply (spans_with_admissible n rows cutsf Hn Hcuts).
Qed.

Theorem fill_lower_in i0 i1 j0 j1 : Upper epx -> 0 <= i0 -> i0 <= i1 -> i1 <= n -> 0 <= j0 -> j0 <= j1 -> j1 <= n ->
  exists out, fill_lower_query epx off (spans_with cutsf off) (i0, i1, j0, j1) = Some out /\
    forall x, In x (map snd out) <->
      (In x P \/ (row x <> col x /\ In (flip x) P)) /\ in_window (i0, i1, j0, j1) x = true.
Proof.
  intros HU ? ? ? ? ? ?. destruct (fill_lower_spec i0 i1 j0 j1) as [out [Ho Hp]]; try assumption.
  exists out. split; [exact Ho|]. intro x.
  assert (Hiff : In x (map snd out) <-> In x (filter (in_window (i0, i1, j0, j1)) (completion P))).
  { split; intro Hin; [eapply Permutation_in; eauto|eapply Permutation_in; [apply Permutation_sym; eauto|exact Hin]]. }
  rewrite Hiff, filter_In. unfold completion. rewrite in_app_iff, in_map_iff.
  split.
  - intros [[Hx|[y [Hy Hy2]]] Hw]; (split; [|exact Hw]); [now left|].
    apply filter_In in Hy2. destruct Hy2 as [Hy2 Hod]. right. subst x. rewrite flip_flip. split; [|exact Hy2].
    destruct y as [[a b] v]. unfold offdiag, flip, row, col in *; cbn [fst snd] in *. lia.
  - intros [[Hx|[Hne Hx]] Hw]; (split; [|exact Hw]); [now left|]. right. exists (flip x). rewrite flip_flip. split; [reflexivity|].
    apply filter_In. split; [exact Hx|]. destruct x as [[a b] v]. unfold offdiag, flip, row, col in *; cbn [fst snd] in *. lia.
Qed.

Theorem fill_lower_nodup i0 i1 j0 j1 : Upper epx -> NoDup (keys P) -> 0 <= i0 -> i0 <= i1 -> i1 <= n -> 0 <= j0 -> j0 <= j1 -> j1 <= n ->
  exists out, fill_lower_query epx off (spans_with cutsf off) (i0, i1, j0, j1) = Some out /\ NoDup (keys (map snd out)).
Proof.
  intros HU HN ? ? ? ? ? ?. destruct (fill_lower_spec i0 i1 j0 j1) as [out [Ho Hp]]; try assumption.
  exists out. split; [exact Ho|]. eapply Permutation_NoDup; [apply Permutation_sym, Permutation_map, Hp|].
  apply nodup_map_filter. apply nodup_keys_completion; [|exact HN].
  intros p Hp'. apply in_map_iff in Hp'. destruct Hp' as [r [<- Hr]]. now apply HU.
Qed.

Theorem dense_eq_slice i0 i1 j0 j1 : Upper epx -> 0 <= i0 -> i0 <= i1 -> i1 <= n -> 0 <= j0 -> j0 <= j1 -> j1 <= n ->
  exists out, fill_lower_query epx off (spans_with cutsf off) (i0, i1, j0, j1) = Some out /\
    dense_of out (i0, i1, j0, j1) =
    map (fun i => map (fun j => symm P i j) (zrange j0 (Z.to_nat (j1 - j0)))) (zrange i0 (Z.to_nat (i1 - i0))).
Proof.
  intros HU ? ? ? ? ? ?. destruct (fill_lower_spec i0 i1 j0 j1) as [out [Ho Hp]]; try assumption.
  exists out. split; [exact Ho|]. apply (dense_ext out (i0, i1, j0, j1)). intros i j Hi Hj.
  rewrite (look_perm _ _ (i, j) Hp). rewrite look_completion_window.
  - unfold in_window, row, col; cbn [fst snd]. replace ((i0 <=? i) && (i <? i1) && (j0 <=? j) && (j <? j1)) with true by lia. reflexivity.
  - intros p Hp'. apply in_map_iff in Hp'. destruct Hp' as [r [<- Hr]]. now apply HU.
Qed.

Theorem dense_direct i0 i1 j0 j1 : 0 <= i0 -> i0 <= i1 -> i1 <= n ->
  dense_of (direct_query epx off (spans_with cutsf off) (i0, i1, j0, j1)) (i0, i1, j0, j1) =
  map (fun i => map (fun j => look P (i, j)) (zrange j0 (Z.to_nat (j1 - j0)))) (zrange i0 (Z.to_nat (i1 - i0))).
Proof.
  intros. rewrite direct_query_spec by assumption. apply (dense_ext _ (i0, i1, j0, j1)). intros i j Hi Hj.
  assert (E : map snd (filter (winP (i0, i1, j0, j1)) epx) = filter (in_window (i0, i1, j0, j1)) P).
  { unfold P, winP. clear. induction epx as [|r t IH]; [reflexivity|]. cbn [filter map]. destruct (in_window _ (snd r)); cbn [map]; now rewrite IH. }
  rewrite E. rewrite (look_filter_key _ (fun k => in_window (i0, i1, j0, j1) (k, 0))) by (intros [[a b] v]; reflexivity).
  cbv beta. unfold in_window, row, col; cbn [fst snd]. replace ((i0 <=? i) && (i <? i1) && (j0 <=? j) && (j <? j1)) with true by lia. reflexivity.
Qed.
End Statements.

(** * instances for the concrete get_spans (every chunk size >= 1) and chunk-size independence *)
Lemma direct_query_ext epx off s1 s2 bb : (forall b, s1 b = s2 b) -> direct_query epx off s1 bb = direct_query epx off s2 bb.
Proof. intro H. unfold direct_query. now rewrite H. Qed.
Lemma fill_lower_query_ext epx off s1 s2 bb : (forall b, s1 b = s2 b) -> fill_lower_query epx off s1 bb = fill_lower_query epx off s2 bb.
Proof.
  intro H. unfold fill_lower_query. destruct (fill_lower_plan bb) as [tasks|]; [|reflexivity]. f_equal.
  apply flat_map_ext. intros [tr b]. unfold run_task. cbn [fst snd]. now rewrite H.
Qed.
Lemma linspace_cuts_ok cs : 1 <= cs -> forall seq, StronglySorted Z.le seq -> seq <> [] -> AdmissibleCuts seq (linspace_cuts cs seq).
Proof. intros Hcs seq Hs Hne. now apply linspace_admissible. Qed.

Theorem direct_query_get_spans n epx off cs i0 i1 j0 j1 : ValidCSR n epx off -> 1 <= cs -> 0 <= i0 -> i0 <= i1 -> i1 <= n ->
  direct_query epx off (get_spans off cs) (i0, i1, j0, j1) = filter (winP (i0, i1, j0, j1)) epx.
Proof.
  intros HV Hcs ? ? ?. rewrite (direct_query_ext _ _ _ (spans_with (linspace_cuts cs) off)) by (intro; apply get_spans_eq).
  apply (direct_query_spec n epx off HV _ (linspace_cuts_ok cs Hcs)); assumption.
Qed.
(** one generic transfer: whatever holds of the output for the admissible cut function linspace_cuts holds for get_spans *)
Lemma fill_lower_get_spans_eq epx off cs bb :
  fill_lower_query epx off (get_spans off cs) bb = fill_lower_query epx off (spans_with (linspace_cuts cs) off) bb.
Proof. apply fill_lower_query_ext. intro; apply get_spans_eq. Qed.

Theorem fill_lower_get_spans n epx off cs i0 i1 j0 j1 : ValidCSR n epx off -> Upper epx -> 1 <= cs ->
  0 <= i0 -> i0 <= i1 -> i1 <= n -> 0 <= j0 -> j0 <= j1 -> j1 <= n ->
  exists out, fill_lower_query epx off (get_spans off cs) (i0, i1, j0, j1) = Some out /\
    Permutation (map snd out) (filter (in_window (i0, i1, j0, j1)) (completion (map snd epx))).
Proof.
  intros HV HU Hcs ? ? ? ? ? ?. rewrite fill_lower_get_spans_eq.
  apply (fill_lower_spec n epx off HV _ (linspace_cuts_ok cs Hcs)); assumption.
Qed.

(** the result does not depend on the read chunk size *)
Theorem direct_chunksize_independent n epx off c1 c2 i0 i1 j0 j1 : ValidCSR n epx off -> 1 <= c1 -> 1 <= c2 ->
  0 <= i0 -> i0 <= i1 -> i1 <= n ->
  direct_query epx off (get_spans off c1) (i0, i1, j0, j1) = direct_query epx off (get_spans off c2) (i0, i1, j0, j1).
Proof. intros. rewrite !(direct_query_get_spans n) by assumption. reflexivity. Qed.

Theorem fill_lower_chunksize_independent n epx off c1 c2 i0 i1 j0 j1 : ValidCSR n epx off -> Upper epx -> 1 <= c1 -> 1 <= c2 ->
  0 <= i0 -> i0 <= i1 -> i1 <= n -> 0 <= j0 -> j0 <= j1 -> j1 <= n ->
  exists o1 o2, fill_lower_query epx off (get_spans off c1) (i0, i1, j0, j1) = Some o1 /\
                fill_lower_query epx off (get_spans off c2) (i0, i1, j0, j1) = Some o2 /\
                Permutation (map snd o1) (map snd o2) /\
                dense_of o1 (i0, i1, j0, j1) = dense_of o2 (i0, i1, j0, j1).
Proof.
  intros HV HU H1 H2 ? ? ? ? ? ?.
  destruct (fill_lower_get_spans n epx off c1 i0 i1 j0 j1) as [o1 [E1 P1]]; try assumption.
  destruct (fill_lower_get_spans n epx off c2 i0 i1 j0 j1) as [o2 [E2 P2]]; try assumption.
  exists o1, o2. repeat split; try assumption.
  - eapply Permutation_trans; [exact P1|]. apply Permutation_sym. exact P2.
  - unfold dense_of. apply map_ext. intro i. apply map_ext. intro j.
    rewrite (look_perm _ _ (i, j) P1), (look_perm _ _ (i, j) P2). reflexivity.
Qed.

(** * slice resolution (_IndexingMixin._process_slice) *)
Theorem process_slice_spec start stop nmax : 0 <= nmax ->
  (forall a, start = Some a -> - nmax <= a <= nmax) -> (forall b, stop = Some b -> - nmax <= b <= nmax) ->
  let '(i0, i1) := process_slice start stop nmax in
  0 <= i0 <= nmax /\ 0 <= i1 <= nmax /\
  i0 = match start with None => 0 | Some a => a mod nmax + (if a =? nmax then nmax else 0) end /\
  i1 = match stop with None => nmax | Some b => b mod nmax + (if b =? nmax then nmax else 0) end.
Proof.
  intros Hn Ha Hb. unfold process_slice.
  destruct start as [a|], stop as [b|]; try specialize (Ha _ eq_refl); try specialize (Hb _ eq_refl);
  repeat match goal with |- context [if ?c then _ else _] => destruct c eqn:? end;
  repeat split; try lia.
  all: try (destruct (Z.eq_dec nmax 0) as [->|Hz]; [rewrite ?Zmod_0_r; lia|]).
  all: try (rewrite <- (Z.mod_add a 1 nmax) by lia; rewrite Z.mod_small; lia).
  all: try (rewrite <- (Z.mod_add b 1 nmax) by lia; rewrite Z.mod_small; lia).
  all: try (rewrite Z.mod_small; lia).
  all: try (assert (a = nmax) by lia; subst a; rewrite Z.mod_same by lia; lia).
  all: try (assert (b = nmax) by lia; subst b; rewrite Z.mod_same by lia; lia).
Qed.
Theorem process_scalar_spec s nmax : 0 < nmax ->
  (- nmax <= s < nmax -> process_scalar s nmax = Some (s mod nmax, s mod nmax + 1)) /\
  (nmax <= s -> process_scalar s nmax = None).
Proof.
  intro Hn. unfold process_scalar. split; intro H.
  - destruct (s <? 0) eqn:E.
    + replace (s + nmax <? 0) with false by lia. replace (s + nmax >=? nmax) with false by lia. cbn [orb].
      rewrite <- (Z.mod_add s 1 nmax) by lia. rewrite Z.mod_small by lia. do 2 f_equal; lia.
    + rewrite E. replace (s >=? nmax) with false by lia. cbn [orb]. rewrite Z.mod_small by lia. reflexivity.
  - assert (E : (s <? 0) = false) by lia. rewrite !E. replace (s >=? nmax) with true by lia. reflexivity.
Qed.
(** a scalar outside [-n, n) on either side is refused (the lower side was defect D33) *)
Theorem process_scalar_refuses s nmax : 0 <= nmax -> (s < - nmax \/ nmax <= s) -> process_scalar s nmax = None.
Proof.
  intros Hn H. unfold process_scalar. destruct (s <? 0) eqn:E.
  - destruct H as [H|H]; [|lia]. replace (s + nmax <? 0) with true by lia. reflexivity.
  - rewrite E. replace (s >=? nmax) with true by lia. reflexivity.
Qed.
(** every bound up to the length, however negative, is resolved as an array resolves it *)
Theorem process_slice_array_semantics start stop nmax : 0 <= nmax ->
  (forall a, start = Some a -> a <= nmax) -> (forall b, stop = Some b -> b <= nmax) ->
  process_slice start stop nmax =
  (match start with None => 0 | Some a => array_bound a nmax end, match stop with None => nmax | Some b => array_bound b nmax end).
Proof.
  intros Hn Ha Hb. unfold process_slice, array_bound.
  destruct start as [a|], stop as [b|]; try specialize (Ha _ eq_refl); try specialize (Hb _ eq_refl);
  repeat match goal with |- context [if ?c then _ else _] => destruct c eqn:? end; f_equal; lia.
Qed.
