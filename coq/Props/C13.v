(** C13  Invalid input or a failed write never yields a cooler nor harms its neighbours.
    Only statements; proofs in Proofs/CreateProofs.v.  Model: Model/Create.v (validate_pixels; create() as a step
    machine  [open(mode); clear/make target; write chroms; write bins; prepare pixels; chunk_0 .. chunk_m;
    write indexes; write info]  over a path -> {format attribute, content id} file model). *)
From Cooler Require Import Model.Create Proofs.PixelsProofs Proofs.CreateProofs.

(** validator_complete: with the default checks (boundscheck, dupcheck on; triucheck effective in symmetric mode)
    a chunk of ANY size holding, at any position, an id < 0 or >= n, a lower-triangle pixel, or two records
    with the same key is rejected *)
Theorem C13_validator_complete :
  forall (V : Type) (n : Z) (tc es : bool) (c : list (key * V)),
  (exists r, In r c /\ bad_id n r) \/
  (tc = true /\ exists r, In r c /\ snd (fst r) < fst (fst r)) \/
  ~ NoDup (map fst c) ->
  exists e, validate_pixels n true tc true es c = inl e.
Proof. exact @validator_complete. Qed.
Print Assumptions C13_validator_complete.

(** ... and only such chunks are rejected: acceptance is exactly the conjunction of the enabled checks *)
Theorem C13_validator_exact :
  forall (V : Type) (n : Z) (bc tc dc es : bool) (c : list (key * V)),
  (exists c', validate_pixels n bc tc dc es c = inr c') <-> chunk_ok n bc tc dc c.
Proof. exact @validate_ok_iff. Qed.
Print Assumptions C13_validator_exact.

(** failed_create_not_cooler: for every mode, destination, stream outcome list and file: if create() stops before
    its end (a failing iteration at ANY chunk index), no path is recognised as a cooler that was not one before;
    so a destination that held no cooler is neither recognised nor listed afterwards *)
Theorem C13_failed_create_no_new_cooler :
  forall (m : mode) (dest : path) (oks : list bool) (f f' : file),
  run dest (create_steps m oks) f = (f', false) ->
  forall p, is_cooler f' p = true -> is_cooler f p = true.
Proof. exact failed_create_no_new_cooler. Qed.
Print Assumptions C13_failed_create_no_new_cooler.

Theorem C13_failed_create_not_cooler :
  forall (m : mode) (dest : path) (oks : list bool) (f f' : file),
  is_cooler f dest = false ->
  run dest (create_steps m oks) f = (f', false) ->
  is_cooler f' dest = false /\ ~ In dest (list_coolers f').
Proof. exact failed_create_not_cooler. Qed.
Print Assumptions C13_failed_create_not_cooler.

(** the same when execution simply stops between two steps (any proper prefix of the step list):
    "format" is written only by the last step *)
Theorem C13_crashed_create_not_cooler :
  forall (m : mode) (dest : path) (oks : list bool) (f : file) (k : nat),
  (k < length (create_steps m oks))%nat ->
  forall p, is_cooler (fst (run dest (firstn k (create_steps m oks)) f)) p = true -> is_cooler f p = true.
Proof. exact crashed_create_not_cooler. Qed.
Print Assumptions C13_crashed_create_not_cooler.

(** failed_create_frame: in append mode every group that existed and is not the destination or below it (root
    destination: every group but the root) is unchanged, after a complete run and after any prefix of it *)
Theorem C13_failed_create_frame :
  forall (dest : path) (oks : list bool) (f : file) (k : nat) (p : path) (g : group),
  untouched dest p -> lookup f p = Some g ->
  lookup (fst (run dest (create_steps ModeA oks) f)) p = Some g /\
  lookup (fst (run dest (firstn k (create_steps ModeA oks)) f)) p = Some g.
Proof. exact failed_create_frame. Qed.
Print Assumptions C13_failed_create_frame.

(** listing = recognition *)
Theorem C13_list_coolers_spec : forall f p, In p (list_coolers f) <-> is_cooler f p = true.
Proof. exact list_coolers_spec. Qed.
Print Assumptions C13_list_coolers_spec.

(** the property at the level of input streams (ordered creation): any stream holding a bad chunk or a raising
    point of the iterator at any position *)
Theorem C13_invalid_stream_no_cooler :
  forall (V : Type) (m : mode) (dest : path) (n : Z) (tc es : bool) (fits : key * V -> bool)
         (items : list (option (list (key * V)))) (f : file),
  (exists it, In it items /\ bad_item n tc it) ->
  let '(f', ok) := create_machine m dest (validate_pixels n true tc true es) fits items f in
  ok = false /\
  (forall p, is_cooler f' p = true -> is_cooler f p = true) /\
  (is_cooler f dest = false -> is_cooler f' dest = false /\ ~ In dest (list_coolers f')) /\
  (m = ModeA -> forall p g, untouched dest p -> lookup f p = Some g -> lookup f' p = Some g).
Proof. exact @invalid_stream_no_cooler. Qed.
Print Assumptions C13_invalid_stream_no_cooler.

(** unordered creation: the failure is in the sort pass; the destination file is not touched *)
Theorem C13_invalid_stream_unordered_untouched :
  forall (V : Type) (m : mode) (dest : path) (n : Z) (tc es : bool) (fits : key * V -> bool)
         (items : list (option (list (key * V)))) (f : file),
  (exists it, In it items /\ bad_item n tc it) ->
  create_unordered_machine m dest (validate_pixels n true tc true es) fits items f = (f, false).
Proof. exact @invalid_stream_unordered_untouched. Qed.
Print Assumptions C13_invalid_stream_unordered_untouched.

(** sanity: a run that completes does produce a cooler (the machine is not trivially "never a cooler") *)
Theorem C13_completed_create_is_cooler :
  forall (m : mode) (dest : path) (oks : list bool) (f f' : file),
  run dest (create_steps m oks) f = (f', true) -> is_cooler f' dest = true.
Proof. exact completed_create_is_cooler. Qed.
Print Assumptions C13_completed_create_is_cooler.

(** every run whose iterations all succeed completes, whatever the file, mode and destination *)
Theorem C13_run_completes :
  forall (m : mode) (dest : path) (oks : list bool) (f : file),
  forallb (fun b => b) oks = true -> snd (run dest (create_steps m oks) f) = true.
Proof. exact run_completes. Qed.
Print Assumptions C13_run_completes.

(** the step machine and the functional model of create (the one C01's round-trip theorems are about) agree on
    which streams are accepted: so "creation stops" in this file means exactly "create returns an error" there *)
Theorem C13_machine_completes_iff_create_ok :
  forall (V : Type) (dflt : key * V) (fits : key * V -> bool) (count : option (key * V -> Z))
         (m : mode) (dest : path) (n : Z) (su tc es : bool) (chunks : list (list (key * V))) (f : file),
  zlen (concat chunks) <= max_size n su ->
  (snd (create_machine m dest (validate_pixels n true (tc && su) true es) fits (map Some chunks) f) = true
   <-> exists c, create dflt fits count n su true tc true es chunks = inr c).
Proof. exact @machine_completes_iff_create_ok. Qed.
Print Assumptions C13_machine_completes_iff_create_ok.

(** non-vacuity: a file with two collections /1 (cooler) and /2 (cooler) and a plain group /3; destination /3/7 *)
Definition ex_file : file :=
  [([], {| g_format := false; g_content := 10 |}); ([1], {| g_format := true; g_content := 11 |});
   ([2], {| g_format := true; g_content := 12 |}); ([3], {| g_format := false; g_content := 13 |})].
Example ex_C13_failed_run :
  let r := run [3; 7] (create_steps ModeA [true; false; true]) ex_file in
  snd r = false /\ is_cooler (fst r) [3; 7] = false /\ lookup (fst r) [3; 7] <> None /\
  list_coolers (fst r) = [[1]; [2]] /\ lookup (fst r) [1] = lookup ex_file [1] /\ lookup (fst r) [3] = lookup ex_file [3].
Proof. vm_compute. repeat split; discriminate. Qed.
Example ex_C13_completed_run :
  let r := run [3; 7] (create_steps ModeA [true; true]) ex_file in
  snd r = true /\ is_cooler (fst r) [3; 7] = true /\ In [3; 7] (list_coolers (fst r)).
Proof. vm_compute. repeat split. auto. Qed.
Example ex_C13_validator :
  validate_pixels 3 true true true false [((0,1),5); ((2,1),7)] = inl ErrTril /\
  validate_pixels 3 true true true false [((0,1),5); ((0,3),7)] = inl ErrExcess /\
  validate_pixels 3 true true true false [((0,1),5); ((1,1),1); ((0,1),7)] = inl ErrDup /\
  validate_pixels 3 true true true false [((0,1),5); ((1,1),1)] = inr [((0,1),5); ((1,1),1)].
Proof. vm_compute. repeat split. Qed.

(** ---- tie to the source by translation: the per-record predicates of _ingest._validate_pixels (negative id, id beyond
    the bin table, lower-triangle pixel) are regenerated from the source on every run (tools/py2v.py -> Gen.vp_is_neg,
    Gen.vp_is_excess, Gen.vp_is_tril) and the model's validator is exactly the cascade over them; the order of the checks,
    the flag guarding each, the NaN test (D36), the duplicate test and the optional sort are pinned, as are the validator
    chaining in create() and the fit check / store statements of write_pixels. *)
From Cooler Require Import Gen.Translated Proofs.GenBridgeCreate.
Theorem C13_source_validator_is_model : forall (V : Type) n bc tc dc es (c : list (key * V)),
  validate_pixels n bc tc dc es c =
  if bc && existsb (fun r => Gen.vp_is_neg (fst (fst r)) (snd (fst r))) c then inl ErrNeg
  else if bc && existsb (fun r => Gen.vp_is_excess (fst (fst r)) (snd (fst r)) n) c then inl ErrExcess
  else if tc && existsb (fun r => Gen.vp_is_tril (fst (fst r)) (snd (fst r))) c then inl ErrTril
  else if dc && has_dup c then inl ErrDup
  else inr (if es then sort_rows c else c).
Proof. intros. apply gen_validate_pixels. Qed.
Print Assumptions C13_source_validator_is_model.
Theorem C13_source_pins : Gen.validate_pixels_source_pins = true /\ Gen.create_write_source_pins = true.
Proof. exact gen_validate_pins. Qed.
Print Assumptions C13_source_pins.
