(** Bridge between the regenerated text of util.partition / the pinned span statements of _balance.py
    (coq/Gen/Translated.v, tools/py2v.py) and the balancing model. *)
From Cooler Require Import Model.Balance Gen.Translated.

Lemma gen_partition : forall start stop step, Gen.partition start stop step = partition start stop step.
Proof. intros. unfold Gen.partition, partition, Gen.py_range, arange, cdiv. reflexivity. Qed.

Lemma gen_balance_pins : Gen.balance_span_pins = true.
Proof. reflexivity. Qed.
