"""Coq literal printing, term parsing and batch evaluation of the Gallina model.

The model is executed with ``Eval vm_compute`` inside coqc: the harness writes
``cases_<k>.v`` shards holding the same inputs the implementation ran on, one
``Eval`` per case, with the printing width and depth raised so that every
result is one line.  Results are parsed by a small recursive-descent parser of
the term grammar Coq prints for Z/nat/bool/string/option/list/tuple/record and
applied constructors.
"""
from __future__ import annotations

import os
import re
import subprocess
import tempfile
from concurrent.futures import ThreadPoolExecutor
from fractions import Fraction
from pathlib import Path

VERIF = Path(__file__).resolve().parent.parent
COQDIR = VERIF / "coq"


# ----------------------------------------------------------------- printing
def z(n) -> str:
    n = int(n)
    return f"({n})%Z" if n < 0 else f"{n}%Z"


def nat(n) -> str:
    n = int(n)
    assert 0 <= n < 5000, "nat literal too large"
    return f"{n}%nat"


def b(x) -> str:
    return "true" if x else "false"


def s(x: str) -> str:
    """Coq string literal (ASCII only; bytes >127 are refused)."""
    out = []
    for ch in x:
        o = ord(ch)
        if o > 126 or (o < 32 and ch not in "\t\n"):
            raise ValueError(f"non-printable/non-ASCII char {o} in model string")
        out.append('""' if ch == '"' else ch)
    return '"' + "".join(out) + '"%string'


def lst(items, f=None) -> str:
    items = list(items)
    if f is not None:
        items = [f(i) for i in items]
    return "[" + "; ".join(items) + "]"


def tup(*items) -> str:
    return "(" + ", ".join(items) + ")"


def opt(x, f=None) -> str:
    if x is None:
        return "None"
    return "(Some " + (f(x) if f else x) + ")"


def zl(xs) -> str:
    return lst(xs, z)


def q(x) -> str:
    """Coq Q literal from a Fraction / int."""
    fr = Fraction(x)
    return f"(Qmake ({fr.numerator})%Z {fr.denominator}%positive)"


# ------------------------------------------------------------------ parsing
_TOK = re.compile(
    r"""\s*(?:
      (?P<str>"(?:[^"]|"")*")
    | (?P<num>-?\d+)
    | (?P<recopen>\{\|)
    | (?P<recclose>\|\})
    | (?P<assign>:=)
    | (?P<punct>[\[\]\(\);,\#])
    | (?P<scope>%[A-Za-z_]+)
    | (?P<id>[A-Za-z_][A-Za-z0-9_'.]*)
    | (?P<minus>-)
    )""",
    re.X,
)


class CoqParseError(Exception):
    pass


def _tokens(text: str):
    pos = 0
    n = len(text)
    toks = []
    while pos < n:
        m = _TOK.match(text, pos)
        if not m:
            if text[pos:].strip() == "":
                break
            raise CoqParseError(f"cannot tokenize at {text[pos:pos+40]!r}")
        pos = m.end()
        kind = m.lastgroup
        if kind == "scope":
            continue
        toks.append((kind, m.group(kind)))
    return toks


class _P:
    def __init__(self, toks):
        self.t = toks
        self.i = 0

    def peek(self):
        return self.t[self.i] if self.i < len(self.t) else (None, None)

    def next(self):
        tok = self.peek()
        self.i += 1
        return tok

    def expect(self, val):
        k, v = self.next()
        if v != val:
            raise CoqParseError(f"expected {val!r}, got {v!r}")

    # term := app ('#' app)?
    def term(self):
        left = self.app()
        k, v = self.peek()
        if v == "#":
            self.next()
            right = self.app()
            return Fraction(left, right)
        return left

    def app(self):
        k, v = self.peek()
        if k == "id" and v not in ("true", "false", "None", "tt", "nil"):
            self.next()
            args = []
            while self._starts_atom():
                args.append(self.atom())
            if v == "Some":
                return ("Some", args[0])
            if not args:
                return ("C", v)
            return ("C", v, *args)
        return self.atom()

    def _starts_atom(self):
        k, v = self.peek()
        if k in ("str", "num", "recopen", "id"):
            return True
        return v in ("[", "(")

    def atom(self):
        k, v = self.next()
        if k == "num":
            return int(v)
        if k == "minus":
            k2, v2 = self.next()
            return -int(v2)
        if k == "str":
            return v[1:-1].replace('""', '"')
        if k == "id":
            if v == "true":
                return True
            if v == "false":
                return False
            if v == "None":
                return None
            if v == "tt":
                return ()
            if v == "nil":
                return []
            return ("C", v)
        if v == "[":
            items = []
            if self.peek()[1] == "]":
                self.next()
                return items
            while True:
                items.append(self.term())
                k2, v2 = self.next()
                if v2 == "]":
                    return items
                if v2 != ";":
                    raise CoqParseError(f"list: unexpected {v2!r}")
        if v == "(":
            items = [self.term()]
            while True:
                k2, v2 = self.next()
                if v2 == ")":
                    break
                if v2 != ",":
                    raise CoqParseError(f"tuple: unexpected {v2!r}")
                items.append(self.term())
            return items[0] if len(items) == 1 else tuple(items)
        if k == "recopen":
            d = {}
            while True:
                k2, name = self.next()
                self.expect(":=")
                d[name] = self.term()
                k3, v3 = self.next()
                if k3 == "recclose":
                    return d
                if v3 != ";":
                    raise CoqParseError(f"record: unexpected {v3!r}")
        raise CoqParseError(f"unexpected token {v!r}")


def parse_term(text: str):
    p = _P(_tokens(text))
    val = p.term()
    if p.i != len(p.t):
        raise CoqParseError(f"trailing tokens: {p.t[p.i:p.i+5]}")
    return val


def flatten_tuple(t):
    """Coq prints nested pairs ((a,b),c) as (a, b, c) already; helper kept for
    callers that want lists."""
    return list(t) if isinstance(t, tuple) else [t]


# --------------------------------------------------------------- evaluation
class ModelEvalError(Exception):
    pass


_HEADER = """Set Printing Width 10000000.
Set Printing Depth 10000000.
From Coq Require Import ZArith List String QArith.
Import ListNotations.
Open Scope Z_scope.
"""

_RES = re.compile(r"^\s+= ", re.M)


def _run_shard(path: Path, timeout: int):
    cmd = ["coqc", "-q", "-Q", str(COQDIR), "Cooler", "-o",
           str(path.with_suffix(".vo")), str(path)]
    try:
        pr = subprocess.run(cmd, capture_output=True, text=True, timeout=timeout,
                            cwd=str(path.parent))
    except subprocess.TimeoutExpired:
        raise ModelEvalError(f"coqc timed out on {path.name}")
    if pr.returncode != 0:
        raise ModelEvalError(f"coqc failed on {path.name}:\n{pr.stderr[-2000:]}")
    out = pr.stdout
    parts = _RES.split(out)[1:]
    vals = []
    for part in parts:
        # strip the trailing "     : type" annotation (last occurrence)
        idx = part.rfind("\n     : ")
        body = part[:idx] if idx >= 0 else part
        vals.append(parse_term(body.strip()))
    return vals


def coq_eval(imports: str, exprs, preamble: str = "", shard: int = 250,
             jobs: int = 16, timeout: int = 600, tmpdir=None):
    """Evaluate each Gallina expression with vm_compute; returns python values.

    imports : e.g. "From Cooler Require Import Model.Bins."
    preamble: extra Definitions shared by all cases (per shard).
    """
    exprs = list(exprs)
    if not exprs:
        return []
    own = tmpdir is None
    td = Path(tempfile.mkdtemp(prefix="cases_")) if own else Path(tmpdir)
    td.mkdir(parents=True, exist_ok=True)
    try:
        shards = []
        tag = os.urandom(4).hex()
        for k in range(0, len(exprs), shard):
            p = td / f"cases_{tag}_{k // shard}.v"
            with open(p, "w") as f:
                f.write(_HEADER)
                f.write(imports + "\n")
                f.write(preamble + "\n")
                for e in exprs[k:k + shard]:
                    f.write(f"Eval vm_compute in ({e}).\n")
            shards.append((p, min(shard, len(exprs) - k)))
        with ThreadPoolExecutor(max_workers=jobs) as ex:
            results = list(ex.map(lambda a: _run_shard(a[0], timeout), shards))
        out = []
        for (p, n), vals in zip(shards, results):
            if len(vals) != n:
                raise ModelEvalError(
                    f"{p.name}: expected {n} results, parsed {len(vals)}")
            out.extend(vals)
        return out
    finally:
        if own:
            import shutil
            shutil.rmtree(td, ignore_errors=True)
