import warnings; warnings.filterwarnings("ignore")
import numpy as np, pandas as pd, cooler, h5py, os, subprocess, sys
env={**os.environ,"PYTHONPATH":"/repo/src"}
open("cs.txt","w").write("a\t30\nb\t20\n")
# C16: cload pairs with non-monotone columns
# layout: pos2, chrom2, pos1, chrom1  -> c1=4,p1=3,c2=2,p2=1
rows=[("a",3,"a",25),("a",12,"b",7),("b",1,"b",19)]
with open("p_perm.txt","w") as f:
    for c1,p1,c2,p2 in rows: f.write(f"{p2}\t{c2}\t{p1}\t{c1}\n")
with open("p_std.txt","w") as f:
    for c1,p1,c2,p2 in rows: f.write(f"{c1}\t{p1}\t{c2}\t{p2}\n")
r=subprocess.run([sys.executable,"-m","cooler","cload","pairs","-c1","4","-p1","3","-c2","2","-p2","1","cs.txt:10","p_perm.txt","perm.cool"],capture_output=True,text=True,env=env)
print("perm rc",r.returncode,r.stderr.strip().splitlines()[-1:])
r=subprocess.run([sys.executable,"-m","cooler","cload","pairs","-c1","1","-p1","2","-c2","3","-p2","4","cs.txt:10","p_std.txt","std.cool"],capture_output=True,text=True,env=env)
print("std rc",r.returncode)
if os.path.exists("perm.cool"): print(cooler.Cooler("perm.cool").pixels()[:])
print(cooler.Cooler("std.cool").pixels()[:])
# C10: diag double counting with ignore_diags=0
chromsizes=pd.Series({"a":50})
bins=cooler.binnify(chromsizes,10)
M=np.array([[4,1,2,1,3],[1,6,1,2,1],[2,1,2,3,1],[1,2,3,8,2],[3,1,1,2,2]],float)
i,j=np.nonzero(np.triu(M)); px=pd.DataFrame({"bin1_id":i,"bin2_id":j,"count":M[i,j].astype(int)})
cooler.create_cooler("bal.cool",bins,px)
c=cooler.Cooler("bal.cool")
w,st=cooler.balance_cooler(c,ignore_diags=0,min_nnz=0,mad_max=0,tol=1e-12,max_iters=500)
print("converged",st["converged"],"scale",st["scale"])
B=M*np.outer(w,w); print("row sums (ignore_diags=0):",B.sum(1))
w,st=cooler.balance_cooler(c,ignore_diags=1,min_nnz=0,mad_max=0,tol=1e-12,max_iters=500)
M1=M.copy(); np.fill_diagonal(M1,0); B=M1*np.outer(w,w); print("row sums (ignore_diags=1):",B.sum(1), st["converged"])
