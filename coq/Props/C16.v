(** C16  Text export agrees with the API; re-importing it reproduces the cooler.
    Only statements; proofs are in Proofs/DumpProofs.v.  Model: Model/Dump.v. *)
From Coq Require Import String QArith Permutation Sorted.
From Coq Require Import List.
From Cooler Require Import Model.Dump Proofs.PixelsProofs Proofs.DumpProofs.
Open Scope Z_scope.

(** dump_eq_query (direct engine): for every option setting, every row-sorted stored table and EVERY admissible
    chunking of the row range, the dump is: nothing when the engine yields no chunk; otherwise the annotated
    window filter of the stored table in storage order, preceded by the header line when -H is given. *)
Theorem C16_dump_eq_query_direct : forall c o cuts,
  o_fill o && d_symm c = false ->
  RowSorted (d_px c) ->
  AdmissibleCuts (d_px c) (bbox_of c o) (cuts (bbox_of c o)) ->
  dump_pixels c o cuts =
    if o_balanced o && no_weights c then None
    else match spans_of (cuts (bbox_of c o)) with
         | [] => Some []
         | _ :: _ =>
             match annot_chunk c o (window_select (d_px c) (bbox_of c o)) with
             | None => None
             | Some rows =>
                 match o_header o, header_of c o with
                 | true, Some h => Some (Header h :: body_of rows)
                 | _, _ => Some (body_of rows)
                 end
             end
         end.
Proof. exact dump_eq_query_direct. Qed.
Print Assumptions C16_dump_eq_query_direct.

(** chunk-size independence: the concatenation of the direct engine's chunks is the window filter for every
    admissible chunking, hence the same for any two *)
Theorem C16_direct_chunks_independent : forall px bb cuts1 cuts2,
  RowSorted px -> AdmissibleCuts px bb (cuts1 bb) -> AdmissibleCuts px bb (cuts2 bb) ->
  concat (direct_chunks px bb cuts1) = window_select px bb /\
  concat (direct_chunks px bb cuts1) = concat (direct_chunks px bb cuts2).
Proof.
  intros px bb cuts1 cuts2 Hs H1 H2. split; [now apply direct_chunks_concat|now apply direct_chunks_independent].
Qed.
Print Assumptions C16_direct_chunks_independent.

Theorem C16_dump_chunk_independent : forall c o cuts1 cuts2,
  o_fill o && d_symm c = false ->
  RowSorted (d_px c) ->
  AdmissibleCuts (d_px c) (bbox_of c o) (cuts1 (bbox_of c o)) ->
  AdmissibleCuts (d_px c) (bbox_of c o) (cuts2 (bbox_of c o)) ->
  (spans_of (cuts1 (bbox_of c o)) = [] <-> spans_of (cuts2 (bbox_of c o)) = []) ->
  dump_pixels c o cuts1 = dump_pixels c o cuts2.
Proof. exact dump_chunk_independent. Qed.
Print Assumptions C16_dump_chunk_independent.

(** a strictly (bin1, bin2)-sorted table — what every cooler stores — is row-sorted *)
Theorem C16_stored_tables_are_row_sorted : forall px, SSorted px -> RowSorted px.
Proof. exact ssorted_rowsorted. Qed.
Print Assumptions C16_stored_tables_are_row_sorted.

(** read_fields_spec: ANY injective assignment of column numbers *)
Theorem C16_read_fields_spec : forall names nums rec,
  NoDup (map (num_of nums) names) ->
  (forall n, In n names -> 0 <= num_of nums n < Z.of_nat (length rec)) ->
  exists r, read_fields names nums rec = Some r /\
            Permutation (map fst r) names /\
            forall n, In n names -> assoc n r = Some (nth (Z.to_nat (num_of nums n)) rec EmptyString).
Proof. exact read_fields_spec. Qed.
Print Assumptions C16_read_fields_spec.

(** the defect D8 (repaired): the same statement is false of the old code *)
Theorem C16_read_fields_old_refuted :
  exists names nums rec n,
    In n names /\ NoDup (map (num_of nums) names) /\
    exists r, read_fields_old names nums rec = Some r /\
              assoc n r <> Some (nth (Z.to_nat (num_of nums n)) rec EmptyString).
Proof. exact read_fields_old_refuted. Qed.
Print Assumptions C16_read_fields_old_refuted.

Theorem C16_parse_print_Z : forall z, parse_Z (print_Z z) = Some z.
Proof. exact parse_print_Z. Qed.
Print Assumptions C16_parse_print_Z.
