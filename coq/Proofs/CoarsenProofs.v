(** Proofs about the coarsening model (Model/Coarsen.v): C08. *)
From Cooler Require Import Model.Coarsen Proofs.BinsProofs Proofs.PixelsProofs Proofs.CoarsenGroupBy.
From Coq Require Import Sorted Permutation ZifyBool.
Ltac Zify.zify_post_hook ::= Z.to_euclidean_division_equations.

(* ================================================================== list helpers *)
Lemma znth_nth_error (l : list Z) i d x :
  nth_error l i = Some x -> znth l (Z.of_nat i) d = x.
Proof. intros H. unfold znth. rewrite Nat2Z.id. now apply nth_error_nth. Qed.

Lemma nth_error_nil' {A} i : nth_error (@nil A) i = None.
Proof. now destruct i. Qed.

Lemma nth_error_skipn {A} (l : list A) k i : nth_error (skipn k l) i = nth_error l (k + i).
Proof.
  revert l. induction k as [|k IH]; intros l; [reflexivity|].
  destruct l as [|x l]; [now destruct i|]. cbn. apply IH.
Qed.

Lemma nth_error_firstn {A} (l : list A) k i :
  nth_error (firstn k l) i = if (i <? k)%nat then nth_error l i else None.
Proof.
  revert l i. induction k as [|k IH]; intros l i.
  - cbn. now destruct i.
  - destruct l as [|x l].
    + cbn [firstn]. destruct (i <? S k)%nat; destruct i; reflexivity.
    + destruct i as [|i]; [reflexivity|]. cbn [firstn nth_error]. rewrite IH.
      change (S i <? S k)%nat with (i <? k)%nat. reflexivity.
Qed.

(* -------------------------------------------------------------- stride  l[::k] *)
Lemma stride_n_nth {A} (k : nat) : (1 <= k)%nat ->
  forall fuel (l : list A) q, (length l <= fuel)%nat ->
  nth_error (stride_n fuel k l) q = nth_error l (q * k).
Proof.
  intros Hk. induction fuel as [|f IH]; intros l q Hf.
  - destruct l; [|cbn in Hf; lia]. cbn. now rewrite !nth_error_nil'.
  - destruct l as [|x l]; [cbn; now rewrite !nth_error_nil'|].
    cbn [stride_n]. destruct q as [|q]; [reflexivity|].
    cbn [nth_error]. rewrite IH.
    + rewrite nth_error_skipn. reflexivity.
    + rewrite skipn_length. cbn [length] in *. lia.
Qed.

Lemma stride_nth {A} (k : Z) (l : list A) q : 1 <= k ->
  nth_error (stride k l) q = nth_error l (q * Z.to_nat k).
Proof. intros Hk. unfold stride. apply stride_n_nth; lia. Qed.

Lemma stride_length {A} (k : Z) (l : list A) : 1 <= k ->
  Z.of_nat (length (stride k l)) = cdiv (zlen l) k.
Proof.
  intros Hk. unfold zlen.
  set (n := length (stride k l)).
  assert (H1 : forall q, (q < n)%nat -> (q * Z.to_nat k < length l)%nat).
  { intros q Hq. apply nth_error_Some. rewrite <- stride_nth by lia. apply nth_error_Some. exact Hq. }
  assert (H2 : forall q, (q * Z.to_nat k < length l)%nat -> (q < n)%nat).
  { intros q Hq. apply nth_error_Some. rewrite stride_nth by lia. apply nth_error_Some. exact Hq. }
  unfold cdiv.
  destruct (Nat.eq_dec n 0) as [E|E].
  - destruct (Nat.eq_dec (length l) 0) as [E0|E0]; [rewrite E, E0; cbn; nia|].
    specialize (H2 0%nat ltac:(lia)). lia.
  - specialize (H1 (n - 1)%nat ltac:(lia)).
    assert (H3 : ~ (n * Z.to_nat k < length l)%nat) by (intros X; apply H2 in X; lia).
    nia.
Qed.

(* ------------------------------------------------------ cumsum / diff / unique *)
Lemma cumsum_diff l : forall a, cumsum_from a (diff (a :: l)) = l.
Proof.
  induction l as [|b r IH]; intros a; [reflexivity|].
  cbn [diff cumsum_from]. replace (a + (b - a)) with b by lia. f_equal. apply IH.
Qed.

Lemma cumlen_id l : 0 :: cumsum (diff (0 :: l)) = 0 :: l.
Proof. unfold cumsum. now rewrite cumsum_diff. Qed.

Lemma uniq_ins_in x l y : In y (uniq_ins x l) <-> y = x \/ In y l.
Proof.
  induction l as [|z r IH]; cbn [uniq_ins]; [cbn; intuition|].
  destruct (x <? z) eqn:E1; [cbn; intuition|].
  destruct (x =? z) eqn:E2.
  - assert (x = z) by lia. subst. cbn. intuition.
  - cbn [In]. rewrite IH. intuition.
Qed.

Lemma uniq_ins_sorted x l : StronglySorted Z.lt l -> StronglySorted Z.lt (uniq_ins x l).
Proof.
  induction l as [|z r IH]; intros HS; cbn [uniq_ins].
  - constructor; constructor.
  - inversion HS as [|? ? Hr Hall]; subst.
    destruct (x <? z) eqn:E1.
    + constructor; [exact HS|]. constructor; [lia|].
      eapply Forall_impl; [|exact Hall]. intros; lia.
    + destruct (x =? z) eqn:E2; [exact HS|].
      constructor; [now apply IH|].
      apply Forall_forall. intros y Hy. apply uniq_ins_in in Hy as [->|Hy]; [lia|].
      rewrite Forall_forall in Hall. now apply Hall.
Qed.

Lemma np_unique_in l y : In y (np_unique l) <-> In y l.
Proof.
  induction l as [|x r IH]; [reflexivity|]. cbn [np_unique fold_right].
  change (fold_right uniq_ins [] r) with (np_unique r). rewrite uniq_ins_in, IH. cbn. intuition.
Qed.

Lemma np_unique_sorted l : StronglySorted Z.lt (np_unique l).
Proof.
  induction l as [|x r IH]; [constructor|]. cbn [np_unique fold_right].
  apply uniq_ins_sorted. exact IH.
Qed.

(* ----------------------------------------------------------- searchsorted_left *)
(** first position whose element is >= x : no sortedness needed for these facts *)
Lemma ssl_range l x : 0 <= searchsorted_left l x <= zlen l.
Proof.
  unfold zlen. induction l as [|y r IH]; cbn [searchsorted_left length]; [lia|].
  destruct (y <? x); lia.
Qed.

Lemma ssl_before l x : forall i, (Z.of_nat i < searchsorted_left l x) -> nth i l 0 < x.
Proof.
  induction l as [|y r IH]; intros i Hi; cbn [searchsorted_left] in Hi; [lia|].
  destruct (y <? x) eqn:E; [|lia].
  destruct i as [|i]; cbn [nth]; [lia|]. apply IH. lia.
Qed.

Lemma ssl_at l x : searchsorted_left l x < zlen l -> x <= nth (Z.to_nat (searchsorted_left l x)) l 0.
Proof.
  unfold zlen. induction l as [|y r IH]; cbn [searchsorted_left length]; intros H; [lia|].
  destruct (y <? x) eqn:E.
  - pose proof (ssl_range r x) as Hr.
    replace (Z.to_nat (1 + searchsorted_left r x)) with (S (Z.to_nat (searchsorted_left r x))) by lia.
    cbn [nth]. apply IH. lia.
  - cbn. lia.
Qed.

Lemma ssl_lt_len l x : l <> [] -> x <= last l 0 -> searchsorted_left l x < zlen l.
Proof.
  intros Hne Hx. pose proof (ssl_range l x) as Hr.
  destruct (Z.eq_dec (searchsorted_left l x) (zlen l)) as [E|E]; [|lia].
  exfalso. unfold zlen in *.
  assert (Hlast : last l 0 = nth (length l - 1) l 0).
  { clear. induction l as [|a [|b r] IH]; [reflexivity|reflexivity|].
    change (last (a :: b :: r) 0) with (last (b :: r) 0). rewrite IH. cbn [length].
    replace (S (S (length r)) - 1)%nat with (S (S (length r) - 1)) by lia. reflexivity. }
  assert (length l <> 0)%nat by (destruct l; [congruence|discriminate]).
  pose proof (ssl_before l x (length l - 1)%nat ltac:(lia)). lia.
Qed.

Lemma last_nth (l : list Z) : last l 0 = nth (length l - 1) l 0.
Proof.
  induction l as [|a [|b r] IH]; [reflexivity|reflexivity|].
  change (last (a :: b :: r) 0) with (last (b :: r) 0). rewrite IH. cbn [length].
  replace (S (S (length r)) - 1)%nat with (S (S (length r) - 1)) by lia. reflexivity.
Qed.

Lemma last_in (l : list Z) : l <> [] -> In (last l 0) l.
Proof.
  induction l as [|a [|b r] IH]; intros H; [congruence|now left|].
  right. apply IH. discriminate.
Qed.

Lemma sorted_le_nth l : StronglySorted Z.le l ->
  forall i j, (i <= j < length l)%nat -> nth i l 0 <= nth j l 0.
Proof.
  induction 1 as [|a l HS IH Hall]; intros i j Hij; [cbn in Hij; lia|].
  destruct i as [|i], j as [|j]; cbn [nth length] in *; try lia.
  - rewrite Forall_forall in Hall. apply Hall. apply nth_In. lia.
  - apply IH. lia.
Qed.

Lemma sorted_le_last l : StronglySorted Z.le l -> forall x, In x l -> x <= last l 0.
Proof.
  intros HS x Hx. apply (In_nth _ _ 0) in Hx as [i [Hi <-]]. rewrite last_nth.
  apply sorted_le_nth; auto. lia.
Qed.

Lemma sorted_lt_le l : StronglySorted Z.lt l -> StronglySorted Z.le l.
Proof.
  induction 1 as [|a l HS IH Hall]; constructor; auto.
  eapply Forall_impl; [|exact Hall]. intros; lia.
Qed.

Lemma sorted_lt_map (f : Z -> Z) l : StronglySorted Z.lt l ->
  (forall i j, In i l -> In j l -> i < j -> f i < f j) -> StronglySorted Z.lt (map f l).
Proof.
  induction 1 as [|a l HS IH Hall]; intros Hf; cbn [map]; constructor.
  - apply IH. intros i j Hi Hj. apply Hf; now right.
  - apply Forall_forall. intros y Hy. apply in_map_iff in Hy as [j [<- Hj]].
    rewrite Forall_forall in Hall. apply Hf; [now left|now right|now apply Hall].
Qed.

Lemma hd_map_z (f : Z -> Z) l d : l <> [] -> hd d (map f l) = f (hd 0 l).
Proof. destruct l; [congruence|reflexivity]. Qed.

Lemma last_map_z (f : Z -> Z) l d : l <> [] -> last (map f l) d = f (last l 0).
Proof.
  induction l as [|a [|b r] IH]; intros H; [congruence|reflexivity|].
  change (last (map f (a :: b :: r)) d) with (last (map f (b :: r)) d). rewrite IH by discriminate. reflexivity.
Qed.

Lemma prune_unfold rest maxlen :
  greedy_prune_partition (0 :: rest) maxlen =
  map (fun i => znth (0 :: rest) i 0)
    (np_unique (map (searchsorted_left (0 :: rest))
       (map (fun i => maxlen * i) (zrange 0 (Z.to_nat (cdiv (last (0 :: rest) 0) maxlen))) ++ [last (0 :: rest) 0]))).
Proof. unfold greedy_prune_partition. rewrite cumlen_id. reflexivity. Qed.

(** _greedy_prune_partition: the pruned edges are a sub-sequence (strictly increasing positions) of
    the given edges, begin with 0, end with the total, and are strictly increasing in value — for
    every non-decreasing edge list from 0 and every maxlen >= 1 *)
Theorem prune_subsequence rest maxlen :
  let edges := 0 :: rest in
  StronglySorted Z.le edges -> 1 <= maxlen ->
  let p := greedy_prune_partition edges maxlen in
  (exists idx, p = map (fun i => znth edges i 0) idx /\ StronglySorted Z.lt idx /\
               Forall (fun i => 0 <= i < zlen edges) idx) /\
  hd 0 p = 0 /\ last p 0 = last edges 0 /\ StronglySorted Z.lt p.
Proof.
  intros edges HS Hm. cbv zeta. unfold edges. rewrite prune_unfold. fold edges.
  set (total := last edges 0).
  set (cuts := map (fun i => maxlen * i) (zrange 0 (Z.to_nat (cdiv total maxlen))) ++ [total]).
  set (idx := np_unique (map (searchsorted_left edges) cuts)).
  assert (Hne : edges <> []) by discriminate.
  assert (Htot : 0 <= total).
  { unfold total. apply (sorted_le_last edges HS 0). now left. }
  assert (Hcuts : forall c, In c cuts -> 0 <= c <= total).
  { intros c Hc. unfold cuts in Hc. apply in_app_or in Hc as [Hc|[<-|[]]]; [|lia].
    apply in_map_iff in Hc as [i [<- Hi]]. apply in_zrange in Hi. unfold cdiv in Hi. nia. }
  assert (Hidx : forall i, In i idx -> exists c, In c cuts /\ i = searchsorted_left edges c).
  { intros i Hi. unfold idx in Hi. rewrite np_unique_in in Hi. apply in_map_iff in Hi as [c [<- Hc]]. eauto. }
  assert (Hidx' : forall c, In c cuts -> In (searchsorted_left edges c) idx).
  { intros c Hc. unfold idx. apply (proj2 (np_unique_in _ _)). now apply in_map. }
  assert (Hrange : forall i, In i idx -> 0 <= i < zlen edges).
  { intros i Hi. destruct (Hidx i Hi) as [c [Hc ->]]. split; [apply ssl_range|].
    apply ssl_lt_len; auto. apply Hcuts in Hc. fold total. lia. }
  assert (Hsorted : StronglySorted Z.lt idx) by apply np_unique_sorted.
  assert (H0 : In 0 idx).
  { assert (Hc0 : In 0 cuts).
    { unfold cuts. destruct (Z.to_nat (cdiv total maxlen)) eqn:E.
      - assert (total = 0).
        { destruct (Z.eq_dec total 0) as [|Hn]; [assumption|exfalso].
          assert (0 < cdiv total maxlen) by (unfold cdiv; apply Z.div_str_pos; lia). lia. }
        rewrite H. apply in_or_app. right. now left.
      - apply in_or_app. left. rewrite zrange_cons. cbn [map]. left. lia. }
    apply Hidx' in Hc0. unfold edges in Hc0 at 1. cbn [searchsorted_left] in Hc0.
    replace (0 <? 0) with false in Hc0 by reflexivity. exact Hc0. }
  assert (Hidxne : idx <> []) by (intros E; rewrite E in H0; inversion H0).
  assert (Hmono : forall i j, In i idx -> In j idx -> i < j -> znth edges i 0 < znth edges j 0).
  { intros i j Hi Hj Hij. destruct (Hidx j Hj) as [c [Hc ->]].
    pose proof (Hrange _ Hi) as Ri. pose proof (Hrange _ Hj) as Rj.
    assert (A := ssl_before edges c (Z.to_nat i) ltac:(lia)).
    assert (B := ssl_at edges c ltac:(lia)). unfold znth. lia. }
  split; [|split; [|split]].
  - exists idx. split; [reflexivity|]. split; [exact Hsorted|]. apply Forall_forall. exact Hrange.
  - rewrite hd_map_z by exact Hidxne.
    assert (hd 0 idx = 0) as ->.
    { destruct idx as [|a r]; [congruence|]. cbn. inversion Hsorted as [|? ? _ Hall]; subst.
      rewrite Forall_forall in Hall. destruct H0 as [->|H0]; [reflexivity|].
      specialize (Hall 0 H0). specialize (Hrange a ltac:(now left)). lia. }
    reflexivity.
  - rewrite last_map_z by exact Hidxne. fold total.
    assert (Hl : In (last idx 0) idx) by now apply last_in.
    assert (Ht : In (searchsorted_left edges total) idx).
    { apply Hidx'. unfold cuts. apply in_or_app. right. now left. }
    assert (Hge : searchsorted_left edges total <= last idx 0).
    { apply sorted_le_last; [now apply sorted_lt_le|exact Ht]. }
    pose proof (Hrange _ Hl) as Rl. pose proof (Hrange _ Ht) as Rt. unfold zlen in *.
    assert (A := ssl_at edges total ltac:(unfold zlen; lia)).
    assert (B := sorted_le_nth edges HS (Z.to_nat (searchsorted_left edges total)) (Z.to_nat (last idx 0)) ltac:(lia)).
    assert (D : znth edges (last idx 0) 0 <= total).
    { unfold total. apply sorted_le_last; auto. unfold znth. apply nth_In. lia. }
    unfold znth in *. lia.
  - apply sorted_lt_map; auto.
Qed.

(* ============================================== aggregation of separated chunks *)
Definition KeysBefore (a b : list pixel) : Prop :=
  forall ka kb, In ka (keys a) -> In kb (keys b) -> klt ka kb.

Lemma ssorted_app_gen {A} (R : A -> A -> Prop) l1 l2 :
  StronglySorted R l1 -> StronglySorted R l2 -> (forall x y, In x l1 -> In y l2 -> R x y) ->
  StronglySorted R (l1 ++ l2).
Proof.
  induction 1 as [|a l HS IH Hall]; intros H2 HR; [exact H2|].
  cbn [app]. constructor.
  - apply IH; auto. intros x y Hx Hy. apply HR; [now right|exact Hy].
  - apply Forall_app. split; [exact Hall|]. apply Forall_forall. intros y Hy. apply HR; [now left|exact Hy].
Qed.

Lemma aggregate_app_sep a b : KeysBefore a b -> aggregate (a ++ b) = aggregate a ++ aggregate b.
Proof.
  intros HB. apply (canon_unique (a ++ b)); [apply aggregate_canon|].
  destruct (aggregate_canon a) as (Sa & Ka & La). destruct (aggregate_canon b) as (Sb & Kb & Lb).
  split; [|split].
  - unfold SSorted, keys. rewrite map_app. apply ssorted_app_gen; auto.
    intros x y Hx Hy. apply HB; [now apply Ka|now apply Kb].
  - intros k. unfold keys in *. rewrite !map_app, !in_app_iff, Ka, Kb. reflexivity.
  - intros k. rewrite !look_app, La, Lb. reflexivity.
Qed.

Lemma keys_concat_in parts k : In k (keys (concat parts)) <-> exists p, In p parts /\ In k (keys p).
Proof.
  unfold keys. induction parts as [|a ps IH]; cbn [concat map].
  - split; [intros []|intros [p [[] _]]].
  - rewrite map_app, in_app_iff, IH. split.
    + intros [H|[p [Hp Hk]]]; [exists a; split; [now left|exact H]|exists p; split; [now right|exact Hk]].
    + intros [p [[<-|Hp] Hk]]; [now left|right; eauto].
Qed.

(** the per-chunk canonical aggregates of pairwise ordered chunks concatenate to the canonical
    aggregate of everything *)
Theorem chunks_canon parts :
  ForallOrdPairs KeysBefore parts -> concat (map aggregate parts) = aggregate (concat parts).
Proof.
  induction 1 as [|a ps Hall HF IH]; [reflexivity|].
  cbn [map concat]. rewrite IH. symmetry. apply aggregate_app_sep.
  intros ka kb Ha Hb. apply keys_concat_in in Hb as [p [Hp Hk]].
  rewrite Forall_forall in Hall. exact (Hall p Hp ka kb Ha Hk).
Qed.

(* ================================================= cutting a row-sorted pixel list *)
Definition RowSorted (px : list pixel) : Prop := StronglySorted Z.le (map row px).

Lemma ssorted_rowsorted px : SSorted px -> RowSorted px.
Proof.
  unfold SSorted, RowSorted, keys. induction px as [|p px IH]; cbn [map]; intros H; [constructor|].
  inversion H as [|? ? Hs Hall]; subst. constructor; [now apply IH|].
  rewrite Forall_forall in *. intros y Hy. apply in_map_iff in Hy as [q [<- Hq]].
  specialize (Hall (fst q) (in_map fst _ _ Hq)). unfold klt, row in *. lia.
Qed.

(** number of pixels whose row is < r : the entry r of indexes/bin1_offset *)
Definition cut_at (px : list pixel) (r : Z) : nat := length (filter (fun p => row p <? r) px).

Lemma cut_at_split px r : RowSorted px ->
  Forall (fun p => row p < r) (firstn (cut_at px r) px) /\
  Forall (fun p => r <= row p) (skipn (cut_at px r) px).
Proof.
  unfold RowSorted, cut_at. induction px as [|p px IH]; cbn [map]; intros HS.
  - cbn. split; constructor.
  - inversion HS as [|? ? Hs Hall]; subst. cbn [filter].
    destruct (row p <? r) eqn:E.
    + cbn [length firstn skipn]. destruct (IH Hs) as [A B]. split; [constructor; [lia|exact A]|exact B].
    + assert (Hnone : filter (fun p0 => row p0 <? r) px = []).
      { apply filter_none. intros x Hx. rewrite Forall_forall in Hall.
        specialize (Hall (row x) (in_map row _ _ Hx)). lia. }
      rewrite Hnone. cbn. split; [constructor|].
      constructor; [lia|]. apply Forall_forall. intros x Hx. rewrite Forall_forall in Hall.
      specialize (Hall (row x) (in_map row _ _ Hx)). lia.
Qed.

Lemma cut_at_le px r : (cut_at px r <= length px)%nat.
Proof.
  unfold cut_at. induction px as [|p px IH]; cbn [filter length]; [lia|].
  destruct (row p <? r); cbn [length]; lia.
Qed.

Lemma bin1_offset_nth n px r : 0 <= r <= n ->
  znth (bin1_offset n px) r 0 = Z.of_nat (cut_at px r).
Proof.
  intros Hr. unfold bin1_offset, znth.
  rewrite (nth_error_nth _ (Z.to_nat r) 0 (x := Z.of_nat (cut_at px r))); [reflexivity|].
  rewrite nth_error_map, nth_error_zrange by lia. cbn. unfold zlen, cut_at. do 3 f_equal.
  rewrite Z2Nat.id by lia. reflexivity.
Qed.

(* ======================================================== spans and the chunk stream *)
Lemma spans_cons a b r : spans (a :: b :: r) = (a, b) :: spans (b :: r).
Proof. reflexivity. Qed.

Lemma firstn_add {A} (l : list A) a m : firstn (a + m) l = firstn a l ++ firstn m (skipn a l).
Proof.
  revert l. induction a as [|a IH]; intros l; [reflexivity|].
  destruct l as [|x l]; [cbn; now rewrite firstn_nil|]. cbn [Nat.add firstn skipn app]. f_equal. apply IH.
Qed.

Lemma skipn_add {A} (l : list A) a m : skipn (a + m) l = skipn m (skipn a l).
Proof.
  revert l. induction a as [|a IH]; intros l; [reflexivity|].
  destruct l as [|x l]; [cbn; now rewrite skipn_nil|]. cbn [Nat.add skipn]. apply IH.
Qed.

(** an aligned cut: every re-keyed row before position c is smaller than every re-keyed row from c on *)
Definition AlignedCut (f : Z -> Z) (px : list pixel) (c : nat) : Prop :=
  forall p q, In p (firstn c px) -> In q (skipn c px) -> f (row p) < f (row q).

Lemma slice_split (px : list pixel) a b : 0 <= a <= b ->
  skipn (Z.to_nat a) px = slice px a b ++ skipn (Z.to_nat b) px.
Proof.
  intros H. unfold slice. replace (Z.to_nat b) with (Z.to_nat a + Z.to_nat (b - a))%nat by lia.
  rewrite skipn_add. symmetry. apply firstn_skipn.
Qed.

Lemma slice_in_firstn (px : list pixel) a b p : 0 <= a <= b -> In p (slice px a b) -> In p (firstn (Z.to_nat b) px).
Proof.
  intros H Hp. unfold slice in Hp. replace (Z.to_nat b) with (Z.to_nat a + Z.to_nat (b - a))%nat by lia.
  rewrite firstn_add. apply in_or_app. now right.
Qed.

Section Stream.
  Variable tbl : list Z.
  Variable px : list pixel.
  Let f := fun r => znth tbl r 0.

  Lemma rekey_row p : row (rekey tbl p) = f (row p).
  Proof. reflexivity. Qed.

  Lemma keys_before_cut c (a b : list pixel) :
    AlignedCut f px c ->
    (forall p, In p a -> In p (firstn c px)) -> (forall q, In q b -> In q (skipn c px)) ->
    KeysBefore (map (rekey tbl) a) (map (rekey tbl) b).
  Proof.
    intros HA Ha Hb ka kb Hka Hkb. unfold keys in *. rewrite map_map in Hka, Hkb.
    apply in_map_iff in Hka as [p [<- Hp]]. apply in_map_iff in Hkb as [q [<- Hq]].
    left. cbn [fst rekey]. apply (HA p q); auto.
  Qed.

  (** the chunk stream over a strictly increasing list of aligned cuts that ends at nnz *)
  Lemma spans_canon e : forall a,
    StronglySorted Z.lt (a :: e) -> 0 <= a -> last (a :: e) 0 = zlen px ->
    Forall (fun c => AlignedCut f px (Z.to_nat c)) (a :: e) ->
    concat (map (aggregate_span px tbl) (spans (a :: e))) = aggregate (map (rekey tbl) (skipn (Z.to_nat a) px)).
  Proof.
    induction e as [|b r IH]; intros a HS Ha Hlast Hal.
    - cbn [last] in Hlast. subst a. unfold zlen. rewrite Nat2Z.id, skipn_all. reflexivity.
    - rewrite spans_cons. cbn [map concat].
      inversion HS as [|? ? HS' Hall]; subst. inversion Hall as [|? ? Hab _]; subst.
      inversion Hal as [|? ? _ Hal']; subst.
      rewrite IH; auto; [|lia].
      unfold aggregate_span at 1. cbn [fst snd].
      rewrite (slice_split px a b) by lia. rewrite map_app. symmetry. apply aggregate_app_sep.
      inversion Hal' as [|? ? Hb _]; subst.
      apply (keys_before_cut (Z.to_nat b)); auto.
      intros p Hp. apply (slice_in_firstn px a b); [lia|exact Hp].
  Qed.
End Stream.

(* chunks_of: batching does not change an order-preserving map *)
Lemma chunks_n_concat {A} (n : nat) : (1 <= n)%nat ->
  forall fuel (l : list A), (length l <= fuel)%nat -> concat (chunks_n fuel n l) = l.
Proof.
  intros Hn. induction fuel as [|f IH]; intros l Hl.
  - destruct l; [reflexivity|cbn in Hl; lia].
  - destruct l as [|x l]; [reflexivity|]. cbn [chunks_n concat].
    rewrite IH; [apply firstn_skipn|]. rewrite skipn_length. cbn [length] in *. lia.
Qed.

Lemma iter_batches {A B} (g : A -> B) n (l : list A) : 1 <= n ->
  concat (map (map g) (chunks_of n l)) = map g l.
Proof.
  intros Hn. rewrite <- concat_map. f_equal. unfold chunks_of. apply chunks_n_concat; lia.
Qed.

(* ==================================================== the index table: group starts *)
(** tbl splits at position r into a part all of whose values are smaller than all values after it *)
Definition SplitLt (tbl : list Z) (r : Z) : Prop :=
  exists A B, tbl = A ++ B /\ zlen A = r /\ forall a b, In a A -> In b B -> a < b.

Lemma zrange_app lo a b : zrange lo (a + b) = zrange lo a ++ zrange (lo + Z.of_nat a) b.
Proof.
  revert lo. induction a as [|a IH]; intros lo.
  - cbn [Nat.add app]. unfold zrange at 2. cbn. f_equal. lia.
  - cbn [Nat.add]. rewrite !zrange_cons, IH. cbn [app]. do 3 f_equal. lia.
Qed.

Lemma sumZ_app a b : sumZ (a ++ b) = sumZ a + sumZ b.
Proof. unfold sumZ. induction a as [|x a IH]; cbn; lia. Qed.

Lemma div_lt_q m k q : 1 <= k -> m < q * k -> m / k < q.
Proof. intros. apply Z.div_lt_upper_bound; lia. Qed.
Lemma div_ge_q m k q : 1 <= k -> q * k <= m -> q <= m / k.
Proof. intros. apply Z.div_le_lower_bound; lia. Qed.
Lemma cdiv_gt_q n k q : 1 <= k -> q * k < n -> q < cdiv n k.
Proof. intros. unfold cdiv. assert (q + 1 <= (n + k - 1) / k) by (apply Z.div_le_lower_bound; lia). lia. Qed.
Lemma div_lt_cdiv m n k : 1 <= k -> m < n -> m / k < cdiv n k.
Proof. intros. unfold cdiv. apply Z.div_lt_upper_bound; [lia|]. assert (n + k - 1 - k < k * ((n + k - 1) / k)) by (pose proof (Z.mul_succ_div_gt (n + k - 1) k ltac:(lia)); lia). lia. Qed.

(** values of the index table from offset [off] are >= off *)
Lemma itf_lower k lens : 1 <= k -> Forall (fun n => 0 <= n) lens ->
  forall off v, In v (index_table_from off k lens) -> off <= v.
Proof.
  intros Hk. induction 1 as [|n r Hn HF IH]; intros off v Hv; [inversion Hv|].
  cbn [index_table_from] in Hv. apply in_app_or in Hv as [Hv|Hv].
  - apply in_map_iff in Hv as [m [<- Hm]]. apply in_zrange in Hm. nia.
  - apply IH in Hv. unfold cdiv in Hv. nia.
Qed.

Lemma itf_length k lens : Forall (fun n => 0 <= n) lens ->
  forall off, zlen (index_table_from off k lens) = sumZ lens.
Proof.
  unfold zlen. induction 1 as [|n r Hn HF IH]; intros off; [reflexivity|].
  cbn [index_table_from sumZ fold_right]. rewrite app_length, map_length, zrange_length.
  fold (sumZ r). rewrite Nat2Z.inj_add, IH. lia.
Qed.

(** every position  O_i + q*k  (start of the q-th group of chromosome i) splits the index table *)
Lemma itf_split k lens : 1 <= k -> Forall (fun n => 0 <= n) lens ->
  forall i off n q, nth_error lens i = Some n -> 0 <= q -> q * k < n ->
  SplitLt (index_table_from off k lens) (sumZ (firstn i lens) + q * k).
Proof.
  intros Hk HF. induction HF as [|n0 r Hn0 HF IH]; intros i off n q Hi Hq Hqk; [now rewrite nth_error_nil' in Hi|].
  destruct i as [|i]; cbn [nth_error] in Hi.
  - injection Hi as ->. cbn [firstn sumZ fold_right index_table_from].
    replace (Z.to_nat n) with (Z.to_nat (q * k) + Z.to_nat (n - q * k))%nat by lia.
    rewrite zrange_app, map_app, <- app_assoc.
    eexists _, _. split; [reflexivity|]. split.
    + unfold zlen. rewrite map_length, zrange_length. lia.
    + intros a b Ha Hb. apply in_map_iff in Ha as [m [<- Hm]]. apply in_zrange in Hm.
      apply in_app_or in Hb as [Hb|Hb].
      * apply in_map_iff in Hb as [m' [<- Hm']]. apply in_zrange in Hm'.
        pose proof (div_lt_q m k q Hk ltac:(lia)). pose proof (div_ge_q m' k q Hk ltac:(lia)). lia.
      * apply (itf_lower k r Hk HF) in Hb.
        pose proof (div_lt_q m k q Hk ltac:(lia)). pose proof (cdiv_gt_q n k q Hk Hqk). lia.
  - destruct (IH i (off + cdiv n0 k) n q Hi Hq Hqk) as (A & B & HAB & HlenA & Hlt).
    cbn [firstn sumZ fold_right index_table_from]. fold (sumZ (firstn i r)).
    rewrite HAB, app_assoc. eexists _, _. split; [reflexivity|]. split.
    + unfold zlen in *. rewrite app_length, map_length, zrange_length. lia.
    + intros a b Ha Hb. apply in_app_or in Ha as [Ha|Ha]; [|now apply Hlt].
      apply in_map_iff in Ha as [m [<- Hm]]. apply in_zrange in Hm.
      assert (Hb' : In b (index_table_from (off + cdiv n0 k) k r)) by (rewrite HAB; apply in_or_app; now right).
      apply (itf_lower k r Hk HF) in Hb'. pose proof (div_lt_cdiv m n0 k Hk ltac:(lia)). lia.
Qed.

Lemma split_znth tbl r : SplitLt tbl r ->
  forall x y, 0 <= x < r -> r <= y < zlen tbl -> znth tbl x 0 < znth tbl y 0.
Proof.
  intros (A & B & -> & HA & Hlt) x y Hx Hy. unfold zlen, znth in *. rewrite app_length in Hy.
  apply Hlt.
  - rewrite app_nth1 by lia. apply nth_In. lia.
  - rewrite app_nth2 by lia. apply nth_In. lia.
Qed.

(** the cut of a row-sorted pixel list at a row that splits the table is aligned *)
Lemma aligned_of_split tbl px n r :
  RowSorted px -> Forall (fun p => 0 <= row p < n) px -> zlen tbl = n -> 0 <= r ->
  SplitLt tbl r -> AlignedCut (fun x => znth tbl x 0) px (cut_at px r).
Proof.
  intros HS Hrng Hlen Hr Hsp p q Hp Hq.
  destruct (cut_at_split px r HS) as [A B]. rewrite Forall_forall in A, B, Hrng.
  specialize (A p Hp). specialize (B q Hq).
  assert (Hp' : In p px) by (rewrite <- (firstn_skipn (cut_at px r) px); apply in_or_app; now left).
  assert (Hq' : In q px) by (rewrite <- (firstn_skipn (cut_at px r) px); apply in_or_app; now right).
  apply (split_znth tbl r Hsp); [specialize (Hrng p Hp'); lia|specialize (Hrng q Hq'); lia].
Qed.

Lemma aligned_end (f : Z -> Z) px : AlignedCut f px (length px).
Proof. intros p q _ Hq. rewrite skipn_all in Hq. inversion Hq. Qed.

(* ===================================================== the coarse-row edges *)
Lemma cumsum_from_length acc l : length (cumsum_from acc l) = length l.
Proof. revert acc. induction l as [|x l IH]; intros acc; cbn; [reflexivity|]. now rewrite IH. Qed.

Lemma cumsum_from_nth l : forall acc i, (i < length l)%nat ->
  nth i (cumsum_from acc l) 0 = acc + sumZ (firstn (S i) l).
Proof.
  induction l as [|x l IH]; intros acc i Hi; [cbn in Hi; lia|].
  destruct i as [|i]; cbn [cumsum_from nth firstn sumZ fold_right].
  - cbn. lia.
  - rewrite IH by (cbn in Hi; lia). cbn [firstn sumZ fold_right]. lia.
Qed.

Lemma choff_nth lens i : (i <= length lens)%nat -> nth i (0 :: cumsum lens) 0 = sumZ (firstn i lens).
Proof.
  intros Hi. destruct i as [|i]; [reflexivity|]. cbn [nth]. unfold cumsum.
  rewrite cumsum_from_nth by lia. lia.
Qed.

Lemma sumZ_firstn_S lens i n : nth_error lens i = Some n -> sumZ (firstn (S i) lens) = sumZ (firstn i lens) + n.
Proof.
  revert i. induction lens as [|x l IH]; intros i Hi; [now rewrite nth_error_nil' in Hi|].
  destruct i as [|i]; cbn [nth_error] in Hi.
  - injection Hi as ->. cbn. lia.
  - specialize (IH i Hi). change (firstn (S (S i)) (x :: l)) with (x :: firstn (S i) l).
    change (firstn (S i) (x :: l)) with (x :: firstn i l).
    change (sumZ (x :: firstn (S i) l)) with (x + sumZ (firstn (S i) l)).
    change (sumZ (x :: firstn i l)) with (x + sumZ (firstn i l)). lia.
Qed.

Lemma sumZ_nonneg l : Forall (fun n => 0 <= n) l -> 0 <= sumZ l.
Proof. induction 1; cbn; [lia|]. fold (sumZ l). lia. Qed.

Lemma sumZ_firstn_le lens i : Forall (fun n => 0 <= n) lens -> sumZ (firstn i lens) <= sumZ lens.
Proof.
  intros HF. rewrite <- (firstn_skipn i lens) at 2. rewrite sumZ_app.
  assert (0 <= sumZ (skipn i lens)).
  { apply sumZ_nonneg. rewrite <- (firstn_skipn i lens) in HF. apply Forall_app in HF. tauto. }
  lia.
Qed.

Lemma sumZ_firstn_mono lens i j : Forall (fun n => 0 <= n) lens -> (i <= j)%nat ->
  sumZ (firstn i lens) <= sumZ (firstn j lens).
Proof.
  intros HF Hij. replace i with (Nat.min i j) by lia. rewrite <- firstn_firstn.
  apply sumZ_firstn_le. rewrite <- (firstn_skipn j lens) in HF. apply Forall_app in HF. tauto.
Qed.

(** elements of l[lo:hi][::k] are the l[lo + q*k] with lo + q*k < hi *)
Lemma stride_slice_in (l : list Z) lo hi k x : 1 <= k -> 0 <= lo ->
  In x (stride k (slice l lo hi)) ->
  exists q, 0 <= q /\ lo + q * k < hi /\ lo + q * k < zlen l /\ x = znth l (lo + q * k) 0.
Proof.
  intros Hk Hlo Hx. apply In_nth_error in Hx as [q Hq]. rewrite stride_nth in Hq by lia.
  unfold slice in Hq. rewrite nth_error_firstn in Hq.
  destruct (q * Z.to_nat k <? Z.to_nat (hi - lo))%nat eqn:E; [|discriminate].
  rewrite nth_error_skipn in Hq. exists (Z.of_nat q).
  assert (Hlt : (Z.to_nat lo + q * Z.to_nat k < length l)%nat) by (apply nth_error_Some; congruence).
  apply Nat.ltb_lt in E. unfold zlen.
  split; [lia|]. split; [nia|]. split; [nia|].
  unfold znth. replace (Z.to_nat (lo + Z.of_nat q * k)) with (Z.to_nat lo + q * Z.to_nat k)%nat by nia.
  symmetry. now apply nth_error_nth.
Qed.

Lemma stride_sorted (l : list Z) k : 1 <= k -> StronglySorted Z.le l -> StronglySorted Z.le (stride k l).
Proof.
  intros Hk HS.
  assert (Hgen : forall m (s : list Z), (forall i j x y, (i <= j)%nat -> nth_error s i = Some x -> nth_error s j = Some y -> x <= y) ->
                 length s = m -> StronglySorted Z.le s).
  { induction m as [|m IH]; intros s Hs Hl; [destruct s; [constructor|discriminate]|].
    destruct s as [|a s]; [discriminate|]. constructor.
    - apply IH; [|cbn in Hl; lia]. intros i j x y Hij Hx Hy. apply (Hs (S i) (S j)); auto. lia.
    - apply Forall_forall. intros y Hy. apply In_nth_error in Hy as [j Hj]. apply (Hs 0%nat (S j)); auto. lia. }
  apply (Hgen (length (stride k l))); [|reflexivity].
  intros i j x y Hij Hx Hy. rewrite stride_nth in Hx, Hy by lia.
  assert (Hj : (j * Z.to_nat k < length l)%nat) by (apply nth_error_Some; congruence).
  pose proof (sorted_le_nth l HS (i * Z.to_nat k) (j * Z.to_nat k) ltac:(nia)) as H.
  rewrite (nth_error_nth _ _ 0 Hx), (nth_error_nth _ _ 0 Hy) in H. exact H.
Qed.

Lemma concat_sorted (F : Z -> list Z) (l : list Z) :
  StronglySorted Z.lt l -> (forall i, In i l -> StronglySorted Z.le (F i)) ->
  (forall i j x y, In i l -> In j l -> i < j -> In x (F i) -> In y (F j) -> x <= y) ->
  StronglySorted Z.le (concat (map F l)).
Proof.
  induction 1 as [|a l HS IH Hall]; intros Hs Hx; cbn [map concat]; [constructor|].
  apply ssorted_app_gen.
  - apply Hs. now left.
  - apply IH; [intros; apply Hs; now right|]. intros i j x y Hi Hj. apply Hx; now right.
  - intros x y Hx' Hy. apply in_concat in Hy as [s [Hs' Hy]]. apply in_map_iff in Hs' as [j [<- Hj]].
    rewrite Forall_forall in Hall. apply (Hx a j); auto; [now left|now right].
Qed.

Lemma slice_sorted (l : list Z) lo hi : StronglySorted Z.le l -> StronglySorted Z.le (slice l lo hi).
Proof.
  intros HS. unfold slice.
  assert (Hsk : forall n (s : list Z), StronglySorted Z.le s -> StronglySorted Z.le (skipn n s)).
  { induction n as [|n IH]; intros s H; [exact H|]. destruct s; [constructor|]. cbn. apply IH. now inversion H. }
  assert (Hfi : forall n (s : list Z), StronglySorted Z.le s -> StronglySorted Z.le (firstn n s)).
  { induction n as [|n IH]; intros s H; [constructor|]. destruct s as [|a s]; [constructor|]. cbn.
    inversion H as [|? ? H1 H2]; subst. constructor; [now apply IH|].
    rewrite Forall_forall in *. intros y Hy. apply H2. rewrite <- (firstn_skipn n s). apply in_or_app. now left. }
  apply Hfi, Hsk, HS.
Qed.

Lemma sorted_of_nth_error (s : list Z) :
  (forall i j x y, (i <= j)%nat -> nth_error s i = Some x -> nth_error s j = Some y -> x <= y) ->
  StronglySorted Z.le s.
Proof.
  induction s as [|a s IH]; intros Hs; [constructor|]. constructor.
  - apply IH. intros i j x y Hij Hx Hy. apply (Hs (S i) (S j)); auto. lia.
  - apply Forall_forall. intros y Hy. apply In_nth_error in Hy as [j Hj]. apply (Hs 0%nat (S j)); auto. lia.
Qed.

Lemma filter_length_mono {A} (f g : A -> bool) l :
  (forall x, f x = true -> g x = true) -> (length (filter f l) <= length (filter g l))%nat.
Proof.
  intros H. induction l as [|x l IH]; [reflexivity|]. cbn [filter].
  destruct (f x) eqn:E; [rewrite (H x E); cbn; lia|]. destruct (g x); cbn; lia.
Qed.

Lemma cut_at_mono px r r' : r <= r' -> (cut_at px r <= cut_at px r')%nat.
Proof. intros H. unfold cut_at. apply filter_length_mono. intros x Hx. lia. Qed.

Lemma stride_cons {A} k (x : A) l : exists rest, stride k (x :: l) = x :: rest.
Proof. unfold stride. cbn [length stride_n]. eexists. reflexivity. Qed.

Section Edges.
  Variable lens : list Z.
  Variable px : list pixel.
  Variable k : Z.
  Hypothesis Hk : 1 <= k.
  Hypothesis Hlens : Forall (fun n => 1 <= n) lens.
  Hypothesis Hsorted : RowSorted px.
  Hypothesis Hrows : Forall (fun p => 0 <= row p < sumZ lens) px.
  Let n := sumZ lens.
  Let b1off := bin1_offset n px.
  Let tbl := index_table lens k.
  Let f := fun r => znth tbl r 0.

  Lemma lens_nonneg : Forall (fun n => 0 <= n) lens.
  Proof. eapply Forall_impl; [|exact Hlens]. intros; cbn in *; lia. Qed.

  Lemma n_nonneg : 0 <= n.
  Proof. apply sumZ_nonneg, lens_nonneg. Qed.

  Lemma b1off_len : zlen b1off = n + 1.
  Proof. pose proof n_nonneg. unfold b1off, bin1_offset, zlen. rewrite map_length, zrange_length. lia. Qed.

  Lemma b1off_znth r : 0 <= r <= n -> znth b1off r 0 = Z.of_nat (cut_at px r).
  Proof. apply bin1_offset_nth. Qed.

  Lemma b1off_sorted : StronglySorted Z.le b1off.
  Proof.
    pose proof n_nonneg as Hn.
    apply sorted_of_nth_error. intros i j x y Hij Hx Hy. unfold b1off, bin1_offset in Hx, Hy.
    assert (Hj : (j < Z.to_nat (n + 1))%nat).
    { rewrite <- (zrange_length 0 (Z.to_nat (n + 1))), <- (map_length (fun i0 => zlen (filter (fun p => row p <? i0) px))).
      apply nth_error_Some. congruence. }
    rewrite nth_error_map, nth_error_zrange in Hx, Hy by lia. cbn in Hx, Hy.
    injection Hx as <-. injection Hy as <-. unfold zlen.
    apply inj_le. apply (cut_at_mono px). lia.
  Qed.

  Lemma cut_at_zero : cut_at px 0 = 0%nat.
  Proof.
    unfold cut_at. rewrite filter_none; [reflexivity|]. intros x Hx.
    rewrite Forall_forall in Hrows. specialize (Hrows x Hx). lia.
  Qed.

  Lemma cut_at_n : cut_at px n = length px.
  Proof.
    unfold cut_at. rewrite filter_all; [reflexivity|]. intros x Hx.
    rewrite Forall_forall in Hrows. specialize (Hrows x Hx). fold n in Hrows. lia.
  Qed.

  Lemma b1off_last : last b1off 0 = zlen px.
  Proof.
    pose proof n_nonneg as Hn. pose proof b1off_len as Hl. unfold zlen in Hl.
    rewrite last_nth. replace (length b1off - 1)%nat with (Z.to_nat n) by lia.
    change (nth (Z.to_nat n) b1off 0) with (znth b1off n 0). rewrite b1off_znth by lia.
    rewrite cut_at_n. reflexivity.
  Qed.

  Let choff := 0 :: cumsum lens.
  Let F := fun i => stride k (slice b1off (znth choff i 0) (znth choff (i + 1) 0)).

  Lemma choff_z i : 0 <= i <= zlen lens -> znth choff i 0 = sumZ (firstn (Z.to_nat i) lens).
  Proof. intros Hi. unfold znth, choff. apply choff_nth. unfold zlen in Hi. lia. Qed.

  (** an element of chromosome i's piece is bin1_offset[r] for a group-start row r of chromosome i *)
  Lemma F_in i x : 0 <= i < zlen lens -> In x (F i) ->
    exists ni q, nth_error lens (Z.to_nat i) = Some ni /\ 0 <= q /\ q * k < ni /\
      let r := sumZ (firstn (Z.to_nat i) lens) + q * k in
      0 <= r < n /\ x = Z.of_nat (cut_at px r).
  Proof.
    intros Hi Hx. unfold F in Hx. rewrite !choff_z in Hx by lia.
    destruct (nth_error lens (Z.to_nat i)) as [ni|] eqn:E.
    2:{ apply nth_error_None in E. unfold zlen in Hi. lia. }
    replace (Z.to_nat (i + 1)) with (S (Z.to_nat i)) in Hx by lia.
    rewrite (sumZ_firstn_S lens _ ni E) in Hx.
    pose proof (sumZ_firstn_mono lens 0 (Z.to_nat i) lens_nonneg ltac:(lia)) as H0.
    change (sumZ (firstn 0 lens)) with 0 in H0.
    apply stride_slice_in in Hx as (q & Hq & Hlt & Hlen & ->); [|lia|lia].
    exists ni, q. split; [reflexivity|]. split; [lia|]. split; [lia|]. cbv zeta.
    pose proof (sumZ_firstn_le lens (S (Z.to_nat i)) lens_nonneg) as Hle.
    rewrite (sumZ_firstn_S lens _ ni E) in Hle. fold n in Hle.
    split; [lia|]. apply b1off_znth. lia.
  Qed.

  Lemma F_aligned i x : 0 <= i < zlen lens -> In x (F i) -> AlignedCut f px (Z.to_nat x).
  Proof.
    intros Hi Hx. destruct (F_in i x Hi Hx) as (ni & q & E & Hq & Hqk & Hr & ->).
    rewrite Nat2Z.id. apply (aligned_of_split tbl px n); auto.
    - unfold tbl, index_table. apply itf_length, lens_nonneg.
    - lia.
    - unfold tbl, index_table. eapply itf_split; eauto. apply lens_nonneg.
  Qed.

  Theorem coarse_edges_facts :
    let E := coarse_edges choff b1off k in
    (exists rest, E = 0 :: rest) /\ StronglySorted Z.le E /\ last E 0 = zlen px /\
    Forall (fun c => AlignedCut f px (Z.to_nat c)) E.
  Proof.
    pose proof n_nonneg as Hn. pose proof lens_nonneg as Hnn.
    assert (HE : coarse_edges choff b1off k = concat (map F (zrange 0 (length lens))) ++ [last b1off 0]).
    { unfold coarse_edges, F, choff. cbn [length]. unfold cumsum. rewrite cumsum_from_length.
      replace (S (length lens) - 1)%nat with (length lens) by lia. reflexivity. }
    cbv zeta. rewrite HE.
    assert (Hin : forall i, In i (zrange 0 (length lens)) -> 0 <= i < zlen lens).
    { intros i Hi. apply in_zrange in Hi. unfold zlen. lia. }
    assert (Hel : forall x, In x (concat (map F (zrange 0 (length lens)))) -> exists r, 0 <= r < n /\ x = znth b1off r 0).
    { intros x Hx. apply in_concat in Hx as [s [Hs Hx]]. apply in_map_iff in Hs as [i [<- Hi]].
      destruct (F_in i x (Hin i Hi) Hx) as (ni & q & _ & _ & _ & Hr & ->).
      eexists. split; [exact Hr|]. symmetry. apply b1off_znth. lia. }
    split; [|split; [|split]].
    - destruct (nth_error lens 0) as [n0|] eqn:E0.
      + assert (Hn0 : 1 <= n0).
        { apply nth_error_In in E0. rewrite Forall_forall in Hlens. now apply Hlens. }
        assert (Hlen : (0 < length lens)%nat) by (apply nth_error_Some; congruence).
        destruct (length lens) as [|m] eqn:Em; [lia|]. rewrite zrange_cons. cbn [map concat].
        assert (HF0 : exists rest, F 0 = 0 :: rest).
        { unfold F. rewrite !choff_z by (unfold zlen; lia).
          change (Z.to_nat 0) with 0%nat. change (Z.to_nat (0 + 1)) with 1%nat.
          rewrite (sumZ_firstn_S lens 0 n0 E0). change (sumZ (firstn 0 lens)) with 0.
          unfold slice. cbn [skipn Z.to_nat].
          unfold b1off, bin1_offset.
          replace (Z.to_nat (n + 1)) with (S (Z.to_nat n)) by lia. rewrite zrange_cons. cbn [map].
          replace (Z.to_nat (0 + n0 - 0)) with (S (Z.to_nat (n0 - 1))) by lia. cbn [firstn].
          destruct (stride_cons k (zlen (filter (fun p => row p <? 0) px)) (firstn (Z.to_nat (n0 - 1))
             (map (fun i => zlen (filter (fun p => row p <? i) px)) (zrange (0 + 1) (Z.to_nat n))))) as [rest Hrest].
          exists rest. rewrite Hrest. f_equal. unfold zlen. fold (cut_at px 0). rewrite cut_at_zero. reflexivity. }
        destruct HF0 as [rest ->]. eexists. cbn [app]. reflexivity.
      + apply nth_error_None in E0. assert (Hl0 : length lens = 0%nat) by lia. rewrite Hl0.
        exists []. change (zrange 0 0) with (@nil Z). cbn [map concat app].
        rewrite b1off_last. f_equal.
        assert (Hnil : lens = []) by now apply length_zero_iff_nil.
        destruct (nth_error px 0) as [p|] eqn:Ep.
        * exfalso. apply nth_error_In in Ep. rewrite Forall_forall in Hrows. specialize (Hrows _ Ep).
          rewrite Hnil in Hrows. cbn in Hrows. lia.
        * apply nth_error_None in Ep. unfold zlen. lia.
    - apply ssorted_app_gen.
      + apply concat_sorted.
        * clear. unfold zrange. generalize 0%nat as s. induction (length lens) as [|m IH]; intros s; [constructor|].
          cbn [seq map]. constructor; [apply IH|]. apply Forall_forall. intros y Hy.
          apply in_map_iff in Hy as [j [<- Hj]]. apply in_seq in Hj. lia.
        * intros i Hi. unfold F. apply stride_sorted; [exact Hk|]. apply slice_sorted, b1off_sorted.
        * intros i j x y Hi Hj Hij Hx Hy.
          destruct (F_in i x (Hin i Hi) Hx) as (ni & q & E1 & Hq & Hqk & Hr & ->).
          destruct (F_in j y (Hin j Hj) Hy) as (nj & q' & E2 & Hq' & Hqk' & Hr' & ->).
          apply inj_le. apply cut_at_mono.
          pose proof (Hin i Hi) as Ri. pose proof (Hin j Hj) as Rj.
          pose proof (sumZ_firstn_mono lens (S (Z.to_nat i)) (Z.to_nat j) Hnn ltac:(lia)) as Hm.
          rewrite (sumZ_firstn_S lens _ ni E1) in Hm. nia.
      + constructor; constructor.
      + intros x y Hx [<-|[]]. destruct (Hel x Hx) as (r & Hr & ->).
        apply sorted_le_last; [apply b1off_sorted|]. unfold znth. apply nth_In.
        pose proof b1off_len as Hl. unfold zlen in Hl. lia.
    - rewrite last_last. apply b1off_last.
    - apply Forall_app. split.
      + apply Forall_forall. intros x Hx. apply in_concat in Hx as [s [Hs Hx]].
        apply in_map_iff in Hs as [i [<- Hi]]. apply (F_aligned i x (Hin i Hi) Hx).
      + constructor; [|constructor]. rewrite b1off_last. unfold zlen. rewrite Nat2Z.id. apply aligned_end.
  Qed.
End Edges.

(* ============================================ the chunk stream is the canonical aggregate *)
(** index level: with the index table as re-keying, for every chunk size and batch size *)
Theorem coarsen_stream_canon lens px k cs bs :
  1 <= k -> 1 <= cs -> 1 <= bs ->
  Forall (fun n => 1 <= n) lens -> RowSorted px -> Forall (fun p => 0 <= row p < sumZ lens) px ->
  let tbl := index_table lens k in
  let edges := greedy_prune_partition (coarse_edges (0 :: cumsum lens) (bin1_offset (sumZ lens) px) k) cs in
  concat (coarsener_iter px tbl edges bs) = aggregate (map (rekey tbl) px).
Proof.
  intros Hk Hcs Hbs Hlens HS Hrows tbl edges.
  destruct (coarse_edges_facts lens px k Hk Hlens HS Hrows) as ((rest & HE) & HSE & Hlast & Hal).
  unfold edges. rewrite HE in *.
  destruct (prune_subsequence rest cs HSE Hcs) as ((idx & Hp & Hidxs & Hidxr) & Hhd & Hl & Hps).
  set (p := greedy_prune_partition (0 :: rest) cs) in *.
  unfold coarsener_iter. rewrite iter_batches by exact Hbs.
  assert (Halp : Forall (fun c => AlignedCut (fun r => znth tbl r 0) px (Z.to_nat c)) p).
  { rewrite Hp. apply Forall_forall. intros c Hc. apply in_map_iff in Hc as [i [<- Hi]].
    rewrite Forall_forall in Hal, Hidxr. apply Hal. unfold znth. apply nth_In.
    specialize (Hidxr i Hi). unfold zlen in Hidxr. lia. }
  rewrite Hlast in Hl.
  destruct p as [|a e] eqn:Ep.
  - cbn [last] in Hl. destruct px; [reflexivity|]. unfold zlen in Hl. cbn in Hl. lia.
  - cbn [hd] in Hhd. subst a.
    rewrite (spans_canon tbl px e 0 Hps ltac:(lia)); [reflexivity|exact Hl|exact Halp].
Qed.

(* ======================================= bridging the flat table to chromosome blocks *)
Lemma nodup_block o s blk (rest : list Z) :
  Tiled o s blk -> blk <> [] -> ~ In o rest ->
  nodup Z.eq_dec (map bchrom blk ++ rest) = o :: nodup Z.eq_dec rest.
Proof.
  intros HT. induction HT as [|s e l Hse HT IH]; intros Hne Hnot; [congruence|].
  cbn [map app]. unfold bchrom at 1. cbn [fst nodup].
  destruct l as [|y l].
  - cbn [map app]. destruct (in_dec Z.eq_dec o rest); [contradiction|reflexivity].
  - assert (Hy : bchrom y = o) by (eapply tiled_chrom; [exact HT|now left]).
    destruct (in_dec Z.eq_dec o (map bchrom (y :: l) ++ rest)) as [_|n0].
    + apply IH; [discriminate|exact Hnot].
    + exfalso. apply n0. cbn [map app]. left. exact Hy.
Qed.

Lemma chroms_of_blocksfrom o blocks : BlocksFrom o blocks ->
  chroms_of (concat blocks) = zrange o (length blocks).
Proof.
  induction 1 as [|o blk rest Hne HT HB IH]; [reflexivity|].
  unfold chroms_of in *. cbn [concat length]. rewrite map_app, zrange_cons.
  rewrite (nodup_block o 0 blk _ HT Hne).
  - now rewrite IH.
  - intros Hin. apply in_map_iff in Hin as [y [Hy Hin]].
    pose proof (blocksfrom_chrom _ _ HB y Hin). lia.
Qed.

Lemma chroms_of_valid_eq blocks : ValidBlocks blocks -> chroms_of (concat blocks) = zrange 0 (length blocks).
Proof. intros HV. apply chroms_of_blocksfrom. now apply valid_blocksfrom. Qed.

Lemma map_chroms_valid {B} (G : Z -> list bin -> B) blocks : ValidBlocks blocks ->
  map (fun c => G c (rows_of (concat blocks) c)) (chroms_of (concat blocks)) =
  map (fun ib => G (fst ib) (snd ib)) (enumerate blocks).
Proof.
  intros HV. rewrite chroms_of_valid_eq by exact HV. apply nth_error_ext'. intros i.
  rewrite !nth_error_map.
  destruct (nth_error blocks i) as [blk|] eqn:E.
  - rewrite (nth_error_enumerate _ _ _ E). rewrite nth_error_zrange by (apply nth_error_Some; congruence).
    cbn [option_map fst snd]. rewrite Z.add_0_l. now rewrite (rows_of_valid _ HV i blk E).
  - pose proof E as E'. apply nth_error_None in E'.
    assert (H1 : nth_error (zrange 0 (length blocks)) i = None) by (apply nth_error_None; rewrite zrange_length; lia).
    assert (H2 : nth_error (enumerate blocks) i = None) by (apply nth_error_None; rewrite enumerate_length; lia).
    now rewrite H1, H2.
Qed.

Lemma map_snd_enumerate {A} (l : list A) : map snd (enumerate l) = l.
Proof.
  unfold enumerate. generalize 0 as lo. induction l as [|x l IH]; intros lo; [reflexivity|].
  cbn [length]. rewrite zrange_cons. cbn [combine map snd]. f_equal. apply IH.
Qed.

Lemma map_groups_valid {B} (G : list bin -> B) blocks : ValidBlocks blocks ->
  map (fun c => G (rows_of (concat blocks) c)) (chroms_of (concat blocks)) = map G blocks.
Proof.
  intros HV. rewrite (map_chroms_valid (fun _ g => G g) blocks HV). cbn [fst snd].
  rewrite <- (map_snd_enumerate blocks) at 2. now rewrite map_map.
Qed.

Lemma chrom_offset_valid blocks : ValidBlocks blocks ->
  chrom_offset (concat blocks) = 0 :: cumsum (map zlen blocks).
Proof.
  intros HV. unfold chrom_offset, chrom_binoffset, nbins_per_chrom. f_equal. f_equal.
  apply (map_groups_valid (fun g => zlen g) blocks HV).
Qed.

Lemma zlen_concat {A} (ls : list (list A)) : zlen (concat ls) = sumZ (map zlen ls).
Proof.
  unfold zlen. induction ls as [|l ls IH]; [reflexivity|]. cbn [concat map sumZ fold_right].
  rewrite app_length, Nat2Z.inj_add, IH. reflexivity.
Qed.

(* ======================================================== coarsen_bins: the new table *)
Definition bin0 : bin := (0, 0, 0).

(** new bin q of a chromosome block: [start(old q*k), end(old min(q*k+k, n) - 1)) *)
Definition group_bin (k : Z) (blk : list bin) (q : Z) : bin :=
  let x := nth (Z.to_nat (q * k)) blk bin0 in
  (bchrom x, bstart x, bend (nth (Z.to_nat (Z.min (q * k + k) (zlen blk) - 1)) blk bin0)).

Definition coarsen_block (k : Z) (blk : list bin) : list bin :=
  map (group_bin k blk) (zrange 0 (Z.to_nat (cdiv (zlen blk) k))).

Lemma div_facts n k : 1 <= k -> 0 <= n -> n / k <= cdiv n k <= n / k + 1.
Proof. intros. unfold cdiv. nia. Qed.
Lemma lt_div_iff q n k : 1 <= k -> (q < n / k <-> q * k + k - 1 < n).
Proof.
  intros Hk. split; intros H.
  - assert (q + 1 <= n / k) by lia. assert ((q + 1) * k <= n) by nia. lia.
  - assert (q + 1 <= n / k) by (apply Z.div_le_lower_bound; lia). lia.
Qed.
Lemma lt_cdiv_iff q n k : 1 <= k -> (q < cdiv n k <-> q * k < n).
Proof.
  intros Hk. split; intros H.
  - unfold cdiv in H. nia.
  - now apply cdiv_gt_q.
Qed.

Lemma nth_error_combine_full {A B} (a : list A) (b : list B) i :
  nth_error (combine a b) i = match nth_error a i, nth_error b i with Some x, Some y => Some (x, y) | _, _ => None end.
Proof.
  revert b i. induction a as [|x a IH]; intros b i.
  - cbn. rewrite !nth_error_nil'. reflexivity.
  - destruct b as [|y b]; [cbn [combine]; rewrite !nth_error_nil'; now destruct (nth_error (x :: a) i)|].
    destruct i as [|i]; [reflexivity|]. cbn [combine nth_error]. apply IH.
Qed.

Lemma last_nth_bin (l : list bin) : last l bin0 = nth (length l - 1) l bin0.
Proof.
  induction l as [|a [|b r] IH]; [reflexivity|reflexivity|].
  change (last (a :: b :: r) bin0) with (last (b :: r) bin0). rewrite IH. cbn [length].
  replace (S (S (length r)) - 1)%nat with (S (S (length r) - 1)) by lia. reflexivity.
Qed.

Theorem coarsen_group_spec k blk : 1 <= k -> blk <> [] ->
  coarsen_group k (chrom_end blk) blk = coarsen_block k blk.
Proof.
  intros Hk Hne. unfold coarsen_group, coarsen_block.
  set (n := zlen blk). assert (Hn : 1 <= n) by (unfold n, zlen; destruct blk; [congruence|cbn; lia]).
  set (out := stride k blk). set (ends := map bend (stride k (skipn (Z.to_nat (k - 1)) blk))).
  assert (Lout : Z.of_nat (length out) = cdiv n k) by (apply stride_length; exact Hk).
  assert (Lends : Z.of_nat (length ends) = n / k).
  { unfold ends. rewrite map_length, stride_length by exact Hk. unfold zlen. rewrite skipn_length.
    fold (zlen blk). unfold cdiv. unfold n, zlen in *.
    destruct (Z_lt_le_dec (Z.of_nat (length blk)) (k - 1)) as [Hlt|Hge].
    - replace (Z.of_nat (length blk - Z.to_nat (k - 1))) with 0 by lia.
      rewrite (Z.div_small (Z.of_nat (length blk)) k) by lia. apply Z.div_small. lia.
    - replace (Z.of_nat (length blk - Z.to_nat (k - 1)) + k - 1) with (Z.of_nat (length blk)) by lia. reflexivity. }
  pose proof (div_facts n k Hk ltac:(lia)) as Hdf.
  apply nth_error_ext'. intros q.
  rewrite !nth_error_map, nth_error_combine_full.
  destruct (Z_lt_le_dec (Z.of_nat q) (cdiv n k)) as [Hq|Hq].
  2:{ assert (H1 : nth_error out q = None) by (apply nth_error_None; lia).
      assert (H2 : nth_error (zrange 0 (Z.to_nat (cdiv n k))) q = None) by (apply nth_error_None; rewrite zrange_length; lia).
      now rewrite H1, H2. }
  rewrite nth_error_zrange by lia. cbn [option_map]. rewrite Z.add_0_l.
  assert (Hqk : Z.of_nat q * k < n) by now apply lt_cdiv_iff.
  assert (Hout : nth_error out q = Some (nth (Z.to_nat (Z.of_nat q * k)) blk bin0)).
  { unfold out. rewrite stride_nth by exact Hk.
    replace (q * Z.to_nat k)%nat with (Z.to_nat (Z.of_nat q * k)) by nia.
    apply nth_error_nth'. unfold n, zlen in Hqk. lia. }
  rewrite Hout.
  assert (Hends : nth_error (if (length ends <? length out)%nat then ends ++ [chrom_end blk] else ends) q =
                  Some (bend (nth (Z.to_nat (Z.min (Z.of_nat q * k + k) n - 1)) blk bin0))).
  { destruct (Z_lt_le_dec (Z.of_nat q) (n / k)) as [Hlt|Hge].
    - assert (Hfull : Z.of_nat q * k + k - 1 < n) by now apply lt_div_iff.
      assert (He : nth_error ends q = Some (bend (nth (Z.to_nat (Z.of_nat q * k + k - 1)) blk bin0))).
      { unfold ends. rewrite nth_error_map, stride_nth, nth_error_skipn by exact Hk.
        replace (Z.to_nat (k - 1) + q * Z.to_nat k)%nat with (Z.to_nat (Z.of_nat q * k + k - 1)) by nia.
        rewrite (nth_error_nth' blk bin0) by (unfold n, zlen in Hfull; lia). reflexivity. }
      replace (Z.min (Z.of_nat q * k + k) n - 1) with (Z.of_nat q * k + k - 1) by lia.
      destruct (length ends <? length out)%nat; [|exact He].
      rewrite nth_error_app1 by lia. exact He.
    - assert (Hnf : ~ (Z.of_nat q * k + k - 1 < n)) by (intros X; apply lt_div_iff in X; lia).
      assert (Hlt : (length ends <? length out)%nat = true) by (apply Nat.ltb_lt; lia).
      rewrite Hlt. rewrite nth_error_app2 by lia. replace (q - length ends)%nat with 0%nat by lia.
      cbn [nth_error]. unfold chrom_end. rewrite last_nth_bin.
      replace (Z.min (Z.of_nat q * k + k) n - 1) with (n - 1) by lia.
      unfold n, zlen. do 3 f_equal. lia. }
  rewrite Hends. cbn [fst snd]. unfold group_bin. fold n. reflexivity.
Qed.

(* ---------------------------------------------------- tilings, position by position *)
Lemma tiled_nth c s l : Tiled c s l ->
  forall i x, nth_error l i = Some x ->
    bchrom x = c /\ bstart x < bend x /\
    bstart x = match i with O => s | S j => bend (nth j l bin0) end.
Proof.
  induction 1 as [|s e l Hse HT IH]; intros i x Hi; [now rewrite nth_error_nil' in Hi|].
  destruct i as [|i]; cbn [nth_error] in Hi.
  - injection Hi as <-. unfold bchrom, bstart, bend; cbn. auto.
  - destruct (IH i x Hi) as (A & B & D). split; [exact A|]. split; [exact B|].
    rewrite D. destruct i as [|i]; reflexivity.
Qed.

Lemma tiled_intro c l : forall s,
  (forall i x, nth_error l i = Some x ->
     bchrom x = c /\ bstart x < bend x /\ bstart x = match i with O => s | S j => bend (nth j l bin0) end) ->
  Tiled c s l.
Proof.
  induction l as [|[[c' s'] e'] l IH]; intros s H; [constructor|].
  destruct (H 0%nat _ eq_refl) as (A & B & D). unfold bchrom, bstart, bend in A, B, D; cbn in A, B, D. subst.
  constructor; [exact B|]. apply IH. intros i x Hi.
  destruct (H (S i) x Hi) as (A & B' & D). split; [exact A|]. split; [exact B'|].
  rewrite D. destruct i; reflexivity.
Qed.

Lemma tiled_mono c s l : Tiled c s l ->
  forall i j, (i <= j < length l)%nat ->
    bstart (nth i l bin0) <= bstart (nth j l bin0) /\ bend (nth i l bin0) <= bend (nth j l bin0).
Proof.
  intros HT i j. induction j as [|j IH]; intros Hij.
  - replace i with 0%nat by lia. lia.
  - destruct (Nat.eq_dec i (S j)) as [->|Hne]; [lia|].
    destruct (IH ltac:(lia)) as [A B].
    destruct (tiled_nth c s l HT (S j) (nth (S j) l bin0)) as (_ & P & Q); [apply nth_error_nth'; lia|].
    destruct (tiled_nth c s l HT j (nth j l bin0)) as (_ & P' & _); [apply nth_error_nth'; lia|].
    lia.
Qed.

Lemma tiled_start_ge c s l : Tiled c s l -> forall i, (i < length l)%nat -> s <= bstart (nth i l bin0).
Proof.
  intros HT i Hi. destruct (tiled_mono c s l HT 0 i ltac:(lia)) as [A _].
  destruct (tiled_nth c s l HT 0%nat (nth 0 l bin0)) as (_ & _ & Q); [apply nth_error_nth'; lia|]. lia.
Qed.

Lemma coarsen_block_length k blk : 1 <= k -> zlen (coarsen_block k blk) = cdiv (zlen blk) k.
Proof.
  intros Hk. unfold coarsen_block, zlen. rewrite map_length, zrange_length.
  assert (0 <= cdiv (Z.of_nat (length blk)) k) by (unfold cdiv; nia). lia.
Qed.

Lemma coarsen_block_nth k blk q : 1 <= k -> 0 <= q < cdiv (zlen blk) k ->
  nth_error (coarsen_block k blk) (Z.to_nat q) = Some (group_bin k blk q).
Proof.
  intros Hk Hq. unfold coarsen_block. rewrite nth_error_map, nth_error_zrange by lia.
  cbn. do 2 f_equal. lia.
Qed.

(** the coarsened block is again a tiling of the same chromosome, from the same start to the same end *)
Theorem coarsen_block_tiled k c s blk : 1 <= k -> Tiled c s blk -> blk <> [] ->
  Tiled c s (coarsen_block k blk) /\ coarsen_block k blk <> [] /\ chrom_end (coarsen_block k blk) = chrom_end blk.
Proof.
  intros Hk HT Hne. set (n := zlen blk).
  assert (Hn : 1 <= n) by (unfold n, zlen; destruct blk; [congruence|cbn; lia]).
  assert (HN : 1 <= cdiv n k) by (pose proof (cdiv_gt_q n k 0 Hk ltac:(lia)); lia).
  assert (Hnth : forall q, 0 <= q < cdiv n k -> nth_error (coarsen_block k blk) (Z.to_nat q) = Some (group_bin k blk q))
    by (intros; now apply coarsen_block_nth).
  assert (Hlen : zlen (coarsen_block k blk) = cdiv n k) by now apply coarsen_block_length.
  split; [|split].
  - apply tiled_intro. intros i x Hi.
    assert (Hi' : (i < length (coarsen_block k blk))%nat) by (apply nth_error_Some; congruence).
    unfold zlen in Hlen. pose proof (Hnth (Z.of_nat i) ltac:(lia)) as Hi2.
    rewrite Nat2Z.id in Hi2. rewrite Hi2 in Hi. injection Hi as <-.
    assert (Hqk : Z.of_nat i * k < n) by (apply lt_cdiv_iff; lia).
    set (a := Z.to_nat (Z.of_nat i * k)). set (b := Z.to_nat (Z.min (Z.of_nat i * k + k) n - 1)).
    assert (Hab : (a <= b < length blk)%nat) by (unfold a, b, n, zlen in *; lia).
    destruct (tiled_nth c s blk HT a (nth a blk bin0)) as (A & B & D); [apply nth_error_nth'; lia|].
    destruct (tiled_mono c s blk HT a b Hab) as [_ Me].
    unfold group_bin. fold n a b.
    split; [exact A|]. split; [unfold bstart, bend in *; cbn [fst snd] in *; lia|].
    destruct i as [|i].
    + subst a. cbn in D. exact D.
    + assert (Ha : a = S (Z.to_nat (Z.of_nat (S i) * k - 1))) by (unfold a; nia).
      pose proof (Hnth (Z.of_nat i) ltac:(lia)) as Hprev. rewrite Nat2Z.id in Hprev.
      rewrite (nth_error_nth _ _ bin0 Hprev).
      unfold group_bin. fold n. clearbody a. subst a.
      unfold bstart, bend in *; cbn [fst snd] in *. rewrite D. do 3 f_equal. nia.
  - intros E. rewrite E in Hlen. unfold zlen in Hlen. cbn in Hlen. lia.
  - unfold chrom_end. rewrite !last_nth_bin.
    unfold zlen in Hlen.
    rewrite (nth_error_nth _ _ bin0 (x := group_bin k blk (cdiv n k - 1))).
    2:{ rewrite <- (Hnth (cdiv n k - 1)) by lia. f_equal. lia. }
    unfold group_bin, bend at 1; cbn [snd]. fold n. do 3 f_equal.
    assert (n <= (cdiv n k - 1) * k + k) by (unfold cdiv; nia). unfold n, zlen in *. lia.
Qed.

(** coarsen_bins on a valid table, chromosome block by chromosome block *)
Theorem coarsen_bins_spec blocks k : 1 <= k -> ValidBlocks blocks ->
  let nb := map (coarsen_block k) blocks in
  coarsen_bins (concat blocks) (map chrom_end blocks) k = concat nb /\
  ValidBlocks nb /\ map chrom_end nb = map chrom_end blocks /\ map zlen nb = map (fun blk => cdiv (zlen blk) k) blocks.
Proof.
  intros Hk HV nb. split; [|split; [|split]].
  - unfold coarsen_bins.
    rewrite (map_chroms_valid (fun c g => coarsen_group k (znth (map chrom_end blocks) c 0) g) blocks HV).
    f_equal. unfold nb. apply nth_error_ext'. intros i. rewrite !nth_error_map.
    destruct (nth_error blocks i) as [blk|] eqn:E.
    + rewrite (nth_error_enumerate _ _ _ E). cbn [option_map fst snd]. f_equal.
      rewrite (znth_nth_error (map chrom_end blocks) i 0 (chrom_end blk)) by (rewrite nth_error_map, E; reflexivity).
      apply coarsen_group_spec; [exact Hk|]. now destruct (HV i blk E).
    + assert (H2 : nth_error (enumerate blocks) i = None) by (apply nth_error_None; rewrite enumerate_length; now apply nth_error_None).
      now rewrite H2.
  - intros i nblk Hi. unfold nb in Hi. rewrite nth_error_map in Hi.
    destruct (nth_error blocks i) as [blk|] eqn:E; [|discriminate]. injection Hi as <-.
    destruct (HV i blk E) as [Hne HT].
    destruct (coarsen_block_tiled k _ 0 blk Hk HT Hne) as (A & B & _). auto.
  - unfold nb. rewrite map_map. apply nth_error_ext'. intros i. rewrite !nth_error_map.
    destruct (nth_error blocks i) as [blk|] eqn:E; [|reflexivity]. cbn. f_equal.
    destruct (HV i blk E) as [Hne HT].
    now destruct (coarsen_block_tiled k _ 0 blk Hk HT Hne) as (_ & _ & D).
  - unfold nb. rewrite map_map. apply map_ext. intros blk. now apply coarsen_block_length.
Qed.

(* ================================================= re-binning by start coordinate *)
Lemma ssr_app_le P R x : Forall (fun v => v <= x) P ->
  searchsorted_right (P ++ R) x = zlen P + searchsorted_right R x.
Proof.
  unfold zlen. induction 1 as [|v P Hv HF IH]; [cbn; lia|].
  cbn [app searchsorted_right length]. destruct (v <=? x) eqn:E; [|lia]. rewrite IH. lia.
Qed.

Lemma ssr_app_hd Q R x : (R = [] \/ x < hd 0 R) -> searchsorted_right (Q ++ R) x = searchsorted_right Q x.
Proof.
  intros HR. induction Q as [|v Q IH]; cbn [app searchsorted_right].
  - destruct HR as [->|HR]; [reflexivity|]. destruct R as [|r R]; [reflexivity|]. cbn in *.
    destruct (r <=? x) eqn:E; [lia|reflexivity].
  - destruct (v <=? x); [now rewrite IH|reflexivity].
Qed.

Lemma tiled_ssr c A s : forall s0 l, Tiled c s0 l ->
  forall q y, nth_error l q = Some y -> bstart y <= s < bend y ->
  searchsorted_right (map (fun z => A + bstart z) l) (A + s) = Z.of_nat q + 1.
Proof.
  intros s0 l HT. induction HT as [|s0 e l Hse HT IH]; intros q y Hq Hs; [now rewrite nth_error_nil' in Hq|].
  destruct q as [|q]; cbn [nth_error] in Hq.
  - injection Hq as <-. unfold bstart, bend in Hs; cbn [fst snd] in Hs.
    cbn [map searchsorted_right]. unfold bstart at 1; cbn [fst snd].
    destruct (A + s0 <=? A + s) eqn:E; [|lia].
    assert (H0 : searchsorted_right (map (fun z => A + bstart z) l) (A + s) = 0).
    { inversion HT as [|? e' l' He' HT']; subst; [reflexivity|].
      cbn [map searchsorted_right]. unfold bstart at 1; cbn [fst snd].
      destruct (A + e <=? A + s) eqn:E'; [lia|reflexivity]. }
    rewrite H0. lia.
  - cbn [map searchsorted_right]. unfold bstart at 1; cbn [fst snd].
    assert (Hge : e <= bstart y).
    { assert (Hql : (q < length l)%nat) by (apply nth_error_Some; congruence).
      pose proof (tiled_start_ge c e l HT q Hql) as H. rewrite (nth_error_nth _ _ bin0 Hq) in H. exact H. }
    destruct (A + s0 <=? A + s) eqn:E; [|lia]. rewrite (IH q y Hq Hs). lia.
Qed.

(** absolute start coordinates, chromosome block by chromosome block *)
Fixpoint sa_from (A : Z) (NB : list (list bin)) : list Z :=
  match NB with
  | [] => []
  | b :: r => map (fun y => A + bstart y) b ++ sa_from (A + chrom_end b) r
  end.

Lemma start_abspos_sa_gen sizes : forall o NB A, BlocksFrom o NB ->
  (forall j, (j < length NB)%nat -> znth (chrom_abspos sizes) (o + Z.of_nat j) 0 = A + sumZ (firstn j (map chrom_end NB))) ->
  map (fun y => znth (chrom_abspos sizes) (bchrom y) 0 + bstart y) (concat NB) = sa_from A NB.
Proof.
  intros o NB A HB. revert A. induction HB as [|o blk rest Hne HT HB IH]; intros A HA; [reflexivity|].
  cbn [concat sa_from]. rewrite map_app. f_equal.
  - apply map_ext_in. intros y Hy. rewrite (tiled_chrom _ _ _ _ HT Hy).
    specialize (HA 0%nat ltac:(cbn; lia)). cbn [firstn sumZ fold_right] in HA.
    replace (o + Z.of_nat 0) with o in HA by lia. rewrite HA. lia.
  - apply IH. intros j Hj. specialize (HA (S j) ltac:(cbn; lia)).
    replace (o + 1 + Z.of_nat j) with (o + Z.of_nat (S j)) by lia. rewrite HA.
    cbn [map firstn sumZ fold_right]. fold (sumZ (firstn j (map chrom_end rest))). lia.
Qed.

Lemma start_abspos_sa NB : ValidBlocks NB ->
  start_abspos (concat NB) (map chrom_end NB) = sa_from 0 NB.
Proof.
  intros HV. unfold start_abspos. apply (start_abspos_sa_gen _ 0); [now apply valid_blocksfrom|].
  intros j Hj. unfold chrom_abspos, znth. rewrite Z.add_0_l, Nat2Z.id.
  rewrite choff_nth by (rewrite map_length; lia). lia.
Qed.

Definition GoodBlock (b : list bin) : Prop := b <> [] /\ exists c, Tiled c 0 b.

Lemma goodblock_end b : GoodBlock b -> 0 < chrom_end b /\ forall y, In y b -> 0 <= bstart y /\ bstart y < chrom_end b /\ bend y <= chrom_end b.
Proof.
  intros [Hne [c HT]]. unfold chrom_end. rewrite last_nth_bin.
  assert (Hl : (0 < length b)%nat) by (destruct b; [congruence|cbn; lia]).
  assert (Hy : forall y, In y b -> 0 <= bstart y /\ bstart y < bend y /\ bend y <= bend (nth (length b - 1) b bin0)).
  { intros y Hy. apply In_nth_error in Hy as [i Hi].
    assert (Hil : (i < length b)%nat) by (apply nth_error_Some; congruence).
    destruct (tiled_nth c 0 b HT i y Hi) as (_ & P & _).
    pose proof (tiled_start_ge c 0 b HT i Hil) as G. rewrite (nth_error_nth _ _ bin0 Hi) in G.
    destruct (tiled_mono c 0 b HT i (length b - 1) ltac:(lia)) as [_ M]. rewrite (nth_error_nth _ _ bin0 Hi) in M.
    lia. }
  split.
  - specialize (Hy (nth (length b - 1) b bin0) ltac:(apply nth_In; lia)). lia.
  - intros y Hin. specialize (Hy y Hin). lia.
Qed.

Lemma ssr_sa NB : Forall GoodBlock NB ->
  forall i A nblk q y s, nth_error NB i = Some nblk -> nth_error nblk q = Some y ->
  bstart y <= s < bend y ->
  searchsorted_right (sa_from A NB) (A + sumZ (firstn i (map chrom_end NB)) + s)
  = sumZ (firstn i (map zlen NB)) + Z.of_nat q + 1.
Proof.
  induction 1 as [|b r Hb HF IH]; intros i A nblk q y s Hi Hq Hs; [now rewrite nth_error_nil' in Hi|].
  destruct (goodblock_end b Hb) as [Hce Hyb].
  destruct i as [|i]; cbn [nth_error] in Hi.
  - injection Hi as ->. cbn [map firstn sumZ fold_right sa_from]. rewrite Z.add_0_r, Z.add_0_l.
    destruct Hb as [Hne [c HT]].
    rewrite ssr_app_hd; [now apply (tiled_ssr c A s 0 nblk HT q y)|].
    destruct r as [|b' r']; [now left|right].
    inversion HF as [|? ? [Hne' [c' HT']] _]; subst. cbn [sa_from].
    destruct b' as [|z b']; [congruence|]. inversion HT'; subst. cbn [map app hd]. unfold bstart at 1; cbn [fst snd].
    specialize (Hyb y (nth_error_In _ _ Hq)). lia.
  - cbn [map firstn sa_from]. 
    change (sumZ (chrom_end b :: firstn i (map chrom_end r))) with (chrom_end b + sumZ (firstn i (map chrom_end r))).
    change (sumZ (zlen b :: firstn i (map zlen r))) with (zlen b + sumZ (firstn i (map zlen r))).
    assert (Hnn : 0 <= sumZ (firstn i (map chrom_end r))).
    { apply sumZ_nonneg. apply Forall_forall. intros v Hv.
      assert (Hv' : In v (map chrom_end r)) by (rewrite <- (firstn_skipn i (map chrom_end r)); apply in_or_app; now left).
      apply in_map_iff in Hv' as [b0 [<- Hb0]]. rewrite Forall_forall in HF.
      destruct (goodblock_end b0 (HF b0 Hb0)) as [G _]. lia. }
    assert (Hs0 : 0 <= s).
    { rewrite Forall_forall in HF. destruct (goodblock_end nblk (HF nblk (nth_error_In _ _ Hi))) as [_ G].
      specialize (G y (nth_error_In _ _ Hq)). lia. }
    rewrite ssr_app_le.
    + replace (A + (chrom_end b + sumZ (firstn i (map chrom_end r))) + s)
        with ((A + chrom_end b) + sumZ (firstn i (map chrom_end r)) + s) by lia.
      rewrite (IH i (A + chrom_end b) nblk q y s Hi Hq Hs). unfold zlen. rewrite map_length. lia.
    + apply Forall_forall. intros v Hv. apply in_map_iff in Hv as [z [<- Hz]].
      specialize (Hyb z Hz). lia.
Qed.

(** old bin m of a block lies inside new bin m/k of the coarsened block *)
Lemma group_contains k c s blk m x : 1 <= k -> Tiled c s blk -> nth_error blk m = Some x ->
  let y := group_bin k blk (Z.of_nat m / k) in
  bstart y <= bstart x < bend y /\ bchrom x = c /\
  nth_error (coarsen_block k blk) (Z.to_nat (Z.of_nat m / k)) = Some y.
Proof.
  intros Hk HT Hm y.
  assert (Hml : (m < length blk)%nat) by (apply nth_error_Some; congruence).
  set (q := Z.of_nat m / k) in *.
  assert (Hq : 0 <= q /\ q * k <= Z.of_nat m < q * k + k) by (unfold q; nia).
  destruct (tiled_nth c s blk HT m x Hm) as (A & B & _).
  set (a := Z.to_nat (q * k)). set (b := Z.to_nat (Z.min (q * k + k) (zlen blk) - 1)).
  assert (Hab : (a <= m <= b)%nat /\ (b < length blk)%nat) by (unfold a, b, zlen; lia).
  destruct (tiled_mono c s blk HT a m ltac:(lia)) as [M1 _].
  destruct (tiled_mono c s blk HT m b ltac:(lia)) as [_ M2].
  rewrite (nth_error_nth _ _ bin0 Hm) in M1, M2.
  split; [|split; [exact A|]].
  - unfold y, group_bin. fold a b. unfold bstart, bend in *; cbn [fst snd] in *. lia.
  - apply coarsen_block_nth; [exact Hk|]. split; [lia|]. apply lt_cdiv_iff; [exact Hk|]. unfold zlen. lia.
Qed.

Lemma valid_goodblocks NB : ValidBlocks NB -> Forall GoodBlock NB.
Proof.
  intros HV. apply Forall_forall. intros b Hb. apply In_nth_error in Hb as [i Hi].
  destruct (HV i b Hi) as [Hne HT]. split; [exact Hne|eauto].
Qed.

Section Rebin.
  Variable blocks : list (list bin).
  Variable k : Z.
  Hypothesis Hk : 1 <= k.
  Hypothesis HV : ValidBlocks blocks.
  Let NB := map (coarsen_block k) blocks.
  Let sizes := map chrom_end blocks.

  Lemma NB_valid : ValidBlocks NB.
  Proof. now destruct (coarsen_bins_spec blocks k Hk HV) as (_ & A & _). Qed.
  Lemma NB_ends : map chrom_end NB = sizes.
  Proof. now destruct (coarsen_bins_spec blocks k Hk HV) as (_ & _ & A & _). Qed.

  (** the searchsorted path, whether or not the new table reports a bin size *)
  Lemma rebin_search_index i blk m x :
    nth_error blocks i = Some blk -> nth_error blk m = Some x ->
    rebin_bin_search (concat NB) sizes x = sumZ (firstn i (map zlen NB)) + Z.of_nat m / k.
  Proof.
    intros Hi Hm. destruct (HV i blk Hi) as [Hne HT].
    destruct (group_contains k _ 0 blk m x Hk HT Hm) as (Hin & Hc & Hq).
    unfold rebin_bin_search. rewrite <- NB_ends at 1. rewrite (start_abspos_sa NB NB_valid).
    rewrite Hc. unfold chrom_abspos, znth at 1. rewrite Nat2Z.id.
    rewrite choff_nth by (unfold sizes; rewrite map_length; apply Nat.lt_le_incl, nth_error_Some; congruence).
    rewrite <- NB_ends.
    assert (HiNB : nth_error NB i = Some (coarsen_block k blk)) by (unfold NB; rewrite nth_error_map, Hi; reflexivity).
    replace (sumZ (firstn i (map chrom_end NB)) + bstart x) with (0 + sumZ (firstn i (map chrom_end NB)) + bstart x) by lia.
    rewrite (ssr_sa NB (valid_goodblocks NB NB_valid) i 0 _ _ _ (bstart x) HiNB Hq Hin).
    assert (0 <= Z.of_nat m / k) by (apply Z.div_pos; lia). lia.
  Qed.

  (** the division path, taken when the new table reports a bin size *)
  Lemma rebin_div_index bs i blk m x :
    get_binsize (concat NB) = Some bs ->
    nth_error blocks i = Some blk -> nth_error blk m = Some x ->
    rebin_bin_div (concat NB) bs x = sumZ (firstn i (map zlen NB)) + Z.of_nat m / k.
  Proof.
    intros Hbs Hi Hm. destruct (HV i blk Hi) as [Hne HT].
    destruct (group_contains k _ 0 blk m x Hk HT Hm) as (Hin & Hc & Hq).
    destruct (binsize_truthful NB bs NB_valid Hbs) as [Hb Hideal].
    assert (HiNB : nth_error NB i = Some (coarsen_block k blk)) by (unfold NB; rewrite nth_error_map, Hi; reflexivity).
    specialize (Hideal i _ HiNB).
    set (q := Z.of_nat m / k) in *. assert (Hq0 : 0 <= q) by (apply Z.div_pos; lia).
    assert (Hy : group_bin k blk q = ideal_bin (Z.of_nat i) (chrom_end (coarsen_block k blk)) bs q).
    { rewrite Hideal in Hq at 1. unfold ideal_chrom in Hq. rewrite nth_error_map in Hq.
      destruct (nth_error (zrange 0 _) (Z.to_nat q)) as [q'|] eqn:E; [|discriminate].
      assert (Hlt : (Z.to_nat q < Z.to_nat (cdiv (chrom_end (coarsen_block k blk)) bs))%nat).
      { rewrite <- (zrange_length 0 (Z.to_nat (cdiv _ bs))). apply nth_error_Some. congruence. }
      rewrite nth_error_zrange in E by exact Hlt. injection E as <-. cbn in Hq.
      rewrite Z2Nat.id in Hq by lia. congruence. }
    rewrite Hy in Hin. unfold ideal_bin, bstart at 1, bend at 1 in Hin; cbn [fst snd] in Hin.
    unfold rebin_bin_div. rewrite Hc.
    change (chrom_binoffset (concat NB)) with (chrom_offset (concat NB)). rewrite (chrom_offset_valid NB NB_valid).
    unfold znth. rewrite Nat2Z.id.
    rewrite choff_nth by (rewrite map_length; unfold NB; rewrite map_length; apply Nat.lt_le_incl, nth_error_Some; congruence).
    f_equal. symmetry. apply Z.div_unique_pos with (r := bstart x - q * bs); lia.
  Qed.

  (** assembling the table *)
  Lemma itf_blocks (g : bin -> Z) : forall bl off,
    (forall i blk m x, nth_error bl i = Some blk -> nth_error blk m = Some x ->
       g x = off + sumZ (firstn i (map (fun b => cdiv (zlen b) k) bl)) + Z.of_nat m / k) ->
    map g (concat bl) = index_table_from off k (map zlen bl).
  Proof.
    induction bl as [|b r IH]; intros off Hg; [reflexivity|].
    cbn [concat map index_table_from]. rewrite map_app. f_equal.
    - apply nth_error_ext'. intros m. rewrite !nth_error_map. unfold zlen. rewrite Nat2Z.id.
      destruct (nth_error b m) as [x|] eqn:E.
      + rewrite nth_error_zrange by (apply nth_error_Some; congruence). cbn [option_map].
        rewrite (Hg 0%nat b m x eq_refl E). cbn [firstn sumZ fold_right]. rewrite Z.add_0_l, Z.add_0_r. reflexivity.
      + assert (H2 : nth_error (zrange 0 (length b)) m = None) by (apply nth_error_None; rewrite zrange_length; now apply nth_error_None).
        now rewrite H2.
    - apply IH. intros i blk m x Hi Hm. rewrite (Hg (S i) blk m x Hi Hm).
      cbn [map firstn]. change (sumZ (cdiv (zlen b) k :: ?l)) with (cdiv (zlen b) k + sumZ l). lia.
  Qed.

  Lemma NB_lens : map zlen NB = map (fun b => cdiv (zlen b) k) blocks.
  Proof. now destruct (coarsen_bins_spec blocks k Hk HV) as (_ & _ & _ & A). Qed.

  Theorem rebin_search_table :
    map (rebin_bin_search (concat NB) sizes) (concat blocks) = index_table (map zlen blocks) k.
  Proof.
    unfold index_table. apply itf_blocks. intros i blk m x Hi Hm.
    rewrite (rebin_search_index i blk m x Hi Hm), NB_lens. lia.
  Qed.

  Theorem rebin_div_table bs : get_binsize (concat NB) = Some bs ->
    map (rebin_bin_div (concat NB) bs) (concat blocks) = index_table (map zlen blocks) k.
  Proof.
    intros Hbs. unfold index_table. apply itf_blocks. intros i blk m x Hi Hm.
    rewrite (rebin_div_index bs i blk m x Hbs Hi Hm), NB_lens. lia.
  Qed.

  (** re-binning by start coordinate, as _aggregate does it, is the index reading *)
  Theorem rebin_eq_index :
    rebin_table (concat blocks) sizes k = index_table (map zlen blocks) k.
  Proof.
    unfold rebin_table, sizes. destruct (coarsen_bins_spec blocks k Hk HV) as (-> & _).
    fold NB. fold sizes. unfold rebin_bin. destruct (get_binsize (concat NB)) as [bs|] eqn:E.
    - apply (rebin_div_table bs E).
    - apply rebin_search_table.
  Qed.
End Rebin.

(* ====================================================== C08 top-level theorems *)
Definition InRangeRows (n : Z) (px : list pixel) : Prop := Forall (fun p => 0 <= row p < n) px.

Lemma valid_lens blocks : ValidBlocks blocks -> Forall (fun n => 1 <= n) (map zlen blocks).
Proof.
  intros HV. apply Forall_forall. intros n Hn. apply in_map_iff in Hn as [b [<- Hb]].
  apply In_nth_error in Hb as [i Hi]. destruct (HV i b Hi) as [Hne _].
  unfold zlen. destruct b; [congruence|cbn; lia].
Qed.

(** coarsen_cooler's pixel table is the canonical aggregate of the pixels re-keyed by INDEX
    (old bin m of chromosome c -> new_off c + m / k), for every chunk size and batch size *)
Theorem coarsen_canon blocks px k cs bs :
  1 <= k -> 1 <= cs -> 1 <= bs -> ValidBlocks blocks ->
  RowSorted px -> InRangeRows (zlen (concat blocks)) px ->
  coarsen_pixels (concat blocks) (map chrom_end blocks) px k cs bs = coarsen_spec (map zlen blocks) px k.
Proof.
  intros Hk Hcs Hbs HV HS Hr. unfold coarsen_pixels, coarsener_edges, coarsen_spec.
  rewrite (rebin_eq_index blocks k Hk HV), (chrom_offset_valid blocks HV), zlen_concat.
  apply coarsen_stream_canon; auto.
  - now apply valid_lens.
  - unfold InRangeRows in Hr. now rewrite zlen_concat in Hr.
Qed.

Corollary coarsen_is_canon blocks px k cs bs :
  1 <= k -> 1 <= cs -> 1 <= bs -> ValidBlocks blocks ->
  RowSorted px -> InRangeRows (zlen (concat blocks)) px ->
  Canon (map (rekey (index_table (map zlen blocks) k)) px)
        (coarsen_pixels (concat blocks) (map chrom_end blocks) px k cs bs).
Proof. intros. rewrite coarsen_canon by assumption. apply aggregate_canon. Qed.

Corollary coarsen_chunk_independent blocks px k cs1 bs1 cs2 bs2 :
  1 <= k -> 1 <= cs1 -> 1 <= bs1 -> 1 <= cs2 -> 1 <= bs2 -> ValidBlocks blocks ->
  RowSorted px -> InRangeRows (zlen (concat blocks)) px ->
  coarsen_pixels (concat blocks) (map chrom_end blocks) px k cs1 bs1 =
  coarsen_pixels (concat blocks) (map chrom_end blocks) px k cs2 bs2.
Proof. intros. now rewrite !coarsen_canon by assumption. Qed.

(* ------------------------------------------------------------------ totals *)
Definition total (l : list pixel) : Z := sumZ (map val l).

Lemma total_cons k v l : total ((k, v) :: l) = v + total l.
Proof. reflexivity. Qed.

Lemma total_ins k v l : total (ins k v l) = total l + v.
Proof.
  induction l as [|[k0 v0] t IH]; cbn [ins]; [rewrite total_cons; unfold total; cbn; lia|].
  destruct (kcmp k k0); rewrite ?total_cons, ?IH; lia.
Qed.

Lemma total_aggregate l : total (aggregate l) = total l.
Proof.
  unfold aggregate.
  assert (H : forall acc, total (fold_left (fun acc p => ins (fst p) (snd p) acc) l acc) = total acc + total l).
  { induction l as [|[k v] l IH]; intros acc; cbn [fold_left]; [unfold total; cbn; lia|].
    rewrite IH, total_ins, total_cons. cbn [fst snd]. lia. }
  rewrite H. unfold total. cbn. lia.
Qed.

Lemma total_rekey tbl l : total (map (rekey tbl) l) = total l.
Proof. unfold total. rewrite map_map. reflexivity. Qed.

Theorem coarsen_total blocks px k cs bs :
  1 <= k -> 1 <= cs -> 1 <= bs -> ValidBlocks blocks ->
  RowSorted px -> InRangeRows (zlen (concat blocks)) px ->
  total (coarsen_pixels (concat blocks) (map chrom_end blocks) px k cs bs) = total px.
Proof.
  intros. rewrite coarsen_canon by assumption. unfold coarsen_spec.
  now rewrite total_aggregate, total_rekey.
Qed.

(* =================================================== composition and merging *)
Lemma cdiv_cdiv n k1 k2 : 0 <= n -> 1 <= k1 -> 1 <= k2 -> cdiv (cdiv n k1) k2 = cdiv n (k1 * k2).
Proof.
  intros Hn H1 H2. unfold cdiv.
  replace (n + k1 * k2 - 1) with ((n - 1) + k2 * k1) by lia.
  rewrite <- Z.div_div by lia. rewrite Z.div_add by lia.
  replace (n + k1 - 1) with ((n - 1) + 1 * k1) by lia. rewrite Z.div_add by lia.
  f_equal. lia.
Qed.

Lemma itf_compose k1 k2 : 1 <= k1 -> 1 <= k2 ->
  forall lens, Forall (fun n => 0 <= n) lens ->
  forall P off1 off, zlen P = off1 ->
  map (fun v => znth (P ++ index_table_from off k2 (map (fun n => cdiv n k1) lens)) v 0)
      (index_table_from off1 k1 lens) = index_table_from off (k1 * k2) lens.
Proof.
  intros H1 H2. induction 1 as [|n r Hn HF IH]; intros P off1 off HP; [reflexivity|].
  cbn [index_table_from map]. rewrite map_app. f_equal.
  - rewrite map_map. apply map_ext_in. intros m Hm. apply in_zrange in Hm.
    assert (Hq : 0 <= m / k1 < cdiv n k1).
    { split; [apply Z.div_pos; lia|]. apply div_lt_cdiv; lia. }
    unfold znth, zlen in *. rewrite app_nth2 by lia.
    replace (Z.to_nat (off1 + m / k1) - length P)%nat with (Z.to_nat (m / k1)) by lia.
    rewrite app_nth1 by (rewrite map_length, zrange_length; lia).
    rewrite (nth_error_nth _ _ 0 (x := off + (m / k1) / k2)).
    + rewrite Z.div_div by lia. reflexivity.
    + rewrite nth_error_map, nth_error_zrange by lia. cbn. do 3 f_equal. lia.
  - rewrite <- (cdiv_cdiv n k1 k2) by lia.
    rewrite <- (IH (P ++ map (fun m => off + m / k2) (zrange 0 (Z.to_nat (cdiv n k1)))) (off1 + cdiv n k1) (off + cdiv (cdiv n k1) k2)).
    + rewrite <- app_assoc. reflexivity.
    + unfold zlen in *. rewrite app_length, map_length, zrange_length.
      assert (0 <= cdiv n k1) by (unfold cdiv; nia). lia.
Qed.

(** index tables compose: k1 then k2 is k1*k2 *)
Theorem index_table_compose lens k1 k2 : 1 <= k1 -> 1 <= k2 -> Forall (fun n => 0 <= n) lens ->
  map (fun v => znth (index_table (map (fun n => cdiv n k1) lens) k2) v 0) (index_table lens k1)
  = index_table lens (k1 * k2).
Proof.
  intros H1 H2 HF. unfold index_table.
  apply (itf_compose k1 k2 H1 H2 lens HF [] 0 0). reflexivity.
Qed.

(** re-keying the pixels through any key map commutes with canonical aggregation *)
Definition mapkey (gk : key -> key) (p : pixel) : pixel := (gk (fst p), snd p).

Lemma look_map_ins gk k v acc k' :
  look (map (mapkey gk) (ins k v acc)) k' =
  (match kcmp k' (gk k) with Eq => v | _ => 0 end) + look (map (mapkey gk) acc) k'.
Proof.
  induction acc as [|[k0 v0] t IH]; cbn [ins map look mapkey fst snd]; [lia|].
  destruct (kcmp k k0) eqn:E; cbn [map look mapkey fst snd].
  - apply kcmp_eq in E. subst k0. destruct (kcmp k' (gk k)); lia.
  - lia.
  - rewrite IH. lia.
Qed.

Lemma keys_map_ins gk k v acc k' :
  In k' (keys (map (mapkey gk) (ins k v acc))) <-> k' = gk k \/ In k' (keys (map (mapkey gk) acc)).
Proof.
  unfold keys. rewrite !map_map. cbn [mapkey fst].
  change (map (fun x => gk (fst x)) ?l) with (map (fun x => gk (fst x)) l).
  rewrite !in_map_iff. split.
  - intros [p [<- Hp]]. assert (Hk := proj1 (keys_ins k v acc (fst p)) (in_map fst _ _ Hp)).
    destruct Hk as [->|Hk]; [now left|right]. apply in_map_iff in Hk as [p' [E Hp']]. exists p'. split; [now rewrite E|exact Hp'].
  - intros [->|[p [<- Hp]]].
    + assert (Hk := proj2 (keys_ins k v acc k) (or_introl eq_refl)). apply in_map_iff in Hk as [p' [E Hp']].
      exists p'. split; [now rewrite E|exact Hp'].
    + assert (Hk := proj2 (keys_ins k v acc (fst p)) (or_intror (in_map fst _ _ Hp))).
      apply in_map_iff in Hk as [p' [E Hp']]. exists p'. split; [now rewrite E|exact Hp'].
Qed.

Theorem aggregate_mapkey gk l :
  aggregate (map (mapkey gk) (aggregate l)) = aggregate (map (mapkey gk) l).
Proof.
  apply (canon_unique (map (mapkey gk) l)); [|apply aggregate_canon].
  assert (H : forall acc,
     let r := fold_left (fun acc p => ins (fst p) (snd p) acc) l acc in
     (forall k', look (map (mapkey gk) r) k' = look (map (mapkey gk) acc) k' + look (map (mapkey gk) l) k') /\
     (forall k', In k' (keys (map (mapkey gk) r)) <-> In k' (keys (map (mapkey gk) acc)) \/ In k' (keys (map (mapkey gk) l)))).
  { induction l as [|[k v] l IH]; intros acc; cbn [fold_left].
    - split; intros k'; cbn; [lia|tauto].
    - destruct (IH (ins k v acc)) as [A B]. cbn zeta in A, B. cbn [fst snd]. split; intros k'.
      + rewrite A, look_map_ins. cbn [map look mapkey fst snd]. lia.
      + rewrite B, keys_map_ins. cbn [map keys mapkey fst snd In]. unfold keys. cbn [map fst]. intuition. }
  destruct (H []) as [A B]. cbn zeta in A, B. fold (aggregate l) in A, B.
  destruct (aggregate_canon (map (mapkey gk) (aggregate l))) as (S' & K' & L').
  split; [exact S'|]. split.
  - intros k'. rewrite K', B. cbn. tauto.
  - intros k'. rewrite L', A. cbn. lia.
Qed.

Definition gkey (tbl : list Z) (kk : key) : key := (znth tbl (fst kk) 0, znth tbl (snd kk) 0).
Lemma rekey_mapkey tbl l : map (rekey tbl) l = map (mapkey (gkey tbl)) l.
Proof. apply map_ext. intros p. reflexivity. Qed.

Definition InRange (n : Z) (px : list pixel) : Prop :=
  Forall (fun p => 0 <= row p < n /\ 0 <= col p < n) px.

(** coarsening by k1 and then by k2 is coarsening by k1*k2 (index level, any bin widths) *)
Theorem coarsen_spec_compose lens px k1 k2 :
  1 <= k1 -> 1 <= k2 -> Forall (fun n => 0 <= n) lens -> InRange (sumZ lens) px ->
  coarsen_spec (map (fun n => cdiv n k1) lens) (coarsen_spec lens px k1) k2 = coarsen_spec lens px (k1 * k2).
Proof.
  intros H1 H2 HF Hr. unfold coarsen_spec.
  rewrite (rekey_mapkey (index_table (map (fun n => cdiv n k1) lens) k2)), aggregate_mapkey, <- rekey_mapkey.
  f_equal. rewrite map_map. apply map_ext_in. intros p Hp.
  unfold InRange in Hr. rewrite Forall_forall in Hr. destruct (Hr p Hp) as [Rr Rc].
  pose proof (index_table_compose lens k1 k2 H1 H2 HF) as Hc.
  assert (Hlen : zlen (index_table lens k1) = sumZ lens) by (unfold index_table; now apply itf_length).
  assert (Hz : forall i, 0 <= i < sumZ lens ->
            znth (index_table (map (fun n => cdiv n k1) lens) k2) (znth (index_table lens k1) i 0) 0
            = znth (index_table lens (k1 * k2)) i 0).
  { intros i Hi. rewrite <- Hc. unfold znth at 3.
    symmetry. apply nth_error_nth. rewrite nth_error_map.
    rewrite (nth_error_nth' (index_table lens k1) 0) by (unfold zlen in Hlen; lia). reflexivity. }
  unfold rekey, row, col, val. cbn [fst snd]. rewrite !Hz by assumption. reflexivity.
Qed.

(** coarsening commutes with merging (merge = canonical aggregate of the concatenated inputs) *)
Theorem coarsen_merge_commute lens a b k :
  coarsen_spec lens (aggregate (a ++ b)) k = aggregate (coarsen_spec lens a k ++ coarsen_spec lens b k).
Proof.
  unfold coarsen_spec. set (T := index_table lens k).
  rewrite (rekey_mapkey T (aggregate (a ++ b))), aggregate_mapkey, <- rekey_mapkey, map_app.
  rewrite aggregate_app_agg.
  rewrite (aggregate_perm (map (rekey T) a ++ aggregate (map (rekey T) b)) (aggregate (map (rekey T) b) ++ map (rekey T) a))
    by apply Permutation_app_comm.
  rewrite aggregate_app_agg. apply aggregate_perm, Permutation_app_comm.
Qed.

Lemma cdiv_mul_ge n k : 1 <= k -> n <= cdiv n k * k.
Proof. intros. unfold cdiv. nia. Qed.

Lemma coarsen_block_nth_default k blk q : 1 <= k -> 0 <= q < cdiv (zlen blk) k ->
  nth (Z.to_nat q) (coarsen_block k blk) bin0 = group_bin k blk q.
Proof. intros Hk Hq. apply nth_error_nth. now apply coarsen_block_nth. Qed.

(** bin tables compose exactly *)
Theorem coarsen_block_compose k1 k2 blk : 1 <= k1 -> 1 <= k2 ->
  coarsen_block k2 (coarsen_block k1 blk) = coarsen_block (k1 * k2) blk.
Proof.
  intros H1 H2. set (n := zlen blk). assert (Hn : 0 <= n) by (unfold n, zlen; lia).
  set (N1 := cdiv n k1).
  assert (HN1 : zlen (coarsen_block k1 blk) = N1) by now apply coarsen_block_length.
  unfold coarsen_block at 1 3. rewrite HN1. fold n. unfold N1. rewrite cdiv_cdiv by lia.
  apply map_ext_in. intros q Hq. apply in_zrange in Hq.
  assert (H12 : 1 <= k1 * k2) by nia.
  assert (Hq' : 0 <= q < cdiv n (k1 * k2)) by lia.
  assert (Hqk : q * (k1 * k2) < n) by (apply lt_cdiv_iff; lia).
  assert (Hge : n <= N1 * k1) by now apply cdiv_mul_ge.
  assert (Hq2 : 0 <= q * k2 < N1) by (split; [nia|]; apply lt_cdiv_iff; [lia|]; nia).
  assert (HN1pos : 1 <= N1) by lia.
  unfold group_bin at 1. rewrite HN1.
  replace (Z.to_nat (q * k2)) with (Z.to_nat (q * k2)) by reflexivity.
  rewrite (coarsen_block_nth_default k1 blk (q * k2) H1 ltac:(fold n; fold N1; lia)).
  set (j := Z.min (q * k2 + k2) N1 - 1).
  assert (Hj : 0 <= j < N1) by (unfold j; lia).
  rewrite (coarsen_block_nth_default k1 blk j H1 ltac:(fold n; fold N1; lia)).
  unfold group_bin. fold n. unfold bchrom, bstart, bend; cbn [fst snd].
  replace (q * k2 * k1) with (q * (k1 * k2)) by lia.
  replace (Z.min (j * k1 + k1) n) with (Z.min (q * (k1 * k2) + k1 * k2) n); [reflexivity|].
  unfold j. destruct (Z_le_gt_dec (q * k2 + k2) N1) as [Hle|Hgt].
  - rewrite (Z.min_l (q * k2 + k2) N1) by lia. f_equal. lia.
  - rewrite (Z.min_r (q * k2 + k2) N1) by lia.
    rewrite !Z.min_r; [reflexivity| |]; nia.
Qed.

Lemma itf_upper k lens : 1 <= k -> Forall (fun n => 0 <= n) lens ->
  forall off v, In v (index_table_from off k lens) -> v < off + sumZ (map (fun n => cdiv n k) lens).
Proof.
  intros Hk. induction 1 as [|n r Hn HF IH]; intros off v Hv; [inversion Hv|].
  cbn [index_table_from map] in *. change (sumZ (cdiv n k :: ?l)) with (cdiv n k + sumZ l).
  assert (0 <= sumZ (map (fun n0 => cdiv n0 k) r)).
  { apply sumZ_nonneg. apply Forall_forall. intros x Hx. apply in_map_iff in Hx as [y [<- Hy]].
    rewrite Forall_forall in HF. specialize (HF y Hy). unfold cdiv. nia. }
  apply in_app_or in Hv as [Hv|Hv].
  - apply in_map_iff in Hv as [m [<- Hm]]. apply in_zrange in Hm.
    pose proof (div_lt_cdiv m n k Hk ltac:(lia)). lia.
  - apply IH in Hv. lia.
Qed.

Lemma index_table_range lens k i : 1 <= k -> Forall (fun n => 0 <= n) lens -> 0 <= i < sumZ lens ->
  0 <= znth (index_table lens k) i 0 < sumZ (map (fun n => cdiv n k) lens).
Proof.
  intros Hk HF Hi. unfold index_table.
  assert (Hin : In (znth (index_table_from 0 k lens) i 0) (index_table_from 0 k lens)).
  { unfold znth. apply nth_In. pose proof (itf_length k lens HF 0) as Hl. unfold zlen in Hl. lia. }
  pose proof (itf_lower k lens Hk HF 0 _ Hin). pose proof (itf_upper k lens Hk HF 0 _ Hin). lia.
Qed.

Lemma coarsen_spec_inrange lens px k : 1 <= k -> Forall (fun n => 0 <= n) lens -> InRange (sumZ lens) px ->
  InRange (sumZ (map (fun n => cdiv n k) lens)) (coarsen_spec lens px k).
Proof.
  intros Hk HF Hr. unfold InRange, coarsen_spec in *. apply Forall_forall. intros p Hp.
  destruct (aggregate_canon (map (rekey (index_table lens k)) px)) as (_ & K & _).
  assert (Hk' : In (fst p) (keys (aggregate (map (rekey (index_table lens k)) px)))) by (apply in_map; exact Hp).
  apply K in Hk'. unfold keys in Hk'. rewrite map_map in Hk'. apply in_map_iff in Hk' as [p0 [E Hp0]].
  rewrite Forall_forall in Hr. destruct (Hr p0 Hp0) as [Rr Rc].
  unfold row, col. rewrite <- E. cbn [rekey fst snd].
  split; apply index_table_range; auto.
Qed.

Lemma inrange_rows n px : InRange n px -> InRangeRows n px.
Proof. unfold InRange, InRangeRows. apply Forall_impl. tauto. Qed.

(** the model of coarsen_cooler composes: k1 then k2 = k1*k2, bins and pixels, for every valid
    (fixed or variable) bin table and any chunk/batch sizes *)
Theorem coarsen_compose blocks px k1 k2 cs1 bs1 cs2 bs2 cs bs :
  1 <= k1 -> 1 <= k2 -> 1 <= cs1 -> 1 <= bs1 -> 1 <= cs2 -> 1 <= bs2 -> 1 <= cs -> 1 <= bs ->
  ValidBlocks blocks -> RowSorted px -> InRange (zlen (concat blocks)) px ->
  let sizes := map chrom_end blocks in
  let c1 := coarsen_cooler (concat blocks) sizes px k1 cs1 bs1 in
  coarsen_cooler (fst c1) sizes (snd c1) k2 cs2 bs2 = coarsen_cooler (concat blocks) sizes px (k1 * k2) cs bs.
Proof.
  intros H1 H2 Hc1 Hb1 Hc2 Hb2 Hc Hb HV HS Hr sizes c1.
  assert (H12 : 1 <= k1 * k2) by nia.
  destruct (coarsen_bins_spec blocks k1 H1 HV) as (E1 & V1 & Ends1 & Lens1).
  set (NB1 := map (coarsen_block k1) blocks) in *.
  assert (Hlens : Forall (fun n => 0 <= n) (map zlen blocks)).
  { eapply Forall_impl; [|exact (valid_lens blocks HV)]. intros; cbn in *; lia. }
  pose proof Hr as Hr'. rewrite zlen_concat in Hr'.
  destruct (coarsen_bins_spec NB1 k2 H2 V1) as (E2 & _). rewrite Ends1 in E2.
  destruct (coarsen_bins_spec blocks (k1 * k2) H12 HV) as (E12 & _).
  pose proof (coarsen_spec_inrange (map zlen blocks) px k1 H1 Hlens Hr') as Hr1.
  assert (P1 : coarsen_pixels (concat blocks) (map chrom_end blocks) px k1 cs1 bs1 = coarsen_spec (map zlen blocks) px k1)
    by (apply coarsen_canon; auto using inrange_rows).
  assert (P12 : coarsen_pixels (concat blocks) (map chrom_end blocks) px (k1 * k2) cs bs = coarsen_spec (map zlen blocks) px (k1 * k2))
    by (apply coarsen_canon; auto using inrange_rows).
  assert (P2 : coarsen_pixels (concat NB1) (map chrom_end blocks) (coarsen_spec (map zlen blocks) px k1) k2 cs2 bs2
               = coarsen_spec (map zlen NB1) (coarsen_spec (map zlen blocks) px k1) k2).
  { rewrite <- Ends1. apply coarsen_canon; auto.
    - apply ssorted_rowsorted. unfold coarsen_spec. now destruct (aggregate_canon (map (rekey (index_table (map zlen blocks) k1)) px)).
    - apply inrange_rows. rewrite zlen_concat, Lens1, <- (map_map zlen (fun n => cdiv n k1)). exact Hr1. }
  unfold c1, coarsen_cooler, sizes. cbn [fst snd]. rewrite E1, E2, E12, P1, P12, P2. f_equal.
  - f_equal. unfold NB1. rewrite map_map. apply map_ext. intros blk. now apply coarsen_block_compose.
  - rewrite Lens1. rewrite <- (map_map zlen (fun n => cdiv n k1)). now apply coarsen_spec_compose.
Qed.

(* executable hypotheses *)
Lemma inrange_b_sound n px : inrange_b n px = true -> InRange n px.
Proof.
  unfold inrange_b, InRange. rewrite forallb_forall, Forall_forall. intros H p Hp.
  specialize (H p Hp). lia.
Qed.
Lemma ssorted_b_rowsorted px : ssorted_b px = true -> RowSorted px.
Proof. intros H. apply ssorted_rowsorted. now apply ssorted_b_spec. Qed.

(* =====================================================================================
   Any value type and any aggregation: the chunk stream is ONE group-by of the re-keyed pixels
   ===================================================================================== *)
Lemma slice_split_g {A} (px : list A) a b : 0 <= a <= b ->
  skipn (Z.to_nat a) px = slice px a b ++ skipn (Z.to_nat b) px.
Proof.
  intros H. unfold slice. replace (Z.to_nat b) with (Z.to_nat a + Z.to_nat (b - a))%nat by lia.
  rewrite skipn_add. symmetry. apply firstn_skipn.
Qed.

Lemma filter_map_length {A B} (h : A -> B) (f : B -> bool) l :
  length (filter f (map h l)) = length (filter (fun x => f (h x)) l).
Proof. induction l as [|x l IH]; [reflexivity|]. cbn [map filter]. destruct (f (h x)); cbn [length]; now rewrite IH. Qed.

Section GenericExact.
  Context {V : Type}.
  Notation recd := (key * V)%type.
  Variable agg : list V -> V.

  (** the key columns of a table, as a count-less pixel table: edges and alignment only depend on it *)
  Definition shadow (px : list recd) : list pixel := map (fun p => (fst p, 0)) px.

  Lemma shadow_length px : zlen (shadow px) = zlen px.
  Proof. unfold zlen, shadow. now rewrite map_length. Qed.

  Lemma bin1_offset_shadow n px : bin1_offset_g n px = bin1_offset n (shadow px).
  Proof.
    unfold bin1_offset_g, bin1_offset. apply map_ext. intros i. unfold zlen, shadow. f_equal.
    rewrite filter_map_length. reflexivity.
  Qed.

  Lemma edges_shadow t px k cs : coarsener_edges_g t px k cs = coarsener_edges t (shadow px) k cs.
  Proof. unfold coarsener_edges_g, coarsener_edges. now rewrite bin1_offset_shadow. Qed.

  Lemma shadow_slice px a b : shadow (slice px a b) = slice (shadow px) a b.
  Proof. unfold shadow, slice. now rewrite skipn_map, firstn_map. Qed.

  Section Stream.
    Variable tbl : list Z.
    Variable px : list recd.
    Let f := fun r => znth tbl r 0.

    Lemma gb_keys_before c (a b : list recd) :
      AlignedCut f (shadow px) c ->
      (forall p, In p a -> In (fst p, 0) (firstn c (shadow px))) ->
      (forall q, In q b -> In (fst q, 0) (skipn c (shadow px))) ->
      forall k1 k2, In k1 (map fst (map (grekey tbl) a)) -> In k2 (map fst (map (grekey tbl) b)) -> klt k1 k2.
    Proof.
      intros HA Ha Hb k1 k2 H1 H2. rewrite map_map in H1, H2.
      apply in_map_iff in H1 as [p [<- Hp]]. apply in_map_iff in H2 as [q [<- Hq]].
      left. cbn [fst grekey]. apply (HA (fst p, 0) (fst q, 0)); auto.
    Qed.

    Lemma spans_exact e : forall a,
      StronglySorted Z.lt (a :: e) -> 0 <= a -> last (a :: e) 0 = zlen px ->
      Forall (fun c => AlignedCut f (shadow px) (Z.to_nat c)) (a :: e) ->
      concat (map (aggregate_span_g agg px tbl) (spans (a :: e))) =
      groupby_agg agg (map (grekey tbl) (skipn (Z.to_nat a) px)).
    Proof.
      induction e as [|b r IH]; intros a HS Ha Hlast Hal.
      - cbn [last] in Hlast. subst a. unfold zlen. rewrite Nat2Z.id, skipn_all. reflexivity.
      - rewrite spans_cons. cbn [map concat].
        inversion HS as [|? ? HS' Hall]; subst. inversion Hall as [|? ? Hab _]; subst.
        inversion Hal as [|? ? _ Hal']; subst.
        rewrite IH; auto; [|lia].
        unfold aggregate_span_g at 1. cbn [fst snd].
        rewrite (slice_split_g px a b) by lia. rewrite map_app. symmetry. apply groupby_agg_app.
        inversion Hal' as [|? ? Hb _]; subst.
        apply (gb_keys_before (Z.to_nat b)); auto.
        + intros p Hp. apply (slice_in_firstn (shadow px) a b); [lia|].
          rewrite <- shadow_slice. unfold shadow. apply in_map_iff. exists p. auto.
        + intros q Hq. unfold shadow. rewrite skipn_map. apply in_map_iff. exists q. auto.
    Qed.
  End Stream.

  (** index level *)
  Theorem coarsen_stream_exact lens px k cs bs :
    1 <= k -> 1 <= cs -> 1 <= bs ->
    Forall (fun n => 1 <= n) lens -> RowSorted (shadow px) -> Forall (fun p => 0 <= row p < sumZ lens) (shadow px) ->
    let tbl := index_table lens k in
    let edges := greedy_prune_partition (coarse_edges (0 :: cumsum lens) (bin1_offset_g (sumZ lens) px) k) cs in
    concat (coarsener_iter_g agg px tbl edges bs) = groupby_agg agg (map (grekey tbl) px).
  Proof.
    intros Hk Hcs Hbs Hlens HS Hrows tbl edges.
    destruct (coarse_edges_facts lens (shadow px) k Hk Hlens HS Hrows) as ((rest & HE) & HSE & Hlast & Hal).
    unfold edges. rewrite bin1_offset_shadow. rewrite HE in *.
    destruct (prune_subsequence rest cs HSE Hcs) as ((idx & Hp & Hidxs & Hidxr) & Hhd & Hl & Hps).
    set (p := greedy_prune_partition (0 :: rest) cs) in *.
    unfold coarsener_iter_g. rewrite iter_batches by exact Hbs.
    assert (Halp : Forall (fun c => AlignedCut (fun r => znth tbl r 0) (shadow px) (Z.to_nat c)) p).
    { rewrite Hp. apply Forall_forall. intros c Hc. apply in_map_iff in Hc as [i [<- Hi]].
      rewrite Forall_forall in Hal, Hidxr. apply Hal. unfold znth. apply nth_In.
      specialize (Hidxr i Hi). unfold zlen in Hidxr. lia. }
    rewrite Hlast, shadow_length in Hl.
    destruct p as [|a e] eqn:Ep.
    - cbn [last] in Hl. destruct px; [reflexivity|]. unfold zlen in Hl. cbn in Hl. lia.
    - cbn [hd] in Hhd. subst a.
      rewrite (spans_exact tbl px e 0 Hps ltac:(lia)); [reflexivity|exact Hl|exact Halp].
  Qed.

  (** coarsen_cooler with ANY aggregation: the concatenated chunk stream is the group-by of the pixels
      re-keyed by index — each new pixel's value is agg of exactly the old values that fall into it, in
      storage order — for every valid (fixed or variable) bin table, k, chunk size and batch size *)
  Theorem coarsen_exact blocks px k cs bs :
    1 <= k -> 1 <= cs -> 1 <= bs -> ValidBlocks blocks ->
    RowSorted (shadow px) -> InRangeRows (zlen (concat blocks)) (shadow px) ->
    coarsen_pixels_g agg (concat blocks) (map chrom_end blocks) px k cs bs = coarsen_spec_g agg (map zlen blocks) px k.
  Proof.
    intros Hk Hcs Hbs HV HS Hr. unfold coarsen_pixels_g, coarsener_edges_g, coarsen_spec_g.
    rewrite (rebin_eq_index blocks k Hk HV), (chrom_offset_valid blocks HV), zlen_concat.
    apply coarsen_stream_exact; auto.
    - now apply valid_lens.
    - unfold InRangeRows in Hr. now rewrite zlen_concat in Hr.
  Qed.

  Corollary coarsen_exact_chunk_independent blocks px k cs1 bs1 cs2 bs2 :
    1 <= k -> 1 <= cs1 -> 1 <= bs1 -> 1 <= cs2 -> 1 <= bs2 -> ValidBlocks blocks ->
    RowSorted (shadow px) -> InRangeRows (zlen (concat blocks)) (shadow px) ->
    coarsen_pixels_g agg (concat blocks) (map chrom_end blocks) px k cs1 bs1 =
    coarsen_pixels_g agg (concat blocks) (map chrom_end blocks) px k cs2 bs2.
  Proof. intros. now rewrite !coarsen_exact by assumption. Qed.

  (** pixel-wise reading of the group-by *)
  Theorem coarsen_pixelwise blocks px k cs bs :
    1 <= k -> 1 <= cs -> 1 <= bs -> ValidBlocks blocks ->
    RowSorted (shadow px) -> InRangeRows (zlen (concat blocks)) (shadow px) ->
    let out := coarsen_pixels_g agg (concat blocks) (map chrom_end blocks) px k cs bs in
    let src := map (grekey (index_table (map zlen blocks) k)) px in
    StronglySorted klt (map fst out) /\
    (forall key, In key (map fst out) <-> In key (map fst src)) /\
    (forall key v, In (key, v) out -> v = agg (vals src key)).
  Proof.
    intros Hk Hcs Hbs HV HS Hr out src. unfold out. rewrite coarsen_exact by assumption. unfold coarsen_spec_g. fold src.
    split; [apply groupby_agg_sorted|]. split; [intro; apply groupby_agg_keys|intros; now apply groupby_agg_value].
  Qed.
End GenericExact.

(** the sum instance IS the model used so far (Canon / aggregate of Model/Pixels.v) *)
Lemma shadow_pixel_rows (px : list pixel) : map row (shadow px) = map row px.
Proof. unfold shadow. rewrite map_map. reflexivity. Qed.

Theorem coarsen_pixels_sum t sizes (px : list pixel) k cs bs :
  coarsen_pixels_g sumZ t sizes px k cs bs = coarsen_pixels t sizes px k cs bs.
Proof.
  unfold coarsen_pixels_g, coarsen_pixels, coarsener_iter_g, coarsener_iter, coarsener_edges_g, coarsener_edges. f_equal.
  assert (E : bin1_offset_g (zlen t) px = bin1_offset (zlen t) px) by reflexivity. rewrite E.
  f_equal. apply map_ext. intros l. apply map_ext. intros s.
  unfold aggregate_span_g, aggregate_span. rewrite groupby_sum_aggregate. reflexivity.
Qed.

(* ================================================ aggregations that compose over a partition *)
(** permutation invariance, and: aggregating the aggregates of the non-empty blocks of a partition
    equals aggregating everything *)
Definition AggPerm {V} (agg : list V -> V) : Prop := forall vs vs', Permutation vs vs' -> agg vs = agg vs'.
Definition AggDecomp {V} (agg : list V -> V) : Prop := forall xss : list (list V),
  agg (concat (map (fun xs => match xs with [] => [] | _ => [agg xs] end) xss)) = agg (concat xss).
(** the plain form of the law (over non-empty blocks) implies the form used in the proofs *)
Definition AggComposes {V} (agg : list V -> V) : Prop :=
  forall Gs : list (list V), Forall (fun G => G <> []) Gs -> agg (map agg Gs) = agg (concat Gs).

Definition nonempty_b {A} (xs : list A) : bool := match xs with [] => false | _ => true end.
Lemma decomp_lhs {V} (agg : list V -> V) xss :
  concat (map (fun xs => match xs with [] => [] | _ => [agg xs] end) xss) = map agg (filter nonempty_b xss).
Proof. induction xss as [|[|x xs] t IH]; [reflexivity|exact IH|]. cbn [map concat filter nonempty_b app]. now rewrite IH. Qed.
Lemma concat_filter_nonempty {A} (xss : list (list A)) : concat xss = concat (filter nonempty_b xss).
Proof. induction xss as [|[|x xs] t IH]; [reflexivity|exact IH|]. cbn [concat filter nonempty_b]. now rewrite IH. Qed.

Lemma composes_decomp {V} (agg : list V -> V) : AggComposes agg -> AggDecomp agg.
Proof.
  intros H xss. rewrite decomp_lhs, (concat_filter_nonempty xss). apply H.
  apply Forall_forall. intros G HG. apply filter_In in HG as [_ HG]. destruct G; [discriminate|discriminate].
Qed.

Section GenericCompose.
  Context {V : Type}.
  Notation recd := (key * V)%type.
  Variable agg : list V -> V.
  Hypothesis Hperm : AggPerm agg.
  Hypothesis Hdecomp : AggDecomp agg.

  Definition mapkey_g (gk : key -> key) (p : recd) : recd := (gk (fst p), snd p).
  Definition ungroup1 (g : key * list V) : list recd := map (fun v => (fst g, v)) (snd g).

  Lemma perm_ungroup_gins k v g :
    Permutation (concat (map ungroup1 (gins k v g))) ((k, v) :: concat (map ungroup1 g)).
  Proof.
    induction g as [|[k' vs] t IH]; cbn [gins map concat]; [reflexivity|].
    destruct (kcmp k k') eqn:E; cbn [map concat].
    - apply kcmp_eq in E. subst k'. unfold ungroup1 at 1 3. cbn [fst snd]. rewrite map_app. cbn [map].
      rewrite <- app_assoc. cbn [app]. symmetry. apply Permutation_middle.
    - reflexivity.
    - rewrite IH. symmetry. apply Permutation_middle.
  Qed.

  Lemma perm_ungroup (l : list recd) : Permutation (concat (map ungroup1 (group l))) l.
  Proof.
    unfold group.
    assert (H : forall acc, Permutation (concat (map ungroup1 (fold_left (fun acc p => gins (fst p) (snd p) acc) l acc)))
                                         (concat (map ungroup1 acc) ++ l)).
    { induction l as [|[k v] l IH]; intros acc; cbn [fold_left]; [now rewrite app_nil_r|].
      rewrite IH. cbn [fst snd]. rewrite perm_ungroup_gins. cbn [app]. apply Permutation_middle. }
    rewrite H. reflexivity.
  Qed.

  Lemma group_nonempty (l : list recd) : Forall (fun g => snd g <> []) (group l).
  Proof.
    unfold group.
    assert (H : forall acc, Forall (fun g : key * list V => snd g <> []) acc ->
                 Forall (fun g : key * list V => snd g <> []) (fold_left (fun acc p => gins (fst p) (snd p) acc) l acc)).
    { induction l as [|[k v] l IH]; intros acc HA; cbn [fold_left]; [exact HA|]. apply IH. cbn [fst snd].
      clear IH. induction HA as [|[k' vs] t Hg HA IHa]; cbn [gins]; [constructor; [discriminate|constructor]|].
      destruct (kcmp k k'); constructor; auto; cbn [snd] in *.
      - intros X. apply app_eq_nil in X as [_ X]. discriminate.
      - discriminate. }
    apply H. constructor.
  Qed.

  Lemma group_const K (vs : list V) : vs <> [] -> group (map (fun v => (K, v)) vs) = [(K, vs)].
  Proof.
    intros Hne. unfold group.
    assert (H : forall ws acc0, fold_left (fun acc (p : recd) => gins (fst p) (snd p) acc) (map (fun v => (K, v)) ws) [(K, acc0)] = [(K, acc0 ++ ws)]).
    { induction ws as [|w ws IH]; intros acc0; cbn [map fold_left]; [now rewrite app_nil_r|].
      cbn [fst snd gins]. rewrite kcmp_refl, IH, <- app_assoc. reflexivity. }
    destruct vs as [|v vs]; [congruence|]. cbn [map fold_left fst snd gins]. now rewrite H.
  Qed.

  (** re-keying through any key map commutes with the group-by, for an aggregation that composes *)
  Theorem groupby_mapkey gk (l : list recd) :
    groupby_agg agg (map (mapkey_g gk) (groupby_agg agg l)) = groupby_agg agg (map (mapkey_g gk) l).
  Proof.
    set (Gs := map (fun g => map (mapkey_g gk) (ungroup1 g)) (group l)).
    assert (E1 : concat (map (groupby_agg agg) Gs) = map (mapkey_g gk) (groupby_agg agg l)).
    { unfold Gs, groupby_agg at 2. rewrite !map_map. pose proof (group_nonempty l) as Hne.
      induction Hne as [|[k vs] t Hg _ IH]; [reflexivity|]. cbn [map concat]. rewrite IH. f_equal.
      unfold ungroup1. cbn [fst snd] in *. rewrite map_map. unfold mapkey_g at 1. cbn [fst snd].
      unfold groupby_agg. rewrite (group_const (gk k) vs Hg). reflexivity. }
    assert (E2 : Permutation (concat Gs) (map (mapkey_g gk) l)).
    { unfold Gs. rewrite <- map_map, <- concat_map. apply Permutation_map. apply perm_ungroup. }
    rewrite <- E1, (groupby_agg_two_level agg Hdecomp Gs).
    apply (groupby_agg_perm agg Hperm). exact E2.
  Qed.

  Lemma grekey_mapkey tbl (l : list recd) : map (grekey tbl) l = map (mapkey_g (gkey tbl)) l.
  Proof. apply map_ext. intros p. reflexivity. Qed.

  (** k1 then k2 = k1*k2, index level, any bin widths *)
  Theorem coarsen_spec_compose_g lens (px : list recd) k1 k2 :
    1 <= k1 -> 1 <= k2 -> Forall (fun n => 0 <= n) lens -> InRange (sumZ lens) (shadow px) ->
    coarsen_spec_g agg (map (fun n => cdiv n k1) lens) (coarsen_spec_g agg lens px k1) k2 = coarsen_spec_g agg lens px (k1 * k2).
  Proof.
    intros H1 H2 HF Hr. unfold coarsen_spec_g.
    rewrite (grekey_mapkey (index_table (map (fun n => cdiv n k1) lens) k2)), groupby_mapkey, <- grekey_mapkey.
    f_equal. rewrite map_map. apply map_ext_in. intros p Hp.
    unfold InRange in Hr. rewrite Forall_forall in Hr.
    destruct (Hr (fst p, 0) ltac:(unfold shadow; apply in_map_iff; exists p; auto)) as [Rr Rc].
    unfold row, col in Rr, Rc. cbn [fst snd] in Rr, Rc.
    pose proof (index_table_compose lens k1 k2 H1 H2 HF) as Hc.
    assert (Hlen : zlen (index_table lens k1) = sumZ lens) by (unfold index_table; now apply itf_length).
    assert (Hz : forall i, 0 <= i < sumZ lens ->
              znth (index_table (map (fun n => cdiv n k1) lens) k2) (znth (index_table lens k1) i 0) 0
              = znth (index_table lens (k1 * k2)) i 0).
    { intros i Hi. rewrite <- Hc. unfold znth at 3.
      symmetry. apply nth_error_nth. rewrite nth_error_map.
      rewrite (nth_error_nth' (index_table lens k1) 0) by (unfold zlen in Hlen; lia). reflexivity. }
    unfold grekey, grow, gcol. cbn [fst snd]. rewrite !Hz by assumption. reflexivity.
  Qed.

  (** coarsening commutes with merging (merge = group-by of the concatenated inputs, C07) *)
  Theorem coarsen_merge_commute_g lens (a b : list recd) k :
    coarsen_spec_g agg lens (groupby_agg agg (a ++ b)) k =
    groupby_agg agg (coarsen_spec_g agg lens a k ++ coarsen_spec_g agg lens b k).
  Proof.
    unfold coarsen_spec_g. set (T := index_table lens k).
    rewrite (grekey_mapkey T (groupby_agg agg (a ++ b))), groupby_mapkey, <- grekey_mapkey, map_app.
    pose proof (groupby_agg_two_level agg Hdecomp [map (grekey T) a; map (grekey T) b]) as H.
    cbn [map concat] in H. rewrite !app_nil_r in H. exact (eq_sym H).
  Qed.
End GenericCompose.

Section GenericModelCompose.
  Context {V : Type}.
  Notation recd := (key * V)%type.
  Variable agg : list V -> V.
  Hypothesis Hperm : AggPerm agg.
  Hypothesis Hdecomp : AggDecomp agg.

  Lemma shadow_keys (l : list recd) : keys (shadow l) = map fst l.
  Proof. unfold keys, shadow. rewrite map_map. reflexivity. Qed.

  Lemma groupby_rowsorted (l : list recd) : RowSorted (shadow (groupby_agg agg l)).
  Proof. apply ssorted_rowsorted. unfold SSorted. rewrite shadow_keys. apply groupby_agg_sorted. Qed.

  Lemma coarsen_spec_inrange_g lens (px : list recd) k : 1 <= k -> Forall (fun n => 0 <= n) lens ->
    InRange (sumZ lens) (shadow px) ->
    InRange (sumZ (map (fun n => cdiv n k) lens)) (shadow (coarsen_spec_g agg lens px k)).
  Proof.
    intros Hk HF Hr. unfold InRange, coarsen_spec_g in *. apply Forall_forall. intros q Hq.
    unfold shadow in Hq. apply in_map_iff in Hq as [p [<- Hp]].
    assert (Hk' : In (fst p) (map fst (groupby_agg agg (map (grekey (index_table lens k)) px)))) by (apply in_map; exact Hp).
    apply groupby_agg_keys in Hk'. rewrite map_map in Hk'. apply in_map_iff in Hk' as [p0 [E Hp0]].
    rewrite Forall_forall in Hr.
    destruct (Hr (fst p0, 0) ltac:(unfold shadow; apply in_map_iff; exists p0; auto)) as [Rr Rc].
    unfold row, col in *. cbn [fst snd] in *. rewrite <- E. cbn [grekey fst snd]. unfold grow, gcol.
    split; apply index_table_range; auto.
  Qed.

  (** the model of coarsen_cooler with any composing aggregation: k1 then k2 = k1*k2 *)
  Theorem coarsen_compose_g blocks (px : list recd) k1 k2 cs1 bs1 cs2 bs2 cs bs :
    1 <= k1 -> 1 <= k2 -> 1 <= cs1 -> 1 <= bs1 -> 1 <= cs2 -> 1 <= bs2 -> 1 <= cs -> 1 <= bs ->
    ValidBlocks blocks -> RowSorted (shadow px) -> InRange (zlen (concat blocks)) (shadow px) ->
    let sizes := map chrom_end blocks in
    let c1 := coarsen_cooler_g agg (concat blocks) sizes px k1 cs1 bs1 in
    coarsen_cooler_g agg (fst c1) sizes (snd c1) k2 cs2 bs2 = coarsen_cooler_g agg (concat blocks) sizes px (k1 * k2) cs bs.
  Proof.
    intros H1 H2 Hc1 Hb1 Hc2 Hb2 Hc Hb HV HS Hr sizes c1.
    assert (H12 : 1 <= k1 * k2) by nia.
    destruct (coarsen_bins_spec blocks k1 H1 HV) as (E1 & V1 & Ends1 & Lens1).
    set (NB1 := map (coarsen_block k1) blocks) in *.
    assert (Hlens : Forall (fun n => 0 <= n) (map zlen blocks)).
    { eapply Forall_impl; [|exact (valid_lens blocks HV)]. intros; cbn in *; lia. }
    pose proof Hr as Hr'. rewrite zlen_concat in Hr'.
    destruct (coarsen_bins_spec NB1 k2 H2 V1) as (E2 & _). rewrite Ends1 in E2.
    destruct (coarsen_bins_spec blocks (k1 * k2) H12 HV) as (E12 & _).
    pose proof (coarsen_spec_inrange_g (map zlen blocks) px k1 H1 Hlens Hr') as Hr1.
    assert (P1 : coarsen_pixels_g agg (concat blocks) (map chrom_end blocks) px k1 cs1 bs1 = coarsen_spec_g agg (map zlen blocks) px k1)
      by (apply coarsen_exact; auto using inrange_rows).
    assert (P12 : coarsen_pixels_g agg (concat blocks) (map chrom_end blocks) px (k1 * k2) cs bs = coarsen_spec_g agg (map zlen blocks) px (k1 * k2))
      by (apply coarsen_exact; auto using inrange_rows).
    assert (P2 : coarsen_pixels_g agg (concat NB1) (map chrom_end blocks) (coarsen_spec_g agg (map zlen blocks) px k1) k2 cs2 bs2
                 = coarsen_spec_g agg (map zlen NB1) (coarsen_spec_g agg (map zlen blocks) px k1) k2).
    { rewrite <- Ends1. apply coarsen_exact; auto.
      - unfold coarsen_spec_g. apply groupby_rowsorted.
      - apply inrange_rows. rewrite zlen_concat, Lens1, <- (map_map zlen (fun n => cdiv n k1)). exact Hr1. }
    unfold c1, coarsen_cooler_g, sizes. cbn [fst snd]. rewrite E1, E2, E12, P1, P12, P2. f_equal.
    - f_equal. unfold NB1. rewrite map_map. apply map_ext. intros blk. now apply coarsen_block_compose.
    - rewrite Lens1. rewrite <- (map_map zlen (fun n => cdiv n k1)). now apply coarsen_spec_compose_g.
  Qed.
End GenericModelCompose.

(* ================================================================ sum, max, min; not mean *)
Lemma sumZ_perm : AggPerm sumZ.
Proof. intros vs vs' H. induction H as [|x l l' _ IH|x y l|l l' l'' _ IH1 _ IH2]; unfold sumZ in *; cbn [fold_right] in *; lia. Qed.

Lemma sumZ_composes : AggComposes sumZ.
Proof.
  intros Gs _. induction Gs as [|G t IH]; [reflexivity|]. cbn [map concat]. rewrite sumZ_app, <- IH. reflexivity.
Qed.

(** max and min together: [sel] picks the more extreme of two, [R x y] = "y is at least as extreme as x" *)
Section Extremum.
  Variable sel : Z -> Z -> Z.
  Variable R : Z -> Z -> Prop.
  Hypothesis sel_pick : forall a b, sel a b = a \/ sel a b = b.
  Hypothesis sel_l : forall a b, R a (sel a b).
  Hypothesis sel_r : forall a b, R b (sel a b).
  Hypothesis R_refl : forall a, R a a.
  Hypothesis R_trans : forall a b c, R a b -> R b c -> R a c.
  Hypothesis R_antisym : forall a b, R a b -> R b a -> a = b.
  Let aggx (l : list Z) : Z := match l with [] => 0 | x :: r => fold_left sel r x end.

  Lemma fold_sel_spec r : forall x, (In (fold_left sel r x) (x :: r)) /\ Forall (fun y => R y (fold_left sel r x)) (x :: r).
  Proof.
    induction r as [|y r IH]; intros x; cbn [fold_left].
    - split; [now left|]. constructor; [apply R_refl|constructor].
    - destruct (IH (sel x y)) as [A B]. inversion B as [|? ? B1 B2]; subst. split.
      + destruct A as [A|A]; [|right; right; exact A]. rewrite <- A.
        destruct (sel_pick x y) as [ -> | -> ]; [now left|right; now left].
      + constructor; [eapply R_trans; [apply sel_l|exact B1]|]. constructor; [eapply R_trans; [apply sel_r|exact B1]|exact B2].
  Qed.

  Lemma aggx_spec l : l <> [] -> In (aggx l) l /\ Forall (fun y => R y (aggx l)) l.
  Proof. destruct l as [|x r]; [congruence|]. intros _. apply fold_sel_spec. Qed.

  Lemma aggx_unique l m : In m l -> Forall (fun y => R y m) l -> aggx l = m.
  Proof.
    intros Hin Hall. assert (Hne : l <> []) by (intros ->; inversion Hin).
    destruct (aggx_spec l Hne) as [A B]. rewrite Forall_forall in Hall, B. apply R_antisym; auto.
  Qed.

  Lemma aggx_perm : AggPerm aggx.
  Proof.
    intros vs vs' HP. destruct vs as [|x r].
    - apply Permutation_nil in HP. now subst.
    - assert (Hne : x :: r <> []) by discriminate. destruct (aggx_spec _ Hne) as [A B].
      symmetry. apply aggx_unique; [eapply Permutation_in; eauto|eapply Permutation_Forall; eauto].
  Qed.

  Lemma aggx_composes : AggComposes aggx.
  Proof.
    intros Gs HG. destruct (concat Gs) as [|c0 cr] eqn:Ec.
    - (* all blocks empty is impossible unless there are none *)
      destruct Gs as [|G t]; [reflexivity|]. inversion HG as [|? ? HG1 _]; subst. destruct G; [congruence|discriminate].
    - rewrite <- Ec. assert (Hne : concat Gs <> []) by (rewrite Ec; discriminate).
      destruct (aggx_spec _ Hne) as [A B]. apply aggx_unique.
      + apply in_concat in A as [G [HGin HA]]. apply in_map_iff. exists G. split; [|exact HGin].
        rewrite Forall_forall in HG. apply aggx_unique; [exact HA|].
        apply Forall_forall. intros y Hy. rewrite Forall_forall in B. apply B. apply in_concat. eauto.
      + apply Forall_forall. intros y Hy. apply in_map_iff in Hy as [G [<- HGin]].
        rewrite Forall_forall in HG, B. destruct (aggx_spec G (HG G HGin)) as [A' _]. apply B. apply in_concat. eauto.
  Qed.
End Extremum.

Lemma agg_max_perm : AggPerm agg_max.
Proof. apply (aggx_perm Z.max Z.le); intros; lia. Qed.
Lemma agg_max_composes : AggComposes agg_max.
Proof. apply (aggx_composes Z.max Z.le); intros; lia. Qed.
Lemma agg_min_perm : AggPerm agg_min.
Proof. apply (aggx_perm Z.min Z.ge); intros; lia. Qed.
Lemma agg_min_composes : AggComposes agg_min.
Proof. apply (aggx_composes Z.min Z.ge); intros; lia. Qed.

Lemma agg_of_perm op : AggPerm (agg_of op).
Proof. destruct op; [apply sumZ_perm|apply agg_max_perm|apply agg_min_perm]. Qed.
Lemma agg_of_decomp op : AggDecomp (agg_of op).
Proof. apply composes_decomp. destruct op; [apply sumZ_composes|apply agg_max_composes|apply agg_min_composes]. Qed.

(** the mean does NOT compose: the mean of the block means is not the mean of everything *)
Lemma agg_mean_not_composes : ~ AggComposes agg_mean.
Proof. intros H. specialize (H [[1]; [3; 5]] ltac:(repeat constructor; discriminate)). vm_compute in H. discriminate. Qed.

(** the UNGUARDED law (empty blocks allowed) is false for max/min: agg [] is a default value *)
Lemma agg_max_unguarded_refuted : exists Gs, agg_max (map agg_max Gs) <> agg_max (concat Gs).
Proof. exists [[]; [-5]]. vm_compute. discriminate. Qed.
