import warnings; warnings.filterwarnings("ignore")
import numpy as np, pandas as pd, cooler, h5py, os, sys
from fractions import Fraction as Fr
rng=np.random.default_rng(7)
viol=0; runs=0; worst=0
for trial in range(120):
    nchr=int(rng.integers(1,4)); per=rng.integers(2,5,nchr); cs=pd.Series({f"c{k}":int(p)*10 for k,p in enumerate(per)})
    bins=cooler.binnify(cs,10); n=len(bins)
    M=np.triu((rng.random((n,n))<0.8)*rng.integers(1,30,(n,n))); 
    i,j=np.nonzero(M); px=pd.DataFrame({"bin1_id":i,"bin2_id":j,"count":M[i,j]})
    cooler.create_cooler("b.cool",bins,px); c=cooler.Cooler("b.cool")
    d=int(rng.integers(1,3)); tol=float(10.0**-rng.integers(1,8)); mode=trial%3
    kw=dict(ignore_diags=d,min_nnz=int(rng.integers(0,3)),mad_max=0,tol=tol,max_iters=int(rng.integers(1,60)),rescale_marginals=True,cis_only=(mode==1),trans_only=(mode==2))
    w,st=cooler.balance_cooler(c,**kw)
    runs+=1
    F=M+np.triu(M,1).T
    F=F.astype(float)
    ii,jj=np.indices((n,n)); F[np.abs(ii-jj)<d]=0
    chrom=np.repeat(np.arange(nchr),per)
    if mode==1: F[chrom[:,None]!=chrom[None,:]]=0
    if mode==2: F[chrom[:,None]==chrom[None,:]]=0
    ww=np.where(np.isnan(w),0,w)
    if mode==2:
        # trans-only uses cweights in marginals only; returned bias excludes cweights: marginals flat w.r.t bias*cweights
        cwt=1.0/np.concatenate([[1-(p)/n]*p for p in per]) if nchr>1 else None
    R=(F*np.outer(ww,ww)).sum(1)
    groups=[np.arange(n)] if mode!=1 else [np.where(chrom==k)[0] for k in range(nchr)]
    conv=np.atleast_1d(st["converged"]); scale=np.atleast_1d(st["scale"]); var=np.atleast_1d(st["var"])
    for g,(idx) in enumerate(groups):
        if not conv[g] or np.isnan(scale[g]): continue
        r=R[idx]; r=r[(ww[idx]!=0)&(r!=0)]
        if len(r)==0: continue
        N=len(r)  # number of nonzero marg entries (approx: same set)
        eps=np.sqrt(N*tol)/scale[g]
        if eps>=1: continue
        if mode==2: continue
        lo,hi=1/(1+eps),1/(1-eps)
        worst=max(worst,(r.max()-1)/(hi-1) if hi>1 else 0)
        if r.min()<lo*(1-1e-9) or r.max()>hi*(1+1e-9):
            viol+=1; print("BOUND VIOLATED",kw,r,lo,hi,scale[g],var[g])
print("runs",runs,"bound violations",viol,"worst ratio",worst)
