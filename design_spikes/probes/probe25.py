import numpy as np, bisect
from fractions import Fraction as Fr
from cooler.core._rangequery import arg_prune_partition
from cooler._reduce import merge_breakpoints, _greedy_prune_partition
rng=np.random.default_rng(8)
diff=0; tot=0; viol=0
for t in range(20000):
    n=int(rng.integers(1,15)); seq=np.cumsum(np.r_[rng.integers(0,50),rng.integers(0,6,n)*rng.integers(0,2,n)]); step=int(rng.integers(1,12))
    got=arg_prune_partition(seq,step).tolist()
    lo,hi=int(seq[0]),int(seq[-1]); num=2+(hi-lo)//step
    cuts=[lo+ (Fr(k*(hi-lo),num-1)).__floor__() for k in range(num)]
    exp=sorted(set(int(np.searchsorted(seq,c)) for c in cuts))
    tot+=1
    if got!=exp: diff+=1
    # theorem postcondition on numpy's result
    L=got[-1]
    if got[0]!=0 or got!=sorted(set(got)) or not all(seq[r]==hi for r in range(L,len(seq))): viol+=1
print("arg_prune: numpy vs exact-rational cuts differ in",diff,"of",tot,"; postcondition violations",viol)
# merge_breakpoints model
def model_bp(ci,buf):
    nnz=ci[-1]; lo=0; start=0; out=[0]
    for fuel in range(len(ci)):
        x=min(start+buf,nnz); hi=lo+sum(1 for _ in __import__('itertools').takewhile(lambda v:v<=x, ci[lo:]))-1
        if hi==lo: hi+=1
        out.append(hi)
        if ci[hi]==nnz: return out
        lo=hi; start=ci[hi]
    return None
import warnings; warnings.filterwarnings("ignore")
bad=0
for t in range(20000):
    n=int(rng.integers(1,12)); k=int(rng.integers(1,4))
    idx=[np.r_[0,np.cumsum(rng.integers(0,5,n)*rng.integers(0,2,n))] for _ in range(k)]
    buf=int(rng.integers(1,12))
    got=merge_breakpoints(idx,buf)[0].tolist(); ci=[int(x) for x in sum(idx)]
    if got!=model_bp(ci,buf): bad+=1
print("merge_breakpoints model mismatches",bad)
# greedy prune
bad=0
for t in range(20000):
    n=int(rng.integers(1,12)); edges=np.r_[0,np.cumsum(rng.integers(0,5,n)*rng.integers(0,2,n))]; m=int(rng.integers(1,9))
    got=_greedy_prune_partition(edges,m).tolist()
    tot_=int(edges[-1]); import math
    cuts=[m*i for i in range(0,math.ceil(tot_/m))]+[tot_]
    idx=sorted(set(int(np.searchsorted(edges,c)) for c in cuts)); exp=[int(edges[i]) for i in idx]
    if got!=exp or got[0]!=0 or got[-1]!=tot_: bad+=1
print("greedy_prune model mismatches",bad)
