"""C02 — every cooler any operation writes is a structurally valid CSR collection.

1. Function level: cooler.util.rlencode and cooler.create._create.index_pixels /
   index_bins against the Gallina model (coq/Model/Index.v) on all arrays over {0..3} of
   length <= 7 with every block size 1..8 (and the one-shot encoder), refusals, random long
   arrays whose runs straddle block edges, and a malformed stream (unsorted / negative /
   out-of-range ids) for the slice-assignment loop.
2. End to end: files are produced through every producing operation of the real code
   (create_cooler ordered / unordered, `cooler load`, `cooler cload pairs`, merge_coolers,
   coarsen_cooler, zoomify_cooler, create_scool, chained histories of length <= 4, several
   collections per file).  Every collection found in every file (by walking the HDF5 tree)
   is checked by the re-deriving validator gen_c02.validate_raw (the property oracle: raw
   h5py reads only) and its raw columns are fed to the model (valid_csr_b, index_pixels,
   index_bins, rlencode with several block sizes) and to the real index functions.
"""
from __future__ import annotations

import itertools
import os
import shutil

import numpy as np

import coqio as C
import gen_c02 as G

PROP = "C02"
RULE = ("function level: every array over {0,1,2,3} of length <= 7 x block size 1..8 and None (rlencode) and x n in {4, 2} (index_pixels, index_bins); "
        "random arrays of length 30..400 with run lengths placed around multiples of the block size x 6 block sizes in 1..50; malformed id "
        "streams (unsorted, negative, >= n). End to end: seeded recipes of 1..5 producing steps (chain depth <= 4) (create ordered/unordered/frame/dict, load "
        "coo/bg2, cload pairs, merge, coarsen, zoomify, scool; several collections per file) over 1..3 chromosomes, fixed and variable bins, "
        "matrix shapes empty/diagonal/single row/last row/gapped rows/dense/sparse, symmetric-upper and square; every collection of every output "
        "file is one evaluation. non-trivial = array with >= 2 runs (function level) / collection with >= 2 pixels in >= 2 bins (end to end); "
        "distinct by input hash")
TRUSTED = ["h5py raw dataset/attribute reads are the observation channel of the validator",
           "click CliRunner in-process invocation of `cooler load` / `cooler cload pairs` stands for the command line"]
ASSUMPTIONS = ["bin ids and offsets are unbounded integers in the model (int64/int32 wrap-around not modelled)",
               "the chunk iterator of unordered ingestion receives internally sorted chunks or ensure_sorted=True (C06's precondition)",
               "bin tables handed to the producers are valid tilings sorted by chromosome (C20)"]
RESIDUE = ["HDF5 storage layer (resizable datasets, filters, enum dtype of bins/chrom) is observed, not modelled",
           "the history theorem C02_history_valid covers create / unordered create / merge / coarsen (zoom levels) through the "
           "producers' MODELS (Model/Merge.v, Model/Coarsen.v, Model/Zoom.v; tied to the code by the correspondence runs of C06-C09); "
           "create_scool and the text loaders (`cooler load`, `cooler cload pairs`: sanitizers of C05/C16 feeding unordered ingestion) "
           "are covered by the end-to-end validator only"]

IMPORTS = "From Cooler Require Import Model.Index."
BLOCKS = list(range(1, 9))


# ------------------------------------------------------------------ impl wrappers
def _outcome(e):
    return "error:" + type(e).__name__


class _NoLimit:
    def __enter__(self):
        return self

    def __exit__(self, *a):
        return False


BATCH_GUARD = [False]     # True while a batch-level alarm is armed: the per-call alarms are then skipped


def _limit(seconds):
    return _NoLimit() if BATCH_GUARD[0] else G.time_limit(seconds)


def impl_rlencode(arr, c):
    from cooler.util import rlencode
    try:
        with _limit(20):
            s, l, v = rlencode(np.asarray(arr, dtype=np.int64), c)
        return ([int(x) for x in s], [int(x) for x in l], [int(x) for x in v])
    except G.Timeout:
        return "timeout"
    except Exception as e:
        return _outcome(e)


def impl_index_pixels(arr, n, nnz):
    from cooler.create._create import index_pixels
    try:
        with _limit(20):
            r = index_pixels({"bin1_id": np.asarray(arr, dtype=np.int64)}, n, nnz)
        return [int(x) for x in r]
    except G.Timeout:
        return "timeout"
    except Exception as e:
        return _outcome(e)


def impl_index_bins(arr, n, total):
    from cooler.create._create import index_bins
    try:
        with _limit(20):
            r = index_bins({"chrom": np.asarray(arr, dtype=np.int64)}, n, total)
        return [int(x) for x in r]
    except G.Timeout:
        return "timeout"
    except Exception as e:
        return _outcome(e)


def digest(B, r):
    if not isinstance(r, tuple):
        return r
    acc = 0
    for x in list(r[0]) + [-1] + list(r[1]) + [-1] + list(r[2]):
        acc = acc * B + (x + 2)
    return acc


def model_rle(v):
    """parsed `option rle` -> tuple of lists or 'error'"""
    if v is None:
        return "error:ValueError"
    s, l, vals = v[1]
    return (list(s), list(l), list(vals))


def model_opt_list(v):
    return "error" if v is None else list(v[1])


# ------------------------------------------------ independent oracles (function level)
def oracle_rle(arr, got):
    """run-length encoding by its definition: maximal runs"""
    if not isinstance(got, tuple):
        return False
    s, l, v = [], [], []
    for k, x in enumerate(arr):
        if k == 0 or arr[k - 1] != x:
            s.append(k)
            v.append(x)
            l.append(1)
        else:
            l[-1] += 1
    return got == (s, l, v)


def oracle_offsets(arr, n, got):
    """for a non-decreasing column with ids in [0,n): offset[b] = #{k | a[k] < b}"""
    return got == [sum(1 for x in arr if x < b) for b in range(n + 1)]


# ------------------------------------------------------------- 1. function level
MASK = (1 << 61) - 1
HASH_PREAMBLE = (
    "Definition hmask := 2305843009213693951.\n"
    "Definition hz (l : list Z) : Z := fold_left (fun acc x => Z.land (acc * 1000003 + (x + 2)) hmask) l 7.\n"
    "Definition hr (r : option rle) : Z := match r with None => -1 | Some (s, l, v) => hz (s ++ [-1] ++ l ++ [-1] ++ v) end.\n"
    "Definition hl (o : option (list Z)) : Z := match o with None => -1 | Some l => hz l end.\n"
    "Fixpoint batches {A} (n : nat) (fuel : nat) (l : list A) : list (list A) := match fuel with O => [] | S f => "
    "match l with [] => [] | _ => firstn n l :: batches n f (skipn n l) end end.\n")


def hz(l):
    acc = 7
    for x in l:
        acc = (acc * 1000003 + (x + 2)) & MASK
    return acc


def hr(r):
    """hash of an encoder result; refusals/crashes hash to -1 / a value no model hash can take"""
    if r == "error:ValueError":
        return -1
    if not isinstance(r, tuple):
        return -2
    return hz(list(r[0]) + [-1] + list(r[1]) + [-1] + list(r[2]))


def hl(r):
    if not isinstance(r, list):
        return -2
    return hz(r)


# Printing numerals is by far the most expensive thing coqc does in this run (~1-3 ms each), so the
# model prints one 61-bit hash per batch of cases; implementation results are hashed the same way
# and only batches whose hashes differ are re-evaluated case by case with full outputs.
SMALL_OBS = ("Definition obs (a : list Z) : Z := hz [hr (rlencode a None); "
             "(if forallb (fun c => rle_opt_eqb (rlencode a (Some c)) (rlencode a None)) " + "[1; 2; 3; 4; 5; 6; 7; 8]" + " then 1 else 0); "
             "hl (index_pixels a 4 (zlen a)); hl (index_bins a 4 (zlen a)); hl (index_pixels a 2 (zlen a + 3))].\n"
             "Fixpoint all_arrays (L : nat) : list (list Z) := match L with O => [[]] | S k => "
             "flat_map (fun v => map (cons v) (all_arrays k)) [0; 1; 2; 3] end.\n")
SMALL_BATCH = 64


def small_impl(a):
    """everything the implementation says about one small array"""
    one = impl_rlencode(a, None)
    blocks = {c: impl_rlencode(a, c) for c in BLOCKS}
    ip4 = impl_index_pixels(a, 4, len(a))
    ib4 = impl_index_bins(a, 4, len(a))
    ip2 = impl_index_pixels(a, 2, len(a) + 3)
    return one, blocks, ip4, ib4, ip2


def small_hash(res):
    one, blocks, ip4, ib4, ip2 = res
    same = 1 if all(blocks[c] == one for c in BLOCKS) else 0
    return hz([hr(one), same, hl(ip4), hl(ib4), hl(ip2)])


def fn_level(ctx):
    thorough = ctx.tier == "thorough"
    rng = ctx.rng
    # the model enumerates the same arrays itself (itertools.product order: first position slowest); the scope is
    # cut into groups of <= 1024 arrays (fixed leading elements), largest first, so that the 4 coqc workers stay busy
    def prod(prefix, L):
        return [list(prefix) + list(a) for a in itertools.product(range(4), repeat=L)]
    groups = [(f"all_arrays {L}", prod((), L)) for L in range(0, 6)]
    groups += [(f"map (cons {a}) (all_arrays 5)", prod((a,), 5)) for a in range(4)]
    groups += [(f"map (cons {a}) (map (cons {b}) (all_arrays 5))", prod((a, b), 5)) for a in range(4) for b in range(4)]
    groups.sort(key=lambda g: -len(g[1]))
    arrays = [a for _, grp in groups for a in grp]
    assert len(arrays) == sum(4 ** L for L in range(8)) and len({tuple(a) for a in arrays}) == len(arrays)
    exprs = [f"map (fun b => hz (map obs b)) (batches {SMALL_BATCH} {len(grp)} ({g}))" for g, grp in groups]
    model = C.coq_eval(IMPORTS, exprs, preamble=HASH_PREAMBLE + SMALL_OBS, tmpdir=ctx.tmp / "fn_small", shard=1, jobs=4)
    suspects = []
    pos = 0
    for (g, grp), mh in zip(groups, model):
        n = len(grp)
        pos += n
        assert len(mh) == (n + SMALL_BATCH - 1) // SMALL_BATCH
        for k, mhash in enumerate(mh):
            batch = grp[k * SMALL_BATCH:(k + 1) * SMALL_BATCH]
            # one alarm per batch of 64 arrays instead of one per call (12 calls per array); if it ever fires
            # (a mutated encoder that hangs) the batch is redone with the per-call limits so that the hanging
            # call is reported as a "timeout" result
            try:
                BATCH_GUARD[0] = True
                try:
                    with G.time_limit(60):
                        results = [small_impl(a) for a in batch]
                finally:
                    BATCH_GUARD[0] = False
            except G.Timeout:
                results = [small_impl(a) for a in batch]
            for a, res in zip(batch, results):
                case = {"fn": "rlencode/index", "array": a}
                nruns = sum(1 for i in range(len(a)) if i == 0 or a[i] != a[i - 1])
                ctx.case(case, nontrivial=nruns >= 2, kind="fn:small")
                one, blocks, ip4, ib4, ip2 = res
                # property oracle, independent of the model
                if not oracle_rle(a, one):
                    ctx.fail({**case, "chunksize": None}, {"got": one}, None)
                for c in BLOCKS:
                    if blocks[c] != one and not oracle_rle(a, blocks[c]):
                        ctx.fail({**case, "chunksize": c}, {"got": blocks[c], "one_shot": one}, None)
                if all(a[i] <= a[i + 1] for i in range(len(a) - 1)):
                    if not oracle_offsets(a, 4, ip4):
                        ctx.fail({**case, "index": "pixels", "n": 4}, {"got": ip4}, None)
                    if not oracle_offsets(a, 4, ib4):
                        ctx.fail({**case, "index": "bins", "n": 4}, {"got": ib4}, None)
            if hz([small_hash(r) for r in results]) != mhash:
                suspects.append((batch, results))
    assert pos == len(arrays)
    ctx.extra["fn_small_arrays"] = len(arrays)
    ctx.extra["fn_small_batches_differing"] = len(suspects)
    # drill down into (at most 6) differing batches, case by case with full outputs
    for batch, results in suspects[:6]:
        ex = [f"(rlencode {C.zl(a)} None, map (fun c => rlencode {C.zl(a)} (Some c)) {C.zl(BLOCKS)}, index_pixels {C.zl(a)} 4 (zlen {C.zl(a)}), "
              f"index_bins {C.zl(a)} 4 (zlen {C.zl(a)}), index_pixels {C.zl(a)} 2 (zlen {C.zl(a)} + 3))" for a in batch]
        full = C.coq_eval(IMPORTS, ex, tmpdir=ctx.tmp / "fn_small_drill", shard=32, jobs=4)
        for a, res, (mone, mblocks, mip4, mib4, mip2) in zip(batch, results, full):
            case = {"fn": "rlencode/index", "array": a}
            one, blocks, ip4, ib4, ip2 = res
            ctx.compare("rlencode(a, None)", case, one, model_rle(mone))
            for c, mb in zip(BLOCKS, mblocks):
                ctx.compare(f"rlencode(a, {c})", {**case, "chunksize": c}, blocks[c], model_rle(mb))
            ctx.compare("index_pixels(a, 4, len)", case, ip4, model_opt_list(mip4))
            ctx.compare("index_bins(a, 4, len)", case, ib4, model_opt_list(mib4))
            ctx.compare("index_pixels(a, 2, len+3)", case, ip2, model_opt_list(mip2))
    if suspects and not ctx.disagreements:
        ctx.disagree("batch hash of the small scope differs but no single case does (hash plumbing)", {"fn": "rlencode/index"}, None, None)

    # refusals: chunksize <= 0 on a non-empty array raises ValueError; the empty array never does
    ref = [([], 0), ([], -1), ([], 3), ([1], 0), ([1, 1, 2], 0), ([0, 3], -1), ([2, 2], -5)]
    mref = C.coq_eval(IMPORTS, [f"rlencode {C.zl(a)} (Some {C.z(c)})" for a, c in ref], tmpdir=ctx.tmp / "fn_ref", jobs=4)
    for (a, c), mo in zip(ref, mref):
        case = {"fn": "rlencode-refusal", "array": a, "chunksize": c}
        ctx.case(case, nontrivial=False, kind="fn:refusal")
        ctx.compare("rlencode refusal", case, impl_rlencode(a, c), model_rle(mo))

    # random long arrays, runs straddling block edges
    longs = []
    for _ in range(400 if thorough else 120):
        c0 = rng.randint(2, 50)
        a = []
        v = rng.randint(0, 5)
        while len(a) < rng.randint(30, 400):
            ln = rng.choice([1, 1, 2, c0 - 1, c0, c0 + 1, 2 * c0, rng.randint(1, 3 * c0),
                             max(1, c0 - len(a) % c0), max(1, c0 - len(a) % c0 + 1), max(1, c0 - len(a) % c0 - 1)])
            a += [v] * ln
            v = v + rng.randint(1, 3) if rng.random() < 0.8 else rng.randint(0, 40)
        cs = sorted({c0, 1, rng.randint(1, 50), rng.randint(1, 50), len(a), len(a) + 1, max(1, len(a) - 1)})
        longs.append((a, cs))

    def long_full(a, cs):
        return (f"(rlencode {C.zl(a)} None, map (fun c => rlencode {C.zl(a)} (Some c)) {C.zl(cs)}, "
                f"index_pixels {C.zl(a)} {C.z(max(a) + 2)} (zlen {C.zl(a)}))")
    exprs = [f"(let a := {C.zl(a)} in hz [hr (rlencode a None); hz (map (fun c => hr (rlencode a (Some c))) {C.zl(cs)}); "
             f"hl (index_pixels a {C.z(max(a) + 2)} (zlen a))])" for a, cs in longs]
    mlong = C.coq_eval(IMPORTS, exprs, preamble=HASH_PREAMBLE, tmpdir=ctx.tmp / "fn_long", shard=30, jobs=4)
    drill = []
    for (a, cs), mh in zip(longs, mlong):
        case = {"fn": "rlencode-long", "array": a, "chunksizes": cs}
        ctx.case(case, nontrivial=True, kind="fn:long")
        one = impl_rlencode(a, None)
        blocks = [impl_rlencode(a, c) for c in cs]
        n = max(a) + 2
        ip = impl_index_pixels(a, n, len(a))
        if not oracle_rle(a, one):
            ctx.fail({"fn": "rlencode/index", "array": a, "chunksize": None}, {"got": str(one)[:300]}, None)
        for c, got in zip(cs, blocks):
            if got != one and not oracle_rle(a, got):
                ctx.fail({"fn": "rlencode/index", "array": a, "chunksize": c}, {"got": str(got)[:300]}, None)
        if all(a[k] <= a[k + 1] for k in range(len(a) - 1)) and not oracle_offsets(a, n, ip):
            ctx.fail({"fn": "rlencode/index", "array": a, "index": "pixels", "n": n}, {"got": str(ip)[:300]}, None)
        if hz([hr(one), hz([hr(b_) for b_ in blocks]), hl(ip)]) != mh:
            drill.append((a, cs, one, blocks, ip))
    ctx.extra["fn_long_differing"] = len(drill)
    if drill:
        full = C.coq_eval(IMPORTS, [long_full(a, cs) for a, cs, *_ in drill[:8]], tmpdir=ctx.tmp / "fn_long_drill", shard=4, jobs=4)
        for (a, cs, one, blocks, ip), (mone, mblocks, mip) in zip(drill, full):
            case = {"fn": "rlencode-long", "array": a, "chunksizes": cs}
            ctx.compare("rlencode(long, None)", case, one, model_rle(mone))
            for c, got, mb in zip(cs, blocks, mblocks):
                ctx.compare(f"rlencode(long, {c})", {"fn": "rlencode/index", "array": a, "chunksize": c}, got, model_rle(mb))
            ctx.compare("index_pixels(long)", case, ip, model_opt_list(mip))
        if not ctx.disagreements:
            ctx.disagree("hash of a long-array case differs but no output does (hash plumbing)", {"fn": "rlencode-long"}, None, None)

    # malformed id streams for the slice-assignment loop (python slice normalisation)
    mal = []
    for _ in range(300 if thorough else 100):
        a = [rng.randint(-3, 6) for _ in range(rng.randint(0, 9))]
        mal.append((a, rng.randint(0, 5), rng.randint(0, 12)))
    exprs = [f"(index_pixels {C.zl(a)} {C.z(n)} {C.z(t)}, index_bins {C.zl(a)} {C.z(n)} {C.z(t)})" for a, n, t in mal]
    mmal = C.coq_eval(IMPORTS, exprs, tmpdir=ctx.tmp / "fn_mal", shard=50, jobs=4)
    for (a, n, t), (m1, m2) in zip(mal, mmal):
        case = {"fn": "index-malformed", "array": a, "n": n, "total": t}
        ctx.case(case, nontrivial=len(a) >= 2, kind="fn:malformed")
        ctx.compare("index_pixels(malformed)", case, impl_index_pixels(a, n, t), model_opt_list(m1))
        ctx.compare("index_bins(malformed)", case, impl_index_bins(a, n, t), model_opt_list(m2))


# ------------------------------------------------------------------ 2. end to end
def fixed_size(widths):
    """bin size the recipe's table has by construction (None = variable)"""
    multi = [w for w in widths if len(w) >= 2]
    if not multi:
        return None
    b = multi[0][0]
    for w in widths:
        if any(x != b for x in w[:-1]) or w[-1] > b:
            return None
    return b


def gen_recipes(ctx):
    rng = ctx.rng
    thorough = ctx.tier == "thorough"
    mul = 4 if thorough else 1
    R = []
    W4 = [[10, 10, 10, 10]]
    E = {"op": "create", "out": "e1.cool", "group": "", "append": False, "widths": W4, "symm": True, "input": "frame", "chunks": [[]]}
    E2 = dict(E, out="e2.cool")
    # --- corpus: known findings are exercised on every run
    R.append([G.cload_d2(last=True)])
    R.append([G.cload_d2(last=False)])
    R.append([E, E2, {"op": "merge", "out": "m.cool", "group": "", "inputs": [["e1.cool", ""], ["e2.cool", ""]], "mergebuf": 10}])
    R.append([E, {"op": "coarsen", "out": "c.cool", "group": "", "in": ["e1.cool", ""], "factor": 2, "chunksize": 10}])
    R.append([E, {"op": "zoomify", "out": "z.mcool", "inputs": [["e1.cool", ""]], "resolutions": [10, 20], "base_resolutions": [10], "chunksize": 10}])
    R.append([dict(E, out="ue.cool", input="unordered", chunks=[[]], mergebuf=5, max_merge=200)])
    R.append([dict(E, out="oe.cool", input="ordered", chunks=[])])
    # --- corpus: hand-written boundary shapes (leading empty rows, last row only, dense square, one bin)
    R.append([dict(E, out="a.cool", input="ordered", chunks=[[[2, 3, 1]], [], [[3, 3, 2]]])])
    R.append([dict(E, out="a.cool", input="unordered", chunks=[[[3, 3, 2]], [[0, 0, 1], [3, 3, 5]], []], mergebuf=1, max_merge=1)])
    R.append([dict(E, out="a.cool", widths=[[7]], chunks=[[[0, 0, 4]]])])
    R.append([dict(E, out="a.cool", symm=False, chunks=[[[i, j, 1 + i + j] for i in range(4) for j in range(4)]])])
    # --- singles
    for _ in range(24 * mul):
        R.append([G.gen_create(rng, "a.cool")])
    for _ in range(10 * mul):
        R.append([G.gen_create(rng, "a.cool", group=rng.choice(["x", "x/y", "resolutions/5"]), big=True)])
    # --- one-pass creation with ensure_sorted=True (validate_pixels sorts every chunk): chunks partition the
    #     row range and arrive (a) shuffled, (b) in row order with shuffled column ids, (c) sorted; both APIs
    W5 = [[10, 10, 10], [10, 10]]
    R.append([{"op": "create", "out": "es.cool", "group": "", "append": False, "widths": W5, "symm": True, "input": "ordered",
               "chunks": [[[0, 3, 1], [0, 1, 2], [1, 4, 3], [1, 2, 4]], [], [[3, 4, 5], [3, 3, 6]]],
               "ensure_sorted": True, "api": "create", "disorder": "cols"}])
    for how in ("shuffle", "cols", "sorted"):
        for api in ("create_cooler", "create"):
            for symm in (True, False):
                for _ in range(1 * mul):
                    R.append([G.gen_create_ensure_sorted(rng, "es.cool", how, api, symm=symm)])
    # --- interplay of documented options: the full boolean grid of the validation switches per producer
    R += G.gen_option_grid(rng, thorough)
    # --- every contact binner / loader exported by cooler.create (HDF5Aggregator incl. `cload hiclib`, TabixAggregator,
    #     ArrayLoader, sanitize_records+aggregate_records and sanitize_pixels pipelines into create_from_unordered,
    #     create.append, rename_chroms); PairixAggregator needs pypairix, which is not installed
    R += G.gen_binners(rng, thorough)
    # --- records whose mates lie on contigs absent from the bin table (text loaders, record pipeline, tabix)
    R += G.gen_absent_contigs(rng, thorough)
    # --- invalid input: single out-of-range ids; refusal expected, never an invalid file
    R += G.gen_invalid_grid(rng, thorough)
    # --- producer options with valid input (each must leave a valid collection)
    def with_opts(step, **opts):
        st = dict(step)
        st["opts"] = {**(st.get("opts") or {}), **opts}
        return st
    OPTS = [
        {"h5opts": {"compression": None}}, {"h5opts": {"compression": "lzf"}}, {"h5opts": {"shuffle": False}},
        {"h5opts": {"chunks": [1]}}, {"h5opts": {"compression": "gzip", "compression_opts": 1, "fletcher32": True}},
        {"dtypes": {"count": "int64"}}, {"dtypes": {"count": "int16"}}, {"dtypes": {"count": "float64"}},
        {"dtypes": {"bin1_id": "int32", "bin2_id": "int32"}},
        {"columns": ["count", "w"], "dtypes": {"w": "int64"}}, {"columns": ["w", "count"], "dtypes": {"w": "int32"}},
        {"assembly": "hg19", "metadata": {"a": [1, 2], "b": "x"}},
    ]
    for k_, opts in enumerate(OPTS):
        kinds = ["frame", "ordered", "unordered"] if not thorough else ["frame", "dict", "ordered", "unordered", "ordered", "unordered"]
        for kind in kinds:
            st = G.gen_create(rng, "o.cool", kind=kind, symm=(k_ + len(kind)) % 3 != 0)
            if "triucheck" in opts and not st["symm"]:
                st["symm"] = True
                st["chunks"] = [[r for r in ch if r[0] <= r[1]] for ch in st["chunks"]]
            R.append([with_opts(st, **opts)])
    # --- every count dtype the writer accepts (signed/unsigned 8..64 bit, float32/64 with fractional, negative and
    #     large values) through every producer that goes through write_pixels: the schema invariants (nnz, sum,
    #     offsets, order ...) are dtype independent
    kinds = list(G.COUNT_KINDS)
    for ki, kind in enumerate(kinds):
        wide = kind not in ("int8", "uint8")
        forms = ("frame", "dict", "ordered", "unordered")
        # float kinds through every input form; integer kinds through two forms each, rotating, so that every
        # form meets at least four integer dtypes (thorough: all four)
        for inp in (forms if (kind.startswith("float") or thorough) else (forms[ki % 4], forms[(ki + 2) % 4])):
            R.append([G.retype(rng, G.gen_create(rng, "t.cool", kind=inp, shape=rng.choice(["sparse", "dense", "gaprows", "row"])), kind)])
        # extra value column next to a typed count column
        st = G.retype(rng, G.gen_create(rng, "t.cool", kind=rng.choice(["frame", "ordered", "unordered"]), shape="sparse"), kind)
        st["opts"] = {**st["opts"], "columns": ["count", "w"], "dtypes": {**st["opts"]["dtypes"], "w": "int64"}}
        R.append([st])
        # create x2 -> merge (-> coarsen -> zoomify for the kinds whose sums cannot leave the dtype)
        widths = G.rand_widths(rng, fixed=True, maxbins=6)
        b = fixed_size(widths) or 1
        symm = ki % 2 == 0
        s1 = G.retype(rng, G.gen_create(rng, "x.cool", widths=widths, symm=symm, kind="frame", shape="sparse"), kind)
        s2 = G.retype(rng, G.gen_create(rng, "y.cool", widths=widths, symm=symm, kind=rng.choice(["ordered", "unordered"]), shape="sparse"), kind)
        steps = [s1, s2, {"op": "merge", "out": "m.cool", "group": "", "inputs": [["x.cool", ""], ["y.cool", ""]], "mergebuf": rng.choice([1, 3, 100])}]
        if wide and (thorough or ki % 2 == 0 or kind.startswith("float")):
            steps.append({"op": "coarsen", "out": "c.cool", "group": "", "in": ["m.cool", ""], "factor": 2, "chunksize": rng.choice([1, 3, 100])})
            steps.append({"op": "zoomify", "out": "z.mcool", "inputs": [["m.cool", ""]], "resolutions": [b, 2 * b, 4 * b],
                          "base_resolutions": [b], "chunksize": rng.choice([2, 100])})
        R.append(steps)
        # one single-cell file per kind
        n = G.nbins_of(widths)
        cells = {name: G.rand_records(rng, sorted(G.rand_cells(rng, n, symm, "sparse"))) for name in ("c1", "c2")}
        R.append([G.retype(rng, {"op": "scool", "out": "t.scool", "widths": widths, "symm": symm, "cells": cells}, kind)])
    # text loader: fractional counts with --count-as-float, negative integer counts with the default dtype
    for kind in ("float64", "float64", "float32", "int16"):
        R.append([G.retype(rng, G.gen_load(rng, "l.cool"), kind)])
    # unordered-only knobs
    for opts in ({"temp_dir": "-"}, {"delete_temp": False}):
        R.append([with_opts(G.gen_create(rng, "o.cool", kind="unordered"), **opts)])
    # extra value column carried through merge / coarsen / zoomify (columns=, dtypes=)
    for _ in range(3 * mul):
        widths = G.rand_widths(rng, fixed=True, maxbins=7)
        b = fixed_size(widths) or 1
        co = {"columns": ["count", "w"], "dtypes": {"w": "int64"}}
        s1 = with_opts(G.gen_create(rng, "x.cool", widths=widths, symm=True, kind="frame"), **co)
        s2 = with_opts(G.gen_create(rng, "y.cool", widths=widths, symm=True, kind="ordered"), **co)
        s3 = {"op": "merge", "out": "m.cool", "group": "", "inputs": [["x.cool", ""], ["y.cool", ""]], "mergebuf": rng.choice([1, 3, 100]),
              "opts": {"columns": ["count", "w"]}}
        s4 = {"op": "coarsen", "out": "c.cool", "group": "", "in": ["m.cool", ""], "factor": 2, "chunksize": rng.choice([1, 3, 100]),
              "opts": {"columns": ["count", "w"], "dtypes": {"count": "int64"}}}
        s5 = {"op": "zoomify", "out": "z.mcool", "inputs": [["x.cool", ""]], "resolutions": [b, 2 * b, 4 * b], "base_resolutions": [b],
              "chunksize": rng.choice([2, 100]), "opts": {"columns": ["count", "w"]}}
        R.append([s1, s2, s3, s4, s5])
    for _ in range(5 * mul):
        R.append([G.gen_load(rng, "l.cool")])
    for _ in range(1 * mul):
        R.append([G.gen_cload(rng, "p.cool")])
    for _ in range(8 * mul):
        widths = G.rand_widths(rng)
        n = G.nbins_of(widths)
        symm = rng.random() < 0.7
        cells = {}
        for name in rng.sample(["cellA", "c2", "x_3", "Z", "cell/with"], rng.randint(1, 3)):
            if "/" in name:
                name = "q"
            cells[name] = G.rand_records(rng, sorted(G.rand_cells(rng, n, symm)))
        R.append([{"op": "scool", "out": "s.scool", "widths": widths, "symm": symm, "cells": cells}])
    # --- merges
    for _ in range(15 * mul):
        widths = G.rand_widths(rng)
        symm = rng.random() < 0.7
        k = rng.randint(2, 3)
        steps = [G.gen_create(rng, f"i{t}.cool", widths=widths, symm=symm, kind=rng.choice(["frame", "ordered"])) for t in range(k)]
        steps.append({"op": "merge", "out": "m.cool", "group": "", "inputs": [[f"i{t}.cool", ""] for t in range(k)],
                      "mergebuf": rng.choice([1, 2, 3, 5, 1000])})
        R.append(steps)
    # --- coarsen
    for _ in range(18 * mul):
        widths = G.rand_widths(rng, maxbins=8)
        st = G.gen_create(rng, "b.cool", widths=widths, kind=rng.choice(["frame", "ordered"]))
        same = rng.random() < 0.3
        R.append([st, {"op": "coarsen", "out": "b.cool" if same else "c.cool", "group": "k" if same else "", "in": ["b.cool", ""],
                       "factor": rng.choice([2, 2, 3, 5]), "chunksize": rng.choice([1, 2, 3, 7, 1000])}])
    # --- zoomify
    for _ in range(8 * mul):
        widths = G.rand_widths(rng, fixed=True, maxbins=9)
        b = fixed_size(widths) or 1
        st = G.gen_create(rng, "b.cool", widths=widths, kind="frame")
        res = sorted({b * m for m in rng.sample([2, 3, 4, 6, 8], rng.randint(1, 3))})
        R.append([st, {"op": "zoomify", "out": "z.mcool", "inputs": [["b.cool", ""]], "resolutions": [b] + res,
                       "base_resolutions": [b], "chunksize": rng.choice([1, 2, 5, 1000])}])
    # --- histories of length 3..4 and several collections in one file
    for _ in range(12 * mul):
        widths = G.rand_widths(rng, fixed=True, maxbins=8)
        b = fixed_size(widths) or 1
        symm = rng.random() < 0.7
        h = rng.choice(["cmcz", "multi", "ccm", "load-coarsen-zoom", "cload-merge-coarsen"])
        if h == "cmcz":
            s1 = G.gen_create(rng, "h.cool", group="a", widths=widths, symm=symm, kind="frame")
            s2 = G.gen_create(rng, "h.cool", group="b", append=True, widths=widths, symm=symm, kind="unordered")
            # (merging into the very file the inputs are read from is refused by HDF5: separate output file)
            s3 = {"op": "merge", "out": "hm.cool", "group": "m", "inputs": [["h.cool", "a"], ["h.cool", "b"]], "mergebuf": rng.choice([1, 4, 100])}
            s4 = {"op": "coarsen", "out": "hm.cool", "group": "c", "in": ["hm.cool", "m"], "factor": 2, "chunksize": rng.choice([1, 3, 100])}
            R.append([s1, s2, s3, s4])
        elif h == "multi":
            steps = []
            for t, g in enumerate(["one", "two", "deep/er/three"]):
                steps.append(G.gen_create(rng, "multi.cool", group=g, append=t > 0))
            steps.append(G.gen_create(rng, "multi.cool", group="two", append=True))   # overwrite a collection in place
            R.append(steps)
        elif h == "ccm":
            s1 = G.gen_create(rng, "x.cool", widths=widths, symm=symm, kind="ordered")
            s2 = G.gen_create(rng, "y.cool", widths=widths, symm=symm, kind="frame")
            f = rng.choice([2, 3])
            s3 = {"op": "coarsen", "out": "xc.cool", "group": "", "in": ["x.cool", ""], "factor": f, "chunksize": rng.choice([1, 2, 50])}
            s4 = {"op": "coarsen", "out": "yc.cool", "group": "", "in": ["y.cool", ""], "factor": f, "chunksize": rng.choice([1, 2, 50])}
            s5 = {"op": "merge", "out": "m.cool", "group": "", "inputs": [["xc.cool", ""], ["yc.cool", ""]], "mergebuf": rng.choice([1, 2, 50])}
            R.append([s1, s2, s3, s4, s5][: 5])
        elif h == "load-coarsen-zoom":
            s1 = G.gen_load(rng, "l.cool")
            bb = fixed_size(s1["widths"]) or 1
            s2 = {"op": "coarsen", "out": "lc.cool", "group": "", "in": ["l.cool", ""], "factor": 2, "chunksize": rng.choice([1, 3, 100])}
            steps = [s1, s2]
            if fixed_size(s1["widths"]):
                steps.append({"op": "zoomify", "out": "lz.mcool", "inputs": [["lc.cool", ""]], "resolutions": [2 * bb, 4 * bb, 6 * bb],
                              "base_resolutions": [2 * bb], "chunksize": rng.choice([1, 3, 100])})
            R.append(steps)
        else:
            s1 = G.gen_cload(rng, "p.cool")
            s2 = {"op": "merge", "out": "pm.cool", "group": "", "inputs": [["p.cool", ""], ["p.cool", ""]], "mergebuf": rng.choice([1, 2, 50])}
            s3 = {"op": "coarsen", "out": "pm.cool", "group": "half", "in": ["pm.cool", ""], "factor": 2, "chunksize": rng.choice([1, 2, 50])}
            R.append([s1, s2, s3])
    return R


def collection_expr(raw):
    """Gallina expression evaluating the model on the raw columns of one collection"""
    A = raw["attrs"]
    px = raw["pixels"]
    if raw.get("missing") or any(k not in A for k in ("nnz", "nbins", "nchroms", "storage-mode")):
        return None
    if any(k not in px for k in ("bin1_id", "bin2_id")) or any(k not in raw["bins"] for k in ("chrom", "start", "end")):
        return None
    if any(k not in raw["indexes"] for k in ("bin1_offset", "chrom_offset")):
        return None
    if "count" not in px or not np.issubdtype(px["count"].dtype, np.integer):
        return None
    b1 = [int(x) for x in px["bin1_id"]]
    b2 = [int(x) for x in px["bin2_id"]]
    cnt = [int(x) for x in px["count"]]
    if max(len(b1), len(b2), len(cnt)) > 400 or A["nbins"] > 80:
        return None
    chrom = [int(x) for x in raw["bins"]["chrom"]]
    rec = (f"(mkCooler {C.z(A['nbins'])} {C.z(A['nchroms'])} {C.zl(chrom)} {C.zl(b1)} {C.zl(b2)} {C.zl(cnt)} "
           f"{C.zl(int(x) for x in raw['indexes']['bin1_offset'])} {C.zl(int(x) for x in raw['indexes']['chrom_offset'])} "
           f"{C.z(A['nnz'])} {C.z(int(A.get('sum', 0)))} {C.b(A['storage-mode'] == 'symmetric-upper')})")
    table = C.lst([C.tup(C.z(c), C.z(s_), C.z(e)) for c, s_, e in zip(chrom, raw["bins"]["start"], raw["bins"]["end"])])
    return (f"let c := {rec} in (valid_csr_b c, index_pixels (bin1 c) (nbins c) (nnz c), "
            f"index_bins (bin_chrom c) (nchroms c) (nbins c), rlencode (bin1 c) None, "
            f"forallb (fun k => rle_opt_eqb (rlencode (bin1 c) (Some k)) (rlencode (bin1 c) None)) [1; 2; 3; 7; 1000000], info_bins {table})")


# class of errors the executable model check valid_csr_b can see (it has no bins start/end,
# chroms table or bin-type attributes)
MODEL_CLASSES = {"length", "order", "range", "triu", "bin1_offset", "chrom_offset"}


def model_sees(errs):
    for c, msg in errs:
        if c in MODEL_CLASSES:
            return True
        if c == "attr" and (msg.startswith("sum attr") or msg.startswith("nbins =")):
            return True
        if c == "bins":
            return True
    return False


def create_model_expr(step):
    """create_chunked (prepare_pixels + the resize/write loop of write_pixels + indexes + nnz/sum) on the
    chunk list a single create step hands to create(): frame/dict inputs are one chunk sorted by
    create_cooler, an ordered chunk list is passed as it is (empty chunks and no chunk included)"""
    if step["op"] == "binner":
        # contact binners: whatever the chunking, create() must store the counting model of the contacts
        chroms = [ci for ci, ws in enumerate(step["widths"]) for _ in ws]
        lit = C.lst([C.lst([C.tup(C.tup(C.z(a), C.z(b_)), C.z(v)) for a, b_, v in G.binner_expected(step)])])
        return f"create_chunked {C.z(len(step['widths']))} {C.zl(chroms)} {lit} true"
    if step["op"] == "cload" and step.get("exact"):
        # `cload pairs` on in-range positions: the counting model of the retained records
        blocks = G.cload_blocks(step)
        chroms = [c for blk in blocks for (c, _, _) in blk]
        lit = C.lst([C.lst([C.tup(C.tup(C.z(a), C.z(b_)), C.z(v)) for a, b_, v in G.cload_expected(step)])])
        return f"create_chunked {C.z(len(blocks))} {C.zl(chroms)} {lit} {C.b(step['symm'])}"
    if step["op"] != "create" or step["input"] not in ("frame", "dict", "ordered"):
        return None
    chunks = step["chunks"]
    if step["input"] in ("frame", "dict"):
        chunks = [sorted(chunks[0], key=lambda r: (r[0], r[1]))]
    elif step.get("ensure_sorted"):
        # validate_pixels sorts every chunk by (bin1_id, bin2_id) before it is written
        chunks = [sorted(ch, key=lambda r: (r[0], r[1])) for ch in chunks]
    if str(((step.get("opts") or {}).get("dtypes") or {}).get("count", "")).startswith("float"):
        return None
    if any(isinstance(r[2], float) for ch in chunks for r in ch):
        return None
    if sum(len(ch) for ch in chunks) > 400:
        return None
    chroms = [ci for ci, ws in enumerate(step["widths"]) for _ in ws]
    lit = C.lst([C.lst([C.tup(C.tup(C.z(a), C.z(b_)), C.z(v)) for a, b_, v in ch]) for ch in chunks])
    return f"create_chunked {C.z(len(step['widths']))} {C.zl(chroms)} {lit} {C.b(step['symm'])}"


def raw_record(raw):
    A = raw["attrs"]
    px = raw["pixels"]
    return {"nbins": A["nbins"], "nchroms": A["nchroms"], "bin_chrom": [int(x) for x in raw["bins"]["chrom"]],
            "bin1": [int(x) for x in px["bin1_id"]], "bin2": [int(x) for x in px["bin2_id"]],
            "counts": [int(x) for x in px["count"]],
            "bin1_offset": [int(x) for x in raw["indexes"]["bin1_offset"]],
            "chrom_offset": [int(x) for x in raw["indexes"]["chrom_offset"]],
            "nnz": A["nnz"], "sum": int(A.get("sum", -1)), "symmetric_upper": A["storage-mode"] == "symmetric-upper"}


def check_recipe(ctx, recipe, pending, tag, created=None):
    d = str(ctx.tmp / f"r{tag}")
    os.makedirs(d, exist_ok=True)
    case = {"fn": "recipe", "steps": recipe}
    outcome, files = G.run_recipe(d, recipe, limit=25)
    kinds = "+".join(st["op"] + (":" + st["input"] if st["op"] == "create" else ":" + st["kind"] if st["op"] == "binner" else "")
                     for st in recipe)
    if outcome == "timeout":
        ctx.extra["recipe_timeouts"] = ctx.extra.get("recipe_timeouts", 0) + 1
    refuse = any(st.get("expect") == "refuse" for st in recipe)
    if refuse:
        # invalid input: the model (validate_pixels with boundscheck) predicts a refusal; if the producer writes a
        # file nevertheless, that file is held to the whole schema below
        ctx.case(case, nontrivial=True, kind="e2e-refuse:" + kinds)
        ctx.compare("producer outcome on invalid input (refusal expected)", case, "refused" if outcome.startswith("error:") else outcome, "refused")
        created = None
    elif outcome != "ok":
        ctx.case(case, nontrivial=False, kind="e2e-error:" + kinds)
        # the model of the producers predicts success on every recipe we generate
        ctx.compare("producer outcome", case, outcome, "ok")
    holds = True
    for fname in files:
        path = os.path.join(d, fname)
        if not os.path.exists(path):
            continue
        try:
            colls = G.find_collections(path, marked_only=(outcome != "ok"))
        except Exception as e:
            ctx.fail({**case, "file": fname}, {"unreadable": repr(e)[:200]}, None)
            holds = False
            continue
        for grp in colls:
            ccase = {**case, "file": fname, "group": grp}
            try:
                raw = G.read_raw(path, grp)
                errs = G.validate_raw(raw)
            except Exception as e:
                ctx.fail(ccase, {"unreadable": repr(e)[:200]}, None)
                holds = False
                continue
            px = raw["pixels"]
            nontriv = len(px.get("bin1_id", [])) >= 2 and len(set(px["bin1_id"].tolist()) | set(px["bin2_id"].tolist())) >= 2
            ctx.case(ccase, nontrivial=nontriv, kind="e2e:" + kinds)
            if errs:
                holds = False
                sig = G.signature_for(recipe, fname, grp, errs)
                ctx.fail(ccase, {"errors": [f"{c}: {m}" for c, m in errs][:6]}, sig)
            if created is not None and len(recipe) == 1 and outcome == "ok" and not errs:
                ex = create_model_expr(recipe[0])
                if ex is not None:
                    created.append((ccase, ex, raw_record(raw)))
            if pending is not None:
                ex = collection_expr(raw)
                if ex is not None:
                    b1 = [int(x) for x in px["bin1_id"]]
                    chrom = [int(x) for x in raw["bins"]["chrom"]]
                    A = raw["attrs"]
                    impl = {
                        "index_pixels": impl_index_pixels(b1, A["nbins"], A["nnz"]),
                        "index_bins": impl_index_bins(chrom, A["nchroms"], A["nbins"]),
                        "rle": {str(k): impl_rlencode(b1, k) for k in (None, 1, 2, 3, 7, 1000000)},
                        "stored_bin1_offset": [int(x) for x in raw["indexes"]["bin1_offset"]],
                        "stored_chrom_offset": [int(x) for x in raw["indexes"]["chrom_offset"]],
                        "oracle_ok": not model_sees(errs),
                        "info": (A["bin-type"] == "fixed", None if A["bin-size"] == "null" else A["bin-size"])
                                if A["bin-type"] in ("fixed", "variable") else ("?", A["bin-type"], A["bin-size"]),
                    }
                    pending.append((ccase, ex, impl))
    shutil.rmtree(d, ignore_errors=True)
    return holds


def e2e(ctx):
    recipes = gen_recipes(ctx)
    pending, created = [], []
    for k, r in enumerate(recipes):
        check_recipe(ctx, r, pending, k, created)
        if ctx.extra.get("recipe_timeouts", 0) >= 2:
            # a producer that hangs (mutated code) would otherwise eat the whole time budget
            ctx.extra["recipes_skipped_after_timeouts"] = len(recipes) - k - 1
            break
    cmodel = C.coq_eval(IMPORTS, [ex for _, ex, _ in created], tmpdir=ctx.tmp / "e2e_create", shard=100, jobs=4)
    for (ccase, _, rec), mo in zip(created, cmodel):
        ctx.compare("stored collection vs create_chunked(input chunks)", ccase, rec, None if mo is None else mo[1])
    ctx.extra["create_model_comparisons"] = len(created)
    ctx.extra["recipes"] = len(recipes)
    ctx.extra["collections_fed_to_model"] = len(pending)
    model = C.coq_eval(IMPORTS, [ex for _, ex, _ in pending], tmpdir=ctx.tmp / "e2e", shard=200, jobs=4)
    for (ccase, _, impl), mo in zip(pending, model):
        mvalid, mip, mib, mrle, msame, minfo = mo
        ctx.compare("bin-type/bin-size attributes vs info_bins(bins table)", ccase, list(impl["info"]),
                    [minfo[0], None if minfo[1] is None else minfo[1][1]])
        ctx.compare("valid_csr_b(raw columns) vs validator verdict", ccase, impl["oracle_ok"], mvalid)
        ctx.compare("model index_pixels vs stored indexes/bin1_offset", ccase, impl["stored_bin1_offset"], model_opt_list(mip))
        ctx.compare("model index_bins vs stored indexes/chrom_offset", ccase, impl["stored_chrom_offset"], model_opt_list(mib))
        ctx.compare("index_pixels(raw bin1_id)", ccase, impl["index_pixels"], model_opt_list(mip))
        ctx.compare("index_bins(raw bins/chrom)", ccase, impl["index_bins"], model_opt_list(mib))
        if not msame:
            ctx.disagree("model: chunked encoder differs from one-shot encoder", ccase, None, False)
        for k, got in impl["rle"].items():
            ctx.compare(f"rlencode(raw bin1_id, {k})", ccase, got, model_rle(mrle))


# ------------------------------------------------------------------ thorough: > 1e6 pixels
def big_file(ctx):
    """one end-to-end file whose pixel table crosses the encoder's real 1e6-row block boundary"""
    import pandas as pd
    from cooler.create import create_cooler
    n = 1700
    d = ctx.tmp / "big"
    d.mkdir(exist_ok=True)
    widths = [[1000] * 800, [1000] * 899 + [437]]
    bins = G._bins(widths)
    iu = np.triu_indices(n)
    b1, b2 = iu[0].astype(np.int64), iu[1].astype(np.int64)
    # drop a few complete rows and a band so that run lengths vary and a run straddles row 1e6
    keep = ~np.isin(b1, [5, 6, 700, 1499]) & ((b2 - b1) % 7 != 3)
    # make sure the 1e6-th row lies strictly inside a run
    b1, b2 = b1[keep], b2[keep]
    while b1[999_999] != b1[1_000_000]:      # row 1e6 must lie strictly inside a run: drop leading pixels until it does
        b1, b2 = b1[1:], b2[1:]
    assert len(b1) > 1_000_000 and b1[999_999] == b1[1_000_000]
    cnt = ((b1 * 31 + b2) % 5 + 1).astype(np.int64)
    edges = [0, 300_000, 300_000, 999_999, len(b1)]
    chunks = (pd.DataFrame({"bin1_id": b1[a:b], "bin2_id": b2[a:b], "count": cnt[a:b]}) for a, b in zip(edges[:-1], edges[1:]))
    case = {"fn": "big-file", "nbins": n, "nnz": int(len(b1)), "chunk_edges": edges}
    path = str(d / "big.cool")
    try:
        with G.time_limit(600):
            create_cooler(path, bins, chunks, ordered=True)
        outcome = "ok"
    except Exception as e:
        outcome = _outcome(e)
    ctx.case(case, nontrivial=True, kind="e2e:big")
    ctx.compare("producer outcome", case, outcome, "ok")
    if outcome != "ok":
        return
    raw = G.read_raw(path, "/")
    errs = G.validate_raw(raw)
    if errs:
        ctx.fail(case, {"errors": [f"{c}: {m}" for c, m in errs][:6]}, None)
    if not (np.array_equal(raw["pixels"]["bin1_id"], b1) and np.array_equal(raw["pixels"]["bin2_id"], b2)
            and np.array_equal(raw["pixels"]["count"], cnt)):
        ctx.fail(case, {"errors": ["stored columns differ from the input stream"]}, None)
    col = raw["pixels"]["bin1_id"]
    one = impl_rlencode(col, None)
    blk = impl_rlencode(col, 1_000_000)
    ctx.compare("rlencode(big, 1e6) vs one-shot (implementation)", case, digest(4096, blk), digest(4096, one))
    if not oracle_rle(col.tolist(), blk):
        ctx.fail({**case, "chunksize": 1000000}, {"got": "run-length encoding of the stored bin1_id column is wrong"}, None)
    # the model at this size: vm_compute of the list-recursive encoder on 1.1e6 elements is out of reach
    # (deep non-tail recursion, > 10 min), so (a) the index loop of the model runs on the runs of the
    # full column as the *definition* of run-length encoding gives them, and (b) the whole model pipeline
    # runs on a 180 000-row prefix of the stored column with block size 70 000 (two block edges inside runs)
    s_def, l_def, v_def = [], [], []
    colv = col.tolist()
    chg = np.flatnonzero(np.r_[True, col[1:] != col[:-1]])
    s_def = [int(x) for x in chg]
    v_def = [int(colv[k]) for k in s_def]
    runs = C.lst([C.tup(C.z(a_), C.z(v_)) for a_, v_ in zip(s_def, v_def)])
    (mip,) = C.coq_eval(IMPORTS, [f"index_runs {C.z(n)} {runs} {C.z(len(colv))}"], tmpdir=ctx.tmp / "bigv", timeout=900, jobs=1)
    ctx.compare("model index loop on the runs of the big column vs stored bin1_offset", case,
                [int(x) for x in raw["indexes"]["bin1_offset"]], list(mip))
    m = 180_000
    pre = col[:m]
    one_p = impl_rlencode(pre, None)
    blk_p = impl_rlencode(pre, 70_000)
    pruns = C.lst([C.tup(C.z(v_), C.z(l_)) for v_, l_ in zip(one_p[2], one_p[1])])
    expr = (f"let a := concat (map (fun vl => repeat (fst vl) (Z.to_nat (snd vl))) {pruns}) in "
            f"(zlen a, digest 4096 (rlencode a (Some 70000)), digest 4096 (rlencode a None), index_pixels_c 70000 a {C.z(n)} (zlen a))")
    import resource
    soft, hard = resource.getrlimit(resource.RLIMIT_STACK)
    try:
        resource.setrlimit(resource.RLIMIT_STACK, (hard, hard))
    except (ValueError, OSError):
        pass
    try:
        ((mlen, mdig_blk, mdig_one, mipp),) = C.coq_eval(IMPORTS, [expr], tmpdir=ctx.tmp / "bigp", timeout=900, jobs=1)
    finally:
        resource.setrlimit(resource.RLIMIT_STACK, (soft, hard))
    pcase = {**case, "prefix": m, "chunksize": 70000}
    ctx.compare("model column length (prefix)", pcase, m, mlen)
    ctx.compare("rlencode(prefix, 70000) digest", pcase, digest(4096, blk_p), mdig_blk)
    ctx.compare("rlencode(prefix, None) digest", pcase, digest(4096, one_p), mdig_one)
    ctx.compare("index_pixels(prefix) model vs implementation", pcase, impl_index_pixels(pre, n, m), model_opt_list(mipp))
    os.remove(path)


def run(ctx):
    import warnings
    warnings.filterwarnings("ignore")
    fn_level(ctx)
    e2e(ctx)
    if ctx.tier == "thorough":
        big_file(ctx)
    ctx.exhaustive = True


def replay(ctx, case):
    import warnings
    warnings.filterwarnings("ignore")
    fn = case.get("fn")
    if fn == "recipe":
        try:
            return check_recipe(ctx, case["steps"], None, "replay")
        finally:
            shutil.rmtree(ctx.tmp, ignore_errors=True)
    if fn == "rlencode/index":
        a = case["array"]
        if "index" in case:
            f = impl_index_pixels if case["index"] == "pixels" else impl_index_bins
            return oracle_offsets(a, case["n"], f(a, case["n"], len(a)))
        return oracle_rle(a, impl_rlencode(a, case.get("chunksize")))
    if fn == "big-file":
        n0 = len(ctx.failures)
        big_file(ctx)
        return len(ctx.failures) == n0
    return True
