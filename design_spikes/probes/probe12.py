import warnings; warnings.filterwarnings("ignore")
import numpy as np, pandas as pd, cooler
rng=np.random.default_rng(3)
per=[2,3,5]; cs=pd.Series({f"c{k}":p*10 for k,p in enumerate(per)}); bins=cooler.binnify(cs,10); n=len(bins)
M=np.triu(rng.integers(1,30,(n,n))); i,j=np.nonzero(M); px=pd.DataFrame({"bin1_id":i,"bin2_id":j,"count":M[i,j]})
cooler.create_cooler("b.cool",bins,px); c=cooler.Cooler("b.cool")
w,st=cooler.balance_cooler(c,ignore_diags=1,min_nnz=0,mad_max=0,tol=1e-14,max_iters=2000,trans_only=True)
print(st["converged"],st["scale"])
F=(M+np.triu(M,1).T).astype(float); chrom=np.repeat(np.arange(3),per); F[chrom[:,None]==chrom[None,:]]=0
print("row sums with returned w:",(F*np.outer(w,w)).sum(1))
cw=1.0/np.concatenate([[1-p/n]*p for p in per])
print("row sums with w*cweights:",(F*np.outer(w*cw,w*cw)).sum(1))
