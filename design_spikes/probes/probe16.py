import warnings; warnings.filterwarnings("ignore")
import numpy as np, pandas as pd, cooler, traceback
cs=pd.Series({"a":30,"b":20}); bins=cooler.binnify(cs,10)
def chunks(parts):
    for ks in parts:
        yield pd.DataFrame({"bin1_id":[a for a,b in ks],"bin2_id":[b for a,b in ks],"count":[1]*len(ks)},dtype=int)
for parts in ([[(2,3),(2,4)]], [[(2,3)],[(2,4)]], [[(0,1)],[]], [[],[]], [[(3,4)],[(4,4)]]):
    for buf in (1,100):
        try:
            cooler.create_cooler("u.cool",bins,chunks(parts),ordered=False,mergebuf=buf); print(parts,buf,"ok",cooler.Cooler("u.cool").pixels()[:].values.tolist())
        except Exception as e: print(parts,buf,"EXC",type(e).__name__,str(e)[:50])
