(** C07  Merging coolers is the exact element-wise aggregate of the inputs.
    Only statements; proofs are in Proofs/MergeProofs.v. *)
From Cooler Require Import Model.Merge Proofs.PixelsProofs Proofs.BinsProofs Proofs.MergeProofs.
From Coq Require Import Sorted Permutation.

(** merge_breakpoints terminates (fuel = length of the index = n_bins + 1 is never exhausted) for every
    family of monotone bin1_offset arrays of equal length L >= 2 starting at 0 and every bufsize >= 0;
    the partition starts at 0, is strictly increasing, stays inside the index, and every row from its
    last element on is empty in every input (so the epochs cover every record). *)
Theorem C07_breakpoints_partition : forall (idxs : list (list Z)) (L : nat) (buf : Z),
  idxs <> [] -> (2 <= L)%nat ->
  Forall (fun a => length a = L /\ MonoN a /\ nth 0 a 0 = 0) idxs -> 0 <= buf ->
  exists p, merge_breakpoints L idxs buf = Ok p /\
    hd 1%nat p = O /\ StronglySorted lt p /\ Forall (fun h => (h < L)%nat) p /\
    Forall (fun a => forall r, (last p O <= r < L)%nat -> nth r a 0 = nth (L - 1) a 0) idxs.
Proof. exact breakpoints_partition. Qed.
Print Assumptions C07_breakpoints_partition.

Theorem C07_sorted_is_monotone : forall l, Sorted Z.le l -> MonoN l.
Proof. exact sorted_mono. Qed.
Print Assumptions C07_sorted_is_monotone.

(** [ValidIn n c]: the pixel table of input c has non-decreasing bin1_id in [0,n) and indexes/bin1_offset is
    its index (property C02 of every written cooler).  [allpx inputs] is the concatenation of all input
    pixel tables, [merged_px agg inputs buf] the concatenation of the chunks CoolerMerger yields. *)

(** any value type (tuple of columns) and any aggregation function: for every non-empty family of valid
    inputs and every buffer size the merger terminates without error, never yields an empty chunk, and
    what it writes is the sorted group-by aggregate of all input records *)
Theorem C07_merger_exact : forall (V : Type) (agg : list V -> V) (n : nat) (inputs : list (mcool V)) (buf : Z),
  inputs <> [] -> (1 <= n)%nat -> Forall (ValidIn n) inputs -> 0 <= buf ->
  exists eps, cooler_merger agg inputs buf = Ok eps /\
    concat eps = groupby_agg agg (allpx inputs) /\ Forall (fun e => e <> []) eps.
Proof. intros V. exact (@merger_exact V). Qed.
Print Assumptions C07_merger_exact.

(** ... i.e. strictly sorted, exactly the pixels present in some input, and for every stored pixel the
    requested aggregate of exactly that pixel's values over the inputs (in input order) *)
Theorem C07_merger_pixelwise : forall (V : Type) (agg : list V -> V) (n : nat) (inputs : list (mcool V)) (buf : Z),
  inputs <> [] -> (1 <= n)%nat -> Forall (ValidIn n) inputs -> 0 <= buf ->
  exists out, merged_px agg inputs buf = Ok out /\
    StronglySorted klt (map fst out) /\
    (forall k, In k (map fst out) <-> In k (map fst (allpx inputs))) /\
    (forall k v, In (k, v) out -> v = agg (vals (allpx inputs) k)).
Proof. intros V. exact (@merger_pixelwise V). Qed.
Print Assumptions C07_merger_pixelwise.

(** count column, sum: the merged table is the canonical aggregate of Model/Pixels.v and the recorded total
    is the sum of the input totals *)
Theorem C07_merger_canon : forall (n : nat) (inputs : list (mcool Z)) (buf : Z),
  inputs <> [] -> (1 <= n)%nat -> Forall (ValidIn n) inputs -> 0 <= buf ->
  exists out, merged_px sumZ inputs buf = Ok out /\
    Canon (allpx inputs) out /\ out = aggregate (allpx inputs) /\
    total out = sumZ (map (fun c => total (mc_px c)) inputs).
Proof. exact merger_canon. Qed.
Print Assumptions C07_merger_canon.

Theorem C07_buffer_independent : forall (V : Type) (agg : list V -> V) (n : nat) (inputs : list (mcool V)) (buf buf' : Z),
  inputs <> [] -> (1 <= n)%nat -> Forall (ValidIn n) inputs -> 0 <= buf -> 0 <= buf' ->
  merged_px agg inputs buf = merged_px agg inputs buf'.
Proof. intros V. exact (@merge_buffer_independent V). Qed.
Print Assumptions C07_buffer_independent.

Theorem C07_order_independent : forall (n : nat) (inputs inputs' : list (mcool Z)) (buf buf' : Z),
  Permutation inputs inputs' ->
  inputs <> [] -> (1 <= n)%nat -> Forall (ValidIn n) inputs -> 0 <= buf -> 0 <= buf' ->
  merged_px sumZ inputs buf = merged_px sumZ inputs' buf'.
Proof. exact merge_order_independent. Qed.
Print Assumptions C07_order_independent.

Theorem C07_order_independent_any_agg : forall (V : Type) (agg : list V -> V) (n : nat) (inputs inputs' : list (mcool V)) (buf buf' : Z),
  (forall vs vs', Permutation vs vs' -> agg vs = agg vs') ->
  Permutation inputs inputs' ->
  inputs <> [] -> (1 <= n)%nat -> Forall (ValidIn n) inputs -> 0 <= buf -> 0 <= buf' ->
  merged_px agg inputs buf = merged_px agg inputs' buf'.
Proof. intros V. exact (@merge_order_independent_gen V). Qed.
Print Assumptions C07_order_independent_any_agg.

(** associativity over histories: storing the merge of xs (table + its index) and merging that file with ys
    equals merging xs ++ ys at once; xs = [a;b], ys = [c] is merge [merge [a;b]; c] = merge [a;b;c] *)
Theorem C07_merge_assoc : forall (n : nat) (xs ys : list (mcool Z)) (b1 b2 b3 : Z),
  xs <> [] -> (1 <= n)%nat -> Forall (ValidIn n) xs -> Forall (ValidIn n) ys ->
  0 <= b1 -> 0 <= b2 -> 0 <= b3 ->
  exists m, merged_px sumZ xs b1 = Ok m /\
    merged_px sumZ (mk_cool n m :: ys) b2 = merged_px sumZ (xs ++ ys) b3.
Proof. exact merge_assoc. Qed.
Print Assumptions C07_merge_assoc.

(** the composition law  agg (map agg Gs) = agg (concat Gs)  and its instances: the exact sum and the int64
    machine sum obey it unconditionally; max and min (which return the default 0 on an empty list) obey it
    for non-empty groups, and the unguarded form is false for them *)
Theorem C07_sum_compose : forall Gs : list (list Z), sumZ (map sumZ Gs) = sumZ (concat Gs).
Proof. exact sum_compose. Qed.
Print Assumptions C07_sum_compose.
Theorem C07_int64_sum_compose : forall Gs : list (list Z), agg_col ASum (map (agg_col ASum) Gs) = agg_col ASum (concat Gs).
Proof. exact wsum_compose. Qed.
Print Assumptions C07_int64_sum_compose.
Theorem C07_max_compose : forall Gs : list (list Z), Forall (fun G => G <> []) Gs -> lmax (map lmax Gs) = lmax (concat Gs).
Proof. exact max_compose. Qed.
Print Assumptions C07_max_compose.
Theorem C07_min_compose : forall Gs : list (list Z), Forall (fun G => G <> []) Gs -> lmin (map lmin Gs) = lmin (concat Gs).
Proof. exact min_compose. Qed.
Print Assumptions C07_min_compose.
Theorem C07_max_compose_unguarded_refuted : exists Gs, lmax (map lmax Gs) <> lmax (concat Gs).
Proof. exact max_compose_unguarded_refuted. Qed.
Print Assumptions C07_max_compose_unguarded_refuted.

(** associativity for every aggregation that obeys the composition law on
    non-empty groups and returns a single value unchanged; instances max and min *)
Theorem C07_merge_assoc_any_agg : forall (V : Type) (agg : list V -> V),
  (forall Gs : list (list V), Forall (fun G => G <> []) Gs -> agg (map agg Gs) = agg (concat Gs)) ->
  (forall v, agg [v] = v) ->
  forall (n : nat) (xs ys : list (mcool V)) (b1 b2 b3 : Z),
  xs <> [] -> (1 <= n)%nat -> Forall (ValidIn n) xs -> Forall (ValidIn n) ys ->
  0 <= b1 -> 0 <= b2 -> 0 <= b3 ->
  exists m, merged_px agg xs b1 = Ok m /\
    merged_px agg (mk_cool n m :: ys) b2 = merged_px agg (xs ++ ys) b3.
Proof. intros V agg H1 H2. exact (merge_assoc_gen agg H1 H2). Qed.
Print Assumptions C07_merge_assoc_any_agg.
Theorem C07_merge_assoc_max : forall (n : nat) (xs ys : list (mcool Z)) (b1 b2 b3 : Z),
  xs <> [] -> (1 <= n)%nat -> Forall (ValidIn n) xs -> Forall (ValidIn n) ys -> 0 <= b1 -> 0 <= b2 -> 0 <= b3 ->
  exists m, merged_px lmax xs b1 = Ok m /\ merged_px lmax (mk_cool n m :: ys) b2 = merged_px lmax (xs ++ ys) b3.
Proof. exact merge_assoc_max. Qed.
Print Assumptions C07_merge_assoc_max.
Theorem C07_merge_assoc_min : forall (n : nat) (xs ys : list (mcool Z)) (b1 b2 b3 : Z),
  xs <> [] -> (1 <= n)%nat -> Forall (ValidIn n) xs -> Forall (ValidIn n) ys -> 0 <= b1 -> 0 <= b2 -> 0 <= b3 ->
  exists m, merged_px lmin xs b1 = Ok m /\ merged_px lmin (mk_cool n m :: ys) b2 = merged_px lmin (xs ++ ys) b3.
Proof. exact merge_assoc_min. Qed.
Print Assumptions C07_merge_assoc_min.

(** the output of a merge is again a valid input (closes the induction over merge histories) *)
Theorem C07_merged_is_valid : forall (V : Type) (agg : list V -> V) (n : nat) (inputs : list (mcool V)),
  Forall (ValidIn n) inputs -> ValidIn n (mk_cool n (groupby_agg agg (allpx inputs))).
Proof. intros V. exact (@valid_merged V). Qed.
Print Assumptions C07_merged_is_valid.

(** refusal of incompatible inputs: an output exists only if every input has the storage mode of the first
    and passed CoolerMerger's compatibility test against it ... *)
Theorem C07_refuse_incompatible : forall inputs buf columns dtypes aggs c,
  merge_coolers inputs buf columns dtypes aggs = Ok c ->
  exists c0 rest, inputs = c0 :: rest /\
    Forall (fun ci => c_symm ci = c_symm c0 /\ compatible c0 ci = true) inputs /\
    c_bins c = c_bins c0 /\ c_names c = c_names c0 /\ c_symm c = c_symm c0.
Proof. exact refuse_incompatible. Qed.
Print Assumptions C07_refuse_incompatible.

(** ... and that test is sound: on valid bin tables acceptance implies the same chromosome names and the
    same bin table, also on the fixed-bin-size branch that compares only (bin size, names, lengths) -- by C20 *)
Theorem C07_compatible_same_axes : forall c0 c blocks0 blocks,
  c_bins c0 = concat blocks0 -> c_bins c = concat blocks ->
  BinsProofs.ValidBlocks blocks0 -> BinsProofs.ValidBlocks blocks ->
  compatible c0 c = true -> c_bins c = c_bins c0 /\ c_names c = c_names c0.
Proof. exact compatible_same_axes. Qed.
Print Assumptions C07_compatible_same_axes.

Theorem C07_merged_inputs_share_axes : forall inputs buf columns dtypes aggs c,
  merge_coolers inputs buf columns dtypes aggs = Ok c ->
  Forall (fun ci => exists blocks, c_bins ci = concat blocks /\ BinsProofs.ValidBlocks blocks) inputs ->
  Forall (fun ci => c_bins ci = c_bins c /\ c_names ci = c_names c /\ c_symm ci = c_symm c) inputs.
Proof. exact merged_inputs_share_axes. Qed.
Print Assumptions C07_merged_inputs_share_axes.

(** stored value = aggregate or error (guarded form): merge_coolers either fails or stores, for every pixel,
    the row of per-column aggregates of that pixel's values over the (column-projected) inputs, computed in
    the machine arithmetic of the model (integer sums accumulate in int64), and every stored value lies
    within its output dtype *)
Theorem C07_no_silent_overflow : forall inputs buf columns dtypes aggs,
  0 <= buf ->
  (1 <= c_nbins (hd {| c_names := []; c_bins := []; c_symm := true; c_cols := []; c_off := []; c_px := []; c_sum := 0 |} inputs))%nat ->
  Forall (fun ci => ValidIn (c_nbins (hd ci inputs)) (as_mcool ci)) inputs ->
  match merge_coolers inputs buf columns dtypes aggs with
  | Err _ => True
  | Ok c => exists projected,
      Forall2 (fun ci pi => map fst (mc_px pi) = map fst (c_px ci) /\ mc_off pi = c_off ci) inputs projected /\
      c_px c = groupby_agg (agg_row (mc_ops columns aggs)) (allpx projected) /\
      forall k row, In (k, row) (c_px c) ->
        row = agg_row (mc_ops columns aggs) (vals (allpx projected) k) /\
        fits_row (map snd (c_cols c)) row = true
  end.
Proof. exact no_silent_overflow. Qed.
Print Assumptions C07_no_silent_overflow.

(** the machine sum is the exact sum whenever the exact sum fits int64; column j of a stored row is the
    aggregate of column j *)
Theorem C07_sum_exact_within_int64 : forall vs, - 2 ^ 63 <= sumZ vs < 2 ^ 63 -> agg_col ASum vs = sumZ vs.
Proof. exact agg_col_sum_exact. Qed.
Print Assumptions C07_sum_exact_within_int64.
Theorem C07_row_aggregate_columnwise : forall ops rows j op, nth_error ops j = Some op ->
  nth j (agg_row ops rows) 0 = agg_col op (map (fun r => nth j r 0) rows).
Proof. exact agg_row_nth. Qed.
Print Assumptions C07_row_aggregate_columnwise.

(** multi-column merges, column-wise: a summed column j of the merged table whose per-pixel sums fit int64 is the
    canonical aggregate (Model/Pixels.v) of column j of all input records, total included *)
Theorem C07_column_canon : forall ops (l : list (key * list Z)) j,
  nth_error ops j = Some ASum ->
  (forall k, In k (map fst l) -> - 2 ^ 63 <= sumZ (vals (colproj j l) k) < 2 ^ 63) ->
  colproj j (groupby_agg (agg_row ops) l) = aggregate (colproj j l) /\
  Canon (colproj j l) (colproj j (groupby_agg (agg_row ops) l)) /\
  total (colproj j (groupby_agg (agg_row ops) l)) = total (colproj j l).
Proof. exact column_canon. Qed.
Print Assumptions C07_column_canon.

(** "its recorded total is the sum of the input totals", guarded: with count (position i of the merged columns)
    summed and no per-pixel sum leaving int64, info["sum"] is the int64 wrap of the exact sum of all input
    counts, hence equal to it whenever that exact total fits int64 *)
Theorem C07_total_exact_within_int64 : forall inputs buf columns dtypes aggs c i,
  0 <= buf -> (1 <= c_nbins (hd c inputs))%nat ->
  Forall (fun ci => ValidIn (c_nbins (hd ci inputs)) (as_mcool ci)) inputs ->
  merge_coolers inputs buf columns dtypes aggs = Ok c ->
  col_pos (map (fun c => (c, 0)) (mc_columns columns)) 0 = Some i ->
  nth_error (mc_ops columns aggs) i = Some ASum ->
  let all_counts := colproj i (allpx (proj_inputs inputs columns)) in
  (forall k, In k (map fst all_counts) -> - 2 ^ 63 <= sumZ (vals all_counts k) < 2 ^ 63) ->
  c_sum c = wrap64 (total all_counts) /\
  (- 2 ^ 63 <= total all_counts < 2 ^ 63 -> c_sum c = total all_counts).
Proof. exact total_exact_within_int64. Qed.
Print Assumptions C07_total_exact_within_int64.

(** the unguarded statement is FALSE of the faithful model and of the code (known finding D28): two inputs
    whose own totals fit int64, no pixel in common, every stored pixel exact -- the recorded total wraps *)
Theorem C07_total_exact_refuted :
  exists inputs c, merge_coolers inputs 10 None [] [] = Ok c /\
    c_px c = [((0, 1), [2 ^ 62]); ((1, 2), [2 ^ 62]); ((2, 2), [5])] /\
    map c_sum inputs = [2 ^ 62; 2 ^ 62 + 5] /\
    c_sum c = - 2 ^ 63 + 5 /\ sumZ (map c_sum inputs) = 2 ^ 63 + 5.
Proof.
  exists [ {| c_names := [0]; c_bins := [(0,0,10); (0,10,20); (0,20,30)]; c_symm := true; c_cols := [(0, 64)];
              c_off := [0;1;1;1]; c_px := [((0,1),[2 ^ 62])]; c_sum := 2 ^ 62 |};
           {| c_names := [0]; c_bins := [(0,0,10); (0,10,20); (0,20,30)]; c_symm := true; c_cols := [(0, 64)];
              c_off := [0;0;1;2]; c_px := [((1,2),[2 ^ 62]); ((2,2),[5])]; c_sum := 2 ^ 62 + 5 |} ].
  eexists. split; [vm_compute; reflexivity|]. repeat split; vm_compute; reflexivity.
Qed.
Print Assumptions C07_total_exact_refuted.

(** the unguarded statement "a stored sum is never different from the exact sum unless an error is raised" is
    FALSE of the faithful model (and of the code: known finding D19): two int64 counts 2^62 *)
Theorem C07_no_silent_overflow_refuted :
  exists inputs c, merge_coolers inputs 10 None [] [] = Ok c /\
    c_px c = [((0, 1), [- 2 ^ 63])] /\
    sumZ (map (fun p => nth 0 (snd p) 0) (concat (map c_px inputs))) = 2 ^ 63.
Proof.
  exists [ {| c_names := [0]; c_bins := [(0,0,10); (0,10,20)]; c_symm := true; c_cols := [(0, 64)];
              c_off := [0;1;1]; c_px := [((0,1),[2 ^ 62])]; c_sum := 2 ^ 62 |};
           {| c_names := [0]; c_bins := [(0,0,10); (0,10,20)]; c_symm := true; c_cols := [(0, 64)];
              c_off := [0;1;1]; c_px := [((0,1),[2 ^ 62])]; c_sum := 2 ^ 62 |} ].
  eexists. split; [vm_compute; reflexivity|]. split; vm_compute; reflexivity.
Qed.
Print Assumptions C07_no_silent_overflow_refuted.

(** the D10 input (two int32 counts 2^31-1) is refused by the model, as by the repaired code *)
Example ex_C07_int32_limit_refused :
  let a := {| c_names := [0]; c_bins := [(0,0,10); (0,10,20)]; c_symm := true; c_cols := [(0, 32)];
              c_off := [0;1;1]; c_px := [((0,1),[2 ^ 31 - 1])]; c_sum := 2 ^ 31 - 1 |} in
  merge_coolers [a; a] 10 None [] [] = Err EValue /\
  observe (merge_coolers [a; a] 10 None [(0, 64)] []) = Ok (true, [(0, 64)], [0;1;1], [((0,1),[2 ^ 32 - 2])], 2 ^ 32 - 2).
Proof. vm_compute. split; reflexivity. Qed.

(** non-vacuity: two real-looking indexes (one with leading empty rows), buffer 1 *)
Example ex_C07_breakpoints :
  merge_breakpoints 5 [[0;0;2;3;4]; [0;1;1;1;3]] 1 = Ok [0;1;2;3;4]%nat /\
  merge_breakpoints 5 [[0;0;2;3;4]; [0;1;1;1;3]] 4 = Ok [0;3;4]%nat /\
  merge_breakpoints 4 [[0;0;0;0]] 1 = Ok [0;3]%nat.
Proof. vm_compute. repeat split; reflexivity. Qed.

(** non-vacuity of ValidIn and of the merger theorem: two overlapping inputs, one with leading empty rows,
    buffer of one record *)
Example ex_C07_merge :
  let a := mk_cool 4 [((1,1),2); ((1,2),3); ((2,2),1); ((3,3),4)] in
  let b := mk_cool 4 [((0,1),5); ((1,2),7)] in
  mc_off a = [0;0;2;3;4] /\
    merged_px sumZ [a; b] 1 = Ok [((0,1),5); ((1,1),2); ((1,2),10); ((2,2),1); ((3,3),4)] /\
    merged_px sumZ [b; a] 6 = merged_px sumZ [a; b] 1.
Proof. vm_compute. repeat split; reflexivity. Qed.

(** ---- what a user reads from the merge result (composition with C02 and C03): for symmetric-upper inputs over one bin
    table, the dense range query on the merged cooler — every window, every read chunk size, every merge buffer — is the
    element-wise sum of the inputs' symmetric matrices. *)
From Cooler Require Import Model.Query Proofs.QueryProofs Proofs.MergeQuery.
Theorem C07_merge_then_dense_query : forall nc chroms (inputs : list Index.cooler) buf cs i0 i1 j0 j1,
  inputs <> [] -> 1 <= zlen chroms -> 0 <= nc -> 0 <= buf -> 1 <= cs ->
  Forall IndexProofs.ValidCSR inputs -> Forall (HistoryProofs.SameAxes nc chroms true) inputs ->
  0 <= i0 -> i0 <= i1 -> i1 <= zlen chroms -> 0 <= j0 -> j0 <= j1 -> j1 <= zlen chroms ->
  exists c out,
    Index.create_model nc chroms (aggregate (concat (map Index.pixels_of inputs))) true = Some c /\
    fill_lower_query (epx_of (Index.pixels_of c)) (Index.bin1_offset c) (get_spans (Index.bin1_offset c) cs) (i0, i1, j0, j1) = Some out /\
    dense_of out (i0, i1, j0, j1) =
    map (fun i => map (fun j => sumZ (map (fun ci => symm (Index.pixels_of ci) i j) inputs)) (zrange j0 (Z.to_nat (j1 - j0))))
        (zrange i0 (Z.to_nat (i1 - i0))).
Proof. exact merge_then_dense_query. Qed.
Print Assumptions C07_merge_then_dense_query.
