(** Admissibility of the row spans produced by CSRReader.get_spans / arg_prune_partition (C03):
    for every chunk size and every cut sequence within [lo, hi] that contains lo and hi, the spans are
    consecutive, start at the first row of the box and leave only empty rows uncovered. *)
From Cooler Require Import Model.Query Proofs.PixelsProofs Proofs.QueryProofs.
From Coq Require Import Sorted ZifyBool.
Ltac Zify.zify_post_hook ::= Z.to_euclidean_division_equations.

(** * np.unique *)
Lemma uins_in x l y : In y (uins x l) <-> y = x \/ In y l.
Proof.
  induction l as [|h t IH]; cbn [uins In]; [intuition|].
  destruct (x <? h) eqn:E1; [cbn [In]; intuition|].
  destruct (x =? h) eqn:E2; cbn [In]; [assert (x = h) by lia; intuition|]. rewrite IH. intuition.
Qed.
Lemma uins_sorted x l : StronglySorted Z.lt l -> StronglySorted Z.lt (uins x l).
Proof.
  induction l as [|h t IH]; cbn [uins]; intro H; [repeat constructor|].
  inversion H as [|? ? Ht Hall]; subst.
  destruct (x <? h) eqn:E1.
  - constructor; [exact H|]. constructor; [lia|]. eapply Forall_impl; [|exact Hall]. intros; lia.
  - destruct (x =? h) eqn:E2; [exact H|]. constructor; [apply IH; exact Ht|].
    apply Forall_forall. intros y Hy. apply uins_in in Hy. destruct Hy as [->|Hy]; [lia|].
    rewrite Forall_forall in Hall. now apply Hall.
Qed.
Lemma unique_in l y : In y (unique l) <-> In y l.
Proof.
  induction l as [|h t IH]; cbn [unique fold_right In]; [tauto|].
  fold (unique t). rewrite uins_in, IH. intuition.
Qed.
Lemma unique_sorted l : StronglySorted Z.lt (unique l).
Proof. induction l as [|h t IH]; cbn [unique fold_right]; [constructor|]. apply uins_sorted. exact IH. Qed.

Lemma sorted_chain h t : StronglySorted Z.lt (h :: t) -> chain h t.
Proof.
  revert h; induction t as [|e t IH]; intros h H; cbn [chain]; [exact I|].
  inversion H as [|? ? Ht Hall]; subst. inversion Hall; subst. split; [lia|]. apply IH. exact Ht.
Qed.
Lemma sorted_hd_min h t x : StronglySorted Z.lt (h :: t) -> In x (h :: t) -> h <= x.
Proof.
  intros H [->|Hx]; [lia|]. inversion H as [|? ? _ Hall]; subst. rewrite Forall_forall in Hall. apply Hall in Hx. lia.
Qed.
Lemma sorted_last_max h t x : StronglySorted Z.lt (h :: t) -> In x (h :: t) -> x <= last t h.
Proof.
  revert h x; induction t as [|e t IH]; intros h x H Hx.
  - cbn. destruct Hx as [->|[]]. lia.
  - rewrite last_cons_default. inversion H as [|? ? Ht Hall]; subst.
    destruct Hx as [->|Hx].
    + inversion Hall; subst. assert (e <= last t e) by (apply IH; [exact Ht|now left]). lia.
    + apply IH; assumption.
Qed.
Lemma last_in (h : Z) t : In (last t h) (h :: t).
Proof.
  revert h; induction t as [|e t IH]; intro h; [now left|]. rewrite last_cons_default. right. apply IH.
Qed.

(** * np.searchsorted(side="left") *)
Lemma ss_bounds l x : 0 <= searchsorted_left l x <= zlen l.
Proof.
  induction l as [|y t IH]; unfold zlen in *; cbn [searchsorted_left length]; [lia|].
  destruct (y <? x); lia.
Qed.
Lemma ss_mono l x y : x <= y -> searchsorted_left l x <= searchsorted_left l y.
Proof.
  intro H. induction l as [|h t IH]; cbn [searchsorted_left]; [lia|].
  destruct (h <? x) eqn:E1, (h <? y) eqn:E2; try lia. pose proof (ss_bounds t y). lia.
Qed.
Lemma ss_hd l d : searchsorted_left l (hd d l) <= 0.
Proof. destruct l as [|h t]; cbn [searchsorted_left hd]; [lia|]. rewrite Z.ltb_irrefl. lia. Qed.
Lemma ss_last h t : StronglySorted Z.le (h :: t) ->
  let m := searchsorted_left (h :: t) (last t h) in
  0 <= m < zlen (h :: t) /\ nth (Z.to_nat m) (h :: t) 0 = last t h.
Proof.
  revert h; induction t as [|e t IH]; intros h H.
  - cbn. rewrite Z.ltb_irrefl. unfold zlen; cbn. lia.
  - cbv zeta. rewrite last_cons_default. inversion H as [|? ? Ht Hall]; subst.
    specialize (IH e Ht). cbv zeta in IH. destruct IH as [IH1 IH2].
    change (searchsorted_left (h :: e :: t) (last t e)) with
      (if h <? last t e then 1 + searchsorted_left (e :: t) (last t e) else 0).
    set (S0 := searchsorted_left (e :: t) (last t e)) in *.
    destruct (h <? last t e) eqn:E.
    + unfold zlen in *. cbn [length] in *. split; [lia|].
      replace (Z.to_nat (1 + S0)) with (S (Z.to_nat S0)) by lia.
      cbn [nth]. exact IH2.
    + assert (Hle : h <= last t e).
      { rewrite Forall_forall in Hall. apply Hall. apply last_in. }
      unfold zlen; cbn [length nth Z.to_nat]. split; [lia|]. lia.
Qed.

(** * sortedness of the offset index *)
Lemma psums_ge acc ls : Forall (fun x => 0 <= x) ls -> Forall (fun y => acc <= y) (psums acc ls).
Proof.
  revert acc; induction ls as [|x t IH]; intros acc H; cbn [psums]; [repeat constructor; lia|].
  inversion H; subst. constructor; [lia|]. eapply Forall_impl; [|apply IH; assumption]. intros; cbv beta in *; lia.
Qed.
Lemma psums_sorted acc ls : Forall (fun x => 0 <= x) ls -> StronglySorted Z.le (psums acc ls).
Proof.
  revert acc; induction ls as [|x t IH]; intros acc H; cbn [psums]; [repeat constructor|].
  inversion H; subst. constructor; [apply IH; assumption|].
  eapply Forall_impl; [|apply psums_ge; assumption]. intros; cbv beta in *; lia.
Qed.
Lemma sorted_skipn {A} (R : A -> A -> Prop) l k : StronglySorted R l -> StronglySorted R (skipn k l).
Proof.
  revert l; induction k as [|k IH]; intros l H; [exact H|]. destruct l; [constructor|]. cbn [skipn]. apply IH. now inversion H.
Qed.
Lemma sorted_firstn {A} (R : A -> A -> Prop) l k : StronglySorted R l -> StronglySorted R (firstn k l).
Proof.
  revert l; induction k as [|k IH]; intros l H; [constructor|]. destruct l as [|a l]; [constructor|]. cbn [firstn].
  inversion H as [|? ? Hl Hall]; subst. constructor; [apply IH; exact Hl|].
  apply Forall_forall. intros x Hx. rewrite Forall_forall in Hall. apply Hall. rewrite <- (firstn_skipn k l). apply in_or_app. now left.
Qed.

Lemma nth_firstn_lt {A} (l : list A) k m d : (k < m)%nat -> nth k (firstn m l) d = nth k l d.
Proof.
  revert k l; induction m as [|m IH]; intros k l H; [lia|].
  destruct l as [|a l]; [now rewrite firstn_nil|]. destruct k; cbn [firstn nth]; [reflexivity|]. apply IH. lia.
Qed.
Lemma nth_skipn_add {A} (l : list A) k a d : nth k (skipn a l) d = nth (a + k) l d.
Proof.
  revert l; induction a as [|a IH]; intro l; [reflexivity|].
  destruct l as [|x l]; cbn [skipn Nat.add nth]; [now destruct k|]. apply IH.
Qed.
Lemma last_nth_len (l : list Z) d : l <> [] -> last l d = nth (length l - 1) l d.
Proof.
  induction l as [|a t IH]; intro H; [congruence|]. destruct t as [|b t']; [reflexivity|].
  change (last (a :: b :: t') d) with (last (b :: t') d). rewrite IH by congruence.
  cbn [length]. replace (S (S (length t')) - 1)%nat with (S (S (length t') - 1)) by lia. reflexivity.
Qed.
Lemma psums_length acc ls : length (psums acc ls) = S (length ls).
Proof. revert acc; induction ls as [|x t IH]; intro acc; cbn [psums length]; [reflexivity|]. now rewrite IH. Qed.

(** * arg_prune_partition *)
Definition AdmissibleCuts (seq cuts : list Z) : Prop :=
  In (hd 0 seq) cuts /\ In (last seq 0) cuts /\ Forall (fun c => c <= last seq 0) cuts.

Lemma prune_admissible seq cuts : StronglySorted Z.le seq -> seq <> [] -> AdmissibleCuts seq cuts ->
  exists es, prune_with_cuts seq cuts = 0 :: es /\ chain 0 es /\
    0 <= last es 0 < zlen seq /\ nth (Z.to_nat (last es 0)) seq 0 = last seq 0.
Proof.
  intros Hs Hne [Hlo [Hhi Hall]]. unfold prune_with_cuts.
  set (L := map (searchsorted_left seq) cuts).
  assert (HU := unique_sorted L).
  assert (Hge : forall y, In y (unique L) -> 0 <= y).
  { intros y Hy. rewrite unique_in in Hy. unfold L in Hy. rewrite in_map_iff in Hy. destruct Hy as [c [<- _]]. apply ss_bounds. }
  assert (H0 : In 0 (unique L)).
  { apply unique_in. apply in_map_iff. exists (hd 0 seq). split; [|exact Hlo].
    pose proof (ss_hd seq 0). pose proof (ss_bounds seq (hd 0 seq)). lia. }
  set (m := searchsorted_left seq (last seq 0)).
  assert (Hm : In m (unique L)). { apply unique_in. apply in_map_iff. exists (last seq 0). split; [reflexivity|exact Hhi]. }
  assert (Hle : forall y, In y (unique L) -> y <= m).
  { intros y Hy. rewrite unique_in in Hy. unfold L in Hy. rewrite in_map_iff in Hy. destruct Hy as [c [<- Hc]].
    apply ss_mono. rewrite Forall_forall in Hall. now apply Hall. }
  destruct (unique L) as [|h es] eqn:EU; [destruct H0|].
  assert (h = 0). { pose proof (sorted_hd_min h es 0 HU H0). pose proof (Hge h ltac:(now left)). lia. }
  subst h. exists es. split; [reflexivity|]. split; [now apply sorted_chain|].
  assert (Hlast : last es 0 = m).
  { pose proof (sorted_last_max 0 es m HU Hm). pose proof (Hle _ (last_in 0 es)). lia. }
  rewrite Hlast. destruct seq as [|s0 st]; [congruence|].
  pose proof (ss_last s0 st Hs) as Hss. cbv zeta in Hss. rewrite <- (last_cons_default s0 st 0) in Hss. exact Hss.
Qed.

Lemma linspace_admissible seq step : StronglySorted Z.le seq -> seq <> [] -> 1 <= step ->
  AdmissibleCuts seq (linspace_int (hd 0 seq) (last seq 0) (2 + (last seq 0 - hd 0 seq) / step)).
Proof.
  intros Hs Hne Hstep.
  assert (Hlohi : hd 0 seq <= last seq 0).
  { destruct seq as [|a t]; [congruence|]. cbn [hd]. rewrite last_cons_default.
    destruct t as [|b t']; [cbn; lia|]. inversion Hs as [|? ? _ Hall]; subst. rewrite Forall_forall in Hall. apply Hall.
    rewrite (last_cons_default b t' a). apply last_in. }
  set (lo := hd 0 seq) in *. set (hi := last seq 0) in *. set (num := 2 + (hi - lo) / step).
  assert (Hnum : 2 <= num) by (unfold num; pose proof (Z.div_pos (hi - lo) step ltac:(lia) ltac:(lia)); lia).
  unfold AdmissibleCuts, linspace_int. repeat split.
  - apply in_map_iff. exists 0. split; [rewrite Z.mul_0_l, Z.div_0_l by lia; lia|]. apply in_zrange. lia.
  - apply in_map_iff. exists (num - 1). split; [|apply in_zrange; lia].
    rewrite Z.mul_comm, Z.div_mul by lia. lia.
  - apply Forall_forall. intros c Hc. apply in_map_iff in Hc. destruct Hc as [k [<- Hk]]. apply in_zrange in Hk.
    assert (k * (hi - lo) / (num - 1) <= hi - lo).
    { apply Z.div_le_upper_bound; [lia|]. apply Z.mul_le_mono_nonneg_r; lia. }
    lia.
Qed.

(** * get_spans *)
Definition spans_with (cutsf : list Z -> list Z) (off : list Z) (bb : bbox) : list span :=
  let '(i0, i1, j0, j1) := bb in
  if (i1 - i0 <? 1) || (j1 - j0 <? 1) then []
  else pairs_of_edges (map (Z.add i0) (prune_with_cuts (slice off i0 (i1 + 1)) (cutsf (slice off i0 (i1 + 1))))).
Definition linspace_cuts (step : Z) (seq : list Z) : list Z :=
  linspace_int (hd 0 seq) (last seq 0) (2 + (last seq 0 - hd 0 seq) / step).
Lemma get_spans_eq off cs bb : get_spans off cs bb = spans_with (linspace_cuts cs) off bb.
Proof. destruct bb as [[[i0 i1] j0] j1]. reflexivity. Qed.

Lemma chain_map_add a lo es : chain lo es -> chain (a + lo) (map (Z.add a) es).
Proof. revert lo; induction es as [|e t IH]; intros lo H; cbn [map chain]; [exact I|]. destruct H. split; [lia|]. now apply IH. Qed.
Lemma last_map_add a es d : last (map (Z.add a) es) (a + d) = a + last es d.
Proof.
  revert d; induction es as [|e t IH]; intro d; [reflexivity|]. cbn [map]. rewrite !last_cons_default. apply IH.
Qed.

Theorem spans_with_admissible n (rows : list (list ipixel)) cutsf : zlen rows = n ->
  (forall seq, StronglySorted Z.le seq -> seq <> [] -> AdmissibleCuts seq (cutsf seq)) ->
  forall x0 x1 y0 y1, 0 <= x0 -> x0 <= x1 -> x1 <= n ->
    AdmissibleSpans rows x0 x1 (spans_with cutsf (psums 0 (map zlen rows)) (x0, x1, y0, y1)) \/
    (y1 <= y0 /\ spans_with cutsf (psums 0 (map zlen rows)) (x0, x1, y0, y1) = []).
Proof.
  intros Hn Hcuts x0 x1 y0 y1 H0 H01 H1. unfold spans_with.
  destruct (y1 - y0 <? 1) eqn:Ey; [right; rewrite orb_true_r; split; [lia|reflexivity]|].
  rewrite orb_false_r. left.
  destruct (x1 - x0 <? 1) eqn:Ex.
  - assert (x1 = x0) by lia. subst x1. exists []. cbn [last chain]. repeat split; lia.
  - set (off := psums 0 (map zlen rows)). set (seq := slice off x0 (x1 + 1)).
    assert (Hoffsorted : StronglySorted Z.le off).
    { apply psums_sorted. apply Forall_forall. intros z Hz. apply in_map_iff in Hz. destruct Hz as [r [<- _]]. apply zlen_nonneg. }
    assert (Hofflen : length off = S (length rows)) by (unfold off; now rewrite psums_length, map_length).
    assert (Hseqlen : length seq = Z.to_nat (x1 - x0 + 1)).
    { unfold seq, slice. rewrite firstn_length, skipn_length. unfold zlen in Hn. lia. }
    assert (Hseqs : StronglySorted Z.le seq) by (unfold seq, slice; apply sorted_firstn, sorted_skipn; exact Hoffsorted).
    assert (Hseqne : seq <> []) by (intro E; rewrite E in Hseqlen; cbn in Hseqlen; lia).
    assert (Hnth : forall k, 0 <= k <= x1 - x0 -> nth (Z.to_nat k) seq 0 = znth off (x0 + k) 0).
    { intros k Hk. unfold seq, slice, znth. rewrite nth_firstn_lt by lia. rewrite nth_skipn_add. f_equal. lia. }
    destruct (prune_admissible seq (cutsf seq) Hseqs Hseqne (Hcuts seq Hseqs Hseqne)) as [es [Hp [Hc [Hb Hl]]]].
    rewrite Hp. cbn [map]. rewrite Z.add_0_r. exists (map (Z.add x0) es).
    split; [reflexivity|]. split; [rewrite <- (Z.add_0_r x0) at 1; now apply chain_map_add|].
    assert (Hlast : last (map (Z.add x0) es) x0 = x0 + last es 0).
    { rewrite <- (Z.add_0_r x0) at 2. apply last_map_add. }
    rewrite Hlast. unfold zlen in Hb. split; [lia|].
    rewrite <- Hnth by lia. rewrite Hl. rewrite (last_nth_len seq 0 Hseqne).
    replace (length seq - 1)%nat with (Z.to_nat (x1 - x0)) by lia. rewrite Hnth by lia. f_equal. lia.
Qed.

(** the concrete get_spans of the model (exact-arithmetic linspace) is admissible for every chunk size >= 1 *)
Corollary get_spans_admissible n (rows : list (list ipixel)) cs : zlen rows = n -> 1 <= cs ->
  forall x0 x1 y0 y1, 0 <= x0 -> x0 <= x1 -> x1 <= n ->
    AdmissibleSpans rows x0 x1 (get_spans (psums 0 (map zlen rows)) cs (x0, x1, y0, y1)) \/
    (y1 <= y0 /\ get_spans (psums 0 (map zlen rows)) cs (x0, x1, y0, y1) = []).
Proof.
  intros Hn Hcs x0 x1 y0 y1 H0 H01 H1. rewrite get_spans_eq.
  apply (spans_with_admissible n rows (linspace_cuts cs) Hn); [|assumption..].
  intros seq Hs Hne. apply linspace_admissible; assumption.
Qed.
