import warnings; warnings.filterwarnings("ignore")
import patch_gb
import numpy as np, pandas as pd, cooler, itertools
def compositions(L):
    if L==0: yield []; return
    for first in range(1,L+1):
        for rest in compositions(L-first): yield [first]+rest
bad=0; tot=0; emptysel=set()
tables=[]
for L1 in (1,4,5,6):
    for comp1 in compositions(L1):
        for comp2 in ([3],[2,2],[2,2,1],[1,3]):
            tables.append((comp1,comp2))
for comp1,comp2 in tables:
    rows=[]
    for ch,comp in (("a",comp1),("b",comp2)):
        s=0
        for w in comp: rows.append((ch,s,s+w)); s+=w
    bins=pd.DataFrame(rows,columns=["chrom","start","end"]); n=len(bins)
    cooler.create_cooler("e.cool",bins,pd.DataFrame({"bin1_id":[0],"bin2_id":[n-1],"count":[1]}))
    c=cooler.Cooler("e.cool")
    for ch in ("a","b"):
        L=int(c.chromsizes[ch]); sub=bins[bins.chrom==ch]
        for s in range(L+1):
            for e in range(s,L+1):
                lo,hi=c.extent((ch,s,e)); tot+=1
                if s<e:
                    exp=[k for k in sub.index if sub.start[k]<e and sub.end[k]>s]
                    if list(range(lo,hi))!=exp: bad+=1; print("EXT",c.binsize,rows,ch,s,e,lo,hi,exp)
                else:
                    sel=list(range(lo,hi))
                    ok=len(sel)<=1 and all(k in sub.index and sub.start[k]<=s<=sub.end[k] for k in sel)
                    if not ok: bad+=1; print("EMPTY",c.binsize,rows,ch,s,lo,hi)
print("C04 tot",tot,"bad",bad,"tables",len(tables))
