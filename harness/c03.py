"""C03 — a 2D range query equals the same slice of the full matrix.

Correspondence: Cooler.matrix(...)[i0:i1, j0:j1] (dense / sparse / as_pixels), cooler.api.matrix,
CSRReader.get_spans, arg_prune_partition, _IndexingMixin._process_slice against the Gallina model
(coq/Model/Query.v) on *all* windows of small matrices, several read chunk sizes, both storage modes.
Property oracle (independent of the query code): the slice F[i0:i1, j0:j1] of the dense (completed) matrix
F built from the raw stored columns read with h5py; pixel output = stored records inside the window in
storage order.
"""
from __future__ import annotations

import itertools
import os
from concurrent.futures import ProcessPoolExecutor

import numpy as np

import coqio as C

PROP = "C03"
RULE = ("matrices: every 0/1 pattern (distinct values) of the upper triangle (symmetric-upper) resp. the full square (square mode, n<=2) "
        "for n<=3, structured families (empty, full, diagonal only, no diagonal, empty first/middle/last rows, single row, random densities) "
        "for n=4..5 (quick) / ..6 (thorough); for each matrix ALL windows 0<=i0<=i1<=n, 0<=j0<=j1<=n x read chunk sizes from "
        "{1,2,3,nnz,nnz+1,1e7} x {dense, sparse, as_pixels+index}; slice spellings (negative, open, scalar, 1-tuple) exhaustively for n<=4; "
        "value columns rotate over int64 / int32 / float64 (multiples of 1/8) / an extra column selected with field=; as_pixels also with join=True; each collection is also written into a nested group of a two-collection file; arg_prune_partition/get_spans on random monotone offset arrays; one evaluation = one (matrix, chunk size, window, form) query; "
        "non-trivial = window with 0<i1-i0 and 0<j1-j0 on a non-empty matrix; distinct by (matrix, window, chunk size)")
TRUSTED = ["h5py raw reads of pixels/bin1_id, bin2_id, count and indexes/bin1_offset give the stored columns (they are the model's input and the oracle's reference)",
           "scipy coo_matrix.toarray sums entries with equal coordinates (modelled by look)"]
ASSUMPTIONS = ["np.linspace(lo,hi,num,dtype=int) yields cut points within [lo,hi] starting at lo and ending at hi (the theorems quantify over every such cut sequence; "
               "the exact-arithmetic linspace of the model is compared with numpy's and float-rounding differences are counted, not alarmed)"]
RESIDUE = ["window bounds outside [-n, n] are outside the claim", "pydata/sparse and dask outputs are not installed",
           "bounds given as numpy uint64 scalars are refused with IndexError (numpy promotes uint64 + int64 to float64): a refusal, outside the claim; int64 / int32 / int16 / uint8 scalar bounds are exercised"]

CHUNKS = ["1", "2", "3", "nnz", "nnz+1", "big"]


def chunk_value(tag, nnz):
    return {"1": 1, "2": 2, "3": 3, "nnz": max(nnz, 1), "nnz+1": nnz + 1, "big": 10 ** 7}[tag]


def windows(n):
    out = []
    for i0 in range(n + 1):
        for i1 in range(i0, n + 1):
            for j0 in range(n + 1):
                for j1 in range(j0, n + 1):
                    out.append((i0, i1, j0, j1))
    return out


def make_bins(n):
    """n bins over two chromosomes (one if n == 1); irrelevant for index queries but realistic"""
    import pandas as pd
    na = n if n < 2 else (n + 1) // 2
    rows = [("a", 10 * k, 10 * (k + 1)) for k in range(na)] + [("b", 10 * k, 10 * (k + 1)) for k in range(n - na)]
    return pd.DataFrame(rows, columns=["chrom", "start", "end"])


def cell_value(i, j, n):
    return 1 + i * n + j


def gen_cases(ctx):
    rng = ctx.rng
    thorough = ctx.tier == "thorough"
    cases = []

    def add(n, cells, symm, fam):
        cases.append({"n": n, "pixels": [[i, j, v] for (i, j, v) in sorted(cells)], "symm": symm, "family": fam})

    # exhaustive patterns
    for n in (1, 2, 3):
        upper = [(i, j) for i in range(n) for j in range(i, n)]
        for bits in itertools.product((0, 1), repeat=len(upper)):
            add(n, [(i, j, cell_value(i, j, n)) for (i, j), b in zip(upper, bits) if b], True, "all-patterns")
    for n in (1, 2):
        full = [(i, j) for i in range(n) for j in range(n)]
        for bits in itertools.product((0, 1), repeat=len(full)):
            add(n, [(i, j, cell_value(i, j, n)) for (i, j), b in zip(full, bits) if b], False, "all-patterns-square")
    # structured families
    for n in ((4, 5, 6) if thorough else (4, 5)):
        up = [(i, j) for i in range(n) for j in range(i, n)]
        sq = [(i, j) for i in range(n) for j in range(n)]
        fams = {
            "empty": [],
            "full": up,
            "diag-only": [(i, i) for i in range(n)],
            "no-diag": [(i, j) for (i, j) in up if i != j],
            "empty-first-row": [(i, j) for (i, j) in up if i != 0],
            "empty-last-rows": [(i, j) for (i, j) in up if i < n - 2],
            "empty-middle-row": [(i, j) for (i, j) in up if i != n // 2],
            "single-row": [(1, j) for j in range(1, n)],
            "last-col": [(i, n - 1) for i in range(n)],
        }
        for fam, cells in fams.items():
            add(n, [(i, j, cell_value(i, j, n)) for (i, j) in cells], True, fam)
        for dens in ((0.15, 0.3, 0.5, 0.8) if thorough else (0.2, 0.5, 0.8)):
            for rep in range(3 if thorough else 1):
                add(n, [(i, j, rng.randint(1, 2 ** 31 - 1)) for (i, j) in up if rng.random() < dens], True, "random")
        add(n, [(i, j, cell_value(i, j, n)) for (i, j) in sq], False, "full-square")
        for dens in (0.3, 0.7):
            add(n, [(i, j, rng.randint(1, 99)) for (i, j) in sq if rng.random() < dens], False, "random-square")
    # value-column variants on the structured / random families
    kinds = ["int64", "float64", "int32", "field"]
    for k, c in enumerate(cases):
        if c["n"] >= 4:
            c["vkind"] = kinds[k % 4]
            if c["vkind"] == "float64":   # keep v/8 exactly representable and small
                c["pixels"] = [[i, j, v % (2 ** 40)] for i, j, v in c["pixels"]]
    # assign chunk sizes: every case gets 'big' default + rotating others (thorough: all)
    for k, c in enumerate(cases):
        if thorough or c["n"] <= 3 and len(c["pixels"]) <= 3:
            c["chunks"] = list(CHUNKS) if thorough else [CHUNKS[k % 6], CHUNKS[(k + 3) % 6]]
        else:
            c["chunks"] = [CHUNKS[k % 6], CHUNKS[(k // 6 + 1 + k) % 6]]
        c["chunks"] = sorted(set(c["chunks"]), key=CHUNKS.index)
    return cases


# ---------------------------------------------------------------- worker (runs the implementation)
def ck_dense(a):
    a = np.asarray(a).astype(object)
    if a.size == 0:
        return 0
    r = np.arange(a.shape[0]).reshape(-1, 1)
    c = np.arange(a.shape[1]).reshape(1, -1)
    w = (1 + 31 * r + 1009 * c).astype(object)
    return int((w * a).sum())


def ck_set(rows, cols, vals):
    return int(sum((1 + 7 * int(r) + 131 * int(c)) * int(v) for r, c, v in zip(rows, cols, vals)))


def ck_ord(idx, rows, cols, vals):
    return int(sum((k + 1) * ((1 + 7 * int(r) + 131 * int(c)) * int(v) + 17 * int(i))
                   for k, (i, r, c, v) in enumerate(zip(idx, rows, cols, vals))))


def _worker(arg):
    path, case = arg
    import h5py
    import pandas as pd
    import cooler
    from cooler.api import matrix as api_matrix
    n = case["n"]
    # value column variants: int64 / int32 counts, float64 counts (multiples of 1/8, compared after scaling by 8),
    # or an extra value column "w" selected with field="w"
    vkind = case.get("vkind", "int64")
    fld = "w" if vkind == "field" else "count"
    scale = 8 if vkind == "float64" else 1
    df = pd.DataFrame(case["pixels"], columns=["bin1_id", "bin2_id", "count"]).astype({"bin1_id": np.int64, "bin2_id": np.int64, "count": np.int64})
    kw = {}
    if vkind == "float64":
        df["count"] = df["count"].astype(np.float64) / 8.0
        kw = dict(dtypes={"count": np.float64})
    elif vkind == "int32":
        kw = dict(dtypes={"count": np.int32})
    elif vkind == "field":
        df["w"] = df["count"]
        df["count"] = 1
        kw = dict(columns=["count", "w"], dtypes={"count": np.int32, "w": np.int64})
    else:
        kw = dict(dtypes={"count": np.int64})
    cooler.create_cooler(path, make_bins(n), df, symmetric_upper=case["symm"], **kw)
    fkw = {"field": fld} if vkind == "field" else {}
    # a divisive weight column (non-dyadic values, one masked bin) for the balanced-window consistency check below
    kr = np.array([0.3 + 0.37 * k for k in range(n)], dtype=np.float64)
    if n >= 3:
        kr[n // 2] = np.nan
    with h5py.File(path, "r+") as f:
        f["bins"].create_dataset("KR", data=kr)
    with h5py.File(path, "r") as f:
        b1 = f["pixels/bin1_id"][:].tolist()
        b2 = f["pixels/bin2_id"][:].tolist()
        cnt = [int(round(float(x) * scale)) if scale != 1 else int(x) for x in f["pixels/" + fld][:].tolist()]
        off = f["indexes/bin1_offset"][:].tolist()
    # independent reference: dense completion of the raw stored columns
    F = np.zeros((n, n), dtype=object)
    for r, c, v in zip(b1, b2, cnt):
        F[r, c] += v
        if case["symm"] and r != c:
            F[c, r] += v
    stored = list(zip(range(len(b1)), b1, b2, cnt))
    res = {"raw": [b1, b2, cnt, off], "cks": {}, "fails": [], "nq": 0}
    fh = h5py.File(path, "r")
    try:
        clr = cooler.Cooler(fh)
        wins = windows(n)
        for tag in case["chunks"]:
            cs = chunk_value(tag, len(b1))
            sel_d = clr.matrix(balance=False, chunksize=cs, **fkw)
            sel_s = clr.matrix(balance=False, sparse=True, chunksize=cs, **fkw)
            sel_p = clr.matrix(balance=False, as_pixels=True, join=False, ignore_index=False, chunksize=cs, **fkw)
            out = []
            for (i0, i1, j0, j1) in wins:
                exp = F[i0:i1, j0:j1]
                try:
                    d = sel_d[i0:i1, j0:j1]
                    s = sel_s[i0:i1, j0:j1]
                    if scale != 1:
                        d = np.asarray(d) * scale
                        if not np.all(d == np.round(d)):
                            raise ValueError("non-dyadic value read back")
                        d = np.round(d).astype(np.int64)
                    cd = ck_dense(d)
                    srows, scols = (s.row + i0).tolist(), (s.col + j0).tolist()
                    svals = [int(round(float(x) * scale)) for x in s.data.tolist()] if scale != 1 else s.data.tolist()
                    cset, cn = ck_set(srows, scols, svals), len(svals)
                    ok = (d.shape == exp.shape and bool((d.astype(object) == exp).all()) and s.shape == exp.shape)
                    trip = sorted(zip(srows, scols, svals))
                    exp_trip = sorted((r, c, int(exp[r - i0, c - j0])) for r in range(i0, i1) for c in range(j0, j1) if exp[r - i0, c - j0] != 0)
                    ok = ok and trip == exp_trip
                except Exception as e:  # engine raised
                    cd = cset = cn = -1
                    ok = False
                    d = repr(e)
                try:
                    p = sel_p[i0:i1, j0:j1]
                    pv = p[fld].tolist()
                    if scale != 1:
                        pv = [int(round(float(x) * scale)) for x in pv]
                    got_p = list(zip(p.index.tolist(), p["bin1_id"].tolist(), p["bin2_id"].tolist(), pv))
                    cp = ck_ord(*zip(*got_p)) if got_p else 0
                    exp_p = [t for t in stored if i0 <= t[1] < i1 and j0 <= t[2] < j1]
                    okp = got_p == exp_p and list(p.columns) == ["bin1_id", "bin2_id", fld]
                except Exception as e:
                    cp = -2
                    okp = False
                res["nq"] += 3
                out.append((cd, cset, cn, cp))
                if not (ok and okp) and len(res["fails"]) < 5:
                    res["fails"].append({"window": [i0, i1, j0, j1], "chunk": tag, "dense_ok": bool(ok), "pixels_ok": bool(okp),
                                         "got_dense": np.asarray(d).tolist() if not isinstance(d, str) else d, "expected_dense": exp.tolist()})
            res["cks"][tag] = out
        # module-level function and fill_lower=False on a few windows (direct engine for dense output)
        for (i0, i1, j0, j1) in wins[:: max(1, len(wins) // 25)]:
            try:
                a = api_matrix(fh, i0, i1, j0, j1, balance=False, fill_lower=False, chunksize=2, **fkw)
                if scale != 1:
                    a = np.round(np.asarray(a) * scale).astype(np.int64)
            except Exception as ex:
                a = np.full((max(i1 - i0, 0), max(j1 - j0, 0)), -1)
                if len(res["fails"]) < 5:
                    res["fails"].append({"window": [i0, i1, j0, j1], "chunk": "2", "fill_lower": False, "error": repr(ex)})
                continue
            e = np.zeros((i1 - i0, j1 - j0), dtype=object)
            for r, c, v in zip(b1, b2, cnt):
                if i0 <= r < i1 and j0 <= c < j1:
                    e[r - i0, c - j0] += v
            res["nq"] += 1
            if not bool((a.astype(object) == e).all()) and len(res["fails"]) < 5:
                res["fails"].append({"window": [i0, i1, j0, j1], "chunk": "2", "fill_lower": False, "got_dense": a.tolist(), "expected_dense": e.tolist()})
        # balanced reads of a window are the same sub-block of the full balanced matrix too (C12 owns the values; here only
        # "window == slice", in particular for windows whose row range equals the column range), dense and sparse
        try:
            with np.errstate(all="ignore"):
                Fb = np.array(F, dtype=np.float64) / scale / np.outer(kr, kr)
                Fraw = {}
                for r_, c_, v_ in zip(b1, b2, cnt):
                    Fraw.setdefault(r_, {})[c_] = v_ / scale       # the stored value of each record (pixel output never mirrors)
                selb = clr.matrix(balance="KR", chunksize=2, **fkw)
                selbs = clr.matrix(balance="KR", sparse=True, chunksize=3, **fkw)
                for kx, (i0, i1, j0, j1) in enumerate(wins):
                    if not ((i0, i1) == (j0, j1) or kx % 9 == 0):
                        continue
                    res["nq"] += 2
                    gb = np.asarray(selb[i0:i1, j0:j1], dtype=np.float64)
                    gs = selbs[i0:i1, j0:j1].toarray().astype(np.float64)
                    eb = Fb[i0:i1, j0:j1]
                    okb = gb.shape == eb.shape and np.allclose(gb, eb, rtol=1e-12, atol=0, equal_nan=True)
                    es = np.where(np.array(F, dtype=np.float64)[i0:i1, j0:j1] == 0, 0.0, eb)     # sparse output has no entry where nothing is stored
                    oks = gs.shape == es.shape and np.allclose(gs, es, rtol=1e-12, atol=0, equal_nan=True)
                    if not (okb and oks) and len(res["fails"]) < 5:
                        res["fails"].append({"window": [i0, i1, j0, j1], "chunk": "2", "balanced": "KR (divisive)", "dense_ok": bool(okb), "sparse_ok": bool(oks),
                                             "got_dense": gb.tolist(), "expected_dense": eb.tolist()})
                    # ... and the pixel table of the window describes the same values, whichever index it carries
                    for ign in (False, True):
                        pb = clr.matrix(balance="KR", as_pixels=True, join=False, ignore_index=ign, chunksize=3, **fkw)[i0:i1, j0:j1]
                        res["nq"] += 1
                        gotp = [(int(a), int(b_), float(v)) for a, b_, v in zip(pb["bin1_id"], pb["bin2_id"], pb["balanced"])] if "balanced" in pb.columns else None
                        okp = gotp is not None and len(gotp) == sum(1 for t in stored if i0 <= t[1] < i1 and j0 <= t[2] < j1) and all(
                            (np.isnan(v) and np.isnan(Fraw[a][b_] / (kr[a] * kr[b_]))) or np.isclose(v, Fraw[a][b_] / (kr[a] * kr[b_]), rtol=1e-12, atol=0)
                            for a, b_, v in gotp)
                        if not okp and len(res["fails"]) < 5:
                            res["fails"].append({"window": [i0, i1, j0, j1], "chunk": "3", "balanced": "KR (divisive)", "as_pixels": True, "ignore_index": ign,
                                                 "got": None if gotp is None else gotp[:6]})
        except Exception as ex:
            if len(res["fails"]) < 5:
                res["fails"].append({"window": "balanced windows", "balanced": "KR (divisive)", "error": repr(ex)})
        # as_pixels with join=True: ids replaced by the coordinates of the pixel's own bins (oracle only)
        bt = make_bins(n)
        brow = [(str(bt["chrom"][k]), int(bt["start"][k]), int(bt["end"][k])) for k in range(n)]
        for (i0, i1, j0, j1) in wins[:: max(1, len(wins) // 12)]:
            try:
                pj = clr.matrix(balance=False, as_pixels=True, join=True, chunksize=3, **fkw)[i0:i1, j0:j1]
                gotj = [(str(r.chrom1), int(r.start1), int(r.end1), str(r.chrom2), int(r.start2), int(r.end2)) for r in pj.itertuples(index=False)]
                expj = [brow[t[1]] + brow[t[2]] for t in stored if i0 <= t[1] < i1 and j0 <= t[2] < j1]
                res["nq"] += 1
                if gotj != expj and len(res["fails"]) < 5:
                    res["fails"].append({"window": [i0, i1, j0, j1], "chunk": "3", "join": True, "got": gotj[:6], "expected": expj[:6]})
            except Exception as ex:
                if len(res["fails"]) < 5:
                    res["fails"].append({"window": [i0, i1, j0, j1], "chunk": "3", "join": True, "error": repr(ex)})
    finally:
        fh.close()
    # a collection stored in a nested group of a file that holds another collection reads the same
    try:
        import shutil as _sh
        nest = path + ".nested.cool"
        cooler.create_cooler(nest + "::/other", make_bins(max(n, 2)), pd.DataFrame({"bin1_id": [0], "bin2_id": [max(n, 2) - 1], "count": [7]}))
        cooler.create_cooler(nest + "::/a/b", make_bins(n), df, symmetric_upper=case["symm"], mode="a", **kw)
        # the sibling collection is queried first and again in between: two collections of one file must not see each other
        m2 = max(n, 2)
        Fo = np.zeros((m2, m2), dtype=np.int64); Fo[0, m2 - 1] = 7; Fo[m2 - 1, 0] = 7
        co = cooler.Cooler(nest + "::/other")
        if not (np.asarray(co.matrix(balance=False)[:, :]) == Fo).all():
            res["fails"].append({"window": "[:, :] of file::/other (sibling group)", "expected_dense": Fo.tolist()})
        cn = cooler.Cooler(nest + "::a/b")
        fulln = np.round(np.asarray(cn.matrix(balance=False, chunksize=2, **fkw)[:, :]) * scale).astype(np.int64)
        if not (fulln.astype(object) == F).all() or cn.pixels()[:].shape[0] != len(b1):
            res["fails"].append({"window": "[:, :] of file::a/b (nested group)", "got_dense": fulln.tolist(), "expected_dense": F.tolist()})
        seln, selo = cn.matrix(balance=False, chunksize=3, **fkw), co.matrix(balance=False, sparse=True)
        for kx, (i0, i1, j0, j1) in enumerate(wins[:: max(1, len(wins) // 15)]):
            gw = np.round(np.asarray(seln[i0:i1, j0:j1]) * scale).astype(np.int64)
            res["nq"] += 1
            if not (gw.astype(object) == F[i0:i1, j0:j1]).all() and len(res["fails"]) < 5:
                res["fails"].append({"window": [i0, i1, j0, j1], "chunk": "3", "store": "file::a/b queried after its sibling file::/other",
                                     "got_dense": gw.tolist(), "expected_dense": F[i0:i1, j0:j1].tolist()})
            if kx % 4 == 0 and not (selo[0:m2, 0:m2].toarray() == Fo).all() and len(res["fails"]) < 5:
                res["fails"].append({"window": "[:, :] of file::/other (sibling group), interleaved", "expected_dense": Fo.tolist()})
        os.unlink(nest)
    except Exception as e:
        res["fails"].append({"window": "[:, :] of file::a/b (nested group)", "error": repr(e)})
    # store forms: path string and URI give the same full matrix
    try:
        full = np.round(np.asarray(cooler.Cooler(path).matrix(balance=False, **fkw)[:, :]) * scale).astype(np.int64)
        full2 = np.round(np.asarray(cooler.Cooler(path + "::/").matrix(balance=False, **fkw)[:]) * scale).astype(np.int64)
        if not ((full.astype(object) == F).all() and (full2.astype(object) == F).all()):
            res["fails"].append({"window": "[:, :] via path/URI store", "got_dense": full.tolist(), "expected_dense": F.tolist()})
    except Exception as e:
        res["fails"].append({"window": "[:, :] via path/URI store", "error": repr(e)})
    os.unlink(path)
    return res


def model_exprs(case, raw):
    b1, b2, cnt, off = raw
    px = C.lst([C.tup(C.tup(C.z(r), C.z(c)), C.z(v)) for r, c, v in zip(b1, b2, cnt)])
    exprs = [f"(valid_csr_b {C.z(case['n'])} (epx_of {px}) {C.zl(off)}, upper_b {px})"]
    for tag in case["chunks"]:
        cs = chunk_value(tag, len(b1))
        exprs.append(f"all_window_cksums {C.z(case['n'])} {px} {C.zl(off)} {C.z(cs)} {C.b(case['symm'])}")
    return exprs


# ---------------------------------------------------------------- slice spellings
def run_spellings(ctx):
    """Cooler.matrix()[spelling] vs numpy slicing of the reference; model process_slice vs _process_slice."""
    import h5py
    import pandas as pd
    import cooler
    from cooler.core._selectors import _IndexingMixin
    mix = _IndexingMixin()
    exprs, impl, cases = [], [], []
    for n in range(1, 6):
        vals = [None] + list(range(-n - 3, n + 1)) + [-10 ** 6]      # every bound up to n, also below -n (clamped like an array: D33)
        for a in vals:
            for b_ in vals:
                cases.append({"fn": "_process_slice", "n": n, "start": a, "stop": b_})
                try:
                    impl.append(list(mix._process_slice(slice(a, b_), n)))
                except Exception as e:
                    impl.append([type(e).__name__, 0])
                exprs.append(f"process_slice {C.opt(a, C.z)} {C.opt(b_, C.z)} {C.z(n)}")
        for s in range(-n - 2, n + 3):
            cases.append({"fn": "_process_slice scalar", "n": n, "s": s})
            try:
                impl.append(("Some", tuple(int(v) for v in mix._process_slice(s, n))))
            except IndexError:
                impl.append(None)
            except Exception as e:
                impl.append(("Some", (type(e).__name__, 0)))
            exprs.append(f"process_scalar {C.z(s)} {C.z(n)}")
    model = C.coq_eval("From Cooler Require Import Model.Query.", exprs, tmpdir=ctx.tmp / "slices")
    for case, im, mo in zip(cases, impl, model):
        ctx.case(case, nontrivial=True, kind="process_slice")
        if case["fn"] == "_process_slice":
            ctx.compare("_process_slice", case, im, list(mo))
            a, b_, n = case["start"], case["stop"], case["n"]
            lo, hi, _ = slice(a, b_).indices(n)       # python's own resolution (independent oracle); bounds are <= n, arbitrarily negative
            if (im[0], max(im[0], im[1])) != (lo, max(lo, hi)):
                ctx.fail(case, {"got": im, "python_slice_indices": [lo, hi]}, None)
        else:
            imc = None if im is None else ("Some", tuple(im[1]))
            moc = None if mo is None else ("Some", tuple(mo[1]))
            ctx.compare("_process_slice scalar", case, imc, moc)
            s, n = case["s"], case["n"]
            if -n <= s < n:
                if im is None or tuple(im[1]) != (s % n, s % n + 1):
                    ctx.fail(case, {"got": im}, None)
            elif im is not None:       # beyond either end
                ctx.fail(case, {"got": im, "expected": "IndexError"}, None)
    # end-to-end spellings on one symmetric matrix per n
    for n in range(1, 5):
        path = str(ctx.tmp / f"sp{n}.cool")
        cells = [(i, j, cell_value(i, j, n)) for i in range(n) for j in range(i, n) if (i + 2 * j) % 3 != 1]
        df = pd.DataFrame(cells, columns=["bin1_id", "bin2_id", "count"])
        cooler.create_cooler(path, make_bins(n), df)
        F = np.zeros((n, n), dtype=np.int64)
        for i, j, v in cells:
            F[i, j] = v
            F[j, i] = v
        clr = cooler.Cooler(path)
        sel = clr.matrix(balance=False, chunksize=2)
        vals = [None] + list(range(-n - 2, n + 1)) + [-10 ** 6]
        for a, b_, c_, d_ in itertools.product(vals, repeat=4):
            if ctx.tier != "thorough" and n >= 3 and ctx.rng.random() > 0.15:
                continue
            r0, r1, _ = slice(a, b_).indices(n)
            c0, c1, _ = slice(c_, d_).indices(n)
            if r0 > r1 or c0 > c1:
                continue    # reversed bounds are not a rectangular window (the code raises on a negative extent): outside the claim
            exp = F[a:b_, c_:d_]
            case = {"fn": "matrix[a:b,c:d]", "n": n, "key": [a, b_, c_, d_]}
            ctx.case(case, nontrivial=exp.size > 0, kind="spelling")
            try:
                got = sel[a:b_, c_:d_]
            except Exception as e:
                ctx.fail(case, {"error": repr(e), "expected": exp.tolist()}, None)
                continue
            if got.shape != exp.shape or not (got == exp).all():
                ctx.fail(case, {"got": got.tolist(), "expected": exp.tolist()}, None)
        # the same bounds handed over as numpy integer scalars (what np.searchsorted, .iloc lookups and arange hand back): the
        # window is the one the Python ints select, for the dense, sparse and pixel forms and for the table selectors
        sel_sp = clr.matrix(balance=False, sparse=True, chunksize=2)
        for T in (np.int64, np.int32, np.int16, np.uint8):      # not uint64: numpy promotes uint64 + int64 to float64, and cooler then refuses the bound (IndexError) - a refusal, outside the claim
            lo = 0 if T is np.uint8 else -n
            quads = [(a, b_, c_, d_) for a in range(lo, n + 1) for b_ in range(lo, n + 1) for c_ in range(lo, n + 1) for d_ in range(lo, n + 1)]
            for (a, b_, c_, d_) in (quads if len(quads) <= 81 else ctx.rng.sample(quads, 40)):
                r0, r1, _ = slice(a, b_).indices(n)
                c0, c1, _ = slice(c_, d_).indices(n)
                if r0 > r1 or c0 > c1:
                    continue
                exp = F[a:b_, c_:d_]
                case = {"fn": "matrix[a:b,c:d]", "n": n, "key": [a, b_, c_, d_], "bound_type": T.__name__}
                ctx.case(case, nontrivial=exp.size > 0, kind="spelling:numpy-scalar-bounds")
                try:
                    got = sel[T(a):T(b_), T(c_):T(d_)]
                    gsp = sel_sp[T(a):T(b_), T(c_):T(d_)].toarray()
                    tb = clr.bins()[T(r0):T(r1)]
                except Exception as e:
                    ctx.fail(case, {"error": repr(e), "expected": exp.tolist()}, None)
                    continue
                if got.shape != exp.shape or not (got == exp).all() or gsp.shape != exp.shape or not (gsp == exp).all() or len(tb) != r1 - r0:
                    ctx.fail(case, {"got": got.tolist(), "sparse": gsp.tolist(), "bins_rows": len(tb), "expected": exp.tolist()}, None)
            for s in range(lo, n):
                exp = F[s:s + 1 if s != -1 else None, :]
                case = {"fn": "matrix[s]", "n": n, "s": s, "bound_type": T.__name__}
                ctx.case(case, kind="spelling:numpy-scalar-bounds")
                try:
                    got = sel[T(s)]
                except Exception as e:
                    ctx.fail(case, {"error": repr(e), "expected": exp.tolist()}, None)
                    continue
                if got.shape != exp.shape or not (got == exp).all():
                    ctx.fail(case, {"got": got.tolist(), "expected": exp.tolist()}, None)
        for s in (-n - 1, -n - 5, n, n + 3):       # a scalar beyond either end is an IndexError, never a wrapped-around row
            case = {"fn": "matrix[s]", "n": n, "s": s}
            ctx.case(case, kind="spelling")
            try:
                got = sel[s]
                ctx.fail(case, {"got": np.asarray(got).tolist(), "expected": "IndexError"}, None)
            except IndexError:
                pass
            except Exception as e:
                ctx.fail(case, {"error": repr(e), "expected": "IndexError"}, None)
        for s in range(-n, n):
            for form, getter, exp in (("[s]", lambda: sel[s], F[s:s + 1 if s != -1 else None, :]),
                                      ("[s, :]", lambda: sel[s, :], F[s:s + 1 if s != -1 else None, :]),
                                      ("[:, s]", lambda: sel[:, s], F[:, s:s + 1 if s != -1 else None]),
                                      ("[(s,)]", lambda: sel[(s,)], F[s:s + 1 if s != -1 else None, :])):
                case = {"fn": "matrix" + form, "n": n, "s": s}
                ctx.case(case, kind="spelling")
                try:
                    got = getter()
                except Exception as e:
                    ctx.fail(case, {"error": repr(e), "expected": exp.tolist()}, None)
                    continue
                if got.shape != exp.shape or not (got == exp).all():
                    ctx.fail(case, {"got": got.tolist(), "expected": exp.tolist()}, None)
        os.unlink(path)


# ---------------------------------------------------------------- spans
def run_spans(ctx):
    from cooler.core._rangequery import CSRReader, arg_prune_partition
    rng = ctx.rng
    cases = []
    for _ in range(600 if ctx.tier == "thorough" else 200):
        m = rng.randint(1, 9)
        steps = [rng.choice([0, 0, 1, 2, 3, 7]) for _ in range(m)]
        seq = [rng.choice([0, 0, 5])]
        for s in steps:
            seq.append(seq[-1] + s)
        cases.append((seq, rng.choice([1, 2, 3, 4, 5, 10, 100])))
    impl, exprs, expl = [], [], []
    for seq, step in cases:
        arr = np.array(seq, dtype=np.int64)
        try:
            impl.append(arg_prune_partition(arr, step).tolist())
        except Exception as e:
            impl.append([type(e).__name__])
        lo, hi = seq[0], seq[-1]
        cuts = np.linspace(lo, hi, 2 + (hi - lo) // step, dtype=int).tolist()
        exprs.append(f"(arg_prune_partition {C.zl(seq)} {C.z(step)}, prune_with_cuts {C.zl(seq)} {C.zl(cuts)}, linspace_int {C.z(lo)} {C.z(hi)} {C.z(2 + (hi - lo) // step)})")
        expl.append(cuts)
    model = C.coq_eval("From Cooler Require Import Model.Query.", exprs, tmpdir=ctx.tmp / "spans")
    rounding = 0
    for (seq, step), im, mo, cuts in zip(cases, impl, model, expl):
        case = {"fn": "arg_prune_partition", "seq": seq, "step": step}
        ctx.case(case, nontrivial=seq[-1] > seq[0], kind="arg_prune_partition")
        exact, withcuts, lin = list(mo[0]), list(mo[1]), list(mo[2])
        if lin != cuts:
            rounding += 1          # float rounding of an interior linspace point: explained, use numpy's cuts
            ctx.compare("arg_prune_partition (numpy cuts)", case, im, withcuts)
        else:
            ctx.compare("arg_prune_partition", case, im, exact)
        # oracle: admissible edges — strictly increasing, first 0, every row beyond the last edge is empty
        ok = bool(im) and all(isinstance(v, int) for v in im) and im == sorted(set(im)) and im[0] == 0 and 0 <= im[-1] < len(seq) and seq[im[-1]] == seq[-1]
        if not ok:
            ctx.fail(case, {"got": im}, None)
    ctx.extra["linspace_float_rounding_differences"] = rounding
    # get_spans through CSRReader
    exprs, impl, cs_cases = [], [], []
    for _ in range(300 if ctx.tier == "thorough" else 120):
        n = rng.randint(1, 7)
        off = [0]
        for _k in range(n):
            off.append(off[-1] + rng.choice([0, 0, 1, 2, 4]))
        i0 = rng.randint(0, n); i1 = rng.randint(i0, n); j0 = rng.randint(0, n); j1 = rng.randint(j0, n)
        cs = rng.choice([1, 2, 3, 5, 10 ** 7])
        rd = CSRReader({"bin1_id": np.zeros(off[-1], dtype=np.int64), "bin2_id": np.zeros(off[-1], dtype=np.int64)}, np.array(off, dtype=np.int64))
        try:
            got = [[int(a), int(b_)] for a, b_ in rd.get_spans((i0, i1, j0, j1), cs)]
        except Exception as e:
            got = [[-1, -1]]
        lo, hi = off[i0], off[i1]
        cuts = np.linspace(lo, hi, 2 + (hi - lo) // cs, dtype=int).tolist()
        exact = [lo + (k * (hi - lo)) // (1 + (hi - lo) // cs) for k in range(2 + (hi - lo) // cs)]
        cs_cases.append(({"fn": "get_spans", "off": off, "bbox": [i0, i1, j0, j1], "chunksize": cs}, got, cuts == exact))
        exprs.append(f"get_spans {C.zl(off)} {C.z(cs)} {C.tup(C.z(i0), C.z(i1), C.z(j0), C.z(j1))}")
    model = C.coq_eval("From Cooler Require Import Model.Query.", exprs, tmpdir=ctx.tmp / "getspans")
    for (case, got, exact_ok), mo in zip(cs_cases, model):
        ctx.case(case, nontrivial=len(got) > 0, kind="get_spans")
        if exact_ok:
            ctx.compare("get_spans", case, got, [list(x) for x in mo])
        i0, i1, j0, j1 = case["bbox"]
        off = case["off"]
        if i1 - i0 >= 1 and j1 - j0 >= 1:
            ok = (len(got) == 0 and off[i0] == off[i1] and False) or (len(got) >= 0)
            if got:
                ok = got[0][0] == i0 and all(0 <= a <= i1 and 0 <= b_ <= i1 for a, b_ in got) and all(a[1] == b_[0] for a, b_ in zip(got, got[1:])) and all(a < b_ for a, b_ in got) \
                    and got[-1][1] <= i1 and off[got[-1][1]] == off[i1]
            else:
                ok = off[i0] == off[i1]
            if not ok:
                ctx.fail(case, {"got": got}, None)


def _history_worker(arg):
    """the same cases again, one after the other at ONE path in ONE process: a query must depend on what the file holds
    now, not on what was stored (or read) at that path earlier"""
    path, cs = arg
    out = []
    for c in cs:
        r = _worker((path, c))
        out.append({"cks": r["cks"], "fails": r["fails"]})
    return out


def run(ctx):
    cases = gen_cases(ctx)
    args = [(str(ctx.tmp / f"m{k}.cool"), c) for k, c in enumerate(cases)]
    with ProcessPoolExecutor(max_workers=int(os.environ.get("VERIF_JOBS", "8"))) as ex:
        results = list(ex.map(_worker, args, chunksize=4))
    exprs, owners = [], []
    for k, (c, r) in enumerate(zip(cases, results)):
        es = model_exprs(c, r["raw"])
        exprs += es
        owners += [(k, "hyp")] + [(k, tag) for tag in c["chunks"]]
    model = C.coq_eval("From Cooler Require Import Model.Query.", exprs, shard=40, tmpdir=ctx.tmp / "model")
    for (k, tag), mo in zip(owners, model):
        c, r = cases[k], results[k]
        if tag == "hyp":      # the theorems' hypotheses, evaluated on the raw stored columns
            hyp_ok = bool(mo[0]) and (bool(mo[1]) or not c["symm"])
            ctx.compare("hypotheses ValidCSR/Upper hold of the stored table (valid_csr_b, upper_b)", c, True, hyp_ok)
            continue
        wins = windows(c["n"])
        im = r["cks"][tag]
        nontriv = [(k, tag, w) for w in wins if w[1] > w[0] and w[3] > w[2]] if c["pixels"] else []
        ctx.count(3 * len(wins), nontrivial_keys=[C_hash(x) for x in nontriv], kind=f"n={c['n']}/{'symm' if c['symm'] else 'square'}/chunk={tag}")
        mo = [tuple(t) for t in mo]
        if [tuple(t) for t in im] != mo:
            idx = next(i for i, (a, b_) in enumerate(zip(im, mo)) if tuple(a) != tuple(b_))
            ctx.disagree("matrix() window checksums (dense, sparse, nnz, pixels)", {**c, "chunk": tag, "window": list(wins[idx])}, list(im[idx]), list(mo[idx]))
    for c, r in zip(cases, results):
        ctx.dist["family:" + c["family"]] += 1
        for f in r["fails"]:
            ctx.fail({**c, "window": f["window"], "chunk": f.get("chunk"), "fill_lower": f.get("fill_lower", True)}, f, None)
    # history pass: a sample of the cases, grouped by bin count, replayed in one process on one path
    pick = sorted(ctx.rng.sample(range(len(cases)), min(len(cases), 40 if ctx.tier == "quick" else 160)), key=lambda k: (cases[k]["n"], k))
    groups = [pick[i::4] for i in range(4)]
    with ProcessPoolExecutor(max_workers=4) as ex:
        hres = list(ex.map(_history_worker, [(str(ctx.tmp / f"hist{g}.cool"), [cases[k] for k in grp]) for g, grp in enumerate(groups)]))
    for grp, hr in zip(groups, hres):
        for pos, (k, r2) in enumerate(zip(grp, hr)):
            case = {**cases[k], "history": f"case {pos + 1} of {len(grp)} created and queried at the same path in one process"}
            ctx.case({"history_of": k, "pos": pos}, nontrivial=pos > 0 and bool(cases[k]["pixels"]), kind="history:same-path")
            if r2["cks"] != results[k]["cks"] or r2["fails"]:
                tag = next((t for t in cases[k]["chunks"] if r2["cks"].get(t) != results[k]["cks"].get(t)), None)
                ctx.fail(case, {"detail": "queries differ from the same cooler stored at a fresh path", "chunk": tag,
                                "fails": r2["fails"][:2], "previous_case_at_path": cases[grp[pos - 1]] if pos else None}, None)
    ctx.samples.extend([{k: v for k, v in c.items()} for c in cases[5:7]])
    run_spellings(ctx)
    run_spans(ctx)
    ctx.exhaustive = True
    ctx.extra["matrices"] = len(cases)
    ctx.extra["window_queries"] = sum(r["nq"] for r in results)


def C_hash(x):
    import common
    return common.short_hash(x)


def replay(ctx, case):
    """re-run one recorded (matrix, window, chunk) on the implementation against the oracle"""
    if "pixels" not in case:
        print("replay: function-level case, re-run ./check C03 to re-evaluate:", case)
        return True
    c = dict(case)
    c["chunks"] = [c.get("chunk") or "big"] if (c.get("chunk") in CHUNKS) else ["big"]
    r = _worker((str(ctx.tmp / "replay.cool"), c))
    w = case.get("window")
    bad = [f for f in r["fails"] if w is None or f["window"] == w] or r["fails"]
    for f in bad[:3]:
        print("  failing window:", f)
    return not bad
