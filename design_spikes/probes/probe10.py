import warnings; warnings.filterwarnings("ignore")
import numpy as np, pandas as pd, cooler, h5py, os, sys, subprocess, pysam
env={**os.environ,"PYTHONPATH":"/repo/src"}
open("cs.txt","w").write("a\t30\nb\t20\n")
rows=[("a",3,"a",25),("a",12,"b",7),("a",30,"b",20),("b",1,"b",19)]
open("s.pairs","w").write("".join(f"{c1}\t{p1}\t{c2}\t{p2}\n" for c1,p1,c2,p2 in rows))
pysam.tabix_index("s.pairs",seq_col=0,start_col=1,end_col=1,force=True)
r=subprocess.run([sys.executable,"-m","cooler","cload","tabix","-p","1","-c2","3","-p2","4","cs.txt:10","s.pairs.gz","tb.cool"],capture_output=True,text=True,env=env)
print(r.returncode,r.stderr[-200:]); print(cooler.Cooler("tb.cool").pixels()[:])
# scool
chromsizes=pd.Series({"a":30,"b":20}); bins=cooler.binnify(chromsizes,10)
p1=pd.DataFrame({"bin1_id":[0,1],"bin2_id":[1,4],"count":[1,2]}); p2=pd.DataFrame({"bin1_id":[],"bin2_id":[],"count":[]},dtype=int); p3=pd.DataFrame({"bin1_id":[2],"bin2_id":[2],"count":[9]})
cooler.create_scool("x.scool",bins,{"cellB":p1,"cellA":p2,"c 3":p3})
print(cooler.fileops.list_scool_cells("x.scool"), cooler.fileops.is_scool_file("x.scool"))
for n in cooler.fileops.list_scool_cells("x.scool"): print(n, cooler.Cooler("x.scool::"+n).pixels()[:].values.tolist())
with h5py.File("x.scool") as f: print(f["cells/cellA/bins/start"].id == f["bins/start"].id, f["cells/cellA/bins/start"] == f["bins/start"])
b1=bins.copy(); b1["w"]=np.arange(5.); b2=bins.copy(); b2["w"]=np.arange(5.)*2
cooler.create_scool("y.scool",{"u":b1,"v":b2},{"u":p1,"v":p3})
print(cooler.Cooler("y.scool::/cells/u").bins()[:]["w"].tolist(), cooler.Cooler("y.scool::/cells/v").bins()[:]["w"].tolist())
