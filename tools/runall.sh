#!/bin/bash
# usage: tools/runall.sh [tier] [props...]   -- runs the registered checks one after another and prints one line each
cd "$(dirname "$0")/.."
tier=${1:-quick}; shift
props=${@:-C01 C02 C03 C04 C05 C06 C07 C08 C09 C10 C11 C12 C13 C14 C15 C16 C17 C18 C19 C20}
bad=0
for p in $props; do
  s=$(date +%s)
  out=$(./check $p --tier $tier 2>&1); rc=$?
  e=$(( $(date +%s) - s ))
  v=$(echo "$out" | grep -c "^VIOLATION"); k=$(echo "$out" | grep -c "^KNOWN-FINDING")
  echo "$p exit=$rc violations=$v known=$k ${e}s"
  if [ $rc -ne 0 ]; then bad=1; echo "$out" | tail -5; fi
done
exit $bad
