(** C02 — proofs about the run-length encoder, the CSR index builders and the
    structural validity of a stored collection (model: Model/Index.v). *)
From Cooler Require Import Model.Index Proofs.PixelsProofs.
From Coq Require Import Sorted ZifyBool.

Local Open Scope Z_scope.

(* ------------------------------------------------------------------ helpers *)

Lemma zlen_cons {A} (x : A) l : zlen (x :: l) = 1 + zlen l.
Proof. unfold zlen. cbn [length]. lia. Qed.
Lemma zlen_nil {A} : zlen (@nil A) = 0. Proof. reflexivity. Qed.
Lemma zlen_nonneg {A} (l : list A) : 0 <= zlen l. Proof. unfold zlen. lia. Qed.
Lemma zlen_app {A} (l1 l2 : list A) : zlen (l1 ++ l2) = zlen l1 + zlen l2.
Proof. unfold zlen. rewrite app_length. lia. Qed.

(* ------------------------------------------------------------------ rlencode *)

Lemma inner_locs_rle_from r : forall p k, inner_locs p k r = rle_from (Some p) k r.
Proof.
  induction r as [|v t IH]; intros p k; cbn [inner_locs rle_from]; [reflexivity|].
  rewrite IH. unfold differs. destruct (v =? p); reflexivity.
Qed.

Lemma rle_block_rle_from prev i x : rle_block prev i x = rle_from prev i x.
Proof.
  destruct x as [|v t]; cbn [rle_block rle_from]; [reflexivity|].
  now rewrite inner_locs_rle_from.
Qed.

(** the encoder of a concatenation: the second part only needs the last value of the first *)
Lemma rle_from_app x : forall prev off y, x <> [] ->
  rle_from prev off (x ++ y) = rle_from prev off x ++ rle_from (Some (last x 0)) (off + zlen x) y.
Proof.
  induction x as [|v t IH]; intros prev off y Hne; [congruence|].
  destruct t as [|w t'].
  - cbn [app rle_from last]. rewrite app_nil_r. rewrite zlen_cons, zlen_nil.
    replace (off + (1 + 0)) with (off + 1) by lia. reflexivity.
  - change ((v :: w :: t') ++ y) with (v :: ((w :: t') ++ y)).
    cbn [rle_from]. rewrite (IH (Some v) (off + 1) y) by discriminate.
    rewrite <- app_assoc. f_equal. f_equal.
    change (last (v :: w :: t') 0) with (last (w :: t') 0).
    rewrite (zlen_cons v). f_equal. lia.
Qed.

Lemma split_at_spec l : forall c x r, split_at c l = (x, r) ->
  l = x ++ r /\ zlen x <= Z.max c 0 /\ (1 <= c -> r = [] \/ zlen x = c) /\ (1 <= c -> l <> [] -> x <> []).
Proof.
  induction l as [|a t IH]; intros c x r H; cbn [split_at] in H.
  - inversion H; subst. rewrite zlen_nil. repeat split; auto; try lia; try congruence.
  - destruct (c <=? 0) eqn:Ec.
    + inversion H; subst. rewrite zlen_nil. cbn [app]. repeat split; auto; try lia.
    + destruct (split_at (c - 1) t) as [a' b'] eqn:Es. inversion H; subst.
      destruct (IH _ _ _ Es) as (E1 & E2 & E3 & E4).
      rewrite zlen_cons. repeat split.
      * cbn [app]. now f_equal.
      * lia.
      * intros Hc. pose proof (zlen_nonneg a'). destruct (Z.eq_dec c 1) as [->|Hn]; [right; lia|].
        destruct E3 as [E3|E3]; [lia|now left|right; lia].
      * intros _ _. discriminate.
Qed.

Lemma rle_loop_nil f c p i : rle_loop f c p i [] = [].
Proof. destruct f; reflexivity. Qed.

Lemma rle_loop_eq fuel : forall c prev i rest, 1 <= c -> (length rest <= fuel)%nat ->
  rle_loop fuel c prev i rest = rle_from prev i rest.
Proof.
  induction fuel as [|f IH]; intros c prev i rest Hc Hf.
  - destruct rest; [reflexivity|cbn [length] in Hf; lia].
  - destruct rest as [|a t]; [reflexivity|].
    cbn [rle_loop]. destruct (split_at c (a :: t)) as [x r] eqn:Es.
    destruct (split_at_spec _ _ _ _ Es) as (E1 & E2 & E3 & E4).
    assert (Hx : x <> []) by (apply E4; [lia|discriminate]).
    rewrite rle_block_rle_from. rewrite E1, rle_from_app by exact Hx.
    f_equal. destruct (E3 Hc) as [E3'|E3'].
    + subst r. now rewrite rle_loop_nil.
    + rewrite E3'. apply IH; [lia|].
      assert (length (a :: t) = length x + length r)%nat by (rewrite E1; apply app_length).
      destruct x; [congruence|]. cbn [length] in *. lia.
Qed.

(** T1: for every array and every block size c >= 1 the chunked encoder equals the one-shot
    specification: starts, lengths and values *)
Theorem rlencode_c_spec a c : 1 <= c -> rlencode_c a c = rle_spec a.
Proof.
  intros Hc. unfold rlencode_c, rle_spec. f_equal. apply rle_loop_eq; [exact Hc|lia].
Qed.

Theorem rlencode_chunked_eq a c : 1 <= c -> rlencode a (Some c) = rlencode a None.
Proof.
  intros Hc. unfold rlencode. destruct a as [|v t]; [reflexivity|].
  replace (c <=? 0) with false by lia.
  rewrite rlencode_c_spec by exact Hc.
  rewrite rlencode_c_spec; [reflexivity|]. rewrite zlen_cons. pose proof (zlen_nonneg t). lia.
Qed.

Theorem rlencode_spec a c : 1 <= c -> rlencode a (Some c) = Some (rle_spec a) /\ rlencode a None = Some (rle_spec a).
Proof.
  intros Hc. rewrite rlencode_chunked_eq by exact Hc. split; [|]; unfold rlencode;
  (destruct a as [|v t]; [reflexivity|]; rewrite rlencode_c_spec; [reflexivity|];
   rewrite zlen_cons; pose proof (zlen_nonneg t); lia).
Qed.

Lemma runs_of_pairs n sv : runs_of (rle_of_pairs n sv) = sv.
Proof.
  unfold runs_of, rle_of_pairs. induction sv as [|[s v] t IH]; [reflexivity|].
  cbn [map combine fst snd]. now rewrite IH.
Qed.

(* ------------------------------------------------------------------ indexes *)

Lemma fill_from_length arr : forall k lo hi v, length (fill_from k lo hi v arr) = length arr.
Proof. induction arr as [|x r IH]; intros; cbn [fill_from length]; [reflexivity|now rewrite IH]. Qed.

Lemma fill_from_nth arr : forall k lo hi v i, (i < length arr)%nat ->
  nth i (fill_from k lo hi v arr) 0 =
  if (lo <=? k + Z.of_nat i) && (k + Z.of_nat i <? hi) then v else nth i arr 0.
Proof.
  induction arr as [|x r IH]; intros k lo hi v i Hi; cbn [length] in Hi; [lia|].
  cbn [fill_from]. destruct i as [|i'].
  - cbn [nth]. replace (k + Z.of_nat 0) with k by lia. reflexivity.
  - cbn [nth]. rewrite IH by lia. replace (k + 1 + Z.of_nat i') with (k + Z.of_nat (S i')) by lia. reflexivity.
Qed.

Lemma fill_slice_length arr lo hi v : length (fill_slice arr lo hi v) = length arr.
Proof. apply fill_from_length. Qed.
Lemma fill_tail_length arr lo v : length (fill_tail arr lo v) = length arr.
Proof. apply fill_from_length. Qed.

(** slice assignment with non-negative bounds: positions lo <= i < hi receive v *)
Lemma fill_slice_nth arr lo hi v i : 0 <= lo -> 0 <= hi -> (i < length arr)%nat ->
  nth i (fill_slice arr lo hi v) 0 =
  if (lo <=? Z.of_nat i) && (Z.of_nat i <? hi) then v else nth i arr 0.
Proof.
  intros Hlo Hhi Hi. unfold fill_slice. rewrite fill_from_nth by exact Hi.
  unfold norm_idx, zlen. replace (lo <? 0) with false by lia. replace (hi <? 0) with false by lia.
  replace (0 + Z.of_nat i) with (Z.of_nat i) by lia.
  destruct (lo <=? Z.of_nat i) eqn:E1, (Z.of_nat i <? hi) eqn:E2;
  destruct (Z.min lo (Z.of_nat (length arr)) <=? Z.of_nat i) eqn:E3,
           (Z.of_nat i <? Z.min hi (Z.of_nat (length arr))) eqn:E4; cbn [andb]; try reflexivity; lia.
Qed.
Lemma fill_tail_nth arr lo v i : 0 <= lo -> (i < length arr)%nat ->
  nth i (fill_tail arr lo v) 0 = if lo <=? Z.of_nat i then v else nth i arr 0.
Proof.
  intros Hlo Hi. unfold fill_tail. rewrite fill_from_nth by exact Hi.
  unfold norm_idx, zlen. replace (lo <? 0) with false by lia.
  replace (0 + Z.of_nat i) with (Z.of_nat i) by lia.
  destruct (lo <=? Z.of_nat i) eqn:E1;
  destruct (Z.min lo (Z.of_nat (length arr)) <=? Z.of_nat i) eqn:E3,
           (Z.of_nat i <? Z.of_nat (length arr)) eqn:E4; cbn [andb]; try reflexivity; lia.
Qed.

Lemma count_lt_nil b : count_lt [] b = 0. Proof. reflexivity. Qed.
Lemma count_lt_cons x r b : count_lt (x :: r) b = (if x <? b then 1 else 0) + count_lt r b.
Proof. unfold count_lt. cbn [filter]. destruct (x <? b); [rewrite zlen_cons|]; lia. Qed.
Lemma count_lt_bounds a b : 0 <= count_lt a b <= zlen a.
Proof.
  induction a as [|x r IH]; [unfold count_lt, zlen; cbn; lia|].
  rewrite count_lt_cons, zlen_cons. destruct (x <? b); lia.
Qed.
Lemma count_lt_zero a b : Forall (fun x => b <= x) a -> count_lt a b = 0.
Proof.
  induction 1 as [|x r Hx _ IH]; [reflexivity|]. rewrite count_lt_cons, IH.
  replace (x <? b) with false by lia. reflexivity.
Qed.
Lemma count_lt_all a b : Forall (fun x => x < b) a -> count_lt a b = zlen a.
Proof.
  induction 1 as [|x r Hx _ IH]; [reflexivity|]. rewrite count_lt_cons, zlen_cons, IH.
  replace (x <? b) with true by lia. reflexivity.
Qed.
Lemma count_lt_mono a b b' : b <= b' -> count_lt a b <= count_lt a b'.
Proof.
  intros Hb. induction a as [|x r IH]; [rewrite !count_lt_nil; lia|].
  rewrite !count_lt_cons. destruct (x <? b) eqn:E1, (x <? b') eqn:E2; lia.
Qed.

Definition NonDecr (a : list Z) : Prop := StronglySorted Z.le a.

Lemma nondecr_b_spec a : nondecr_b a = true <-> NonDecr a.
Proof.
  unfold NonDecr. induction a as [|x t IH]; cbn [nondecr_b].
  - split; [constructor|reflexivity].
  - destruct t as [|y t'].
    + split; [intros _; constructor; constructor|reflexivity].
    + rewrite andb_true_iff, IH. split.
      * intros [H1 H2]. constructor; [exact H2|]. constructor; [lia|].
        inversion H2 as [|? ? _ Hall]; subst. eapply Forall_impl; [|exact Hall]. cbn. intros; lia.
      * intros H. inversion H as [|? ? H2 Hall]; subst. split; [|exact H2].
        inversion Hall; subst. lia.
Qed.

(** the loop invariant of index_pixels / index_bins.  State (arr, curr) before the runs of
    the remaining suffix s (which starts at absolute position off) are processed:
    the final array keeps arr below curr and holds off + #{x in s | x < b} from curr on. *)
Lemma index_loop_inv s : forall prev off arr curr,
  0 <= curr -> NonDecr s ->
  match prev with
  | None => curr = 0 /\ Forall (fun x => 0 <= x) s
  | Some p => p = curr - 1 /\ Forall (fun x => p <= x) s
  end ->
  let '(arr', curr') := fold_left index_step (rle_from prev off s) (arr, curr) in
  let res := fill_tail arr' curr' (off + zlen s) in
  length res = length arr /\
  forall b, (b < length arr)%nat ->
    nth b res 0 = if Z.of_nat b <? curr then nth b arr 0 else off + count_lt s (Z.of_nat b).
Proof.
  induction s as [|v r IH]; intros prev off arr curr Hcurr Hs Hprev.
  - cbn [rle_from fold_left]. cbv zeta. rewrite fill_tail_length. split; [reflexivity|].
    intros b Hb. rewrite fill_tail_nth by assumption. rewrite zlen_nil, count_lt_nil.
    destruct (curr <=? Z.of_nat b) eqn:E1, (Z.of_nat b <? curr) eqn:E2; try reflexivity; lia.
  - inversion Hs as [|? ? Hs' Hall]; subst.
    cbn [rle_from].
    assert (Hlow : forall lb, Forall (fun x => lb <= x) (v :: r) -> lb <= v /\ Forall (fun x => lb <= x) r)
      by (intros lb H; inversion H; subst; split; assumption).
    destruct (differs prev v) eqn:Ed.
    + (* a new run (off, v) starts here; v >= curr *)
      assert (Hv : curr <= v).
      { destruct prev as [p|]; cbn [differs] in Ed.
        - destruct Hprev as [-> Hp]. apply Hlow in Hp. destruct Hp as [Hp _]. lia.
        - destruct Hprev as [-> Hp]. apply Hlow in Hp. tauto. }
      cbn [app fold_left index_step].
      specialize (IH (Some v) (off + 1) (fill_slice arr curr (v + 1) off) (v + 1)).
      destruct (fold_left index_step (rle_from (Some v) (off + 1) r) (fill_slice arr curr (v + 1) off, v + 1))
        as [arr' curr'] eqn:Ef.
      cbv zeta in IH |- *.
      destruct IH as [IHl IHn]; [lia|exact Hs'|split; [lia|exact Hall]|].
      rewrite zlen_cons. replace (off + (1 + zlen r)) with (off + 1 + zlen r) by lia.
      rewrite fill_slice_length in IHl. split; [exact IHl|].
      intros b Hb. rewrite IHn by (rewrite fill_slice_length; exact Hb).
      rewrite fill_slice_nth by (try lia; exact Hb). rewrite count_lt_cons.
      destruct (Z.of_nat b <? v + 1) eqn:E1.
      * destruct (curr <=? Z.of_nat b) eqn:E2; cbn [andb].
        -- replace (Z.of_nat b <? curr) with false by lia.
           replace (v <? Z.of_nat b) with false by lia.
           rewrite count_lt_zero; [lia|]. eapply Forall_impl; [|exact Hall]. cbn. intros; lia.
        -- replace (Z.of_nat b <? curr) with true by lia. reflexivity.
      * replace (Z.of_nat b <? curr) with false by lia.
        replace (v <? Z.of_nat b) with true by lia. lia.
    + (* v continues the current run: v = curr - 1 *)
      destruct prev as [p|]; cbn [differs] in Ed; [|discriminate].
      destruct Hprev as [Hp Hall']. assert (v = p) by lia. subst v.
      cbn [app].
      specialize (IH (Some p) (off + 1) arr curr Hcurr Hs').
      destruct (fold_left index_step (rle_from (Some p) (off + 1) r) (arr, curr)) as [arr' curr'] eqn:Ef.
      cbv zeta in IH |- *.
      destruct IH as [IHl IHn]; [split; [exact Hp|]; apply Hlow in Hall'; tauto|].
      rewrite zlen_cons. replace (off + (1 + zlen r)) with (off + 1 + zlen r) by lia.
      split; [exact IHl|].
      intros b Hb. rewrite IHn by exact Hb. rewrite count_lt_cons.
      destruct (Z.of_nat b <? curr) eqn:E1; [reflexivity|].
      replace (p <? Z.of_nat b) with true by lia. lia.
Qed.

Lemma offsets_of_length n a : 0 <= n -> length (offsets_of n a) = Z.to_nat (n + 1).
Proof. intros. unfold offsets_of, zrange. now rewrite !map_length, seq_length. Qed.

Lemma offsets_of_nth n a b : (b < Z.to_nat (n + 1))%nat ->
  nth b (offsets_of n a) 0 = count_lt a (Z.of_nat b).
Proof.
  intros Hb. unfold offsets_of, zrange. rewrite map_map.
  rewrite nth_indep with (d' := count_lt a (0 + Z.of_nat 0)) by (now rewrite map_length, seq_length).
  rewrite (map_nth (fun k => count_lt a (0 + Z.of_nat k)) (seq 0 (Z.to_nat (n + 1))) 0%nat b).
  rewrite seq_nth by exact Hb. f_equal.
Qed.

(** T2 (core): the index loop applied to the runs of a non-decreasing column of non-negative
    values yields, for every b in 0..n, the number of entries smaller than b.
    No upper bound on the values is needed: entries >= n are simply never counted. *)
Theorem index_runs_spec n a : 0 <= n -> NonDecr a -> Forall (fun x => 0 <= x) a ->
  index_runs n (rle_from None 0 a) (zlen a) = offsets_of n a.
Proof.
  intros Hn Hs Hpos. unfold index_runs.
  pose proof (index_loop_inv a None 0 (repeat 0 (Z.to_nat (n + 1))) 0 (Z.le_refl 0) Hs (conj eq_refl Hpos)) as H.
  destruct (fold_left index_step (rle_from None 0 a) (repeat 0 (Z.to_nat (n + 1)), 0)) as [arr' curr'].
  cbv zeta in H. cbn [Z.add] in H. destruct H as [Hl Hnth].
  rewrite repeat_length in Hl, Hnth.
  apply nth_ext with (d := 0) (d' := 0).
  - rewrite Hl. now rewrite offsets_of_length.
  - intros b Hb. rewrite Hl in Hb. rewrite Hnth by exact Hb.
    replace (Z.of_nat b <? 0) with false by lia. now rewrite offsets_of_nth.
Qed.

Theorem index_pixels_c_spec c a n : 1 <= c -> 0 <= n -> NonDecr a -> Forall (fun x => 0 <= x) a ->
  index_pixels_c c a n (zlen a) = Some (offsets_of n a).
Proof.
  intros Hc Hn Hs Hpos. unfold index_pixels_c.
  destruct (rlencode_spec a c Hc) as [-> _]. cbn [index_with]. unfold rle_spec.
  rewrite runs_of_pairs. now rewrite index_runs_spec.
Qed.

Theorem index_pixels_spec a n : 0 <= n -> NonDecr a -> Forall (fun x => 0 <= x) a ->
  index_pixels a n (zlen a) = Some (offsets_of n a).
Proof. intros. unfold index_pixels. apply index_pixels_c_spec; [lia|assumption..]. Qed.

Theorem index_bins_spec a n : 0 <= n -> NonDecr a -> Forall (fun x => 0 <= x) a ->
  index_bins a n (zlen a) = Some (offsets_of n a).
Proof.
  intros Hn Hs Hpos. unfold index_bins.
  destruct (rlencode_spec a 1 (Z.le_refl 1)) as [_ ->]. cbn [index_with]. unfold rle_spec.
  rewrite runs_of_pairs. now rewrite index_runs_spec.
Qed.
