(** Pixel tables as lists of ((bin1, bin2), value); canonical aggregation.
    Shared by C01 C02 C03 C06 C07 C08 C09.  No proofs here. *)
From Cooler Require Export Model.Base.

Definition pixel := (key * Z)%type.          (* ((bin1_id, bin2_id), count) ; prints as (b1, b2, v) *)
Definition row (p : pixel) : Z := fst (fst p).
Definition col (p : pixel) : Z := snd (fst p).
Definition val (p : pixel) : Z := snd p.

Definition kcmp (a b : key) : comparison :=
  match fst a ?= fst b with Eq => snd a ?= snd b | c => c end.
Definition klt (a b : key) : Prop := fst a < fst b \/ (fst a = fst b /\ snd a < snd b).

Definition keys (l : list pixel) : list key := map fst l.

(** sum of the values stored at key k (0 when absent; duplicates add up, as coo_matrix.toarray does) *)
Fixpoint look (l : list pixel) (k : key) : Z :=
  match l with
  | [] => 0
  | (k', v) :: t => (match kcmp k k' with Eq => v | _ => 0 end) + look t k
  end.

(** symmetric completion of an upper-triangular table *)
Definition symm (l : list pixel) (i j : Z) : Z :=
  if i <=? j then look l (i, j) else look l (j, i).

(** sorted insert that adds values on an equal key: the result of
    groupby([bin1_id, bin2_id], sort=True).sum() built record by record *)
Fixpoint ins (k : key) (v : Z) (l : list pixel) : list pixel :=
  match l with
  | [] => [(k, v)]
  | (k', v') :: t =>
      match kcmp k k' with
      | Eq => (k', v' + v) :: t
      | Lt => (k, v) :: l
      | Gt => (k', v') :: ins k v t
      end
  end.
Definition aggregate (l : list pixel) : list pixel :=
  fold_left (fun acc p => ins (fst p) (snd p) acc) l [].

(** strictly increasing in (bin1, bin2): executable check *)
Fixpoint ssorted_b (l : list pixel) : bool :=
  match l with
  | [] => true
  | p :: t => match t with
              | [] => true
              | q :: _ => kltb (fst p) (fst q) && ssorted_b t
              end
  end.

Definition upper_b (l : list pixel) : bool := forallb (fun p => row p <=? col p) l.
Definition inrange_b (n : Z) (l : list pixel) : bool :=
  forallb (fun p => (0 <=? row p) && (row p <? n) && (0 <=? col p) && (col p <? n)) l.
