"""C11 — balancing depends on the data only, not on chunking or scheduling.

Correspondence (public API cooler.balance_cooler, cooler.parallel.split, `cooler balance` CLI):
  * the spans handed to the map functor (recorded by a wrapping map) == Model.Balance.balance_spans / partition (exact ints)
  * per-chunk results of split(...).prepare/pipe(...).gather() == Model.Balance.marg_chunks (exact rationals)
  * counting pipeline through split(...).reduce: every stored pixel visited exactly once for every chunk size
Property oracle (never calls cooler for its expected value): the documented iterative correction on the dense
matrix (gen_c10.ref_masks / ref_loop_float); every (chunk size x map functor x repeat) run must give its weights
(1e-9 relative), NaN pattern, converged flags; recorded spans must tile [0, nnz) exactly once.
"""
from __future__ import annotations

import os
from fractions import Fraction
from operator import add

import numpy as np

import coqio as C
import gen_c10 as G

PROP = "C11"
RULE = ("REUSE cases (spans as None/list/tuple/generator/zip/ndarray x evaluation plans: run twice, gather then reduce, reduce repeatedly, siblings "
        "branched from one prepared base, copies, iter twice, child then parent x builtin/thread/process-pool map; every evaluation must visit every "
        "stored pixel exactly once) + HISTORY scenarios (one process, one path: write A -> balance / split().pipe -> overwrite with B of the same number of bins but another "
        "chromosome layout / pixels / bins columns -> same calls, with builtin, thread-pool and a reused process-pool map, reused Cooler object, store=True then "
        "re-balance; each result must equal the dense reference of the data stored now and the same call on a fresh copy) + seeded random symmetric coolers (2..8 bins, 1-3 chromosomes, empty rows, isolated bins, non-zero diagonal) + regression corpus x "
        "option vectors (mode, ignore_diags 0..3, min_nnz 0..3, min_count, mad_max 0..3, blacklist, tol, max_iters, x0) x chunksize in "
        "{1,2,3,nnz-1,nnz,nnz+1,default,None} x map functor in {builtin, list-map, reversed results, seeded permutation, reverse-evaluated lazy, "
        "Pool.map/imap/imap_unordered (2 workers)} x 2 repeats; non-trivial = more than one chunk or a non-builtin map; distinct by (cooler, options, chunk, map)")
TRUSTED = ["multiprocess.Pool scheduling is sampled (2 workers; 2-4 in the thorough tier), the permutation theorem covers every completion order",
           "h5py slice clamping of pixels[lo:hi] is modelled by Base.slice and observed through the counting pipeline"]
ASSUMPTIONS = ["floating-point addition is treated as the commutative monoid (Q,+): results agree up to summation order (checked at 1e-9 relative)",
               "trans_only needs >= 2 chromosomes (a single chromosome gives an infinite cweight); max_iters >= 1"]
RESIDUE = ["float rounding / summation order (exact-arithmetic model)", "real process pools are sampled, not enumerated",
           "chunkgetter's HDF5 access (locking, fork safety) is observed only"]


# ------------------------------------------------------------------ map functors
class Recorder:
    """wraps a map functor; records the keys (spans) of every call"""

    def __init__(self, inner):
        self.inner = inner
        self.calls = []

    def __call__(self, f, keys):
        keys = list(keys)
        self.calls.append([(int(a), int(b)) for a, b in keys])
        return self.inner(f, keys)


def make_maps(rng_seed):
    import random

    def listmap(f, it):
        return list(map(f, it))

    def rev_results(f, it):
        return list(map(f, it))[::-1]

    def perm_results(f, it):
        r = list(map(f, it))
        random.Random(rng_seed + len(r)).shuffle(r)
        return r

    def lazy_rev_eval(f, it):
        keys = list(it)
        for k in reversed(keys):       # evaluated lazily, last chunk first
            yield f(k)

    return {"builtin": map, "listmap": listmap, "reversed": rev_results, "perm": perm_results, "lazyrev": lazy_rev_eval}


def spans_tile(spans, lo, hi):
    """independent reading: clipped at hi, the spans cover every index of [lo, hi) exactly once"""
    cnt = [0] * max(hi - lo, 0)
    for a, b in spans:
        for k in range(max(a, lo), min(b, hi)):
            cnt[k - lo] += 1
        if a < lo or a > b:
            return False
    return all(c == 1 for c in cnt)


def stats_close(r, ref_groups, o):
    """scale / var / converged of a run against the dense reference groups"""
    if len(r["scale"]) != len(ref_groups):
        return False
    for k, g in enumerate(ref_groups):
        conv = (g["var"] < o["tol"])
        if r["converged"][k] != conv:
            return False
        s = r["scale"][k]
        if g["allnan"]:
            if s == s:
                return False
            continue
        if not G.relclose(float(s), g["scale"], 1e-9):
            return False
        if not G.relclose(float(r["var"][k]), g["var"], 1e-5, 1e-13 * g["scale"] ** 2):
            return False
    return True


def expected_call_spans(o, per, pixels, chunk, iters_by_group):
    """span lists the model predicts, as Gallina expressions evaluated later; returns (expr, assemble)"""
    nnz = len(pixels)
    ch = "None" if chunk is None else f"(Some {C.z(chunk)})"
    e_all = f"balance_spans {C.z(nnz)} {ch}"
    if not o["cis"]:
        return f"[{e_all}]"
    off = G.offsets_of(per)
    px = G.coq_px(pixels)
    c = max(nnz, 1) if chunk is None else chunk          # balance_cooler: chunksize=None -> max(nnz, 1)
    parts = "; ".join(f"partition (bin1_offset {px} {C.z(lo)}) (bin1_offset {px} {C.z(hi)}) {C.z(c)}"
                      for lo, hi in zip(off[:-1], off[1:]))
    return f"[{e_all}; {parts}]"


def dedupe(seq):
    out = []
    for s in seq:
        if not out or out[-1] != s:
            out.append(s)
    return out


CORPUS = [
    # D30 regression (fixed): empty cooler; cis_only with chunksize=None used to raise ValueError (partition step 0).
    # Every chunk size and mode must agree: all-NaN weights, converged True
    {"per": [2, 2], "pixels": [], "o": {"cis": True, "trans": False, "diags": 1, "mad": 0, "nnz": 0, "count": 0, "black": None, "tol": 1e-5, "iters": 200, "x0": None, "rescale": True}},
    {"per": [2, 2], "pixels": [], "o": {"cis": False, "trans": False, "diags": 0, "mad": 0, "nnz": 0, "count": 0, "black": None, "tol": 1e-5, "iters": 200, "x0": None, "rescale": True}},
    {"per": [2, 2], "pixels": [], "o": {"cis": False, "trans": True, "diags": 0, "mad": 0, "nnz": 0, "count": 0, "black": None, "tol": 1e-5, "iters": 200, "x0": None, "rescale": True}},
    # float64 count column with values in (0,1): min_nnz counts non-zero entries
    {"per": [3, 2], "pixels": [[i, j, (1 + (2 * i + 3 * j) % 7) / 8] for i in range(5) for j in range(i, 5)],
     "o": {"cis": False, "trans": False, "diags": 0, "mad": 0, "nnz": 3, "count": 0, "black": None, "tol": 1e-6, "iters": 200,
           "x0": None, "rescale": True}},
    # D11 regression (fixed): ignore_diags=0 with a non-zero diagonal
    {"per": [4], "pixels": [[0, 0, 5], [0, 1, 3], [0, 2, 2], [1, 1, 7], [1, 2, 1], [1, 3, 4], [2, 2, 2], [2, 3, 6], [3, 3, 1]],
     "o": {"cis": False, "trans": False, "diags": 0, "mad": 0, "nnz": 0, "count": 0, "black": None, "tol": 1e-8, "iters": 200,
           "x0": None, "rescale": True}},
    {"per": [2, 3], "pixels": [[0, 0, 2], [0, 1, 3], [0, 3, 4], [1, 1, 1], [1, 2, 6], [1, 4, 2], [2, 2, 3], [2, 3, 5], [2, 4, 1], [3, 4, 7], [4, 4, 2]],
     "o": {"cis": True, "trans": False, "diags": 0, "mad": 0, "nnz": 1, "count": 0, "black": None, "tol": 1e-6, "iters": 200,
           "x0": None, "rescale": True}},
    # last partial chunk / empty rows / isolated bin
    {"per": [3, 2], "pixels": [[0, 1, 4], [0, 3, 2], [1, 3, 5], [1, 4, 3], [3, 4, 6], [2, 2, 9], [3, 3, 1]],
     "o": {"cis": False, "trans": False, "diags": 1, "mad": 0, "nnz": 0, "count": 0, "black": None, "tol": 1e-5, "iters": 200,
           "x0": None, "rescale": False}},
    {"per": [2, 2, 2], "pixels": [[0, 2, 3], [0, 3, 1], [0, 4, 2], [1, 2, 2], [1, 5, 4], [2, 4, 1], [3, 4, 5], [3, 5, 2], [0, 1, 9]],
     "o": {"cis": False, "trans": True, "diags": 0, "mad": 0, "nnz": 0, "count": 0, "black": None, "tol": 1e-5, "iters": 200,
           "x0": None, "rescale": True}},
]


def run(ctx):
    import cooler
    from cooler.parallel import split
    from cooler import _balance as B
    from multiprocess import Pool

    thorough = ctx.tier == "thorough"
    rng = ctx.rng
    tmp = ctx.tmp
    maps = make_maps(ctx.seed % 100000)
    pool = Pool(2)
    pool4 = Pool(4) if thorough else None
    try:
        _run(ctx, cooler, split, B, pool, pool4, maps, thorough, rng, tmp)
    finally:
        pool.terminate()
        if pool4 is not None:
            pool4.terminate()

# ---------------------------------------------------------------------------------------------------------
# HISTORY cases: several operations in ONE process on the SAME path; the file behind the path is replaced
# between them. Every result must equal the result of the same call in a fresh state: the dense reference of
# the data stored NOW (independent oracle) and the same call on a differently-named copy written just now.
def _opts(cis=False, trans=False, diags=0, nnz=0, tol=1e-6, iters=25, rescale=True):
    return {"cis": cis, "trans": trans, "diags": diags, "mad": 0, "nnz": nnz, "count": 0, "black": None, "tol": tol,
            "iters": iters, "x0": None, "rescale": rescale}


def _full(n, f):
    return [[i, j, f(i, j)] for i in range(n) for j in range(i, n)]


HIST_A = _full(5, lambda i, j: 1 + (2 * i + 3 * j) % 7)
HIST_B = _full(5, lambda i, j: 2 + (i * j + j) % 5)


def history_scenarios(rng, thorough):
    sc = []
    for m in ("builtin", "thread", "pool"):
        sc.append({"history": f"replace layout, cis/trans, map={m}", "steps": [
            {"op": "write", "per": [2, 3], "pixels": HIST_A},
            {"op": "balance", "o": _opts(cis=True), "chunk": 4, "map": m, "obj": "new"},
            {"op": "write", "per": [3, 2], "pixels": HIST_B},
            {"op": "balance", "o": _opts(cis=True), "chunk": 4, "map": m, "obj": "new"},
            {"op": "balance", "o": _opts(trans=True, tol=1e-3, iters=8), "chunk": 3, "map": m, "obj": "reuse"},
            {"op": "write", "per": [1, 4], "pixels": HIST_B},
            {"op": "balance", "o": _opts(cis=True, diags=1), "chunk": None, "map": m, "obj": "new"}]})
        sc.append({"history": f"split().pipe chains across a replaced file, map={m}", "steps": [
            {"op": "write", "per": [2, 3], "pixels": HIST_A},
            {"op": "pipe", "what": "chromids", "chunk": 4, "map": m},
            {"op": "write", "per": [4, 1], "pixels": HIST_A},
            {"op": "pipe", "what": "chromids", "chunk": 4, "map": m},
            {"op": "pipe", "what": "cis_marg", "chunk": 3, "map": m},
            {"op": "write", "per": [4, 1], "pixels": HIST_A, "extra_bins_col": True},
            {"op": "pipe", "what": "binkeys", "chunk": 6, "map": m},
            {"op": "write", "per": [3, 3], "pixels": _full(6, lambda i, j: 1 + (i + j) % 4)},
            {"op": "pipe", "what": "chromids", "chunk": 5, "map": m}]})
    sc.append({"history": "store=True, pipe sees the new column, re-balance, same object reused", "steps": [
        {"op": "write", "per": [2, 3], "pixels": HIST_A},
        {"op": "pipe", "what": "binkeys", "chunk": 6, "map": "builtin"},
        {"op": "balance", "o": _opts(diags=1), "chunk": None, "map": "builtin", "obj": "new", "store": "weight"},
        {"op": "pipe", "what": "binkeys", "chunk": 6, "map": "builtin"},
        {"op": "balance", "o": _opts(cis=True), "chunk": 3, "map": "builtin", "obj": "reuse", "store": "weight"},
        {"op": "balance", "o": _opts(trans=True, tol=1e-3, iters=8), "chunk": 3, "map": "thread", "obj": "reuse"},
        {"op": "write", "per": [3, 2], "pixels": HIST_A},
        {"op": "pipe", "what": "binkeys", "chunk": 6, "map": "pool"},
        {"op": "balance", "o": _opts(cis=True), "chunk": 3, "map": "pool", "obj": "reuse"}]})
    for _ in range(12 if thorough else 3):          # random histories: same number of bins, different layouts / pixels
        n = rng.randint(4, 7)
        steps = []
        for k in range(rng.randint(2, 3)):
            while True:
                per = G.random_per(rng)
                if sum(per) == n and len(per) >= 2:
                    break
            px = G.random_pixels(rng, per, density=rng.choice([0.8, 1.0]), empty_rows=False)
            steps.append({"op": "write", "per": per, "pixels": px})
            mode = rng.choice(["cis", "trans", "gw"])
            o = _opts(cis=mode == "cis", trans=mode == "trans", diags=rng.choice([0, 1]), tol=rng.choice([1e-2, 1e-3]), iters=rng.choice([3, 20]))
            steps.append({"op": "balance", "o": o, "chunk": rng.choice([None, 2, 5]), "map": rng.choice(["builtin", "thread", "pool"]),
                          "obj": rng.choice(["new", "reuse"]) if k else "new"})
            if rng.random() < 0.5:
                steps.append({"op": "pipe", "what": rng.choice(["chromids", "cis_marg"]), "chunk": rng.choice([2, 5]),
                              "map": rng.choice(["builtin", "thread", "pool"])})
        sc.append({"history": "random", "steps": steps})
    return sc


def _pipe_chromids(chunk):
    ch = np.asarray(chunk["bins"]["chrom"]).astype(str)
    px = chunk["pixels"]
    return [(str(ch[a]), str(ch[b])) for a, b in zip(px["bin1_id"], px["bin2_id"])]


def _pipe_binkeys(chunk):
    return [sorted(chunk["bins"].keys())]


def _pipe_cis_marg(chunk):
    ch = np.asarray(chunk["bins"]["chrom"]).astype(str)
    px = chunk["pixels"]
    m = np.zeros(len(ch))
    cis = ch[px["bin1_id"]] == ch[px["bin2_id"]]
    np.add.at(m, px["bin1_id"][cis], px["count"][cis])
    return [m]


def run_history(sc, tmp, pool):
    """execute one scenario; True or the detail of the first step whose result differs from the fresh state"""
    import cooler
    import h5py
    from cooler.parallel import split
    from multiprocess.pool import ThreadPool
    P = tmp / "hist.cool"
    tp = ThreadPool(2)
    mapf = {"builtin": map, "thread": tp.imap, "pool": pool.imap_unordered}
    pipef = {"builtin": map, "thread": tp.map, "pool": pool.map}          # order-preserving for gather
    cur = None
    objs = {}
    stored = []
    try:
        for k, st in enumerate(sc["steps"]):
            if st["op"] == "write":
                G.build_cooler(P, st["per"], st["pixels"])
                if st.get("extra_bins_col"):
                    with h5py.File(P, "r+") as h5:
                        h5["bins"].create_dataset("gc", data=np.linspace(0.3, 0.6, sum(st["per"])))
                cur = st
                stored = []
                continue
            per, pixels = cur["per"], cur["pixels"]
            n = sum(per)
            if st["op"] == "balance":
                o = st["o"]
                F = G.dense_int(n, pixels)
                b0, ties = G.ref_masks(o, per, F)
                groups = G.ref_loop_float(o, per, F, b0)
                if ties or G.near_tol(groups, o["tol"]):
                    continue
                wref = G.assemble(n, groups, o["rescale"])
                # a Cooler object snapshots the chromosome table when it is opened (api.Cooler._refresh, by design): it is a
                # handle on THAT cooler. It is reused only while the file still holds the chromosome table it was opened on
                # (same layout; pixels, weights and other columns may have been rewritten); after the path was given to a
                # cooler with another chromosome table a new object is opened and becomes the one later steps reuse.
                lay = tuple(per)
                if st.get("obj") == "reuse" and lay in objs:
                    clr = objs[lay]
                else:
                    clr = cooler.Cooler(str(P))
                    objs.setdefault(lay, clr)
                kw = {}
                if st.get("store"):
                    kw = {"store": True, "store_name": st["store"]}
                r = G.call_balance(clr, o, st["chunk"], mapf[st["map"]], limit=90.0, **kw)
                if st.get("store") and st["store"] not in stored:
                    stored.append(st["store"])
                Q = tmp / f"hist_copy_{k}.cool"
                G.build_cooler(Q, per, pixels)
                rq = G.call_balance(cooler.Cooler(str(Q)), o, st["chunk"], map, limit=90.0)
                os.remove(Q)
                ok = (not isinstance(r, str) and not isinstance(rq, str) and G.vec_close(r["w"], wref, 1e-9)
                      and stats_close(r, groups, o) and G.vec_close(r["w"], rq["w"], 1e-9))
                if ok and st.get("store"):
                    col = cooler.Cooler(str(P)).bins()[st["store"]][:].values
                    ok = G.vec_close(col, wref, 1e-9)
                if not ok:
                    return {"step": k, "op": st, "layout": per,
                            "result": r if isinstance(r, str) else [None if x != x else float(x) for x in r["w"]],
                            "fresh_copy": rq if isinstance(rq, str) else [None if x != x else float(x) for x in rq["w"]],
                            "reference": [None if x != x else float(x) for x in wref]}
            else:
                chrom = G.chroms_of(per)
                spx = sorted(map(tuple, pixels))
                fn = {"chromids": _pipe_chromids, "binkeys": _pipe_binkeys, "cis_marg": _pipe_cis_marg}[st["what"]]

                def go():
                    return list(split(cooler.Cooler(str(P)), map=pipef[st["map"]], chunksize=st["chunk"]).pipe(fn).gather())
                got = G.with_limit(60.0, go)
                if st["what"] == "chromids":
                    exp = [(f"c{chrom[a]}", f"c{chrom[b]}") for a, b, _ in spx]
                    val = got if isinstance(got, str) else [tuple(x) for part in got for x in part]
                elif st["what"] == "binkeys":
                    keys = sorted(["chrom", "start", "end"] + (["gc"] if cur.get("extra_bins_col") else []) + stored)
                    nch = -(-len(spx) // st["chunk"])
                    exp = [keys] * nch
                    val = got if isinstance(got, str) else [list(x) for part in got for x in part]
                else:
                    m = [0.0] * n
                    for a, b, c in spx:
                        if chrom[a] == chrom[b]:
                            m[a] += float(c)
                    exp = m
                    val = got if isinstance(got, str) else [float(x) for x in np.sum([part[0] for part in got], axis=0)]
                if val != exp:
                    return {"step": k, "op": st, "layout": per, "got": val if isinstance(val, str) else val[:40], "expected": exp[:40]}
        return True
    finally:
        tp.terminate()
        if P.exists():
            os.remove(P)


def history(ctx, tmp, rng, pool, thorough):
    n = 0
    for sc in history_scenarios(rng, thorough):
        ctx.case(sc, nontrivial=True, kind="history")
        res = G.with_limit(240.0, lambda: run_history(sc, tmp, pool))
        n += 1
        if res is not True:
            ctx.fail(sc, {"what": "result depends on the process history (differs from the fresh-state result)",
                          "detail": res}, None)
    return n

# ---------------------------------------------------------------------------------------------------------
# REUSED OBJECT / INPUT REPRESENTATION cases for the split-apply-combine pipeline: the spans are handed over in
# every representation (None -> partition() generator, list, tuple, generator, zip, numpy array of pairs) and
# every datapipe is evaluated more than once and in several ways. EVERY evaluation must visit every stored
# pixel exactly once (counting pipeline) and give the marginal of the dense matrix.
SPAN_REPRS = ["none", "list", "tuple", "generator", "zip", "ndarray"]
REUSE_PLANS = ["run_twice", "gather_then_reduce", "reduce_twice", "siblings", "copy_after_original", "iter_twice",
               "piped_child_then_parent"]
REUSE_MAPS = ["builtin", "thread", "pool"]


def _rz_init(chunk):
    return None


def _rz_visits(chunk, data, n=0):
    m = np.zeros((n, n), dtype=np.int64)
    np.add.at(m, (chunk["pixels"]["bin1_id"], chunk["pixels"]["bin2_id"]), 1)
    return m


def _rz_counts(chunk, data, n=0):
    m = np.zeros((n, n), dtype=float)
    np.add.at(m, (chunk["pixels"]["bin1_id"], chunk["pixels"]["bin2_id"]), chunk["pixels"]["count"])
    return m


def _rz_ident(chunk, data):
    return data


def make_spans(kind, nnz, c):
    L = [(k, min(k + c, nnz)) for k in range(0, nnz, c)]
    if kind == "none":
        return None
    if kind == "list":
        return list(L)
    if kind == "tuple":
        return tuple(L)
    if kind == "generator":
        return (x for x in L)
    if kind == "zip":
        return zip([a for a, _ in L], [b for _, b in L])
    return np.array(L, dtype=np.int64).reshape(-1, 2)


def run_reuse(case, tmp, pool):
    """True, or the list of evaluations (label, what) that did not visit every stored pixel exactly once"""
    import copy
    from functools import partial
    from cooler.parallel import split
    from multiprocess.pool import ThreadPool
    per, pixels = case["per"], case["pixels"]
    n = sum(per)
    nnz = len(pixels)
    path = tmp / "reuse.cool"
    clr = G.build_cooler(path, per, pixels)
    tp = ThreadPool(2)
    mp = {"builtin": map, "thread": tp.imap, "pool": pool.imap_unordered}[case["map"]]
    visits_exp = np.zeros((n, n), dtype=np.int64)
    counts_exp = np.zeros((n, n), dtype=float)
    for i, j, c in pixels:
        visits_exp[i, j] += 1
        counts_exp[i, j] += float(c)
    fv, fc = partial(_rz_visits, n=n), partial(_rz_counts, n=n)
    bad = []

    def ok_visits(label, m):
        if not (isinstance(m, np.ndarray) and m.shape == (n, n) and np.array_equal(m, visits_exp)):
            bad.append([label, "visits", m.tolist() if isinstance(m, np.ndarray) else repr(m)[:80]])

    def ok_counts(label, m):
        if not (isinstance(m, np.ndarray) and m.shape == (n, n) and np.array_equal(m, counts_exp)):
            bad.append([label, "counts", m.tolist() if isinstance(m, np.ndarray) else repr(m)[:80]])

    def total(parts, dtype):
        acc = np.zeros((n, n), dtype=dtype)
        for p_ in parts:
            acc = acc + p_
        return acc

    def go():
        sp = make_spans(case["spans"], nnz, case["chunk"])
        kw = {"chunksize": case["chunk"]} if sp is None else {"spans": sp}
        base = split(clr, map=mp, **kw).prepare(_rz_init)
        dp = base.pipe(fv)
        plan = case["plan"]
        z = np.zeros((n, n), dtype=np.int64)
        if plan == "run_twice":
            ok_visits("run #1", total(list(dp.run()), np.int64))
            ok_visits("run #2", total(list(dp.run()), np.int64))
        elif plan == "gather_then_reduce":
            ok_visits("gather", total(dp.gather(), np.int64))
            ok_visits("reduce after gather", dp.reduce(add, z))
        elif plan == "reduce_twice":
            ok_visits("reduce #1", dp.reduce(add, z))
            ok_visits("reduce #2", dp.reduce(add, z))
            ok_visits("reduce #3", dp.reduce(add, z))
        elif plan == "siblings":
            ok_visits("sibling 1 (visits)", dp.reduce(add, z))
            ok_counts("sibling 2 (counts)", base.pipe(fc).reduce(add, np.zeros((n, n))))
            ok_visits("sibling 3 (visits again)", base.pipe(_rz_ident).pipe(fv).reduce(add, z))
        elif plan == "copy_after_original":
            cp = copy.copy(dp)
            ok_visits("original", dp.reduce(add, z))
            ok_visits("copy made before", cp.reduce(add, z))
            ok_visits("copy made after", copy.copy(dp).reduce(add, z))
        elif plan == "iter_twice":
            ok_visits("iter #1", total(list(iter(dp)), np.int64))
            ok_visits("iter #2", total(list(iter(dp)), np.int64))
        else:
            child = dp.pipe(_rz_ident)
            ok_visits("child", child.reduce(add, z))
            ok_visits("parent after child", dp.reduce(add, z))
            ok_counts("base branch after both", base.pipe(fc).reduce(add, np.zeros((n, n))))
        return True
    try:
        res = G.with_limit(90.0, go)
    finally:
        tp.terminate()
        if path.exists():
            os.remove(path)
    if res is not True:
        return [["pipeline", "crash/timeout", res]]
    return True if not bad else bad


REUSE_PX = [[0, 0, 3], [0, 1, 4], [0, 2, 2], [0, 3, 5], [0, 4, 1], [1, 2, 6], [1, 3, 2], [1, 4, 3], [2, 3, 4], [2, 4, 2], [3, 4, 7], [4, 4, 1], [1, 1, 2]]


def reuse_cases(ctx, tmp, rng, pool, thorough):
    cases = []
    for sp in SPAN_REPRS:                       # full cross on one table: nnz = 13, chunk 5 (last chunk partial) and chunk 1
        for plan in REUSE_PLANS:
            for m in REUSE_MAPS:
                if thorough or m == "builtin" or (SPAN_REPRS.index(sp) + REUSE_PLANS.index(plan)) % 3 == REUSE_MAPS.index(m):
                    cases.append({"reuse": True, "per": [3, 2], "pixels": REUSE_PX, "spans": sp, "chunk": 5, "plan": plan, "map": m})
    for _ in range(40 if thorough else 8):
        per = G.random_per(rng)
        px = G.random_pixels(rng, per)
        if len(px) < 3:
            continue
        if rng.random() < 0.3:
            px = G.float_counts(rng, px)
        cases.append({"reuse": True, "per": per, "pixels": px, "spans": rng.choice(SPAN_REPRS),
                      "chunk": rng.choice([1, 2, 3, len(px) - 1, len(px), len(px) + 1]), "plan": rng.choice(REUSE_PLANS),
                      "map": rng.choice(REUSE_MAPS)})
    for case in cases:
        ctx.case(case, nontrivial=True, kind="reuse:" + case["spans"])
        res = run_reuse(case, tmp, pool)
        if res is not True:
            ctx.fail(case, {"what": "an evaluation of the datapipe did not visit every stored pixel exactly once", "evaluations": res}, None)
    return len(cases)

# ---------------------------------------------------------------------------------------------------------
# SEVERAL pipelines derived from ONE shared base pipe, evaluated in different orders: each must give exactly
# what its own linear chain gives (oracle: the same transformations applied to the dense data in Python).
def _br_init(chunk):
    return np.array(chunk["pixels"]["count"], dtype=float)


def _br_zero_diag(chunk, data):
    data[chunk["pixels"]["bin1_id"] == chunk["pixels"]["bin2_id"]] = 0
    return data


def _br_binarize(chunk, data):
    data[data != 0] = 1
    return data


def _br_scale(k, chunk, data):
    return data * k


def _br_marg(n, chunk, data):
    px = chunk["pixels"]
    off = np.where(px["bin1_id"] == px["bin2_id"], 0, data)
    return np.bincount(px["bin1_id"], weights=data, minlength=n) + np.bincount(px["bin2_id"], weights=off, minlength=n)


BRANCHES = {"base": [], "f": ["f"], "g": ["g"], "fg": ["f", "g"], "gf": ["g", "f"], "fg_list": ["f", "g"], "scale3": ["s3"], "f_scale3_g": ["f", "s3", "g"]}
BRANCH_ORDERS = [["g", "f", "f", "fg", "base", "scale3", "fg_list", "f", "gf", "f_scale3_g", "g", "base"],
                 ["fg", "base", "g", "g", "f_scale3_g", "f", "scale3", "gf", "fg_list", "base", "f"]]


def run_branches(case, tmp, pool):
    from cooler.parallel import split
    per, pixels = case["per"], case["pixels"]
    n = sum(per)
    path = tmp / "branch.cool"
    clr = G.build_cooler(path, per, pixels)
    mp = {"builtin": map, "pool": pool.imap_unordered, "pool.map": pool.map}[case["map"]]

    def expected(ops):
        m = [0.0] * n
        for i, j, c in pixels:
            x = float(c)
            for op in ops:
                if op == "f":
                    x = 0.0 if i == j else x
                elif op == "g":
                    x = 1.0 if x != 0 else 0.0
                else:
                    x = x * 3.0
            m[i] += x
            if i != j:
                m[j] += x
        return m

    def go():
        from functools import partial
        base = split(clr, map=mp, chunksize=case["chunk"]).prepare(_br_init)
        fun = {"f": _br_zero_diag, "g": _br_binarize}
        pipes = {}
        for name, ops in BRANCHES.items():          # all branches are derived from the one shared base BEFORE any is evaluated
            if name == "fg_list":
                dp = base.pipe([_br_zero_diag, _br_binarize])
            else:
                dp = base
                for op in ops:
                    dp = dp.pipe(_br_scale, 3.0) if op == "s3" else dp.pipe(fun[op])
            pipes[name] = dp.pipe(_br_marg, n)
        bad = []
        for k, name in enumerate(case["order"]):
            got = pipes[name].reduce(add, np.zeros(n))
            exp = expected(BRANCHES[name])
            if not (isinstance(got, np.ndarray) and got.shape == (n,) and [float(x) for x in got] == exp):
                bad.append([k, name, [float(x) for x in np.atleast_1d(got)][:16], exp])
        # a late branch taken from the base after everything has run
        late = base.pipe(_br_binarize).pipe(_br_marg, n).reduce(add, np.zeros(n))
        if [float(x) for x in late] != expected(["g"]):
            bad.append(["late", "g", [float(x) for x in late], expected(["g"])])
        return bad
    try:
        res = G.with_limit(60.0, go)
    finally:
        if path.exists():
            os.remove(path)
    if isinstance(res, str):
        return [["pipeline", "crash/timeout", res]]
    return True if not res else res


def branch_cases(ctx, tmp, rng, pool, thorough):
    cases = []
    nnz = len(REUSE_PX)
    for c in [1, 2, 5, nnz - 1, nnz, nnz + 1]:
        for m in ("builtin", "pool", "pool.map"):
            if thorough or m == "builtin" or c in (2, 5):
                cases.append({"branches": True, "per": [3, 2], "pixels": REUSE_PX, "chunk": c, "map": m,
                              "order": BRANCH_ORDERS[(c + len(m)) % 2]})
    for _ in range(20 if thorough else 4):
        per = G.random_per(rng)
        px = G.random_pixels(rng, per)
        if len(px) < 3:
            continue
        order = [rng.choice(sorted(BRANCHES)) for _ in range(10)]
        cases.append({"branches": True, "per": per, "pixels": px, "chunk": rng.choice([1, 2, 3, len(px)]),
                      "map": rng.choice(["builtin", "pool", "pool.map"]), "order": order})
    for case in cases:
        ctx.case(case, nontrivial=True, kind="branches:" + case["map"])
        res = run_branches(case, tmp, pool)
        if res is not True:
            ctx.fail(case, {"what": "a pipeline derived from a shared base differs from its own linear chain",
                            "evaluations [position, branch, got, expected]": res[:4]}, None)
    return len(cases)


def _run(ctx, cooler, split, B, pool, pool4, maps, thorough, rng, tmp):
    pmaps = {"pool.map": pool.map, "pool.imap": pool.imap, "pool.imap_unordered": pool.imap_unordered}
    if pool4 is not None:
        pmaps.update({"pool4.map": pool4.map, "pool4.imap_unordered": pool4.imap_unordered})
    seq_names = ["builtin", "listmap", "reversed", "perm", "lazyrev"]

    # ------------------------------------------------------------ cases
    cases = [dict(c) for c in CORPUS]
    ncool = 60 if thorough else 9
    while len(cases) < ncool + len(CORPUS):
        per = G.random_per(rng)
        px = G.random_pixels(rng, per)
        if len(px) < 2:
            continue
        o = G.random_opts(rng, per)
        if rng.random() < 0.3:                      # float64 count column (dyadic fractions)
            px = G.float_counts(rng, px)
            o["nnz"] = rng.choice([0, 1, 2, 3])
        o["iters"] = rng.choice([1, 2, 30, 60])
        o["tol"] = rng.choice([1e-2, 1e-3, 1e-4, 1e-5, 1e-6])
        cases.append({"per": per, "pixels": px, "o": o})

    skipped = 0
    span_exprs, span_obs = [], []
    chunk_exprs, chunk_obs = [], []
    nruns = 0
    for ci, cs in enumerate(cases):
        per, pixels, o = cs["per"], cs["pixels"], cs["o"]
        n = sum(per)
        nnz = len(pixels)
        F = G.dense_int(n, pixels)
        b0, amb = G.ref_masks(o, per, F)  # amb = list of MAD tie bins
        groups = G.ref_loop_float(o, per, F, b0)
        if amb or G.near_tol(groups, o["tol"]):
            skipped += 1            # float-fragile decision (MAD cutoff tie / variance at the tolerance)
            continue
        wref = G.assemble(n, groups, o["rescale"])
        clr = G.build_cooler(tmp / f"c{ci}.cool", per, pixels)

        chunks = [1, 2, 3, nnz - 1, nnz, nnz + 1, 10_000_000, None]
        chunks = [c for k, c in enumerate(chunks) if (c is None or c >= 1) and c not in chunks[:k]]
        heavy = sum(g["iters"] for g in groups) > 25
        for c in chunks:
            nchunks = 1 if c is None else -(-nnz // c)
            names = list(seq_names)
            rng.shuffle(names)
            pick = names[:2] if (thorough or ci < 4) else names[:1]
            if "builtin" not in pick and c in (1, None):
                pick.append("builtin")
            # pools on a few (thorough: more)
            if (ci % (2 if thorough else 4) == 0) and c in (2, 3, nnz - 1) and not (heavy and c == 1):
                pick.append(rng.choice(sorted(pmaps)))
            if heavy and c == 1:
                pick = pick[:1]
            for mname in pick:
                for rep in range(2):
                    inner = maps[mname] if mname in maps else pmaps[mname]
                    rec = Recorder(inner)
                    r = G.call_balance(clr, o, c, rec, limit=120.0)
                    nruns += 1
                    case = {"per": per, "pixels": pixels, "o": o, "chunk": c, "map": mname, "rep": rep}
                    ctx.case(case, nontrivial=(nchunks > 1 or mname != "builtin"), kind=f"{G.mode_of(o)}:{mname}")
                    if isinstance(r, str):
                        ctx.fail(case, {"result": r}, None)
                        continue
                    ok = G.vec_close(r["w"], wref, 1e-9) and stats_close(r, groups, o)
                    if not ok:
                        ctx.fail(case, {"weights": [None if x != x else float(x) for x in r["w"]],
                                        "expected": [None if x != x else float(x) for x in wref],
                                        "converged": r["converged"], "scale": [float(x) for x in r["scale"]]}, None)
                    # spans handed to the map: tile [0,nnz) / the chromosome's pixel range exactly once
                    seen = dedupe(rec.calls)
                    if not spans_tile(seen[0], 0, nnz):
                        ctx.fail(case, {"spans": seen[0][:12], "nnz": nnz}, None)
                    if rep == 0:
                        span_exprs.append(expected_call_spans(o, per, pixels, c, None))
                        span_obs.append((case, [[list(s) for s in call] for call in seen]))

        # per-chunk results of the pipeline (exact): split(...).prepare(_init).pipe(filters).pipe(_marginalize).gather()
        vec = [rng.choice(G.DYADIC) for _ in range(n)]
        for c in [1, 2, 3, max(1, nnz - 1), nnz + 1]:
            spans = [(k, min(k + c, nnz)) for k in range(0, nnz, c)] if rng.random() < 0.5 else None
            kw = {"spans": spans} if spans is not None else {"chunksize": c}
            filt = []
            fexpr = []
            if o["cis"]:
                filt.append(B._zero_trans)
                fexpr.append(f"f_zero_trans {C.zl(G.chroms_of(per))}")
            if o["diags"]:
                from functools import partial
                filt.append(partial(B._zero_diags, o["diags"]))
                fexpr.append(f"f_zero_diags {C.z(o['diags'])}")
            binar = rng.random() < 0.3
            if binar:
                filt = [B._binarize] + filt
                fexpr = ["f_binarize"] + fexpr
            case = {"per": per, "pixels": pixels, "pipeline": fexpr, "chunk": c, "explicit_spans": spans is not None, "vec": vec}

            def go():
                dp = split(clr, map=map, **kw).prepare(B._init).pipe(filt)
                if not binar:
                    dp2 = dp.pipe(B._timesouterproduct, np.array(vec, dtype=float))
                else:
                    dp2 = dp
                return [[Fraction(float(x)) for x in res] for res in dp2.pipe(B._marginalize).gather()]
            got = G.with_limit(60.0, go)
            fe = list(fexpr)
            if not binar:
                fe.append(f"f_times {C.lst([C.q(Fraction(v)) for v in vec])}")
            spe = (C.lst([C.tup(C.z(a), C.z(b)) for a, b in spans]) if spans is not None
                   else f"(partition 0 {C.z(nnz)} {C.z(c)})")
            chunk_exprs.append(f"map qoutl (marg_chunks {C.nat(n)} {spe} {C.lst(fe)} {G.coq_px(pixels)})")
            chunk_obs.append((case, got, 1 if binar else G.den_of(pixels)))
            ctx.case(case, nontrivial=c < nnz, kind="pipeline:gather")

            # counting pipeline: every stored pixel visited exactly once
            def count_init(chunk):
                return None

            def count_visits(chunk, data, n=n):
                m = np.zeros((n, n), dtype=np.int64)
                np.add.at(m, (chunk["pixels"]["bin1_id"], chunk["pixels"]["bin2_id"]), 1)
                return m
            for mname in ("builtin", "perm"):
                def go2():
                    return split(clr, map=maps[mname], chunksize=c).prepare(count_init).pipe(count_visits).reduce(
                        add, np.zeros((n, n), dtype=np.int64))
                visits = G.with_limit(60.0, go2)
                exp = np.zeros((n, n), dtype=np.int64)
                for i, j, _ in pixels:
                    exp[i, j] += 1
                case2 = {"per": per, "pixels": pixels, "count_pipeline_chunk": c, "map": mname}
                ctx.case(case2, nontrivial=c < nnz, kind="pipeline:count")
                if isinstance(visits, str) or not np.array_equal(visits, exp):
                    ctx.fail(case2, {"visits": visits if isinstance(visits, str) else visits.tolist()}, None)
        os.remove(tmp / f"c{ci}.cool")

    # ------------------------------------------------------------ histories in one process on one path
    nhist = history(ctx, tmp, rng, pool, thorough)
    nreuse = reuse_cases(ctx, tmp, rng, pool, thorough)
    nbranch = branch_cases(ctx, tmp, rng, pool, thorough)

    # ------------------------------------------------------------ use_lock=True (global multiprocess lock around the HDF5 read)
    lock_cs = cases[4]
    per, pixels, o = lock_cs["per"], lock_cs["pixels"], lock_cs["o"]
    F = G.dense_int(sum(per), pixels)
    b0, amb = G.ref_masks(o, per, F)
    groups = G.ref_loop_float(o, per, F, b0)
    if not amb and not G.near_tol(groups, o["tol"]):
        wref = G.assemble(sum(per), groups, o["rescale"])
        clr = G.build_cooler(tmp / "lock.cool", per, pixels)
        for mname, mp in (("builtin", map), ("pool.imap_unordered", pool.imap_unordered), ("pool.map", pool.map)):
            case = {"per": per, "pixels": pixels, "o": o, "chunk": 3, "map": mname, "use_lock": True, "rep": 0}
            ctx.case(case, nontrivial=True, kind="use_lock:" + mname)
            r = G.call_balance(clr, o, 3, mp, limit=120.0, use_lock=True)
            nruns += 1
            if isinstance(r, str) or not (G.vec_close(r["w"], wref, 1e-9) and stats_close(r, groups, o)):
                ctx.fail(case, {"what": "use_lock=True", "result": r if isinstance(r, str) else [None if x != x else float(x) for x in r["w"]],
                                "expected": [None if x != x else float(x) for x in wref]}, None)

    # ------------------------------------------------------------ CLI (imap_unordered pool inside)
    from click.testing import CliRunner
    from cooler.cli import cli
    import h5py
    runner = CliRunner()
    ncli = 0
    for ci, cs in enumerate(cases):
        if ncli >= (8 if thorough else 3):
            break
        per, pixels, o = cs["per"], cs["pixels"], dict(cs["o"])
        if o["x0"] is not None or o["black"] or o["count"] != int(o["count"]) or not pixels:
            continue
        o["rescale"] = True
        n = sum(per)
        F = G.dense_int(n, pixels)
        b0, amb = G.ref_masks(o, per, F)  # amb = list of MAD tie bins
        groups = G.ref_loop_float(o, per, F, b0)
        if amb or G.near_tol(groups, o["tol"]):
            continue
        conv_all = all(g["var"] < o["tol"] for g in groups)
        wref = G.assemble(n, groups, True)
        path = tmp / f"cli{ci}.cool"
        G.build_cooler(path, per, pixels)
        c = rng.choice([1, 2, 3])
        args = ["balance", "-p", "2", "-c", str(c), "--mad-max", str(o["mad"]), "--min-nnz", str(o["nnz"]),
                "--min-count", str(o["count"]), "--ignore-diags", str(o["diags"]), "--tol", repr(o["tol"]),
                "--max-iters", str(o["iters"]), "--convergence-policy", "store_final"]
        if o["cis"]:
            args.append("--cis-only")
        if o["trans"]:
            args.append("--trans-only")
        args.append(str(path))
        case = {"per": per, "pixels": pixels, "o": o, "cli": args[:-1]}
        ctx.case(case, nontrivial=True, kind="cli:imap_unordered")

        def gocli():
            res = runner.invoke(cli, args)
            if res.exit_code != 0:
                return "error:exit%d" % res.exit_code
            with h5py.File(path, "r") as h5:
                return np.array(h5["bins/weight"][:], dtype=float)
        w = G.with_limit(120.0, gocli)
        ncli += 1
        if isinstance(w, str) or not G.vec_close(w, wref, 1e-9):
            ctx.fail(case, {"weights": w if isinstance(w, str) else [None if x != x else float(x) for x in w],
                            "expected": [None if x != x else float(x) for x in wref], "converged_expected": conv_all}, None)

    # ------------------------------------------------------------ model side
    got = C.coq_eval(G.IMPORTS, span_exprs, tmpdir=tmp / "spans", shard=60, jobs=4, timeout=300)
    for (case, seen), mo in zip(span_obs, got):
        model = dedupe([[list(s) for s in call] for call in mo])
        ctx.compare("spans handed to map == balance_spans/partition", case, seen, model)
    got = C.coq_eval(G.IMPORTS, chunk_exprs, tmpdir=tmp / "chunks", shard=40, jobs=4, timeout=300)
    for (case, impl, den), mo in zip(chunk_obs, got):
        model = [[Fraction(a, b) / den for a, b in res] for res in mo]      # model runs on the numerators count * den
        ctx.compare("per-chunk marginals == marg_chunks", case,
                    impl if isinstance(impl, str) else [[str(x) for x in r] for r in impl],
                    [[str(x) for x in r] for r in model])
    ctx.extra["runs"] = {"balance_runs": nruns, "coolers": len(cases), "skipped_float_fragile": skipped,
                         "cli_runs": ncli, "histories": nhist, "reuse_cases": nreuse, "branch_cases": nbranch, "span_lists_compared": len(span_exprs), "pipelines_compared": len(chunk_exprs)}


def replay(ctx, case):
    if case.get("branches"):
        from multiprocess import Pool as _Pool
        bp = _Pool(2)
        try:
            return run_branches(case, ctx.tmp, bp) is True
        finally:
            bp.terminate()
    if case.get("reuse"):
        from multiprocess import Pool as _Pool
        rp = _Pool(2)
        try:
            return run_reuse(case, ctx.tmp, rp) is True
        finally:
            rp.terminate()
    if "history" in case:
        from multiprocess import Pool as _Pool
        hp = _Pool(2)
        try:
            return run_history(case, ctx.tmp, hp) is True
        finally:
            hp.terminate()
    import cooler
    from cooler.parallel import split
    from multiprocess import Pool
    per, pixels = case["per"], case["pixels"]
    n = sum(per)
    clr = G.build_cooler(ctx.tmp / "replay.cool", per, pixels)
    if "count_pipeline_chunk" in case:
        def count_init(chunk):
            return None

        def count_visits(chunk, data):
            m = np.zeros((n, n), dtype=np.int64)
            np.add.at(m, (chunk["pixels"]["bin1_id"], chunk["pixels"]["bin2_id"]), 1)
            return m
        v = split(clr, chunksize=case["count_pipeline_chunk"]).prepare(count_init).pipe(count_visits).reduce(
            add, np.zeros((n, n), dtype=np.int64))
        exp = np.zeros((n, n), dtype=np.int64)
        for i, j, _ in pixels:
            exp[i, j] += 1
        return bool(np.array_equal(v, exp))
    o = case["o"]
    F = G.dense_int(n, pixels)
    b0, _ = G.ref_masks(o, per, F)
    groups = G.ref_loop_float(o, per, F, b0)
    wref = G.assemble(n, groups, o["rescale"] if "cli" not in case else True)
    if "cli" in case:
        from click.testing import CliRunner
        from cooler.cli import cli
        import h5py
        res = CliRunner().invoke(cli, case["cli"] + [str(ctx.tmp / "replay.cool")])
        if res.exit_code != 0:
            return False
        with h5py.File(ctx.tmp / "replay.cool", "r") as h5:
            return G.vec_close(np.array(h5["bins/weight"][:], dtype=float), wref, 1e-9)
    maps = make_maps(ctx.seed % 100000)
    mname = case.get("map", "builtin")
    pool = None
    if mname in maps:
        mp = maps[mname]
    else:
        pool = Pool(4 if mname.startswith("pool4") else 2)
        mp = getattr(pool, mname.split(".")[1])
    try:
        rec = Recorder(mp)
        r = G.call_balance(clr, o, case.get("chunk"), rec, **({"use_lock": True} if case.get("use_lock") else {}))
    finally:
        if pool is not None:
            pool.terminate()
    if isinstance(r, str):
        return False
    return bool(G.vec_close(r["w"], wref, 1e-9) and stats_close(r, groups, o)
                and spans_tile(dedupe(rec.calls)[0], 0, len(pixels)))
