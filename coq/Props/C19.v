(** C19  Region and URI strings parse to exactly what they denote, or are refused.
    Only statements; each is closed by a lemma proved in Proofs/TextProofs.v about the
    executable model Model/Text.v of cooler.util.parse_region_string / parse_humanized /
    parse_region / parse_cooler_uri.  Strings are [list ascii]; [None] is the ValueError. *)
From Cooler Require Import Model.Extent Proofs.BinsProofs.
From Cooler Require Proofs.ExtentProofs.
From Cooler Require Import Model.Text Proofs.TextProofs Proofs.RegionIntegration.

(** ---- formatting a region and parsing it back is the identity (all names, all coordinates) *)

(** int(str(z)) = z : the decimal printer used in the statements is read back exactly *)
Theorem C19_dec_read_back : forall z, 0 <= z ->
  digits_val (dec z) = z /\ forallb is_digit (dec z) = true /\ dec z <> [].
Proof. intros z Hz. repeat split; [now apply digits_val_dec|now apply dec_digits|apply dec_nonempty]. Qed.
Print Assumptions C19_dec_read_back.

(** every name that is non-empty, has no ':' and no blank at either end ([name_ok_b], inner blanks,
    '-', '.', digits allowed), every 0 <= s <= e *)
Theorem C19_parse_format_roundtrip : forall name s e,
  name_ok_b name = true -> 0 <= s <= e ->
  parse_region_string (name ++ c_colon :: dec s ++ c_hyphen :: dec e) = Some (name, Some s, Some e).
Proof. exact parse_format_roundtrip. Qed.
Print Assumptions C19_parse_format_roundtrip.

(** open end *)
Theorem C19_parse_format_roundtrip_open : forall name s,
  name_ok_b name = true -> 0 <= s ->
  parse_region_string (name ++ c_colon :: dec s ++ [c_hyphen]) = Some (name, Some s, None).
Proof. exact parse_format_roundtrip_open. Qed.
Print Assumptions C19_parse_format_roundtrip_open.

(** bare name *)
Theorem C19_parse_bare_name : forall name,
  name_ok_b name = true -> parse_region_string name = Some (name, None, None).
Proof. exact parse_region_string_bare. Qed.
Print Assumptions C19_parse_bare_name.

(** thousands separators: ANY placement of commas among the digits (cs, ce are strings over [0-9,]
    whose digits spell s and e) ... *)
Theorem C19_parse_commas_roundtrip : forall name s e cs ce,
  name_ok_b name = true -> 0 <= s <= e ->
  forallb is_digit_or_comma cs = true -> remove_commas cs = dec s ->
  forallb is_digit_or_comma ce = true -> remove_commas ce = dec e ->
  parse_region_string (name ++ c_colon :: cs ++ c_hyphen :: ce) = Some (name, Some s, Some e).
Proof. exact parse_commas_roundtrip. Qed.
Print Assumptions C19_parse_commas_roundtrip.

(** ... in particular the standard grouping in threes, f"{z:,}" *)
Theorem C19_parse_format_commas_roundtrip : forall name s e,
  name_ok_b name = true -> 0 <= s <= e ->
  parse_region_string (name ++ c_colon :: dec_commas s ++ c_hyphen :: dec_commas e) = Some (name, Some s, Some e).
Proof. exact parse_format_commas_roundtrip. Qed.
Print Assumptions C19_parse_format_commas_roundtrip.

(** ---- the grammar: what every string of the shape
         name ":" blanks COORD blanks "-" blanks COORD junk
    evaluates to, for every COORD token  [0-9,]+ ( "." [0-9]* )? [A-Za-z]*  given in parts
    ([ctok_ok_b]); [junk] is anything that cannot extend the last token ([tok_end]): it is ignored. *)
Theorem C19_region_grammar_closed : forall name w1 t1 w2 w3 t2 junk,
  name_ok_b name = true ->
  forallb is_blank w1 = true -> forallb is_blank w2 = true -> forallb is_blank w3 = true ->
  ctok_ok_b t1 = true -> ctok_ok_b t2 = true -> tok_end junk ->
  parse_region_string (name ++ c_colon :: w1 ++ ctok_str t1 ++ w2 ++ c_hyphen :: w3 ++ ctok_str t2 ++ junk)
  = match ctok_val t1, ctok_val t2 with
    | Some a, Some b => if b <? a then None else Some (name, Some a, Some b)
    | _, _ => None
    end.
Proof. exact region_grammar_closed. Qed.
Print Assumptions C19_region_grammar_closed.

Theorem C19_region_grammar_open : forall name w1 t1 w2 nl tail,
  name_ok_b name = true ->
  forallb is_blank w1 = true -> forallb is_blank w2 = true -> forallb is_newline nl = true ->
  ctok_ok_b t1 = true -> colon_tail tail ->
  parse_region_string (name ++ c_colon :: w1 ++ ctok_str t1 ++ w2 ++ c_hyphen :: nl ++ tail)
  = match ctok_val t1 with Some a => Some (name, Some a, None) | None => None end.
Proof. exact region_grammar_open. Qed.
Print Assumptions C19_region_grammar_open.

(** the value of a COORD token is what parse_humanized computes on its text *)
Theorem C19_token_value : forall t, ctok_ok_b t = true -> parse_humanized (ctok_str t) = ctok_val t.
Proof. exact parse_humanized_ctok. Qed.
Print Assumptions C19_token_value.

(** ---- exact scaling: a numeral ip.fd (ip over [0-9,], fd over [0-9]) with a unit al of the table
    (multiplier m) whose scaled value  n = ip.fd * m  is an integer parses to exactly n.
    The equation is the exact rational one, multiplied out by 10^|fd|. *)
Theorem C19_humanized_exact : forall ip fd al m n,
  forallb is_digit_or_comma ip = true -> forallb is_digit fd = true -> forallb is_alpha al = true ->
  al <> [] -> (remove_commas ip <> [] \/ fd <> []) -> unit_mult (map to_upper al) = Some m ->
  n * 10 ^ zlen fd = (digits_val (remove_commas ip) * 10 ^ zlen fd + digits_val fd) * m ->
  parse_humanized (ip ++ c_dot :: fd ++ al) = Some n.
Proof. exact humanized_exact. Qed.
Print Assumptions C19_humanized_exact.

(** in general the result is the floor of the scaled value (a non-integral one is truncated, not refused) *)
Theorem C19_humanized_floor : forall ip fd al m,
  forallb is_digit_or_comma ip = true -> forallb is_digit fd = true -> forallb is_alpha al = true ->
  al <> [] -> (remove_commas ip <> [] \/ fd <> []) -> unit_mult (map to_upper al) = Some m ->
  parse_humanized (ip ++ c_dot :: fd ++ al)
  = Some ((digits_val (remove_commas ip) * 10 ^ zlen fd + digits_val fd) * m / 10 ^ zlen fd).
Proof. exact humanized_floor. Qed.
Print Assumptions C19_humanized_floor.

Theorem C19_humanized_unit_nodot : forall ip al m,
  forallb is_digit_or_comma ip = true -> forallb is_alpha al = true ->
  al <> [] -> remove_commas ip <> [] -> unit_mult (map to_upper al) = Some m ->
  parse_humanized (ip ++ al) = Some (digits_val (remove_commas ip) * m).
Proof. exact humanized_unit_nodot. Qed.
Print Assumptions C19_humanized_unit_nodot.

(** the unit table is exactly K, KB -> 10^3; M, MB -> 10^6; G, GB -> 10^9 (after upper-casing) *)
Theorem C19_unit_table : forall u m, unit_mult u = Some m <->
  ((u = u_K \/ u = u_KB) /\ m = 1000) \/ ((u = u_M \/ u = u_MB) /\ m = 1000000) \/
  ((u = u_G \/ u = u_GB) /\ m = 1000000000).
Proof. exact unit_mult_spec. Qed.
Print Assumptions C19_unit_table.

(** ---- refusals *)
Theorem C19_refuse_unknown_unit : forall ip hasdot fd al,
  forallb is_digit_or_comma ip = true -> forallb is_digit fd = true -> forallb is_alpha al = true ->
  (hasdot = false -> fd = []) -> al <> [] -> unit_mult (map to_upper al) = None ->
  parse_humanized (ip ++ frac_part hasdot fd ++ al) = None.
Proof. exact humanized_unknown_unit. Qed.
Print Assumptions C19_refuse_unknown_unit.

(** empty or blank-only name, with or without coordinates *)
Theorem C19_refuse_empty_name : forall w rest, forallb is_blank w = true ->
  parse_region_string (w ++ c_colon :: rest) = None /\ parse_region_string w = None.
Proof. exact refuse_empty_name. Qed.
Print Assumptions C19_refuse_empty_name.

(** missing hyphen: for EVERY colon-free name and EVERY text after the colon whose part up to the next
    colon contains no '-' *)
Theorem C19_refuse_missing_hyphen : forall name rest,
  forallb notcolon name = true ->
  forallb (fun c => negb (is_hyphen c)) (take_while notcolon rest) = true ->
  parse_region_string (name ++ c_colon :: rest) = None.
Proof. exact refuse_missing_hyphen. Qed.
Print Assumptions C19_refuse_missing_hyphen.

(** leading '-' (a negative start) whatever follows *)
Theorem C19_refuse_leading_hyphen : forall name w rest,
  forallb notcolon name = true -> forallb is_blank w = true ->
  parse_region_string (name ++ c_colon :: w ++ c_hyphen :: rest) = None.
Proof. exact refuse_leading_hyphen. Qed.
Print Assumptions C19_refuse_leading_hyphen.

(** non-numeric start: the first non-blank character after the colon is not in [0-9,] *)
Theorem C19_refuse_nonnumeric_start : forall name w x rest,
  forallb notcolon name = true -> forallb is_blank w = true ->
  is_blank x = false -> is_digit_or_comma x = false -> is_colon x = false ->
  parse_region_string (name ++ c_colon :: w ++ x :: rest) = None.
Proof. exact refuse_nonnumeric_start. Qed.
Print Assumptions C19_refuse_nonnumeric_start.

(** nothing but blanks after the colon *)
Theorem C19_refuse_no_coordinates : forall name w tail,
  forallb notcolon name = true -> forallb is_blank w = true -> colon_tail tail ->
  parse_region_string (name ++ c_colon :: w ++ tail) = None.
Proof. exact refuse_no_coordinates. Qed.
Print Assumptions C19_refuse_no_coordinates.

(** non-numeric or negative end ("5--3", "5-x") *)
Theorem C19_refuse_nonnumeric_end : forall name w1 t1 w2 w3 x rest,
  forallb notcolon name = true ->
  forallb is_blank w1 = true -> forallb is_blank w2 = true -> forallb is_blank w3 = true ->
  ctok_ok_b t1 = true -> is_blank x = false -> is_digit_or_comma x = false -> is_colon x = false ->
  parse_region_string (name ++ c_colon :: w1 ++ ctok_str t1 ++ w2 ++ c_hyphen :: w3 ++ x :: rest) = None.
Proof. exact refuse_nonnumeric_end. Qed.
Print Assumptions C19_refuse_nonnumeric_end.

(** reversed *)
Theorem C19_refuse_reversed : forall name w1 t1 w2 w3 t2 junk a b,
  name_ok_b name = true ->
  forallb is_blank w1 = true -> forallb is_blank w2 = true -> forallb is_blank w3 = true ->
  ctok_ok_b t1 = true -> ctok_ok_b t2 = true -> tok_end junk ->
  ctok_val t1 = Some a -> ctok_val t2 = Some b -> b < a ->
  parse_region_string (name ++ c_colon :: w1 ++ ctok_str t1 ++ w2 ++ c_hyphen :: w3 ++ ctok_str t2 ++ junk) = None.
Proof. exact refuse_reversed. Qed.
Print Assumptions C19_refuse_reversed.

(** unknown unit in either coordinate of a region string *)
Theorem C19_refuse_unknown_unit_region : forall name w1 t1 w2 w3 t2 junk,
  name_ok_b name = true ->
  forallb is_blank w1 = true -> forallb is_blank w2 = true -> forallb is_blank w3 = true ->
  ctok_ok_b t1 = true -> ctok_ok_b t2 = true -> tok_end junk ->
  (t_al t1 <> [] /\ unit_mult (map to_upper (t_al t1)) = None) \/
  (t_al t2 <> [] /\ unit_mult (map to_upper (t_al t2)) = None) ->
  parse_region_string (name ++ c_colon :: w1 ++ ctok_str t1 ++ w2 ++ c_hyphen :: w3 ++ ctok_str t2 ++ junk) = None.
Proof. exact refuse_unknown_unit_region. Qed.
Print Assumptions C19_refuse_unknown_unit_region.

(** coordinates are never negative *)
Theorem C19_token_value_nonneg : forall t v, ctok_ok_b t = true -> ctok_val t = Some v -> 0 <= v.
Proof. exact ctok_val_nonneg. Qed.
Print Assumptions C19_token_value_nonneg.

(** ---- THE ACCEPTED LANGUAGE, exactly (both directions, all strings): a string is accepted with a closed
    range (c, a, b) iff it is  n0 ":" w1 COORD w2 "-" w3 COORD junk tail  with n0 colon-free, strip n0 = c
    non-empty, w* blanks, the tokens valued a <= b, junk colon-free text that cannot extend the second token
    ([munch_end]: maximal munch) and tail empty or starting with ':'.  Everything else is refused or falls
    under the open-end / bare-name forms below. *)
Theorem C19_region_language_closed : forall s c a b,
  parse_region_string s = Some (c, Some a, Some b) <->
  exists n0 w1 t1 w2 w3 t2 junk tail,
    s = n0 ++ c_colon :: (w1 ++ ctok_str t1 ++ w2 ++ c_hyphen :: w3 ++ ctok_str t2 ++ junk) ++ tail /\
    forallb notcolon n0 = true /\ strip n0 = c /\ c <> [] /\
    forallb is_blank w1 = true /\ forallb is_blank w2 = true /\ forallb is_blank w3 = true /\
    ctok_ok_b t1 = true /\ ctok_ok_b t2 = true /\
    forallb notcolon junk = true /\ munch_end t2 junk /\ colon_tail tail /\
    ctok_val t1 = Some a /\ ctok_val t2 = Some b /\ a <= b.
Proof. exact region_language_closed. Qed.
Print Assumptions C19_region_language_closed.

Theorem C19_region_language_open : forall s c a,
  parse_region_string s = Some (c, Some a, None) <->
  exists n0 w1 t1 w2 nl tail,
    s = n0 ++ c_colon :: (w1 ++ ctok_str t1 ++ w2 ++ c_hyphen :: nl) ++ tail /\
    forallb notcolon n0 = true /\ strip n0 = c /\ c <> [] /\
    forallb is_blank w1 = true /\ forallb is_blank w2 = true /\ forallb is_newline nl = true /\
    ctok_ok_b t1 = true /\ colon_tail tail /\ ctok_val t1 = Some a.
Proof. exact region_language_open. Qed.
Print Assumptions C19_region_language_open.

Theorem C19_region_language_bare : forall s c,
  parse_region_string s = Some (c, None, None) <->
  forallb notcolon s = true /\ strip s = c /\ c <> [].
Proof. exact region_language_bare. Qed.
Print Assumptions C19_region_language_bare.

(** ---- "or are refused", for ALL strings: whatever parse_region_string accepts is a non-empty colon-free
    name without blanks at its ends and either no coordinates or 0 <= start (<= end) *)
Theorem C19_parse_region_string_sound : forall s c oa ob,
  parse_region_string s = Some (c, oa, ob) ->
  c <> [] /\ forallb notcolon c = true /\ stops is_blank c /\ stops is_blank (rev c) /\
  ((oa = None /\ ob = None) \/
   exists a, oa = Some a /\ 0 <= a /\ forall b, ob = Some b -> a <= b).
Proof. exact parse_region_string_sound. Qed.
Print Assumptions C19_parse_region_string_sound.

Theorem C19_parse_humanized_nonneg : forall s v, parse_humanized s = Some v -> 0 <= v.
Proof. exact parse_humanized_nonneg. Qed.
Print Assumptions C19_parse_humanized_nonneg.

(** the tokenizer's fuel is never exhausted: it satisfies the defining equation of re.finditer *)
Theorem C19_tokenize_unfold : forall s,
  tokenize s = match match_at s with None => [] | Some (t, rest) => t :: tokenize rest end.
Proof. exact tokenize_eq. Qed.
Print Assumptions C19_tokenize_unfold.

(** ---- parse_region: defaults and bounds *)

(** whatever parse_region returns is a known chromosome with 0 <= start <= end <= length, start and end
    being the parsed ones or the defaults 0 / length *)
Theorem C19_parse_region_sound : forall s cs c a b,
  parse_region s cs = Some (c, a, b) ->
  0 <= a <= b /\
  (exists oa ob, parse_region_string s = Some (c, oa, ob) /\ (oa = Some a \/ oa = None /\ a = 0) /\
                 match cs with
                 | None => ob = Some b
                 | Some t => exists L, lookup c t = Some L /\ b <= L /\ (ob = Some b \/ ob = None /\ b = L)
                 end).
Proof. exact parse_region_sound. Qed.
Print Assumptions C19_parse_region_sound.

Theorem C19_parse_region_complete : forall s t c oa ob L,
  parse_region_string s = Some (c, oa, ob) -> lookup c t = Some L ->
  let a := match oa with Some a => a | None => 0 end in
  let b := match ob with Some b => b | None => L end in
  0 <= a <= b -> b <= L ->
  parse_region s (Some t) = Some (c, a, b).
Proof. exact parse_region_complete. Qed.
Print Assumptions C19_parse_region_complete.

Theorem C19_parse_region_unknown_name : forall s t c oa ob,
  parse_region_string s = Some (c, oa, ob) -> lookup c t = None -> parse_region s (Some t) = None.
Proof. exact parse_region_unknown_name. Qed.
Print Assumptions C19_parse_region_unknown_name.

Theorem C19_parse_region_beyond_end : forall s t c oa b L,
  parse_region_string s = Some (c, oa, Some b) -> lookup c t = Some L -> L < b -> parse_region s (Some t) = None.
Proof. exact parse_region_beyond_end. Qed.
Print Assumptions C19_parse_region_beyond_end.

(** parse_region on a formatted region: accepted exactly within the chromosome *)
Theorem C19_parse_region_format_roundtrip : forall name s e t L,
  name_ok_b name = true -> lookup name t = Some L -> 0 <= s <= e -> e <= L ->
  parse_region (name ++ c_colon :: dec s ++ c_hyphen :: dec e) (Some t) = Some (name, s, e).
Proof. exact parse_region_format_roundtrip. Qed.
Print Assumptions C19_parse_region_format_roundtrip.

Theorem C19_parse_region_format_beyond : forall name s e t L,
  name_ok_b name = true -> lookup name t = Some L -> 0 <= s <= e -> L < e ->
  parse_region (name ++ c_colon :: dec s ++ c_hyphen :: dec e) (Some t) = None.
Proof. exact parse_region_format_beyond. Qed.
Print Assumptions C19_parse_region_format_beyond.

Theorem C19_parse_region_format_unknown : forall name s e t,
  name_ok_b name = true -> lookup name t = None -> 0 <= s <= e ->
  parse_region (name ++ c_colon :: dec s ++ c_hyphen :: dec e) (Some t) = None.
Proof. exact parse_region_format_unknown. Qed.
Print Assumptions C19_parse_region_format_unknown.

(** defaults: bare name = whole chromosome, open end = up to the length *)
Theorem C19_parse_region_defaults : forall name t L s,
  name_ok_b name = true -> lookup name t = Some L -> 0 <= s <= L ->
  parse_region name (Some t) = Some (name, 0, L) /\
  parse_region (name ++ c_colon :: dec s ++ [c_hyphen]) (Some t) = Some (name, s, L).
Proof. exact parse_region_defaults. Qed.
Print Assumptions C19_parse_region_defaults.

(** ---- parse_cooler_uri.  [no_dcolon s]: no two adjacent colons in s; [last_notcolon f]: f does not end in ':' *)
Theorem C19_uri_plain : forall f, no_dcolon f = true -> parse_cooler_uri f = Some (f, [c_slash]).
Proof. exact uri_plain. Qed.
Print Assumptions C19_uri_plain.

Theorem C19_uri_split : forall f g,
  no_dcolon f = true -> last_notcolon f = true -> no_dcolon g = true ->
  parse_cooler_uri (f ++ c_colon :: c_colon :: g) = Some (f, norm_group g).
Proof. exact uri_split. Qed.
Print Assumptions C19_uri_split.

(** f::g and f::/g give the same pair (f, /g) *)
Theorem C19_uri_slash_invariant : forall f g,
  no_dcolon f = true -> last_notcolon f = true -> no_dcolon g = true ->
  match g with c :: _ => is_slash c = false | [] => True end ->
  parse_cooler_uri (f ++ c_colon :: c_colon :: g) = Some (f, c_slash :: g) /\
  parse_cooler_uri (f ++ c_colon :: c_colon :: c_slash :: g) = Some (f, c_slash :: g).
Proof. exact uri_slash_invariant. Qed.
Print Assumptions C19_uri_slash_invariant.

(** two separators are refused, wherever they stand: ALL a, b, c *)
Theorem C19_uri_two_separators : forall a b c,
  parse_cooler_uri (a ++ c_colon :: c_colon :: b ++ c_colon :: c_colon :: c) = None.
Proof. exact uri_two_separators_any. Qed.
Print Assumptions C19_uri_two_separators.

(** every returned group path starts with '/' *)
Theorem C19_uri_group_rooted : forall s f g, parse_cooler_uri s = Some (f, g) ->
  exists c g', g = c :: g' /\ is_slash c = true.
Proof. exact uri_result_shape. Qed.
Print Assumptions C19_uri_group_rooted.

(** ---- C19 x C04: from a region STRING to the bins it selects (Proofs/RegionIntegration.v).
    [names] is the chromosome-name list (distinct), [blocks] the bin table in chromosome blocks (C04/C20:
    [ValidBlocks]); [extent_of_string] = Cooler.extent(str) = parse_region(str, chromsizes) followed by
    region_to_extent on the index of the parsed name; [bins_fetch_string] = Cooler.bins().fetch(str). *)

(** the bridge: a string fetch is the C19 parser followed by the C04 extent model *)
Theorem C19_fetch_is_parse_then_extent : forall names blocks s, length names = length blocks ->
  extent_of_string names blocks s =
  match parse_region_string s with
  | None => None
  | Some (c, oa, ob) =>
      match index_of c names with
      | None => None
      | Some i => Extent.extent blocks i oa ob
      end
  end.
Proof. exact extent_of_string_eq. Qed.
Print Assumptions C19_fetch_is_parse_then_extent.

(** "name:s-e": exactly the bins of chromosome i that overlap [s, e), a non-empty run inside the
    chromosome's span; bins().fetch returns exactly those rows *)
Theorem C19_fetch_string_overlap : forall names blocks,
  length names = length blocks -> NoDup names -> ValidBlocks blocks ->
  forall name i blk s e,
  name_ok_b name = true -> nth_error names i = Some name -> nth_error blocks i = Some blk ->
  0 <= s < e -> e <= chrom_len blk ->
  exists lo hi, extent_of_string names blocks (name ++ c_colon :: dec s ++ c_hyphen :: dec e) = Some (lo, hi) /\
    (forall k : nat, lo <= Z.of_nat k < hi <->
       exists x, nth_error (table blocks) k = Some x /\ bchrom x = Z.of_nat i /\ bstart x < e /\ s < bend x) /\
    chrom_offset blocks i <= lo < hi /\ hi <= chrom_offset blocks (S i) /\
    bins_fetch_string names blocks (name ++ c_colon :: dec s ++ c_hyphen :: dec e)
      = Some (filter (overlaps_b i s e) (table blocks)).
Proof. exact fetch_string_overlap. Qed.
Print Assumptions C19_fetch_string_overlap.

(** the same with thousands separators, any comma placement *)
Theorem C19_fetch_string_overlap_commas : forall names blocks,
  length names = length blocks -> NoDup names -> ValidBlocks blocks ->
  forall name i blk s e cs ce,
  name_ok_b name = true -> nth_error names i = Some name -> nth_error blocks i = Some blk ->
  0 <= s < e -> e <= chrom_len blk ->
  forallb is_digit_or_comma cs = true -> remove_commas cs = dec s ->
  forallb is_digit_or_comma ce = true -> remove_commas ce = dec e ->
  exists lo hi, extent_of_string names blocks (name ++ c_colon :: cs ++ c_hyphen :: ce) = Some (lo, hi) /\
    (forall k : nat, lo <= Z.of_nat k < hi <->
       exists x, nth_error (table blocks) k = Some x /\ bchrom x = Z.of_nat i /\ bstart x < e /\ s < bend x) /\
    chrom_offset blocks i <= lo < hi /\ hi <= chrom_offset blocks (S i) /\
    bins_fetch_string names blocks (name ++ c_colon :: cs ++ c_hyphen :: ce)
      = Some (filter (overlaps_b i s e) (table blocks)).
Proof. exact fetch_string_overlap_commas. Qed.
Print Assumptions C19_fetch_string_overlap_commas.

Theorem C19_fetch_string_overlap_grouped : forall names blocks,
  length names = length blocks -> NoDup names -> ValidBlocks blocks ->
  forall name i blk s e,
  name_ok_b name = true -> nth_error names i = Some name -> nth_error blocks i = Some blk ->
  0 <= s < e -> e <= chrom_len blk ->
  bins_fetch_string names blocks (name ++ c_colon :: dec_commas s ++ c_hyphen :: dec_commas e)
    = Some (filter (overlaps_b i s e) (table blocks)).
Proof. exact fetch_string_overlap_grouped. Qed.
Print Assumptions C19_fetch_string_overlap_grouped.

(** bare name: exactly the chromosome's span of the table *)
Theorem C19_fetch_bare_name : forall names blocks,
  length names = length blocks -> NoDup names -> ValidBlocks blocks ->
  forall name i blk,
  name_ok_b name = true -> nth_error names i = Some name -> nth_error blocks i = Some blk ->
  extent_of_string names blocks name = Some (chrom_offset blocks i, chrom_offset blocks (S i)).
Proof. exact fetch_bare_name. Qed.
Print Assumptions C19_fetch_bare_name.

(** open end "name:s-": the bins of chromosome i overlapping [s, L_i) *)
Theorem C19_fetch_open_end : forall names blocks,
  length names = length blocks -> NoDup names -> ValidBlocks blocks ->
  forall name i blk s,
  name_ok_b name = true -> nth_error names i = Some name -> nth_error blocks i = Some blk ->
  0 <= s < chrom_len blk ->
  exists lo hi, extent_of_string names blocks (name ++ c_colon :: dec s ++ [c_hyphen]) = Some (lo, hi) /\
    (forall k : nat, lo <= Z.of_nat k < hi <->
       exists x, nth_error (table blocks) k = Some x /\ bchrom x = Z.of_nat i /\
                 bstart x < chrom_len blk /\ s < bend x) /\
    chrom_offset blocks i <= lo < hi /\ hi <= chrom_offset blocks (S i).
Proof. exact fetch_open_end. Qed.
Print Assumptions C19_fetch_open_end.

(** refused strings never reach region_to_extent: reversed or beyond the end ... *)
Theorem C19_fetch_refused : forall names blocks,
  length names = length blocks -> NoDup names ->
  forall name i blk s e,
  name_ok_b name = true -> nth_error names i = Some name -> nth_error blocks i = Some blk ->
  0 <= s -> 0 <= e -> (e < s \/ chrom_len blk < e) ->
  parse_region (name ++ c_colon :: dec s ++ c_hyphen :: dec e) (Some (chromsizes_table names blocks)) = None /\
  extent_of_string names blocks (name ++ c_colon :: dec s ++ c_hyphen :: dec e) = None.
Proof. exact fetch_refused. Qed.
Print Assumptions C19_fetch_refused.

(** ... or an unknown name, however the rest of the string is written *)
Theorem C19_fetch_unknown_name : forall names blocks,
  length names = length blocks ->
  forall str c oa ob,
  parse_region_string str = Some (c, oa, ob) -> ~ In c names ->
  parse_region str (Some (chromsizes_table names blocks)) = None /\
  extent_of_string names blocks str = None.
Proof. exact fetch_unknown_name. Qed.
Print Assumptions C19_fetch_unknown_name.

(** conversely, for EVERY string: region_to_extent is only ever reached with a known chromosome and
    0 <= start <= end <= its length (the hypotheses of the C04 theorems) *)
Theorem C19_fetch_reaches_extent_in_bounds : forall names blocks,
  length names = length blocks ->
  forall str r,
  extent_of_string names blocks str = Some r ->
  exists c oa ob i blk a b,
    parse_region_string str = Some (c, oa, ob) /\ nth_error names i = Some c /\
    nth_error blocks i = Some blk /\ 0 <= a <= b /\ b <= chrom_len blk /\
    a = ExtentProofs.dflt 0 oa /\ b = ExtentProofs.dflt (chrom_len blk) ob /\
    r = region_to_extent blocks i a b.
Proof. exact fetch_reaches_extent_in_bounds. Qed.
Print Assumptions C19_fetch_reaches_extent_in_bounds.

(** ---- URI normal form (what C15's uri_slash relies on): parse, render "file::group", parse again *)
Theorem C19_uri_normal_form : forall f g,
  no_dcolon f = true -> last_notcolon f = true -> no_dcolon g = true ->
  exists r, parse_cooler_uri (f ++ c_colon :: c_colon :: g) = Some r /\
            r = (f, norm_group g) /\
            parse_cooler_uri (render_uri r) = Some r.
Proof. exact uri_normal_form. Qed.
Print Assumptions C19_uri_normal_form.

(** for EVERY accepted URI whose file part does not end in ':' *)
Theorem C19_uri_render_idempotent : forall s r,
  parse_cooler_uri s = Some r -> last_notcolon (fst r) = true ->
  parse_cooler_uri (render_uri r) = Some r.
Proof. exact uri_render_idempotent. Qed.
Print Assumptions C19_uri_render_idempotent.

(** ---- non-vacuity / regression examples (evaluated) *)
Example ex_C19_D6_regression :
  parse_humanized (lit "1.001k") = Some 1001 /\
  parse_region_string (lit "chr1:1.001k-2.5Mb") = Some (lit "chr1", Some 1001, Some 2500000).
Proof. vm_compute. split; reflexivity. Qed.

Example ex_C19_names :
  name_ok_b (lit "chr-2.x y") = true /\ name_ok_b (lit " chr1") = false /\ name_ok_b (lit "a:b") = false /\
  name_ok_b (lit "") = false /\
  parse_region_string (lit "chr-2.x y:1,000-2,000,000") = Some (lit "chr-2.x y", Some 1000, Some 2000000).
Proof. vm_compute. repeat split; reflexivity. Qed.

Example ex_C19_format :
  fmt_region (lit "chr1") 0 1234567 = lit "chr1:0-1234567" /\ dec_commas 1234567 = lit "1,234,567" /\
  dec_commas 999 = lit "999" /\ dec_commas 1000 = lit "1,000".
Proof. vm_compute. repeat split; reflexivity. Qed.

Example ex_C19_token :
  let t := mk_ctok (lit "12,345") true (lit "678") (lit "kb") in
  ctok_ok_b t = true /\ ctok_str t = lit "12,345.678kb" /\ ctok_val t = Some 12345678.
Proof. vm_compute. repeat split; reflexivity. Qed.

Example ex_C19_refusals :
  parse_region_string (lit ":1-2") = None /\ parse_region_string (lit "chr1:10") = None /\
  parse_region_string (lit "chr1:-5-10") = None /\ parse_region_string (lit "chr1:x-10") = None /\
  parse_region_string (lit "chr1:20-10") = None /\ parse_region_string (lit "chr1:1kk-2") = None /\
  parse_region_string (lit "chr1:5--3") = None.
Proof. vm_compute. repeat split; reflexivity. Qed.

(** behaviour the property does not list, kept visible: a non-integral scaled value is truncated,
    text after the third token is ignored *)
Example ex_C19_visible_leniency :
  parse_humanized (lit "1.0001k") = Some 1000 /\
  parse_region_string (lit "chr1:10-20-30") = Some (lit "chr1", Some 10, Some 20) /\
  parse_region_string (lit "chr1:1-2:junk") = Some (lit "chr1", Some 1, Some 2).
Proof. vm_compute. repeat split; reflexivity. Qed.

Example ex_C19_uri :
  parse_cooler_uri (lit "a/b.mcool::resolutions/10") = Some (lit "a/b.mcool", lit "/resolutions/10") /\
  parse_cooler_uri (lit "a/b.mcool::/resolutions/10") = Some (lit "a/b.mcool", lit "/resolutions/10") /\
  parse_cooler_uri (lit "a/b.cool") = Some (lit "a/b.cool", lit "/") /\
  parse_cooler_uri (lit "a::b::c") = None /\
  no_dcolon (lit "C:/x.cool") = true /\ last_notcolon (lit "C:/x.cool") = true /\ no_dcolon (lit "a::b") = false.
Proof. vm_compute. repeat split; reflexivity. Qed.

Example ex_C19_parse_region :
  let cs := Some [(lit "chr1", 1000); (lit "chr 2", 500)] in
  parse_region (lit "chr1:0.1k-1k") cs = Some (lit "chr1", 100, 1000) /\
  parse_region (lit "chr1:0.1k-1.001k") cs = None /\
  parse_region (lit "chr 2") cs = Some (lit "chr 2", 0, 500) /\
  parse_region (lit "chr 2:100-") cs = Some (lit "chr 2", 100, 500) /\
  parse_region (lit "chr3:1-2") cs = None /\
  parse_region (lit "chr1:5-") None = None.
Proof. vm_compute. repeat split; reflexivity. Qed.

Example ex_C19_fetch_string :
  let names := [lit "chr1"; lit "a b"] in
  let blocks := [[(0,0,10);(0,10,20);(0,20,25)]; [(1,0,7);(1,7,9)]] in
  valid_blocks_b blocks = true /\ name_ok_b (lit "a b") = true /\
  extent_of_string names blocks (lit "chr1:10-21") = Some (1, 3) /\
  extent_of_string names blocks (lit "chr1:0.01k-0.021k") = Some (1, 3) /\
  extent_of_string names blocks (lit "a b") = Some (3, 5) /\
  extent_of_string names blocks (lit "a b:7-") = Some (4, 5) /\
  bins_fetch_string names blocks (lit "a b:1-8") = Some [(1,0,7);(1,7,9)] /\
  extent_of_string names blocks (lit "chr1:21-10") = None /\
  extent_of_string names blocks (lit "chr1:0-26") = None /\
  extent_of_string names blocks (lit "chr2:0-5") = None /\
  render_uri (lit "a.cool", lit "/g") = lit "a.cool::/g".
Proof. vm_compute. repeat split; reflexivity. Qed.

(** the tail of util.parse_region as translated from util.py on every run ([Gen.parse_region_tail]) is the model's
    [check_region], with and without a chromsizes table: the refusals proved above ("end < start", "out of bounds",
    "cannot determine end") are the comparisons the source has now. *)
From Cooler Require Import Gen.Translated Proofs.GenBridgeRegion.
Theorem C19_source_parse_region_is_model : forall chrom os oe cs,
  Text.check_region (chrom, os, oe) cs =
  match (match cs with
         | None => Some None
         | Some t => match Text.lookup chrom t with None => None | Some l => Some (Some l) end
         end) with
  | None => None
  | Some clen => match Gen.parse_region_tail os oe clen with None => None | Some (s', e') => Some (chrom, s', e') end
  end.
Proof. exact gen_parse_region_is_text_model. Qed.
Print Assumptions C19_source_parse_region_is_model.

Theorem C19_parse_region_source_pins : Gen.parse_region_source_pins = true.
Proof. reflexivity. Qed.
Print Assumptions C19_parse_region_source_pins.
