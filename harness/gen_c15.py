"""Helpers shared by the H5-store properties (C15, C17, C18): running histories of file-level
operations on the real code, raw h5py observation, Coq literals of the store model,
and an independent path-resolution used by the property oracle.

Nothing here computes an *expected* value with cooler's own code: raw observation goes
through h5py only; cooler is used as the thing observed.
"""
from __future__ import annotations

import os
import signal

import h5py
import numpy as np
import pandas as pd

import coqio as C

FILES = ("A", "B")
VOLATILE_ATTRS = ("creation-date", "generated-by", "format-url")
MAGIC = "HDF5::Cooler"


def comps(p: str):
    return [c for c in p.split("/") if c]


def pstr(cs):
    return "/" + "/".join(cs)


# ------------------------------------------------------------------ content for a stamp k
CHROMS = [("a", 30), ("b", 20)]
BINSIZE = 10


def bins_df():
    rows = []
    for n, L in CHROMS:
        for s in range(0, L, BINSIZE):
            rows.append((n, s, min(s + BINSIZE, L)))
    return pd.DataFrame(rows, columns=["chrom", "start", "end"])


def pixels_rows(k: int):
    rows = [(0, 1, k + 1), (1, 4, 2)]
    if k % 2:
        rows.append((2, 2, k))
    return rows


def pixels_df(k: int):
    r = pixels_rows(k)
    return pd.DataFrame({"bin1_id": [x[0] for x in r], "bin2_id": [x[1] for x in r], "count": [x[2] for x in r]})


def expected_tables(k: int):
    """what a collection created with stamp k must hold (plain python reading of the format)"""
    b = bins_df()
    names = [n for n, _ in CHROMS]
    px = pixels_rows(k)
    nb = len(b)
    b1 = [r[0] for r in px]
    off = [sum(1 for x in b1 if x < i) for i in range(nb + 1)]
    codes = [names.index(c) for c in b["chrom"]]
    coff = [sum(1 for x in codes if x < i) for i in range(len(names) + 1)]
    return {
        "chroms": {"name": ("S", names), "length": ("I", [L for _, L in CHROMS])},
        "bins": {"chrom": ("E", names, codes), "start": ("I", b["start"].tolist()), "end": ("I", b["end"].tolist())},
        "pixels": {"bin1_id": ("I", b1), "bin2_id": ("I", [r[1] for r in px]), "count": ("I", [r[2] for r in px])},
        "indexes": {"chrom_offset": ("I", coff), "bin1_offset": ("I", off)},
    }, {
        "bin-size": BINSIZE, "bin-type": "fixed", "format": MAGIC, "format-version": 3,
        "genome-assembly": "unknown", "metadata": "{}", "nbins": nb, "nchroms": len(names),
        "nnz": len(px), "storage-mode": "symmetric-upper", "sum": sum(r[2] for r in px),
    }


# ------------------------------------------------------------------ Coq literals
def coq_path(p):
    return C.lst(comps(p) if isinstance(p, str) else p, C.s)


def coq_fid(f):
    return "FA" if f == "A" else "FB"


def coq_payload(pl):
    if pl[0] == "I":
        return f"(PInts {C.zl(pl[1])})"
    if pl[0] == "S":
        return f"(PStrs {C.lst(pl[1], C.s)})"
    return f"(PEnum {C.lst(pl[1], C.s)} {C.zl(pl[2])})"


def coq_aval(v):
    return f"(AInt {C.z(v)})" if isinstance(v, (int, np.integer)) and not isinstance(v, bool) else f"(AStr {C.s(str(v))})"


def coq_attrs(d):
    return C.lst([C.tup(C.s(k), coq_aval(v)) for k, v in d.items()])


def coq_spec(tables, attrs, order=("chroms", "bins", "pixels", "indexes")):
    ts = []
    for t in order:
        cols = C.lst([C.tup(C.s(c), f"(Fresh {coq_payload(pl)})") for c, pl in tables[t].items()])
        ts.append(C.tup(C.s(t), f"(Table {cols})"))
    return f"(mkSpec {C.lst(ts)} {coq_attrs(attrs)})"


def coq_op(op):
    if op["op"] == "create":
        t, a = expected_tables(op["k"])
        return f"(OCreate {coq_fid(op['f'])} {coq_path(op['p'])} {C.b(op['mode'] == 'w')} {coq_spec(t, a)})"
    if op["op"] == "setattr":
        return f"(OSetAttr {coq_fid(op['f'])} {coq_path(op['p'])} {C.s(op['key'])} {coq_aval(op['val'])})"
    link, rename, soft = op_flags(op)
    return (f"(OCopy {coq_fid(op['sf'])} {coq_path(op['sp'])} {coq_fid(op['df'])} {coq_path(op['dp'])} "
            f"{C.b(op.get('ow', False))} {C.b(link)} {C.b(rename)} {C.b(soft)})")


def op_flags(op):
    """(link, rename, soft_link) as fileops.cp/mv/ln pass them to _copy"""
    o = op["op"]
    if o == "cp":
        return False, False, False
    if o == "mv":
        return False, True, False
    if o == "ln":
        return True, False, False
    if o == "lns":
        return False, False, True
    if o == "_copy":
        return bool(op["link"]), bool(op["rename"]), bool(op["soft"])
    raise ValueError(o)


# ------------------------------------------------------------------ running the real code
class Timeout(Exception):
    pass


def _alarm(signum, frame):
    raise Timeout()


def exc_class(e: BaseException) -> str:
    if isinstance(e, Timeout):
        return "timeout"
    if isinstance(e, RecursionError):
        return "ERecursion"
    for cls, name in ((KeyError, "EKey"), (OSError, "EOS"), (RuntimeError, "ERuntime"),
                      (ValueError, "EValue"), (AttributeError, "EAttr")):
        if isinstance(e, cls):
            return name
    return type(e).__name__


def guarded(fn, *a, limit=20, **kw):
    """(outcome, value) with a wall-clock limit; exceptions are values"""
    out = _guarded(fn, a, kw, limit)
    if out[0] != "Ok":
        # the traceback of a failed call keeps h5py objects (and through them files reached over
        # external links) open until the cycle collector runs: collect now (outside the handler), so
        # that CPython object lifetime does not leak into the next operation
        import gc
        gc.collect()
    return out


def _guarded(fn, a, kw, limit):
    old = signal.signal(signal.SIGALRM, _alarm)
    signal.alarm(limit)
    try:
        return "Ok", fn(*a, **kw)
    except BaseException as e:  # noqa: BLE001 - the class is the observation
        if isinstance(e, (KeyboardInterrupt, SystemExit)):
            raise
        return exc_class(e), None
    finally:
        signal.alarm(0)
        signal.signal(signal.SIGALRM, old)


# ------------------------------------------------------------------ where the files of a history live
# A history directory may carry a LAYOUT: the two files in different directories, a working directory that is
# neither file's directory, relative / dotted addressing, decoy files of the same base names elsewhere.
_LAYOUTS = {}     # dirpath -> {"A": abs path, "B": abs path, "cwd": abs path, "addr": "abs"|"rel"|"dot"}
_REV = {}         # realpath -> file letter


def set_layout(dirpath, lay):
    _LAYOUTS[dirpath] = lay
    for f in FILES:
        _REV[os.path.realpath(lay[f])] = f


def clear_layout(dirpath):
    lay = _LAYOUTS.pop(dirpath, None)
    if lay:
        for f in FILES:
            _REV.pop(os.path.realpath(lay[f]), None)


def fpath(dirpath, f):
    lay = _LAYOUTS.get(dirpath)
    return lay[f] if lay else os.path.join(dirpath, f + ".cool")


def faddr(dirpath, f, amode=None):
    """the file as it is named to cooler: absolute, relative to the working directory, or relative with a '.' segment"""
    lay = _LAYOUTS.get(dirpath)
    path = fpath(dirpath, f)
    mode = amode or (lay["addr"] if lay else "abs")
    if not lay or mode == "abs":
        return path
    rel = os.path.relpath(path, lay["cwd"])
    if mode == "dot":
        rel = rel.replace("/", "/./", 1) if "/" in rel else "./" + rel
        if not rel.startswith("."):
            rel = "./" + rel
    return rel


def letter_of(path, strict=False):
    L = _REV.get(os.path.realpath(path))
    if L or strict:
        return L
    return "?" if _REV else os.path.basename(path)[:1]


def ext_letter(linkfile, filename):
    """which file an external link names, resolved the way HDF5 does (absolute; else relative to the directory of
    the file holding the link; else relative to the working directory) - independent of the code under test"""
    if os.path.isabs(filename):
        cands = [filename]
    else:
        cands = [os.path.join(os.path.dirname(os.path.abspath(linkfile)), filename), os.path.join(os.getcwd(), filename)]
    for c in cands:
        if os.path.exists(c):
            return letter_of(c)
    for c in cands:
        L = letter_of(c, strict=True)
        if L:
            return L
    return os.path.basename(filename)[:1] if not _REV else "?"


def uri(dirpath, f, p, slash=True, amode=None):
    fn = faddr(dirpath, f, amode)
    cs = comps(p)
    if not cs:
        return fn if slash else fn + "::/"
    return fn + "::" + ("/" if slash else "") + "/".join(cs)


def call_creator(u, op):
    """create the collection of stamp k at u through one of the creators, asking for append / write mode through
    `mode=` or through the deprecated alias `append=` (or not at all: the documented default is write mode)"""
    import cooler
    from cooler.create import create, create_from_unordered
    via, how = op.get("via", "create_cooler"), op.get("how", "mode")
    if op["mode"] == "a":
        kw = {"append": True} if how == "append" and via in ("create", "unordered") else {"mode": "a"}
    else:
        kw = {"append": False} if how == "append" and via in ("create", "unordered") else ({} if how == "default" else {"mode": "w"})
    df = pixels_df(op["k"])
    chunks = [df.iloc[[i]] for i in reversed(range(len(df)))]          # unsorted one-row chunks
    if via == "create":
        return create(u, bins_df(), df, **kw)
    if via == "unordered":
        return create_from_unordered(u, bins_df(), iter(chunks), **kw)
    if via == "cc_unordered":
        return cooler.create_cooler(u, bins_df(), iter(chunks), ordered=False, **kw)
    return cooler.create_cooler(u, bins_df(), df, **kw)


def apply_op(dirpath, op):
    """execute one operation of a history on the real code; returns the outcome enum"""
    import cooler
    from cooler import fileops
    if op["op"] == "create":
        u = uri(dirpath, op["f"], op["p"], op.get("s1", True), op.get("a1"))
        return guarded(call_creator, u, op)[0]
    if op["op"] == "setattr":
        def _set():
            with h5py.File(fpath(dirpath, op["f"]), "r+") as h:
                h[pstr(comps(op["p"]))].attrs[op["key"]] = op["val"]
        return guarded(_set)[0]
    su = uri(dirpath, op["sf"], op["sp"], op.get("s1", True), op.get("a1"))
    du = uri(dirpath, op["df"], op["dp"], op.get("s2", True), op.get("a2"))
    ow = bool(op.get("ow", False))
    if op.get("via") == "cli":
        from click.testing import CliRunner
        from cooler.cli import cli
        args = {"cp": ["cp"], "mv": ["mv"], "ln": ["ln"], "lns": ["ln", "-s"]}[op["op"]] + (["-w"] if ow else []) + [su, du]

        def _cli():
            r = CliRunner().invoke(cli, args)
            if r.exit_code != 0:
                if r.exception is not None and not isinstance(r.exception, SystemExit):
                    raise r.exception
                raise RuntimeError(f"cli exit {r.exit_code}")
        return guarded(_cli)[0]
    if op["op"] == "cp":
        return guarded(fileops.cp, su, du, overwrite=ow)[0]
    if op["op"] == "mv":
        return guarded(fileops.mv, su, du, overwrite=ow)[0]
    if op["op"] == "ln":
        return guarded(fileops.ln, su, du, overwrite=ow)[0]
    if op["op"] == "lns":
        return guarded(fileops.ln, su, du, soft=True, overwrite=ow)[0]
    if op["op"] == "_copy":
        l, r, s = op_flags(op)
        return guarded(fileops._copy, su, du, ow, l, r, s)[0]
    raise ValueError(op["op"])


# ------------------------------------------------------------------ raw observation (h5py only)
def _payload(ds):
    en = h5py.check_enum_dtype(ds.dtype)
    vals = ds[()] if ds.shape == () else ds[:]
    if en is not None:
        names = [n for n, _ in sorted(en.items(), key=lambda kv: kv[1])]
        return ["E", names, [int(x) for x in vals]]
    if ds.dtype.kind in "SOU":
        return ["S", [x.decode() if isinstance(x, bytes) else str(x) for x in vals]]
    if ds.dtype.kind in "iu":
        return ["I", [int(x) for x in vals]]
    return ["F", [float(x) for x in vals]]


def _attrs(o):
    out = []
    for k in sorted(o.attrs.keys(), key=lambda s: s.encode()):
        if k in VOLATILE_ATTRS:
            continue
        v = o.attrs[k]
        if isinstance(v, (np.integer, int)) and not isinstance(v, (bool, np.bool_)):
            out.append([k, ["I", int(v)]])
        else:
            out.append([k, ["S", v.decode() if isinstance(v, bytes) else str(v)]])
    return out


def _ident(o):
    return (letter_of(o.file.filename), int(h5py.h5o.get_info(o.id).addr))


def raw_dump(dirpath, f, depth):
    return raw_dump_file(fpath(dirpath, f), depth)


def raw_dump_file(fn, depth):
    """DFS over hard links only (links listed in byte order), soft/external links as leaves"""
    if not os.path.exists(fn):
        return None
    out = []
    with h5py.File(fn, "r") as h:
        out.append([[], ["G", _ident(h), _attrs(h)]])

        def rec(g, pre, d):
            if d == 0:
                return
            for k in sorted(g.keys(), key=lambda s: s.encode()):
                l = g.get(k, getlink=True)
                p = pre + [k]
                if isinstance(l, h5py.SoftLink):
                    out.append([p, ["S", comps(l.path)]])
                elif isinstance(l, h5py.ExternalLink):
                    out.append([p, ["X", ext_letter(fn, l.filename), comps(l.path)]])
                else:
                    o = g[k]
                    if isinstance(o, h5py.Group):
                        out.append([p, ["G", _ident(o), _attrs(o)]])
                        rec(o, p, d - 1)
                    else:
                        out.append([p, ["D", _ident(o), _payload(o)]])
        rec(h, [], depth)
    return out


def canon_dump(entries):
    """rename object identities by first occurrence"""
    if entries is None:
        return None
    ids = {}
    out = []
    for p, e in entries:
        if e[0] in ("G", "D"):
            i = ids.setdefault(tuple(e[1]) if isinstance(e[1], (list, tuple)) else e[1], len(ids))
            out.append([list(p), [e[0], i, e[2]]])
        else:
            out.append([list(p), list(e)])
    return out


def model_dump(val):
    """parsed Coq value of dump_file -> same shape as raw_dump"""
    if val is None:
        return None
    assert val[0] == "Some"
    out = []
    for p, e in val[1]:
        tag = e[1]
        if tag == "DG":
            out.append([list(p), ["G", e[2], [[k, model_aval(v)] for k, v in e[3]]]])
        elif tag == "DD":
            out.append([list(p), ["D", e[2], model_payload(e[3])]])
        elif tag == "DS":
            out.append([list(p), ["S", list(e[2])]])
        elif tag == "DE":
            out.append([list(p), ["X", "A" if e[2] == ("C", "FA") else "B", list(e[3])]])
        else:
            out.append([list(p), ["?"]])
    return out


def model_aval(v):
    return ["I", v[2]] if v[1] == "AInt" else ["S", v[2]]


def model_payload(v):
    if v[1] == "PInts":
        return ["I", list(v[2])]
    if v[1] == "PStrs":
        return ["S", list(v[2])]
    return ["E", list(v[2]), list(v[3])]


def model_outcome(v):
    return v[1] if isinstance(v, tuple) and v[0] == "C" else str(v)


def model_tri(v):
    if v == ("C", "TTrue"):
        return True
    if v == ("C", "TFalse"):
        return False
    return model_outcome(v[2])


# ------------------------------------------------------------------ independent path resolution (oracle)
class RawWorld:
    """read-only view of the two files through h5py's *link-level* API; resolution of a path is
    re-implemented here component by component so that the slots it passes are known"""

    def __init__(self, dirpath):
        self.dir = dirpath
        self.h = {}
        for f in FILES:
            fn = fpath(dirpath, f)
            if os.path.exists(fn) and h5py.is_hdf5(fn):
                self.h[f] = h5py.File(fn, "r")

    def close(self):
        for h in self.h.values():
            try:
                h.close()
            except Exception:
                pass

    def ident(self, f, o):
        return (f, int(h5py.h5o.get_info(o.id).addr))

    def walk(self, f, p, budget=64):
        """returns (status, file, object, slots); status in ok/missing/loop; slots = set of
        (file, group address, name) looked up on the way"""
        slots = set()
        self.last_sym = False          # did the traversal cross a soft or external link?
        if f not in self.h:
            return "missing", None, None, slots
        cur_f, cur = f, self.h[f]["/"]
        slots.add((f, -1, ""))                      # marker: the traversal is inside file f
        todo = list(comps(p) if isinstance(p, str) else p)
        while todo:
            if budget == 0:
                return "loop", None, None, slots
            budget -= 1
            c = todo.pop(0)
            if not isinstance(cur, h5py.Group):
                return "missing", None, None, slots
            slots.add(self.ident(cur_f, cur) + (c,))
            l = cur.get(c, getlink=True)
            if l is None:
                return "missing", None, None, slots
            if isinstance(l, h5py.SoftLink):
                self.last_sym = True
                cur = self.h[cur_f]["/"]
                todo = comps(l.path) + todo
            elif isinstance(l, h5py.ExternalLink):
                self.last_sym = True
                f2 = ext_letter(fpath(self.dir, cur_f), l.filename)
                if f2 not in self.h:
                    return "missing", None, None, slots
                cur_f, cur = f2, self.h[f2]["/"]
                slots.add((f2, -1, ""))
                todo = comps(l.path) + todo
            else:
                cur = cur[c]          # a hard link: one component, opened through its parent
        return "ok", cur_f, cur, slots

    def is_collection(self, f, p):
        st, f1, o, _ = self.walk(f, p)
        if st != "ok":
            return False
        fmt = o.attrs.get("format", None)
        if isinstance(fmt, bytes):
            fmt = fmt.decode()
        return isinstance(fmt, str) and fmt == MAGIC

    def digest(self, f, p):
        """content of the collection at p read with raw h5py (None when p holds no collection)"""
        st, f1, o, slots = self.walk(f, p)
        if st != "ok" or not self.is_collection(f, p) or not isinstance(o, h5py.Group):
            return None
        d = {"attrs": _attrs(o)}
        for t in ("chroms", "bins", "pixels", "indexes"):
            st2, f2, g, _ = self.walk(f, comps(p) + [t] if isinstance(p, str) else list(p) + [t])
            if st2 != "ok" or not isinstance(g, h5py.Group):
                d[t] = None
                continue
            cols = {}
            for c in sorted(g.keys()):
                try:
                    x = g[c]
                    cols[c] = _payload(x) if isinstance(x, h5py.Dataset) else "group"
                except Exception as e:  # noqa: BLE001
                    cols[c] = "unreadable:" + type(e).__name__
            d[t] = cols
        return d

    def graph_flags(self, f, depth=6):
        """predicates over the state used for finding signatures: (cycle, dangling, external)
        for the link graph reachable from the root of file f"""
        flags = {"cycle": False, "dangling": False, "external": False}
        if f not in self.h:
            return flags

        def rec(cf, g, stack, d):
            if d == 0:
                return
            me = self.ident(cf, g)
            for k in g.keys():
                l = g.get(k, getlink=True)
                if isinstance(l, h5py.ExternalLink):
                    flags["external"] = True
                if isinstance(l, (h5py.SoftLink, h5py.ExternalLink)):
                    if isinstance(l, h5py.SoftLink):
                        st, f2, o, _ = self.walk(cf, l.path)
                    else:
                        st, f2, o, _ = self.walk(ext_letter(fpath(self.dir, cf), l.filename), l.path)
                    if st != "ok":
                        flags["dangling"] = True
                        continue
                else:
                    f2, o = cf, g[k]
                if isinstance(o, h5py.Group):
                    oid = self.ident(f2, o)
                    if oid in stack or oid == me:
                        flags["cycle"] = True
                        continue
                    rec(f2, o, stack + [me], d - 1)
        rec(f, self.h[f]["/"], [], depth)
        return flags
