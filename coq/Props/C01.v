(** C01  Create-then-read round trip returns exactly the matrix that was stored.
    Only statements; proofs are in Proofs/CreateProofs.v.  The payload type V of a pixel record is arbitrary
    (count only, or count plus any extra value columns), so every statement holds for every value column. *)
From Cooler Require Import Model.Create Proofs.PixelsProofs Proofs.CreateProofs.
From Coq Require Import Permutation Sorting.Sorted.
From Cooler Require Model.Query Model.Index Proofs.QueryProofs Proofs.IndexProofs Proofs.EndToEnd.

(** write_pixels_concat: the writing loop alone (no validator, empty datasets).  For EVERY chunk list - any sizes, empty
    chunks, no chunk - if no write fails, the stored columns are exactly the concatenation of the chunks, the returned
    nnz is its length and the returned total is the sum of the count column.  (Loop invariant: the first nnz stored
    rows are the concatenation of the chunks consumed so far; each chunk is written at offset nnz after a resize.) *)
Theorem C01_write_pixels_concat :
  forall (V : Type) (dflt : key * V) (fits : key * V -> bool) (count : option (key * V -> Z))
         (maxsize : Z) (chunks : list (list (key * V))) (r : wstate),
  write_pixels dflt fits count (fun c => inr c) maxsize ([], 0, 0) chunks = inr r ->
  r = (concat chunks, zlen (concat chunks), chunk_total count (concat chunks)).
Proof. exact @write_pixels_concat. Qed.
Print Assumptions C01_write_pixels_concat.

(** write_pixels_concat / create_pixels_roundtrip: for EVERY chunk list (any sizes, empty chunks and the empty
    list included), if creation succeeds then the stored columns and the pixel table read back as exactly the
    concatenation of the chunks (each chunk sorted first when ensure_sorted is set), nnz is its length, sum is
    the total of the count column; and every chunk satisfied the enabled checks. *)
Theorem C01_create_pixels_roundtrip :
  forall (V : Type) (dflt : key * V) (fits : key * V -> bool) (count : option (key * V -> Z))
         (n : Z) (su bc tc dc es : bool) (chunks : list (list (key * V))) (c : cool),
  create dflt fits count n su bc tc dc es chunks = inr c ->
  let stream := concat (map (prep es) chunks) in
  c_rows c = stream /\
  read_pixels c = stream /\
  c_nnz c = zlen stream /\
  c_sum c = chunk_total count stream /\
  c_symm c = su /\ c_nbins c = n /\
  Forall (chunk_ok n bc (tc && su) dc) chunks /\
  Forall (fun r => fits r = true) stream /\
  (chunks <> [] -> zlen stream <= max_size n su).
Proof. exact @create_ok_spec. Qed.
Print Assumptions C01_create_pixels_roundtrip.

(** conversely every stream whose chunks pass the checks, whose values fit the output dtypes and that is not
    longer than max_size IS accepted (so the round trip above is not vacuous for any valid input) *)
Theorem C01_create_succeeds :
  forall (V : Type) (dflt : key * V) (fits : key * V -> bool) (count : option (key * V -> Z))
         (n : Z) (su bc tc dc es : bool) (chunks : list (list (key * V))),
  Forall (chunk_ok n bc (tc && su) dc) chunks ->
  Forall (fun r => fits r = true) (concat chunks) ->
  zlen (concat chunks) <= max_size n su ->
  exists c, create dflt fits count n su bc tc dc es chunks = inr c.
Proof. exact @create_succeeds. Qed.
Print Assumptions C01_create_succeeds.

(** non-vacuity: a 3-chunk stream with an empty chunk over 3 bins is created and reads back *)
Example ex_C01_roundtrip :
  let chunks := [[((0,0),[1]); ((0,2),[5])]; []; [((1,1),[7])]] in
  exists c, create ((0,0),[0]) (fun _ => true) (Some (fun r => hd 0 (snd r))) 3 true true true true false chunks = inr c
            /\ read_pixels c = concat chunks /\ c_nnz c = 3 /\ c_sum c = 13.
Proof. vm_compute. eexists. repeat split. Qed.

(** end to end, no vacuity: EVERY strictly sorted, in-range (upper-triangular in symmetric mode) stream whose values
    fit the output dtypes, cut into chunks in ANY way (empty chunks, no chunk at all), is accepted with all default
    checks on - the max_size limit of the datasets can never be hit - and reads back exactly *)
Theorem C01_create_valid_stream :
  forall (V : Type) (dflt : key * V) (fits : key * V -> bool) (count : option (key * V -> Z))
         (n : Z) (su : bool) (chunks : list (list (key * V))),
  0 <= n ->
  let stream := concat chunks in
  StronglySorted klt (map fst stream) ->
  Forall (fun r => 0 <= fst (fst r) < n /\ 0 <= snd (fst r) < n) stream ->
  (su = true -> Forall (fun r => fst (fst r) <= snd (fst r)) stream) ->
  Forall (fun r => fits r = true) stream ->
  exists c, create dflt fits count n su true true true false chunks = inr c /\
            c_rows c = stream /\ read_pixels c = stream /\ c_nnz c = zlen stream /\
            c_sum c = chunk_total count stream /\ c_symm c = su.
Proof. exact @create_valid_stream. Qed.
Print Assumptions C01_create_valid_stream.

(** create_matrix_roundtrip: the full-matrix view.  For every accepted stream (default triangularity check) and
    every value column f, the dense full matrix is the symmetric completion of the input (symmetric-upper) or the
    input itself (square); the sparse view agrees cell by cell; for a strictly sorted stream every key of the
    completion occurs exactly once and nothing else is present.  (The full-window read is defined directly from
    the stored table; that the range-query engine computes it is C03's theorem.) *)
Theorem C01_create_matrix_roundtrip :
  forall (V : Type) (dflt : key * V) (fits : key * V -> bool) (count : option (key * V -> Z))
         (n : Z) (su bc dc : bool) (chunks : list (list (key * V))) (c : cool) (f : V -> Z),
  create dflt fits count n su bc true dc false chunks = inr c ->
  let px := px_of f (concat chunks) in
  let got := px_of f (read_pixels c) in
  (forall i j, dense_full (c_symm c) got i j = if su then symm px i j else look px (i, j)) /\
  (forall i j, look (sparse_full (c_symm c) got) (i, j) = if su then symm px i j else look px (i, j)) /\
  (SSorted px ->
     NoDup (keys (sparse_full (c_symm c) got)) /\
     forall i j, In (i, j) (keys (sparse_full (c_symm c) got)) <->
                 In (i, j) (keys px) \/ (su = true /\ i <> j /\ In (j, i) (keys px))).
Proof. exact @create_matrix_roundtrip. Qed.
Print Assumptions C01_create_matrix_roundtrip.

(** array_loader_spec: for EVERY array and EVERY chunksize >= 1 the concatenation of ArrayLoader's chunks is
    strictly sorted, upper triangular, and holds exactly the non-zero entries on or above the diagonal with
    their values; all ids are in range when the array is square *)
Theorem C01_array_loader_spec : forall (A : list (list Z)) (c : Z), 1 <= c ->
  let out := concat (array_loader A c) in
  SSorted out /\
  (forall i j v, In ((i, j), v) out <->
     0 <= i <= j /\ v <> 0 /\ exists xs, nth_error A (Z.to_nat i) = Some xs /\ nth_error xs (Z.to_nat j) = Some v) /\
  upper_b out = true /\
  (forall n, square n A -> inrange_b n out = true).
Proof. exact array_loader_spec. Qed.
Print Assumptions C01_array_loader_spec.

(** ... and it does not depend on the chunksize at all *)
Theorem C01_array_loader_chunksize_independent : forall A c, 1 <= c ->
  concat (array_loader A c) = triu_entries A.
Proof. exact array_loader_concat. Qed.
Print Assumptions C01_array_loader_chunksize_independent.

(** create_cooler on a frame / dict: the single chunk handed to create is a permutation of the frame, sorted by
    (bin1, bin2); strictly sorted when the frame has no repeated key; the same whatever the row order; and a
    frame that is already sorted is passed through unchanged *)
Theorem C01_frame_sorted : forall (V : Type) (frame : list (key * V)),
  Permutation (sort_rows frame) frame /\ RSorted (sort_rows frame) /\
  (NoDup (map fst frame) -> StronglySorted klt (map fst (sort_rows frame))).
Proof. intros V frame. split; [apply sort_rows_perm|]. split; [apply sort_rows_sorted|apply sort_rows_ssorted]. Qed.
Print Assumptions C01_frame_sorted.

Theorem C01_frame_order_independent : forall (V : Type) (frame frame' : list (key * V)),
  NoDup (map fst frame) -> Permutation frame frame' -> sort_rows frame = sort_rows frame'.
Proof. exact @sort_rows_order_independent. Qed.
Print Assumptions C01_frame_order_independent.

Theorem C01_frame_sorted_unchanged : forall (V : Type) (frame : list (key * V)),
  StronglySorted klt (map fst frame) -> sort_rows frame = frame.
Proof. exact @sort_rows_sorted_id. Qed.
Print Assumptions C01_frame_sorted_unchanged.

(** metadata round trip under the hypothesis that the JSON library round-trips the document;
    assembly: guarded statement, mechanism of the known finding D13, and refutation of the unguarded one *)
Theorem C01_metadata_roundtrip :
  forall (J : Type) (loads : string -> option J) (dumps : J -> string),
  (forall d, loads (dumps d) = Some d) ->
  forall empty_doc d, info_metadata loads dumps empty_doc (Some d) = inl d /\
                      info_metadata loads dumps empty_doc None = inl empty_doc.
Proof. intros J loads dumps H e d. split; [now apply metadata_roundtrip|now apply metadata_default]. Qed.
Print Assumptions C01_metadata_roundtrip.

Theorem C01_assembly_roundtrip_guarded :
  forall (J : Type) (loads : string -> option J) (a : string),
  loads a = None -> info_assembly loads (Some a) = inr a.
Proof. exact @assembly_roundtrip. Qed.
Print Assumptions C01_assembly_roundtrip_guarded.

Theorem C01_assembly_roundtrip_refuted :
  exists a : string, info_assembly json_word (Some a) <> inr a /\ info_assembly json_word (Some a) = inl (JInt 123).
Proof. exact assembly_roundtrip_refuted. Qed.
Print Assumptions C01_assembly_roundtrip_refuted.

(** the guard in syntactic form, for the exact decode rule of word-like strings: a name containing any character
    other than a digit, '-', 'e', 'E' (hg19, mm10, GRCh38, T2T-CHM13v2 ...) and different from true/false/null is
    returned unchanged by info() *)
Theorem C01_assembly_name_safe : forall s : string,
  has_bad s = true -> s <> "true"%string -> s <> "false"%string -> s <> "null"%string ->
  info_assembly json_word (Some s) = inr s.
Proof. exact assembly_name_safe. Qed.
Print Assumptions C01_assembly_name_safe.

(** non-vacuity *)
Example ex_C01_array_loader :
  array_loader [[1;0;2];[3;4;0];[0;5;6]] 2 = [[((0,0),1); ((0,2),2); ((1,1),4)]; [((2,2),6)]] /\
  square 3 [[1;0;2];[3;4;0];[0;5;6]].
Proof. split; [reflexivity|]. split; [reflexivity|]. repeat constructor. Qed.
Example ex_C01_sparse_full :
  sparse_full true [((0,0),1); ((0,2),5)] = [((0,0),1); ((0,2),5); ((2,0),5)] /\
  ssorted_b [((0,0),1); ((0,2),5)] = true /\ upper_b [((0,0),1); ((0,2),5)] = true.
Proof. vm_compute. repeat split. Qed.
Example ex_C01_frame :
  sort_rows [((1,1),3); ((0,2),2); ((0,0),1)] = [((0,0),1); ((0,2),2); ((1,1),3)].
Proof. reflexivity. Qed.
Example ex_C01_safe_names :
  map has_bad ["hg19"; "mm10"; "T2T-CHM13v2"; "123"; "1e5"; "-7"]%string = [true; true; true; false; false; false].
Proof. reflexivity. Qed.
Example ex_C01_words :
  map json_word ["123"; "-0"; "0123"; "1e5"; "true"; "null"; "hg19"; "NaN"; "e5"]%string =
  [Some (JInt 123); Some (JInt 0); None; Some JFloatLit; Some (JBool true); Some JNull; None; None; None].
Proof. reflexivity. Qed.

(** integration with C02 and C03: creating a collection from a sorted, in-range, upper-triangular stream (index written by
    the modelled index_pixels) and reading it back THROUGH THE MODEL OF THE QUERY ENGINE (get_spans with any chunk size,
    the fill-lower plan, the reader) gives, for every window, the stored records resp. the sub-block of the symmetric
    completion of the input, each coordinate once.  (Proofs/EndToEnd.v; uses C02_create_valid and the C03 theorems.) *)
Theorem C01_create_then_query_through_engine : forall n_chroms chroms (px : list Pixels.pixel) cs i0 i1 j0 j1,
  0 <= n_chroms -> IndexProofs.NonDecr chroms -> (forall x, In x chroms -> 0 <= x < n_chroms) ->
  SSorted px ->
  (forall p, In p px -> 0 <= Pixels.row p < zlen chroms /\ 0 <= Pixels.col p < zlen chroms) ->
  (forall p, In p px -> Pixels.row p <= Pixels.col p) ->
  1 <= cs -> 0 <= i0 -> i0 <= i1 -> i1 <= zlen chroms -> 0 <= j0 -> j0 <= j1 -> j1 <= zlen chroms ->
  exists c, Index.create_model n_chroms chroms px true = Some c /\ Index.pixels_of c = px /\
    Query.direct_query (Query.epx_of px) (Index.bin1_offset c) (Query.get_spans (Index.bin1_offset c) cs) (i0, i1, j0, j1)
      = filter (fun r => QueryProofs.in_window (i0, i1, j0, j1) (snd r)) (Query.epx_of px) /\
    exists out, Query.fill_lower_query (Query.epx_of px) (Index.bin1_offset c) (Query.get_spans (Index.bin1_offset c) cs) (i0, i1, j0, j1) = Some out /\
      NoDup (Pixels.keys (map snd out)) /\
      Query.dense_of out (i0, i1, j0, j1) =
      map (fun i => map (fun j => Pixels.symm px i j) (zrange j0 (Z.to_nat (j1 - j0)))) (zrange i0 (Z.to_nat (i1 - i0))).
Proof. exact EndToEnd.create_then_query. Qed.
Print Assumptions C01_create_then_query_through_engine.

(** ---- tie to the source: the fit check and the store statements of write_pixels and the validator chaining of
    create() are pinned in the source on every run (tools/py2v.py; the constants exist only if the statements are
    unchanged), and the per-record predicates of the validator are translated (see Props/C13.v). *)
From Cooler Require Import Gen.Translated Proofs.GenBridgeCreate.
Theorem C01_source_pins : Gen.validate_pixels_source_pins = true /\ Gen.create_write_source_pins = true.
Proof. exact gen_validate_pins. Qed.
Print Assumptions C01_source_pins.

(** the deprecated `dtype=` spelling of `dtypes=` is resolved in one place and the resolved mapping is what the creators use: pinned
    in the source on every run (tools/py2v.py) *)
Theorem C01_dtypes_alias_source_pins : Gen.dtypes_alias_source_pins = true.
Proof. reflexivity. Qed.
Print Assumptions C01_dtypes_alias_source_pins.
