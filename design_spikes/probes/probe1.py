import warnings; warnings.filterwarnings("ignore")
import numpy as np, pandas as pd, cooler, h5py, os
from cooler.util import parse_humanized, parse_region_string, get_binsize, binnify
# C19: parse_humanized exactness
bad=[]
from fractions import Fraction
import itertools
for unit,mul in (("k",1000),("M",10**6),("G",10**9)):
    for a in range(0,30):
        for dec in range(0,1000):
            s=f"{a}.{dec:03d}"
            exact=Fraction(s)*mul
            if exact.denominator!=1: continue
            got=parse_humanized(s+unit)
            if got!=int(exact): bad.append((s+unit,got,int(exact)))
print("C19 inexact:",len(bad),bad[:8])
# C20 get_binsize with longer last bin
bins=pd.DataFrame({"chrom":["a"]*3+["b"]*2,"start":[0,10,20,0,10],"end":[10,20,35,10,20]})
print("C20 get_binsize longer last:",get_binsize(bins))
bins2=pd.DataFrame({"chrom":["a"]*3+["b"]*1,"start":[0,10,20,0],"end":[10,20,30,50]})
print("C20 get_binsize one-bin chrom long:",get_binsize(bins2))
# C04 extent on such a table
px=pd.DataFrame({"bin1_id":[0,1,2,3],"bin2_id":[0,1,2,3],"count":[1,2,3,4]})
cooler.create_cooler("t.cool",bins2,px)
c=cooler.Cooler("t.cool")
print("binsize",c.binsize,"extent b:",c.extent("b"), "extent a:20-30", c.extent(("a",20,30)))
try:
    print(c.matrix(balance=False).fetch("b"))
except Exception as e: print("ERR",type(e),e)
# C15 is_cooler on nonexistent group
try:
    print("is_cooler nonexist:",cooler.fileops.is_cooler("t.cool::/nope"))
except Exception as e: print("C15 ERR",type(e),e)
print("is_cooler nonexist file:",cooler.fileops.is_cooler("nofile.cool"))
