"""C02 helpers: the re-deriving validator (property oracle, raw h5py only), the recipe
runner that drives every producing operation of the real code, and recipe generators.

A *recipe* is a JSON list of steps; every step writes one file (or appends a collection to
one) inside a scratch directory.  All inputs are explicit in the recipe, so a recorded case
replays without a seed.
"""
from __future__ import annotations

import os
import signal
from contextlib import contextmanager

import h5py
import numpy as np
import pandas as pd

from gen_bins import blocks_from_widths, names_for, table_from_blocks

# --------------------------------------------------------------------- oracle


def find_collections(path, marked_only=False):
    """every group of the file that carries the format attribute HDF5::Cooler (written last by
    write_info) or — unless marked_only, which is used after a producer crashed or timed out and
    may have left a half-written group behind — holds a pixels group.  Found by walking the HDF5
    tree directly, not through cooler.fileops"""
    out = []
    with h5py.File(path, "r") as f:
        def is_coll(g):
            if not isinstance(g, h5py.Group):
                return False
            fmt = g.attrs.get("format", None)
            if isinstance(fmt, bytes):
                fmt = fmt.decode()
            if fmt == "HDF5::Cooler":
                return True
            return (not marked_only) and "pixels" in g and isinstance(g["pixels"], h5py.Group)
        if is_coll(f):
            out.append("/")

        def visit(name, obj):
            if is_coll(obj):
                out.append("/" + name)
        f.visititems(visit)
    return sorted(out)


def read_raw(path, group):
    """raw datasets and attributes of one collection as python ints/lists"""
    with h5py.File(path, "r") as f:
        g = f[group]
        raw = {"attrs": {}}
        for k, v in g.attrs.items():
            if isinstance(v, (np.integer,)):
                v = int(v)
            elif isinstance(v, (np.floating,)):
                v = float(v)
            elif isinstance(v, bytes):
                v = v.decode()
            elif isinstance(v, np.ndarray):
                v = v.tolist()
            raw["attrs"][k] = v
        raw["missing"] = [k for k in ("pixels", "bins", "chroms", "indexes") if k not in g or not isinstance(g[k], h5py.Group)]

        def grp(name):
            return g[name] if name not in raw["missing"] else {}
        raw["pixels"] = {k: grp("pixels")[k][:] for k in grp("pixels").keys()}
        raw["bins"] = {k: grp("bins")[k][:] for k in ("chrom", "start", "end") if k in grp("bins")}
        raw["chroms"] = {k: grp("chroms")[k][:] for k in ("name", "length") if k in grp("chroms")}
        raw["indexes"] = {k: grp("indexes")[k][:] for k in grp("indexes").keys()}
    return raw


def count_below(col, n):
    """[#{k | col[k] < b} for b in 0..n] by plain counting (no sortedness assumed)"""
    col = np.asarray(col, dtype=np.int64)
    if n + 1 <= 0:
        return []
    if len(col) * (n + 1) <= 4_000_000:
        return [int((col < b).sum()) for b in range(n + 1)]
    srt = np.sort(col)
    return [int(x) for x in np.searchsorted(srt, np.arange(n + 1), side="left")]


def ideal_fixed(blocks, b):
    for blk in blocks:
        L = blk[-1][1]
        for k, (s, e) in enumerate(blk):
            if s != k * b or e != min((k + 1) * b, L):
                return False
    return True


def validate_raw(raw):
    """The property oracle.  Returns a list of (class, message); empty = structurally valid.
    Classes: length, order, range, triu, bin1_offset, chrom_offset, attr, bins."""
    errs = []
    A = raw["attrs"]
    px = raw["pixels"]
    for name in raw.get("missing", []):
        errs.append(("attr", f"group {name} missing"))
    if errs:
        return errs
    for key in ("nnz", "nbins", "nchroms", "bin-type", "bin-size", "storage-mode"):
        if key not in A:
            errs.append(("attr", f"attribute {key} missing"))
    if errs:
        return errs
    nnz, nbins, nchroms = A["nnz"], A["nbins"], A["nchroms"]
    for col in ("bin1_id", "bin2_id"):
        if col not in px:
            errs.append(("length", f"pixel column {col} missing"))
    if errs:
        return errs
    for col, arr in px.items():
        if len(arr) != nnz:
            errs.append(("length", f"pixels/{col} has length {len(arr)} but nnz = {nnz}"))
    b1 = np.asarray(px["bin1_id"], dtype=np.int64)
    b2 = np.asarray(px["bin2_id"], dtype=np.int64)
    m = min(len(b1), len(b2))
    b1c, b2c = b1[:m], b2[:m]
    if m > 1:
        ok = (b1c[:-1] < b1c[1:]) | ((b1c[:-1] == b1c[1:]) & (b2c[:-1] < b2c[1:]))
        if not ok.all():
            k = int(np.flatnonzero(~ok)[0])
            errs.append(("order", f"pixels {k},{k+1} not strictly increasing: ({b1c[k]},{b2c[k]}) then ({b1c[k+1]},{b2c[k+1]})"))
    for nm, arr in (("bin1_id", b1), ("bin2_id", b2)):
        if len(arr) and (arr.min() < 0 or arr.max() >= nbins):
            errs.append(("range", f"{nm} outside [0,{nbins}): min {arr.min()} max {arr.max()}"))
    mode = A["storage-mode"]
    if mode not in ("symmetric-upper", "square"):
        errs.append(("attr", f"storage-mode {mode!r}"))
    if mode == "symmetric-upper" and m and (b1c > b2c).any():
        errs.append(("triu", "bin1_id > bin2_id in symmetric-upper mode"))
    # indexes re-derived by counting
    off = [int(x) for x in raw["indexes"].get("bin1_offset", [])]
    exp = count_below(b1, nbins)
    if off != exp:
        errs.append(("bin1_offset", f"stored {off[:12]}.. expected {exp[:12]}.."))
    # bins table
    bt = raw["bins"]
    if not all(k in bt for k in ("chrom", "start", "end")):
        errs.append(("bins", "bins/chrom,start,end missing"))
        return errs
    chrom = np.asarray(bt["chrom"], dtype=np.int64)
    for k in ("chrom", "start", "end"):
        if len(bt[k]) != nbins:
            errs.append(("attr", f"nbins = {nbins} but bins/{k} has {len(bt[k])} rows"))
    if len(chrom) and (chrom.min() < 0 or chrom.max() >= nchroms):
        errs.append(("bins", f"bins/chrom ids outside [0,{nchroms})"))
    if len(chrom) > 1 and (chrom[:-1] > chrom[1:]).any():
        errs.append(("bins", "bins/chrom not non-decreasing"))
    coff = [int(x) for x in raw["indexes"].get("chrom_offset", [])]
    cexp = count_below(chrom, nchroms)
    if coff != cexp:
        errs.append(("chrom_offset", f"stored {coff} expected {cexp}"))
    ch = raw["chroms"]
    if "name" not in ch or "length" not in ch or len(ch["name"]) != nchroms or len(ch["length"]) != nchroms:
        errs.append(("attr", f"nchroms = {nchroms} but chroms table has {len(ch.get('name', []))} names"))
    # sum
    if "count" in px:
        cnt = px["count"]
        if np.issubdtype(cnt.dtype, np.integer):
            tot = int(cnt.astype(object).sum()) if len(cnt) else 0
            if "sum" not in A or int(A["sum"]) != tot or float(A["sum"]) != float(tot):
                errs.append(("attr", f"sum attr {A.get('sum')} but count column sums to {tot}"))
        elif np.issubdtype(cnt.dtype, np.floating):
            # float counts: exact float64 sum of the stored values (math.fsum); the recipes use values that
            # are multiples of 1/4 of moderate size, for which every partial sum in any order is exact, so
            # the tolerance only has to absorb nothing at all — 1e-9 relative is far below the 0.25 a
            # truncation of one fractional value costs
            import math
            tot = math.fsum(float(x) for x in cnt)
            got = A.get("sum")
            if got is None or isinstance(got, str) or abs(float(got) - tot) > 1e-9 * max(1.0, abs(tot)):
                errs.append(("attr", f"sum attr {got!r} but the float count column sums to {tot!r}"))
    # bin type / bin size against the table
    if not errs or all(c not in ("bins",) for c, _ in errs):
        starts = [int(x) for x in bt["start"]]
        ends = [int(x) for x in bt["end"]]
        blocks = []
        for cid in range(nchroms):
            blk = [(s, e) for c, s, e in zip(chrom.tolist(), starts, ends) if c == cid]
            if blk:
                blocks.append(blk)
        btype, bsize = A["bin-type"], A["bin-size"]
        multi = [blk for blk in blocks if len(blk) >= 2]
        if btype == "fixed":
            if not isinstance(bsize, int) or bsize < 1 or not ideal_fixed(blocks, bsize):
                errs.append(("attr", f"bin-type fixed, bin-size {bsize!r} but the bin table is not the {bsize}-tiling"))
        elif btype == "variable":
            if bsize != "null":
                errs.append(("attr", f"bin-type variable but bin-size {bsize!r}"))
            if multi:
                b = multi[0][0][1] - multi[0][0][0]
                if b >= 1 and ideal_fixed(blocks, b):
                    errs.append(("attr", f"bin-type variable but the bin table is the fixed {b}-tiling"))
        else:
            errs.append(("attr", f"bin-type {btype!r}"))
        # chromosome lengths = end of the last bin
        if "length" in ch and len(ch["length"]) == len(blocks):
            if [int(x) for x in ch["length"]] != [blk[-1][1] for blk in blocks]:
                errs.append(("attr", "chroms/length differs from the end of each chromosome's last bin"))
    return errs


# ----------------------------------------------------------------- time limit
class Timeout(Exception):
    pass


@contextmanager
def time_limit(seconds):
    def handler(signum, frame):
        raise Timeout()
    old = signal.signal(signal.SIGALRM, handler)
    signal.alarm(int(seconds))
    try:
        yield
    finally:
        signal.alarm(0)
        signal.signal(signal.SIGALRM, old)


# -------------------------------------------------------------- recipe runner
def extra_value(b1, b2):
    """deterministic value of the extra pixel column "w" used by the `columns` recipes"""
    return b1 * 7 + b2 + 1


def _frame(recs, extra=False, count_dtype=None):
    """pixel frame from [bin1, bin2, value] records; the count column gets the requested numpy dtype
    (values in the recipe are always representable in it), int64 / float64 otherwise"""
    b1 = np.array([r[0] for r in recs], dtype=np.int64)
    b2 = np.array([r[1] for r in recs], dtype=np.int64)
    vals = [r[2] for r in recs]
    if count_dtype is None:
        count_dtype = np.float64 if any(isinstance(v, float) for v in vals) else np.int64
    df = pd.DataFrame({"bin1_id": b1, "bin2_id": b2, "count": np.array(vals, dtype=count_dtype)})
    if extra:
        df["w"] = extra_value(b1, b2)
    return df


def _count_dtype(step):
    dt = ((step.get("opts") or {}).get("dtypes") or {}).get("count")
    return np.dtype(dt) if dt else None


def _opts(step):
    """extra keyword options of a producer, as stored (JSON) in the recipe"""
    o = dict(step.get("opts") or {})
    if "h5opts" in o:
        h = dict(o["h5opts"])
        if isinstance(h.get("chunks"), list):
            h["chunks"] = tuple(h["chunks"])
        o["h5opts"] = h
    return o


def _bins(widths):
    return table_from_blocks(blocks_from_widths(widths), categorical=False)


def _uri(d, step):
    p = os.path.join(d, step["out"])
    g = step.get("group") or ""
    return p + ("::" + g if g else "")


def _src_uri(d, ref):
    f, g = ref
    return os.path.join(d, f) + ("::" + g if g and g != "/" else "")


def run_step(d, step):
    """execute one producing operation of the real code"""
    import cooler
    from cooler.create import create_cooler, create_scool
    op = step["op"]
    if op == "create":
        bins = _bins(step["widths"])
        kind = step["input"]
        chunks = step["chunks"]
        kw = dict(symmetric_upper=step["symm"], mode="a" if step.get("append") else "w")
        if not step["symm"]:
            kw["triucheck"] = False
        kw.update(_opts(step))
        extra = "w" in (kw.get("columns") or [])
        frames = [_frame(c, extra, _count_dtype(step)) for c in chunks]
        if kind == "frame":
            create_cooler(_uri(d, step), bins, frames[0], **kw)
        elif kind == "dict":
            fr = frames[0]
            create_cooler(_uri(d, step), bins, {k: fr[k].values for k in fr.columns}, **kw)
        elif kind == "ordered":
            es = bool(step.get("ensure_sorted", False))
            if step.get("api") == "create":
                from cooler.create import create
                create(_uri(d, step), bins, iter(frames), ensure_sorted=es, **kw)
            else:
                create_cooler(_uri(d, step), bins, iter(frames), ordered=True, ensure_sorted=es, **kw)
        elif kind == "unordered":
            create_cooler(_uri(d, step), bins, iter(frames), ordered=False,
                          mergebuf=step.get("mergebuf", 20_000_000), max_merge=step.get("max_merge", 200),
                          ensure_sorted=bool(step.get("ensure_sorted", False)), **kw)
        else:
            raise AssertionError(kind)
    elif op in ("load", "cload"):
        from click.testing import CliRunner
        from cooler.cli import cli
        runner = CliRunner()
        tag = step["out"].replace(".", "_") + "_" + (step.get("group") or "r").replace("/", "_")
        if "chromsizes" in step:
            names = names_for(len(step["chromsizes"]))
            cs = os.path.join(d, f"cs_{tag}.tsv")
            with open(cs, "w") as fh:
                fh.write("".join(f"{n}\t{L}\n" for n, L in zip(names, step["chromsizes"])))
            binarg = f"{cs}:{step['binsize']}"
        else:
            blocks = blocks_from_widths(step["widths"])
            names = names_for(len(blocks))
            bed = os.path.join(d, f"bins_{tag}.bed")
            with open(bed, "w") as fh:
                fh.write("".join(f"{names[c]}\t{s}\t{e}\n" for blk in blocks for (c, s, e) in blk))
            binarg = bed
        txt = os.path.join(d, f"in_{tag}.txt")
        with open(txt, "w") as fh:
            for ln in step["lines"]:
                fh.write("\t".join(str(x) for x in ln) + "\n")
        if op == "load":
            args = ["load", "-f", step["format"], "--chunksize", str(step["chunksize"])]
            if step.get("one_based"):
                args.append("--one-based")
            if step.get("count_as_float"):
                args.append("--count-as-float")
            if not step["symm"]:
                args.append("-N")
            else:
                args += ["--input-copy-status", step.get("copy_status", "unique")]
        else:
            args = ["cload", "pairs", "-c1", "1", "-p1", "2", "-c2", "3", "-p2", "4", "--chunksize", str(step["chunksize"])]
            if step.get("zero_based"):
                args.append("--zero-based")
            if not step["symm"]:
                args.append("-N")
        if step.get("mergebuf"):
            args += ["--mergebuf", str(step["mergebuf"])]
        if step.get("max_merge"):
            args += ["--max-merge", str(step["max_merge"])]
        if step.get("append"):
            args.append("--append")
        args += [binarg, txt, _uri(d, step)]
        res = runner.invoke(cli, args)
        if res.exit_code != 0:
            raise RuntimeError(f"cli exit {res.exit_code}: {res.exception!r} {str(res.output)[-300:]}")
    elif op == "merge":
        kw = {"mode": "a"} if step.get("append") else {}
        kw.update(_opts(step))
        cooler.merge_coolers(_uri(d, step), [_src_uri(d, r) for r in step["inputs"]], mergebuf=step["mergebuf"], **kw)
    elif op == "coarsen":
        kw = {}
        if step.get("append") is False:
            kw["mode"] = "w"
        kw.update(_opts(step))
        cooler.coarsen_cooler(_src_uri(d, step["in"]), _uri(d, step), step["factor"], chunksize=step["chunksize"],
                              nproc=step.get("nproc", 1), **kw)
    elif op == "zoomify":
        cooler.zoomify_cooler([_src_uri(d, r) for r in step["inputs"]], os.path.join(d, step["out"]),
                              step["resolutions"], chunksize=step["chunksize"], nproc=step.get("nproc", 1), **_opts(step))
    elif op == "binner":
        run_binner(d, step)
    elif op == "scool":
        bins = _bins(step["widths"])
        cells = {k: _frame(v, False, _count_dtype(step)) for k, v in step["cells"].items()}
        kw = dict(symmetric_upper=step["symm"])
        if not step["symm"]:
            kw["triucheck"] = False
        kw.update(_opts(step))
        if "ensure_sorted" in step:
            kw["ensure_sorted"] = bool(step["ensure_sorted"])
        create_scool(os.path.join(d, step["out"]), bins, cells, ordered=True, **kw)
    else:
        raise AssertionError(op)


ABSENT = "chrZZ"      # a contig name that never occurs in a bin table of the recipes


def bin_of(blocks, c, p):
    """id of the bin of chromosome c that contains the zero-based position p"""
    off = sum(len(b) for b in blocks[:c])
    for k, (_, s_, e) in enumerate(blocks[c]):
        if s_ <= p < e:
            return off + k
    raise ValueError((c, p))


def binner_expected(step):
    """the counting model of every contact binner: one count per contact in the pixel (bin of side 1, bin of
    side 2), reflected into the upper triangle; returned sorted by (bin1, bin2)"""
    blocks = blocks_from_widths(step["widths"])
    acc = {}
    for c1, p1, c2, p2 in step["pairs"]:
        if c1 < 0 or c2 < 0:
            continue          # a mate on a contig that is absent from the bin table: the record is dropped
        a, b_ = bin_of(blocks, c1, p1), bin_of(blocks, c2, p2)
        k = (min(a, b_), max(a, b_))
        acc[k] = acc.get(k, 0) + 1
    return [[a, b_, v] for (a, b_), v in sorted(acc.items())]


def run_binner(d, step):
    """the contact binners / loaders exported by cooler.create: HDF5Aggregator (hiclib contact list),
    TabixAggregator, ArrayLoader, the sanitize_records+aggregate_records and sanitize_pixels pipelines fed to
    create_from_unordered; optionally followed by create.append (extra columns) and rename_chroms"""
    import cooler
    from cooler.create import (ArrayLoader, HDF5Aggregator, TabixAggregator, aggregate_records, append, create,
                               create_cooler, create_from_unordered, rename_chroms, sanitize_pixels, sanitize_records)
    blocks = blocks_from_widths(step["widths"])
    names = names_for(len(blocks)) + [ABSENT]       # names[-1] = a contig that is not in the bin table
    bins = table_from_blocks(blocks, categorical=False)
    cs = pd.Series([blk[-1][2] for blk in blocks], index=names[:-1], dtype=np.int64)
    uri = _uri(d, step)
    kind = step["kind"]
    pairs = step["pairs"]
    tag = step["out"].replace(".", "_")

    def write_h5():
        path = os.path.join(d, f"pairs_{tag}.h5")
        with h5py.File(path, "w") as f:
            for j, nm in enumerate(("chrms1", "cuts1", "chrms2", "cuts2")):
                f[nm] = np.array([p[j] for p in pairs], dtype=np.int32)
        return path

    def make(it):
        if step.get("api") == "create_cooler":
            create_cooler(uri, bins, it, ordered=True)
        else:
            create(uri, bins, it)

    if kind == "hdf5":
        with h5py.File(write_h5(), "r") as f:
            make(HDF5Aggregator(f, cs, bins, step["chunksize"]))
    elif kind == "hiclib_cli":
        from click.testing import CliRunner
        from cooler.cli import cli
        bed = os.path.join(d, f"bins_{tag}.bed")
        with open(bed, "w") as fh:
            fh.write("".join(f"{names[c]}\t{s_}\t{e}\n" for blk in blocks for (c, s_, e) in blk))
        res = CliRunner().invoke(cli, ["cload", "hiclib", "--chunksize", str(step["chunksize"]), bed, write_h5(), uri])
        if res.exit_code != 0:
            raise RuntimeError(f"cli exit {res.exit_code}: {res.exception!r}")
    elif kind == "tabix":
        import pysam
        txt = os.path.join(d, f"pairs_{tag}.txt")
        with open(txt, "w") as fh:
            for c1, p1, c2, p2 in sorted(pairs, key=lambda q: (q[0] if q[0] >= 0 else 10 ** 6, q[1])):
                fh.write(f"r\t{names[c1]}\t{p1 + 1}\t{names[c2]}\t{p2 + 1}\n")
        pysam.tabix_compress(txt, txt + ".gz", force=True)
        pysam.tabix_index(txt + ".gz", seq_col=1, start_col=2, end_col=2, zerobased=False, force=True)
        make(TabixAggregator(txt + ".gz", cs, bins, n_chunks=step["chunksize"], is_one_based=True))
    elif kind == "array":
        n = len(bins)
        A = np.zeros((n, n), dtype=np.int64)
        for a, b_, v in binner_expected(step):
            A[a, b_] = v
            A[b_, a] = v
        make(ArrayLoader(bins, A, chunksize=step["chunksize"]))
    elif kind == "records":
        order = step["order"]
        df = pd.DataFrame([(names[pairs[i][0]], pairs[i][1], names[pairs[i][2]], pairs[i][3]) if not fl else
                           (names[pairs[i][2]], pairs[i][3], names[pairs[i][0]], pairs[i][1])
                           for i, fl in order], columns=["chrom1", "pos1", "chrom2", "pos2"])
        sani = sanitize_records(bins, schema="pairs", decode_chroms=True, is_one_based=False, tril_action="reflect",
                                sort=True, validate=True)
        aggr = aggregate_records(agg={}, count=True, sort=False)
        k = step["chunksize"]
        chunks = [df.iloc[i:i + k].copy() for i in range(0, len(df), k)]
        create_from_unordered(uri, bins, map(lambda ch: aggr(sani(ch)), chunks), mergebuf=step.get("mergebuf", 3),
                              max_merge=step.get("max_merge", 200))
    elif kind == "pixels":
        exp = binner_expected(step)
        rows = [(r[1], r[0], r[2]) if fl else tuple(r) for r, fl in zip([exp[i] for i, _ in step["order"]], [f for _, f in step["order"]])]
        df = pd.DataFrame(rows, columns=["bin1_id", "bin2_id", "count"])
        sani = sanitize_pixels(bins, is_one_based=False, tril_action="reflect", sort=True)
        k = step["chunksize"]
        chunks = [df.iloc[i:i + k].copy() for i in range(0, len(df), k)]
        create_from_unordered(uri, bins, map(sani, chunks), mergebuf=step.get("mergebuf", 3))
    else:
        raise AssertionError(kind)
    for post in step.get("post", []):
        if post == "append":
            nnz = len(cooler.Cooler(uri).pixels())
            append(uri, "pixels", {"extra": np.arange(nnz, dtype=float)})
            append(uri, "bins", {"weight": np.ones(len(bins))})
        elif post == "rename":
            rename_chroms(cooler.Cooler(uri), {names[0]: "renamed" + names[0]})


def gen_binners(rng, thorough=False):
    """recipes for every contact binner / loader exported by cooler.create.  Tables have >= 2 chromosomes
    whose lengths are not multiples of the bin size (fixed) or variable widths; contacts fall on every
    chromosome, several per bin, so that chunk borders of the streaming binners land inside bin1 rows."""
    tables = [[[5, 5, 3], [5, 5, 5, 5, 1]], [[4, 4, 2], [4, 3], [4, 4, 1]], [[5, 5, 3], [4, 9, 2, 6]],
              [[2, 7], [3, 3, 8, 1], [6, 2]]]
    R = []

    def contacts(widths, m):
        blocks = blocks_from_widths(widths)
        L = [blk[-1][2] for blk in blocks]
        out = []
        for _ in range(m):
            c1 = rng.choice(list(range(len(L))) + [len(L) - 1])
            c2 = rng.choice(list(range(len(L))) + [len(L) - 1])
            p1, p2 = rng.randrange(L[c1]), rng.randrange(L[c2])
            if (c1, p1) > (c2, p2):
                c1, p1, c2, p2 = c2, p2, c1, p1
            out.append([c1, p1, c2, p2])
        return sorted(out)

    for ti, widths in enumerate(tables):
        pairs = contacts(widths, rng.randint(35, 60))
        base = {"op": "binner", "out": "b.cool", "group": "", "widths": widths, "symm": True, "pairs": pairs}
        for cs_ in list(range(1, 9)) + [1000]:
            R.append([dict(base, kind="hdf5", chunksize=cs_, api=("create", "create_cooler")[(cs_ + ti) % 2])])
        R.append([dict(base, kind="hiclib_cli", chunksize=rng.choice([2, 3, 5]))] if (thorough or ti % 2 == 1) else
                 [dict(base, kind="hdf5", chunksize=rng.randint(9, 20), api="create")])
        for nch in ((1, 2, 3, 7) if thorough else (1, rng.choice([2, 3, 7]))):
            R.append([dict(base, kind="tabix", chunksize=nch, api=("create", "create_cooler")[nch % 2])])
        for cs_ in ((1, 2, 3, 5, 1000) if thorough else (rng.choice([1, 2]), rng.choice([3, 5, 1000]))):
            R.append([dict(base, kind="array", chunksize=cs_, api=("create", "create_cooler")[cs_ % 2])])
        if not thorough and ti % 2:
            continue
        order = [[i, rng.random() < 0.4] for i in range(len(pairs))]
        rng.shuffle(order)
        R.append([dict(base, kind="records", chunksize=rng.choice([1, 4, 9, 1000]), order=order, mergebuf=rng.choice([1, 3, 100]),
                       max_merge=rng.choice([1, 2, 200]), post=["append", "rename"] if ti % 4 == 0 else [])])
        nexp = len(binner_expected(base))
        order = [[i, rng.random() < 0.4] for i in range(nexp)]
        rng.shuffle(order)
        R.append([dict(base, kind="pixels", chunksize=rng.choice([1, 3, 1000]), order=order, mergebuf=rng.choice([1, 3, 100]),
                       post=["append"] if ti % 4 == 2 else [])])
    return R


def run_recipe(d, recipe, limit=120):
    """run all steps; returns (outcome, files) where outcome is 'ok' or an error label"""
    files = []
    try:
        with time_limit(limit):
            for step in recipe:
                # the target is inspected even when the step fails (only collections that carry the format
                # marker count then): a refused or crashed write must not leave an invalid cooler behind
                if step["out"] not in files:
                    files.append(step["out"])
                run_step(d, step)
        return "ok", files
    except Timeout:
        return "timeout", files
    except Exception as e:  # a crash of a producer is a result, not a harness error
        return f"error:{type(e).__name__}:{str(e)[:160]}", files


# ------------------------------------------------------- known-finding signatures
def d2_input(step):
    """zero-based `cload pairs` with a position equal to its chromosome's length"""
    if step["op"] != "cload" or not step.get("zero_based"):
        return False
    names = names_for(len(step["chromsizes"]))
    L = dict(zip(names, step["chromsizes"]))
    return any(ln[1] == L.get(ln[0]) or ln[3] == L.get(ln[2]) for ln in step["lines"])


def signature_for(recipe, file, group, errs):
    """known-finding signature decided from the *input* (recipe) and the error classes:
    D2 = a zero-based `cload pairs` position equal to its chromosome's length, and the only
    thing wrong with the file is an out-of-range bin id"""
    classes = {c for c, _ in errs}
    if classes <= {"range"} and any(d2_input(st) for st in recipe):
        return "pos-equals-chromlen-zero-based"
    return None


# ------------------------------------------------------------------ generators
def rand_widths(rng, fixed=None, maxchrom=3, maxbins=6):
    nc = rng.randint(1, maxchrom)
    if fixed is None:
        fixed = rng.random() < 0.6
    out = []
    b = rng.choice([1, 2, 5, 10])
    for _ in range(nc):
        n = rng.randint(1, maxbins)
        if fixed:
            ws = [b] * n
            if rng.random() < 0.5 and b > 1:
                ws[-1] = rng.randint(1, b)
        else:
            ws = [rng.randint(1, 12) for _ in range(n)]
        out.append(ws)
    return out


def nbins_of(widths):
    return sum(len(w) for w in widths)


def rand_cells(rng, n, symm, shape=None):
    """a duplicate-free list of matrix cells in one of several shapes; upper-triangular when symm"""
    return sorted(set(_rand_cells(rng, n, symm, shape)))


def _rand_cells(rng, n, symm, shape=None):
    allc = [(i, j) for i in range(n) for j in range(n) if (i <= j or not symm)]
    shape = shape or rng.choice(["sparse", "sparse", "dense", "diag", "row", "lastrow", "empty", "gaprows", "one"])
    if shape == "empty":
        return []
    if shape == "dense":
        return allc
    if shape == "diag":
        return [(i, i) for i in range(n) if rng.random() < 0.8]
    if shape == "row":
        r = rng.randrange(n)
        return [c for c in allc if c[0] == r]
    if shape == "lastrow":
        return [c for c in allc if c[0] == n - 1] + ([(0, n - 1)] if rng.random() < 0.5 else [])
    if shape == "one":
        return [rng.choice(allc)]
    if shape == "gaprows":
        rows = set(rng.sample(range(n), max(1, n // 3)))
        return [c for c in allc if c[0] in rows and rng.random() < 0.7]
    k = rng.randint(1, max(1, min(len(allc), 2 * n)))
    return sorted(rng.sample(allc, k))


def rand_records(rng, cells, big=False):
    hi = 2 ** 20 if big else 9
    return [[i, j, rng.randint(1, hi)] for (i, j) in cells]


def cut_chunks(rng, recs, maxchunks=4, empties=True):
    """split a list into consecutive chunks, possibly with empty ones"""
    k = rng.randint(1, maxchunks)
    cuts = sorted(rng.randint(0, len(recs)) for _ in range(k - 1))
    if not empties:
        cuts = sorted(set(c for c in cuts if 0 < c < len(recs)))
    edges = [0] + cuts + [len(recs)]
    return [recs[a:b] for a, b in zip(edges[:-1], edges[1:])]


def gen_create(rng, out, group="", append=False, widths=None, symm=None, kind=None, shape=None, big=False):
    widths = widths or rand_widths(rng)
    n = nbins_of(widths)
    symm = (rng.random() < 0.7) if symm is None else symm
    kind = kind or rng.choice(["frame", "dict", "ordered", "ordered", "unordered", "unordered"])
    cells = rand_cells(rng, n, symm, shape)
    step = {"op": "create", "out": out, "group": group, "append": append, "widths": widths, "symm": symm, "input": kind}
    if kind in ("frame", "dict"):
        recs = rand_records(rng, cells, big)
        rng.shuffle(recs)
        step["chunks"] = [recs]
    elif kind == "ordered":
        recs = rand_records(rng, sorted(cells), big)
        step["chunks"] = cut_chunks(rng, recs)
    else:
        # records may repeat across chunks; every chunk is duplicate-free and (unless
        # ensure_sorted is requested) internally sorted, as C06's precondition demands
        nch = rng.randint(1, 5)
        ens = rng.random() < 0.3
        chunks = []
        pool = cells or []
        for _ in range(nch):
            if not pool:
                chunks.append([])
                continue
            sub = rng.sample(pool, rng.randint(0, len(pool)))
            recs = rand_records(rng, sorted(sub), big)
            if ens:
                recs = disorder(rng, recs, rng.choice(["shuffle", "cols", "cols"]))
            chunks.append(recs)
        if pool and all(len(c) == 0 for c in chunks):
            chunks[rng.randrange(nch)] = rand_records(rng, sorted(pool), big)
        step["chunks"] = chunks
        step["ensure_sorted"] = ens
        step["mergebuf"] = rng.choice([1, 2, 3, 5, 1000])
        step["max_merge"] = rng.choice([1, 2, 3, 200])
    return step


def row_partition(rng, recs, maxchunks=4):
    """cut a (bin1,bin2)-sorted record list into consecutive chunks at ROW boundaries only (plus
    possibly empty chunks), so that the concatenation of the individually sorted chunks is sorted"""
    rows = sorted({r[0] for r in recs})
    k = rng.randint(1, maxchunks)
    cutrows = sorted(rng.sample(rows, min(len(rows), k - 1))) if rows else []
    chunks, cur = [], []
    ci = 0
    for r in recs:
        while ci < len(cutrows) and r[0] >= cutrows[ci]:
            chunks.append(cur)
            cur = []
            ci += 1
        cur.append(r)
    chunks.append(cur)
    if rng.random() < 0.3:
        chunks.insert(rng.randint(0, len(chunks)), [])
    return chunks


def disorder(rng, chunk, how):
    """(a) 'shuffle': any order; (b) 'cols': rows in order, column ids shuffled inside each row;
    (c) 'sorted': as it is"""
    if how == "shuffle":
        c = list(chunk)
        rng.shuffle(c)
        return c
    if how == "cols":
        out = []
        for row in sorted({r[0] for r in chunk}):
            rr = [r for r in chunk if r[0] == row]
            rng.shuffle(rr)
            out += rr
        return out
    return list(chunk)


def gen_create_ensure_sorted(rng, out, how, api, symm=None, widths=None, shape=None):
    """one-pass creation (ordered=True) with ensure_sorted=True: every chunk is sorted by the validator,
    chunks partition the row range"""
    widths = widths or rand_widths(rng, maxbins=7)
    n = nbins_of(widths)
    symm = (rng.random() < 0.6) if symm is None else symm
    cells = rand_cells(rng, n, symm, shape or rng.choice(["dense", "sparse", "sparse", "gaprows", "row", "lastrow"]))
    recs = rand_records(rng, sorted(cells))
    chunks = [disorder(rng, ch, how) for ch in row_partition(rng, recs)]
    return {"op": "create", "out": out, "group": "", "append": False, "widths": widths, "symm": symm, "input": "ordered",
            "chunks": chunks, "ensure_sorted": True, "api": api, "disorder": how}


def gen_option_grid(rng, thorough=True):
    """The full boolean grid boundscheck x triucheck x dupcheck x ensure_sorted x symmetric_upper for every
    producer that takes these options: create() and create_cooler(ordered=True) on an iterator of chunks,
    create_cooler on a frame, create_cooler(ordered=False) with a small merge buffer, create_scool cells.
    The input always satisfies what the switched-off checks would have checked (in bounds, no duplicate,
    upper triangular in symmetric mode); it is internally UNSORTED exactly when ensure_sorted=True (or when
    the producer sorts by contract: a frame handed to create_cooler) and sorted otherwise, because sorted
    input is the caller's documented obligation when ensure_sorted=False."""
    import itertools
    R = []
    for prod in ("create", "create_cooler_ordered", "frame", "unordered", "scool"):
        for gi, (bc, tc, dc, es, symm) in enumerate(itertools.product([True, False], repeat=5)):
            if not thorough and prod in ("unordered", "scool", "frame") and (gi + bc + tc + dc + es + symm) % 2:
                continue      # quick tier: a half-fraction of the grid for the costlier / order-insensitive producers
            widths = rand_widths(rng, maxchrom=2, maxbins=4)
            n = nbins_of(widths)
            cells = rand_cells(rng, n, symm, rng.choice(["sparse", "dense", "gaprows", "sparse"]))
            if len(cells) < 3 and n >= 2:
                cells = rand_cells(rng, n, symm, "dense")
            recs = rand_records(rng, sorted(cells))
            how = rng.choice(["shuffle", "cols", "cols"]) if es else "sorted"
            opts = {"boundscheck": bc, "triucheck": tc, "dupcheck": dc}
            base = {"out": "g.cool", "group": "", "append": False, "widths": widths, "symm": symm, "opts": opts,
                    "grid": [prod, bc, tc, dc, es, symm]}
            if prod in ("create", "create_cooler_ordered"):
                chunks = [disorder(rng, ch, how) for ch in row_partition(rng, recs, maxchunks=3)]
                st = dict(base, op="create", input="ordered", chunks=chunks, ensure_sorted=es,
                          api="create" if prod == "create" else "create_cooler")
            elif prod == "frame":
                st = dict(base, op="create", input="frame", chunks=[disorder(rng, recs, "shuffle")])
                st["opts"] = dict(opts, ensure_sorted=es)
            elif prod == "unordered":
                k = rng.randint(1, 3)
                chunks = []
                for _ in range(k):
                    sub = sorted(rng.sample(cells, rng.randint(0, len(cells)))) if cells else []
                    chunks.append(disorder(rng, rand_records(rng, sub), how))
                if cells and all(len(c) == 0 for c in chunks):
                    chunks[0] = disorder(rng, recs, how)
                st = dict(base, op="create", input="unordered", chunks=chunks, ensure_sorted=es,
                          mergebuf=rng.choice([1, 2, 3]), max_merge=rng.choice([1, 2, 200]))
            else:
                cellsd = {}
                for name in ("c1", "c2"):
                    sub = sorted(rng.sample(cells, rng.randint(0, len(cells)))) if cells else []
                    cellsd[name] = disorder(rng, rand_records(rng, sub), how)
                st = dict(base, op="scool", out="g.scool", cells=cellsd, ensure_sorted=es)
            R.append([st])
    return R


BAD_KINDS = ("bin1_large", "bin2_large", "bin1_neg", "bin2_neg", "both_large", "both_neg")


def bad_record(rng, n, kind, symm):
    """one record with exactly the named id(s) out of [0, n); the other id is valid"""
    big = rng.choice([n, n + 3])
    neg = rng.choice([-1, -2])
    ok = rng.randrange(n)
    b1, b2 = {"bin1_large": (big, ok), "bin2_large": (ok, big), "bin1_neg": (neg, ok), "bin2_neg": (ok, neg),
              "both_large": (big, big), "both_neg": (neg, neg)}[kind]
    return [b1, b2, rng.randint(1, 9)]


def inject(rng, chunks, rec, where):
    """put the record into the first / a middle / the last non-trivial position of a chunk list"""
    chunks = [list(c) for c in chunks] or [[]]
    k = {"first": 0, "middle": len(chunks) // 2, "last": len(chunks) - 1}[where]
    pos = {"first": 0, "middle": len(chunks[k]) // 2, "last": len(chunks[k])}[where]
    chunks[k].insert(pos, rec)
    return chunks


def gen_invalid_grid(rng, thorough=False):
    """Invalid-input recipes: one out-of-range bin id (each side, too large / negative / both) injected into
    the first, a middle or the last chunk of an otherwise valid stream, for every producer that takes records,
    both storage modes, triucheck on and off, dupcheck / ensure_sorted rotating — always with boundscheck=True.
    The expected outcome is a refusal; whatever is nevertheless written must satisfy the whole schema."""
    import itertools
    R = []
    k = 0
    for prod in ("create", "create_cooler_ordered", "frame", "unordered", "scool"):
        for symm, tc in itertools.product([True, False], repeat=2):
            for kind in BAD_KINDS:
                wheres = ("first", "middle", "last") if thorough else (("first", "middle", "last")[k % 3],)
                for where in wheres:
                    k += 1
                    dc, es = bool(k & 1), bool(k & 2)
                    widths = rand_widths(rng, maxchrom=2, maxbins=4)
                    n = nbins_of(widths)
                    cells = rand_cells(rng, n, symm, rng.choice(["sparse", "dense", "gaprows"]))
                    recs = rand_records(rng, sorted(cells))
                    bad = bad_record(rng, n, kind, symm)
                    how = "cols" if es else "sorted"
                    opts = {"boundscheck": True, "triucheck": tc, "dupcheck": dc}
                    base = {"out": "bad.cool", "group": "", "append": False, "widths": widths, "symm": symm, "opts": opts,
                            "expect": "refuse", "bad": [kind, where, bad]}
                    if prod in ("create", "create_cooler_ordered"):
                        chunks = inject(rng, [disorder(rng, ch, how) for ch in row_partition(rng, recs, maxchunks=3)], bad, where)
                        st = dict(base, op="create", input="ordered", chunks=chunks, ensure_sorted=es,
                                  api="create" if prod == "create" else "create_cooler")
                    elif prod == "frame":
                        st = dict(base, op="create", input="frame", chunks=inject(rng, [disorder(rng, recs, "shuffle")], bad, where))
                    elif prod == "unordered":
                        chunks = [disorder(rng, rand_records(rng, sorted(rng.sample(cells, rng.randint(0, len(cells))))), how)
                                  for _ in range(3)]
                        st = dict(base, op="create", input="unordered", chunks=inject(rng, chunks, bad, where), ensure_sorted=es,
                                  mergebuf=rng.choice([1, 3]), max_merge=rng.choice([1, 200]))
                    else:
                        cl = [disorder(rng, rand_records(rng, sorted(rng.sample(cells, rng.randint(0, len(cells))))), how)
                              for _ in range(3)]
                        cl = inject(rng, cl, bad, where)
                        st = dict(base, op="scool", out="bad.scool", cells={f"c{i}": c for i, c in enumerate(cl)}, ensure_sorted=es)
                    R.append([st])
    # the text loader (COO ids) refuses them too
    for j, kind in enumerate(BAD_KINDS):
        for where in (("first", "middle", "last") if thorough else (("first", "middle", "last")[j % 3],)):
            st = gen_load(rng, "badl.cool")
            while st["format"] != "coo" or st["one_based"]:
                st = gen_load(rng, "badl.cool")
            n = nbins_of(st["widths"])
            st["lines"] = inject(rng, [st["lines"]], bad_record(rng, n, kind, st["symm"]), where)[0]
            st["expect"] = "refuse"
            st["bad"] = [kind, where]
            R.append([st])
    return R


# count dtypes the writer accepts, with values that are exactly representable in them; 8-bit kinds use
# tiny values so that sums over merges stay inside the dtype (the writer refuses values that do not fit)
COUNT_KINDS = {
    "int8": lambda rng: rng.choice([-2, -1, 1, 2]),
    "uint8": lambda rng: rng.randint(1, 2),
    "int16": lambda rng: rng.choice([-1, 1]) * rng.randint(1, 40),
    "uint16": lambda rng: rng.randint(1, 60),
    "int32": lambda rng: rng.choice([-1, 1]) * rng.randint(1, 2 ** 18),
    "uint32": lambda rng: rng.randint(1, 2 ** 20),
    "int64": lambda rng: rng.choice([-1, 1]) * rng.randint(1, 2 ** 40),
    "uint64": lambda rng: rng.randint(1, 2 ** 40),
    "float32": lambda rng: rng.choice([-1, 1]) * rng.randint(1, 60) / 4,
    "float64": lambda rng: rng.choice([0.25, 0.5, 1.75, -0.75, rng.randint(1, 4000) / 4, -rng.randint(1, 4000) / 4,
                                       2.0 ** 40 + rng.randint(1, 7) / 4]),
}


def retype(rng, step, kind):
    """give every record of a create / scool / load step a value of the count kind and request that dtype"""
    gen = COUNT_KINDS[kind]
    if step["op"] == "create":
        step["chunks"] = [[[r[0], r[1], gen(rng)] for r in ch] for ch in step["chunks"]]
    elif step["op"] == "scool":
        step["cells"] = {k: [[r[0], r[1], gen(rng)] for r in v] for k, v in step["cells"].items()}
    elif step["op"] == "load":
        step["lines"] = [ln[:-1] + [gen(rng)] for ln in step["lines"]]
        if kind.startswith("float"):
            step["count_as_float"] = True
        return step
    o = dict(step.get("opts") or {})
    o["dtypes"] = {**(o.get("dtypes") or {}), "count": kind}
    step["opts"] = o
    step["count_kind"] = kind
    return step


def gen_load(rng, out, group="", append=False):
    fmt = rng.choice(["coo", "bg2"])
    symm = rng.random() < 0.75
    widths = rand_widths(rng)
    n = nbins_of(widths)
    blocks = blocks_from_widths(widths)
    flat = [(c, s, e) for blk in blocks for (c, s, e) in blk]
    names = names_for(len(blocks))
    chunksize = rng.choice([1, 2, 3, 5, 100])
    one_based = rng.random() < 0.3 and fmt == "coo"
    # every reader chunk becomes a temporary cooler: keep their number small when chunks are tiny
    nlines = rng.randint(0, min(3 * n, 6 * chunksize + 4))
    lines = []
    cur = set()
    for k in range(nlines):
        if k % chunksize == 0:
            cur = set()
        for _ in range(20):
            i, j = rng.randrange(n), rng.randrange(n)
            key = (min(i, j), max(i, j)) if symm else (i, j)
            if key not in cur:
                break
        else:
            continue
        cur.add(key)
        v = rng.randint(1, 9)
        if fmt == "coo":
            sh = 1 if one_based else 0
            lines.append([i + sh, j + sh, v])
        else:
            (c1, s1, e1), (c2, s2, e2) = flat[i], flat[j]
            lines.append([names[c1], s1, e1, names[c2], s2, e2, v])
    step = {"op": "load", "out": out, "group": group, "append": append, "format": fmt, "widths": widths, "symm": symm,
            "lines": lines, "chunksize": chunksize, "one_based": one_based,
            "copy_status": "unique", "mergebuf": rng.choice([None, 1, 2, 50]), "max_merge": rng.choice([None, 1, 2])}
    return dedup_load_lines(step)


def dedup_load_lines(step):
    """make every reader chunk free of duplicate pixels (after reflection), which the
    validation pipeline of the loader refuses by design"""
    n = nbins_of(step["widths"])
    blocks = blocks_from_widths(step["widths"])
    flat = [(c, s, e) for blk in blocks for (c, s, e) in blk]
    names = names_for(len(blocks))
    idx = {(names[c], s): k for k, (c, s, e) in enumerate(flat)}
    out = []
    cs = step["chunksize"]
    seen = set()
    for ln in step["lines"]:
        if len(out) % cs == 0:
            seen = set()
        if step["format"] == "coo":
            sh = 1 if step["one_based"] else 0
            i, j = ln[0] - sh, ln[1] - sh
        else:
            i, j = idx[(ln[0], ln[1])], idx[(ln[3], ln[4])]
        key = (min(i, j), max(i, j)) if step["symm"] else (i, j)
        if key in seen:
            continue
        seen.add(key)
        out.append(ln)
    step["lines"] = out
    return step


def gen_cload(rng, out, group="", append=False):
    nc = rng.randint(1, 3)
    b = rng.choice([1, 3, 5, 10])
    sizes = [rng.randint(1, 6) * b - rng.choice([0, 0, rng.randint(0, b - 1)]) for _ in range(nc)]
    sizes = [max(1, s) for s in sizes]
    names = names_for(nc)
    zero = rng.random() < 0.4
    symm = rng.random() < 0.8
    lines = []
    chunksize_ = rng.choice([1, 2, 7, 1000])
    for _ in range(rng.randint(0, min(40, 6 * chunksize_ + 4))):
        c1, c2 = rng.randrange(nc), rng.randrange(nc)
        lo, hi = (0, -1) if zero else (1, 0)
        p1 = rng.choice([lo, sizes[c1] + hi, rng.randint(lo, sizes[c1] + hi)])
        p2 = rng.choice([lo, sizes[c2] + hi, rng.randint(lo, sizes[c2] + hi)])
        lines.append([names[c1], p1, names[c2], p2])
    return {"op": "cload", "out": out, "group": group, "append": append, "chromsizes": sizes, "binsize": b, "lines": lines,
            "chunksize": chunksize_, "zero_based": zero, "symm": symm,
            "mergebuf": rng.choice([None, 1, 3]), "max_merge": rng.choice([None, 1, 2])}


def cload_blocks(step):
    if "chromsizes" in step:
        b = step["binsize"]
        return blocks_from_widths([[min(b, L - k * b) for k in range((L + b - 1) // b)] for L in step["chromsizes"]])
    return blocks_from_widths(step["widths"])


def cload_expected(step):
    """counting model of `cooler cload pairs`: records with a mate on a contig absent from the bin table are
    dropped; every other record counts once in (bin of mate 1, bin of mate 2), reflected into the upper triangle
    in symmetric mode, kept as given in square mode"""
    blocks = cload_blocks(step)
    names = names_for(len(blocks))
    sh = 0 if step.get("zero_based") else 1
    acc = {}
    for c1, p1, c2, p2 in step["lines"]:
        if c1 not in names or c2 not in names:
            continue
        a, b_ = bin_of(blocks, names.index(c1), p1 - sh), bin_of(blocks, names.index(c2), p2 - sh)
        k = (min(a, b_), max(a, b_)) if step["symm"] else (a, b_)
        acc[k] = acc.get(k, 0) + 1
    return [[a, b_, v] for (a, b_), v in sorted(acc.items())]


def gen_absent_contigs(rng, thorough=False):
    """text loaders fed records with exactly one mate (first / second) or both mates on a contig that is ABSENT
    from the bin table: {fixed, variable} bins x {symmetric-upper, square} x chunk sizes.  Expected: those records
    are dropped, the output passes the whole schema and holds exactly the counting model of the retained records
    (so sum = number of retained records).  `load -f bg2` drops the stray record as well."""
    R = []
    k = 0
    for fixed in (True, False):
        for symm in (True, False):
            for cs_ in ((1, 2, 3, 7, 1000) if thorough else (1, 3, 1000)):
                k += 1
                if fixed:
                    b = rng.choice([3, 5])
                    tab = {"chromsizes": [rng.randint(2, 4) * b - rng.randint(0, b - 1) for _ in range(rng.randint(2, 3))], "binsize": b}
                else:
                    tab = {"widths": [[rng.randint(1, 9) for _ in range(rng.randint(2, 4))] for _ in range(rng.randint(2, 3))]}
                step = {"op": "cload", "out": "ab.cool", "group": "", "append": False, **tab, "chunksize": cs_,
                        "zero_based": bool(k % 2), "symm": symm, "mergebuf": rng.choice([None, 1, 3]), "max_merge": rng.choice([None, 1, 2]),
                        "exact": True, "lines": []}
                blocks = cload_blocks(step)
                names = names_for(len(blocks))
                L = [blk[-1][2] for blk in blocks]
                sh = 0 if step["zero_based"] else 1
                lines = []
                for _ in range(rng.randint(4, min(24, 5 * cs_ + 5))):
                    c1, c2 = rng.randrange(len(L)), rng.choice([len(L) - 1, rng.randrange(len(L))])
                    lines.append([names[c1], rng.randrange(L[c1]) + sh, names[c2], rng.randrange(L[c2]) + sh])
                # the stray records: positions chosen so that a wrapped chromosome id would land in a real bin
                for which in ("first", "second", "both", "second", "first"):
                    c = rng.randrange(len(L))
                    good = [names[c], rng.randrange(L[c]) + sh]
                    stray = [ABSENT, rng.randrange(min(L)) + sh]
                    rec = {"first": stray + good, "second": good + stray, "both": stray + [ABSENT, rng.randrange(min(L)) + sh]}[which]
                    lines.insert(rng.randint(0, len(lines)), rec)
                step["lines"] = lines
                R.append([step])
    # the record pipeline and the tabix binner with stray mates (index -1 = absent contig)
    for ti, widths in enumerate([[[5, 5, 3], [5, 5, 5, 5, 1]], [[2, 7], [3, 3, 8, 1], [6, 2]]]):
        blocks = blocks_from_widths(widths)
        L = [blk[-1][2] for blk in blocks]
        pairs = []
        for _ in range(20):
            c1, c2 = rng.randrange(len(L)), rng.randrange(len(L))
            p1, p2 = rng.randrange(L[c1]), rng.randrange(L[c2])
            if (c1, p1) > (c2, p2):
                c1, p1, c2, p2 = c2, p2, c1, p1
            pairs.append([c1, p1, c2, p2])
        for _ in range(6):
            c = rng.randrange(len(L))
            q = rng.randrange(min(L))
            pairs.append(rng.choice([[-1, q, c, rng.randrange(L[c])], [c, rng.randrange(L[c]), -1, q], [-1, q, -1, q]]))
        base = {"op": "binner", "out": "ab.cool", "group": "", "widths": widths, "symm": True, "pairs": sorted(pairs)}
        order = [[i, rng.random() < 0.4] for i in range(len(pairs))]
        rng.shuffle(order)
        R.append([dict(base, kind="records", chunksize=rng.choice([1, 4, 1000]) if thorough else (4, 1000)[ti % 2], order=order,
                       mergebuf=rng.choice([1, 3, 100]), max_merge=rng.choice([1, 200]))])
        R.append([dict(base, kind="tabix", chunksize=rng.choice([1, 3]), api="create")])
    # bg2 text with a stray contig
    for which in ("first", "second"):
        st = gen_load(rng, "abl.cool")
        while st["format"] != "bg2" or not st["lines"]:
            st = gen_load(rng, "abl.cool")
        ln = list(st["lines"][0])
        if which == "first":
            ln[0] = ABSENT
        else:
            ln[3] = ABSENT
        st["lines"] = st["lines"] + [ln]       # the stray record is dropped; the file must pass the schema
        R.append([st])
    return R


def cload_d2(last=True):
    """the known finding D2: zero-based position equal to the chromosome length"""
    sizes = [20, 15]
    names = names_for(2)
    lines = [[names[0], 3, names[1], 7], [names[0], 0, names[0], 19]]
    if last:
        lines += [[names[1], 2, names[1], 15], [names[0], 5, names[1], 15]]
    else:
        lines += [[names[0], 20, names[1], 3]]
    return {"op": "cload", "out": "d2.cool", "group": "", "append": False, "chromsizes": sizes, "binsize": 5, "lines": lines,
            "chunksize": 1000, "zero_based": True, "symm": True, "mergebuf": None, "max_merge": None}
