"""C16 — text export agrees with the API; re-importing it reproduces the cooler.

Correspondence (real CLI in-process through click's CliRunner, model = coq/Model/Dump.v):
  A. `cooler dump -t pixels` x flag combinations x regions x chunk sizes on small coolers
     (symmetric / square, fixed / variable bins, weight column with NaN, empty rows) vs `dump_obs`;
  B. `cooler load -f coo|bg2` of dumps and of hand-written files with remapped --field columns vs
     `load_coo` / `load_bg2` (schema assembled by the model from the raw --field strings);
  C. `cooler cload pairs` on pairs files written with every permutation of the positional columns
     (+ extra --field columns, gaps) vs `cload_pairs`;
  D. `parse_field_param` incl. malformed arguments; E. dump -t bins/chroms and zoomify -r spellings (oracle only).
Property oracle (never calls the code under test for its expected value): a plain-python reading of the
option documentation applied to the *input data* the cooler was created from, text read back with the csv
module; plus the library queries (Cooler.pixels / matrix(as_pixels=True) / annotate) as the "corresponding
library query" of the property text.
"""
from __future__ import annotations

import csv
import io
import itertools
import os
import signal
from collections import Counter
from fractions import Fraction

import numpy as np
import pandas as pd

import coqio as C
from gen_bins import names_for, blocks_from_widths

PROP = "C16"
RULE = ("dump: per cooler (12 quick / 30 thorough small coolers: symmetric+square x fixed/variable bins x with/without weight(NaN) x "
        "empty / empty-row variants) every combination of the 6 boolean flags (-f, -b, --join, --one-based-ids, --one-based-starts, -H) on "
        "two coolers x 5 region choices, seeded random combinations (regions on and off bin boundaries, -r2, -c, --annotate, --na-rep, "
        "--float-format, -k 1..3) on the others; load: dump|load round trips (coo/bg2, zero/one-based, symmetric/square/duplex, "
        "chunksize 1..n) and hand-written files with count/extra fields at arbitrary (non-ascending) column numbers; cload pairs: all 24 "
        "permutations of -c1 -p1 -c2 -p2 over the first four columns plus random injective layouts over 5-8 columns with gaps and 1-2 extra "
        "--field columns; non-trivial = at least one data row and at least one non-default option / a non-identity column layout; distinct by input hash")
TRUSTED = ["pandas to_csv / read_csv tokenisation are observed through the CLI, not modelled (the model works on tokenised records and on cells)",
           "click option parsing is observed, not modelled"]
ASSUMPTIONS = ["region -> bin range (region_to_extent) is given to the model as the pair of bin ranges computed by an independent overlap rule (owned by C04)",
               "bin assignment of a position (sanitize_records) is modelled by its C05 specification: the bin of that chromosome containing the position",
               "chunked engines: the model is evaluated with the single-span chunking; chunk-size independence is a theorem (C16_direct_chunks_independent) and is exercised with -k 1..3"]
RESIDUE = ["number formatting by pandas to_csv (float_format % value, str(int)) is observed, not modelled; balanced/weight floats are compared at printed precision (exact text of `fmt % float`)",
           "np.dtype(value) validity and python int() spellings other than optionally signed decimals are outside parse_field_param's model",
           "the fill-lower engine's chunk order for chunksize < nnz is compared as a multiset"]
ALLOW_AXIOMS = ()

IMPORTS = "From Cooler Require Import Model.Dump."
D18 = "dump-header-missing-when-no-pixel-in-row-range"


# ============================================================ small coolers
class Cool:
    """the input data a test cooler is created from (the oracle reads only this)"""

    def __init__(self, widths, px, weights, symm, tag=""):
        self.widths = widths
        self.blocks = blocks_from_widths(widths)
        self.bins = [b for blk in self.blocks for b in blk]          # (cid, start, end)
        self.names = names_for(len(widths))
        self.px = sorted(px)                                          # storage order
        self.weights = weights                                        # list of Fraction|None, or None
        self.symm = symm
        self.tag = tag

    def spec(self):
        return {"widths": self.widths, "px": [list(p) for p in self.px], "symm": self.symm,
                "weights": None if self.weights is None else [None if w is None else [w.numerator, w.denominator] for w in self.weights]}

    @staticmethod
    def from_spec(s):
        w = s["weights"]
        return Cool(s["widths"], [tuple(p) for p in s["px"]],
                    None if w is None else [None if x is None else Fraction(x[0], x[1]) for x in w], s["symm"])

    def bins_df(self):
        df = pd.DataFrame({"chrom": [self.names[c] for c, _, _ in self.bins],
                           "start": [s for _, s, _ in self.bins], "end": [e for _, _, e in self.bins]})
        if self.weights is not None:
            df["weight"] = [np.nan if w is None else float(w) for w in self.weights]
        return df

    def create(self, uri):
        import cooler
        px = pd.DataFrame({"bin1_id": np.array([p[0] for p in self.px], dtype=np.int64),
                           "bin2_id": np.array([p[1] for p in self.px], dtype=np.int64),
                           "count": np.array([p[2] for p in self.px], dtype=np.int32)})
        cooler.create_cooler(uri, self.bins_df(), px, symmetric_upper=self.symm, ordered=True)

    def coq(self):
        bins = C.lst([C.tup(C.z(c), C.z(s), C.z(e)) for c, s, e in self.bins])
        names = C.lst([C.s(n) for n in self.names])
        if self.weights is None:
            w = "None"
        else:
            w = "(Some " + C.lst(["None" if x is None else f"(Some {C.q(x)})" for x in self.weights]) + ")"
        px = C.lst([C.tup(C.tup(C.z(a), C.z(b)), C.z(v)) for a, b, v in self.px])
        return (f"{{| d_bins := {bins}; d_names := {names}; d_weight := {w}; d_px := {px}; d_symm := {C.b(self.symm)} |}}")


def random_px(rng, n, symm, density, empty_from=None):
    px = []
    for i in range(n):
        if empty_from is not None and i >= empty_from:
            continue
        for j in range(n):
            if symm and j < i:
                continue
            if rng.random() < density:
                px.append((i, j, rng.randint(1, 25)))
    return px


def random_weights(rng, n):
    ws = [Fraction(rng.randint(1, 15), 8) for _ in range(n)]
    for k in rng.sample(range(n), max(1, n // 4)):
        ws[k] = None
    return ws


TABLES = [
    [[10, 10, 5], [10, 7]],          # fixed 10, short last bins
    [[7, 23], [4, 5, 1]],            # variable
    [[3, 3, 3, 3]],                  # one chromosome
    [[5, 5], [5, 2], [4]],           # fixed 5, three chromosomes, one-bin chromosome
    [[2, 9, 1, 6], [8]],             # variable
    [[1, 1, 1], [1, 1]],             # fixed 1
]


def make_coolers(rng, thorough):
    cools = []
    # the two "exhaustive" coolers first
    t0 = TABLES[0]
    n0 = sum(len(w) for w in t0)
    cools.append(Cool(t0, [(0, 0, 3), (0, 3, 1), (1, 1, 4), (1, 2, 7), (2, 2, 1), (2, 4, 5), (3, 4, 2)],
                      [Fraction(1, 2), None, Fraction(5, 4), Fraction(2), Fraction(3, 4)], True, "sym-fixed"))
    cools.append(Cool(TABLES[1], [(0, 0, 2), (0, 4, 6), (1, 0, 3), (2, 1, 9), (2, 2, 1), (3, 0, 4), (3, 3, 8), (4, 1, 5)],
                      [Fraction(3, 8), Fraction(9, 8), None, Fraction(1), Fraction(7, 4)], False, "sq-var"))
    # D18 carriers: rows without pixels / empty cooler
    cools.append(Cool(t0, [(0, 0, 3), (0, 3, 1), (1, 1, 4), (2, 2, 1), (2, 4, 5), (4, 4, 9)],
                      [Fraction(1, 2), None, Fraction(5, 4), Fraction(2), Fraction(3, 4)], True, "sym-emptyrow3"))
    cools.append(Cool(TABLES[3], [], None, True, "empty"))
    nrand = 26 if thorough else 8
    for k in range(nrand):
        t = TABLES[k % len(TABLES)] if k < 2 * len(TABLES) else [[rng.randint(1, 9) for _ in range(rng.randint(1, 4))] for _ in range(rng.randint(1, 3))]
        n = sum(len(w) for w in t)
        symm = rng.random() < 0.6
        px = random_px(rng, n, symm, rng.choice([0.25, 0.5, 0.8]), empty_from=(n - 1 if rng.random() < 0.3 else None))
        w = random_weights(rng, n) if rng.random() < 0.75 else None
        cools.append(Cool(t, px, w, symm, f"rand{k}"))
    return cools


# ============================================================ regions
def region_choices(cool, rng, k):
    """(text, (lo, hi)) pairs: whole chromosomes and sub-ranges on / off bin boundaries; the bin range is the
    set of bins of the chromosome that overlap [start, end) (independent of region_to_extent)"""
    out = []
    for ci, blk in enumerate(cool.blocks):
        name = cool.names[ci]
        base = sum(len(b) for b in cool.blocks[:ci])
        L = blk[-1][2]
        out.append((name, (base, base + len(blk))))
        for _ in range(k):
            s = rng.randint(0, L - 1)
            e = rng.randint(s + 1, L)
            if rng.random() < 0.5:     # snap to bin edges
                edges = [b[1] for b in blk] + [L]
                s = max(x for x in edges if x <= s)
                e = min(x for x in edges if x >= e)
            idx = [i for i, b in enumerate(blk) if b[1] < e and s < b[2]]
            out.append((f"{name}:{s}-{e}", (base + idx[0], base + idx[-1] + 1)))
    return out


# ============================================================ dump options
FLAGS = ("fill", "balanced", "join", "ids1", "starts1", "header")


def default_opts():
    return {"r": None, "r2": None, "fill": False, "balanced": False, "join": False, "annotate": None, "ids1": False,
            "starts1": False, "columns": None, "header": False, "na_rep": None, "ff": None, "k": None}


def cli_args(opt, uri):
    a = ["dump"]
    if opt["r"]:
        a += ["-r", opt["r"][0]]
    if opt["r2"]:
        a += ["-r2", opt["r2"][0]]
    if opt["fill"]:
        a.append("-f")
    if opt["balanced"]:
        a.append("-b")
    if opt["join"]:
        a.append("--join")
    if opt["annotate"]:
        a += ["--annotate", ",".join(opt["annotate"])]
    if opt["ids1"]:
        a.append("--one-based-ids")
    if opt["starts1"]:
        a.append("--one-based-starts")
    if opt["columns"] is not None:
        a += ["-c", ",".join(opt["columns"])]
    if opt["header"]:
        a.append("-H")
    if opt["na_rep"] is not None:
        a += ["--na-rep", opt["na_rep"]]
    if opt["ff"] is not None:
        a += ["--float-format", opt["ff"]]
    if opt["k"] is not None:
        a += ["-k", str(opt["k"])]
    return a + [uri]


def coq_opts(opt):
    def rng_(r):
        return C.tup(C.z(r[1][0]), C.z(r[1][1]))
    if opt["r"] is None:
        r = "None"
    else:
        r = "(Some " + C.tup(rng_(opt["r"]), "None" if opt["r2"] is None else f"(Some {rng_(opt['r2'])})") + ")"
    ann = "None" if not opt["annotate"] else "(Some " + C.lst([C.s(x) for x in opt["annotate"]]) + ")"
    cols = "None" if opt["columns"] is None else "(Some " + C.lst([C.s(x) for x in opt["columns"]]) + ")"
    return (f"{{| o_range := {r}; o_fill := {C.b(opt['fill'])}; o_balanced := {C.b(opt['balanced'])}; o_join := {C.b(opt['join'])}; "
            f"o_annot := {ann}; o_ids1 := {C.b(opt['ids1'])}; o_starts1 := {C.b(opt['starts1'])}; o_columns := {cols}; o_header := {C.b(opt['header'])} |}}")


def all_columns(opt):
    ids = ["chrom1", "start1", "end1", "chrom2", "start2", "end2"] if opt["join"] else ["bin1_id", "bin2_id"]
    cols = ids + ["count"] + (["balanced"] if opt["balanced"] else [])
    for suf in "12":
        cols += [f + suf for f in (opt["annotate"] or [])]
    return cols


def random_opts(cool, rng, regions):
    o = default_opts()
    for f in FLAGS:
        o[f] = rng.random() < 0.5
    if rng.random() < 0.75:
        o["r"] = rng.choice(regions)
        if rng.random() < 0.6:
            o["r2"] = rng.choice(regions)
    if o["balanced"] and cool.weights is None and rng.random() < 0.8:
        o["balanced"] = False
    if rng.random() < 0.3:
        pool = ["weight"] if cool.weights is not None else []
        if not o["join"]:
            pool += ["start", "end", "chrom"]
        if pool:
            o["annotate"] = rng.sample(pool, rng.randint(1, min(2, len(pool))))
    if rng.random() < 0.35:
        cols = all_columns(o)
        o["columns"] = rng.sample(cols, rng.randint(1, len(cols)))
        if rng.random() < 0.15:
            o["columns"].append(o["columns"][0])          # a repeated column is allowed by pandas
    if rng.random() < 0.3:
        o["na_rep"] = rng.choice(["NA", "nan", "."])
    if rng.random() < 0.3:
        o["ff"] = rng.choice([".12g", ".3f", ".2e", "g"])
    if rng.random() < 0.5:
        o["k"] = rng.choice([1, 2, 3, 5])
    return o


# ============================================================ the independent reading of the dump options
def window(cool, opt):
    n = len(cool.bins)
    if opt["r"] is None:
        return (0, n, 0, n)
    i0, i1 = opt["r"][1]
    j0, j1 = opt["r2"][1] if opt["r2"] is not None else (i0, i1)
    return (i0, i1, j0, j1)


def selected(cool, opt):
    """(records, ordered?) : the pixels the documentation promises"""
    i0, i1, j0, j1 = window(cool, opt)
    inw = lambda a, b: i0 <= a < i1 and j0 <= b < j1
    if opt["fill"] and cool.symm:
        out = []
        for a, b, v in cool.px:
            if inw(a, b):
                out.append((a, b, v))
            if a != b and inw(b, a):
                out.append((b, a, v))
        return out, False
    return [(a, b, v) for a, b, v in cool.px if inw(a, b)], True


def fmt_float(fr, opt):
    if fr is None:
        return opt["na_rep"] if opt["na_rep"] is not None else ""
    return ("%" + (opt["ff"] if opt["ff"] is not None else "g")) % float(fr)


def bin_field_text(cool, f, i, opt):
    c, s, e = cool.bins[i]
    if f == "chrom":
        return cool.names[c]
    if f == "start":
        return s
    if f == "end":
        return e
    if f == "weight":
        return ("Q", cool.weights[i])
    raise KeyError(f)


def oracle_dump(cool, opt):
    """expected (header names, rows of text cells, ordered?) from the documented meaning of each option"""
    recs, ordered = selected(cool, opt)
    names = all_columns(opt)
    rows = []
    for a, b, v in recs:
        d = {}
        if opt["join"]:
            for suf, i in (("1", a), ("2", b)):
                c, s, e = cool.bins[i]
                d["chrom" + suf], d["start" + suf], d["end" + suf] = cool.names[c], s, e
        else:
            d["bin1_id"], d["bin2_id"] = a + (1 if opt["ids1"] else 0), b + (1 if opt["ids1"] else 0)
        d["count"] = v
        if opt["balanced"]:
            w1, w2 = cool.weights[a], cool.weights[b]
            d["balanced"] = ("Q", None if w1 is None or w2 is None else w1 * w2 * v)
        for suf, i in (("1", a), ("2", b)):
            for f in (opt["annotate"] or []):
                d[f + suf] = bin_field_text(cool, f, i, opt)
        if opt["starts1"]:
            for col in ("start1", "start2"):
                if col in d:
                    d[col] += 1
        rows.append(d)
    cols = names if opt["columns"] is None else list(opt["columns"])
    out = []
    for d in rows:
        out.append([fmt_float(d[c][1], opt) if isinstance(d[c], tuple) else str(d[c]) for c in cols])
    return cols, out, ordered


def py_plan(bb):
    """sub-boxes whose rows the engines read (independent re-reading of FillLowerRangeQuery2D's case split,
    used only for the D18 signature predicate)"""
    i0, i1, j0, j1 = bb
    if i1 > j1:
        i0, i1, j0, j1 = j0, j1, i0, i1
    if i0 == j0 or (i0 < j0 and i1 <= j0):
        return [(i0, i1, j0, j1)]
    if i0 < j0 and i1 <= j1:
        return [(i0, j0, j0, j1), (j0, i1, j0, j1)]
    return [(j0, i0, i0, i1), (i0, i1, i0, j1)]


def zero_chunks(cool, opt):
    bb = window(cool, opt)
    boxes = py_plan(bb) if (opt["fill"] and cool.symm) else [bb]
    for (i0, i1, j0, j1) in boxes:
        if i1 - i0 >= 1 and j1 - j0 >= 1 and any(i0 <= a < i1 for a, _, _ in cool.px):
            return False
    return True


# ============================================================ running the CLI
class Timeout(Exception):
    pass


def _alarm(signum, frame):
    raise Timeout()


def invoke(runner, cli, args, limit=20):
    """(exit_code or 'timeout', stdout) ; never raises"""
    old = signal.signal(signal.SIGALRM, _alarm)
    signal.alarm(limit)
    try:
        res = runner.invoke(cli, args)
        code = res.exit_code
        out = res.stdout
    except Timeout:
        code, out = "timeout", ""
    except BaseException as e:      # pragma: no cover
        code, out = "crash:" + type(e).__name__, ""
    finally:
        signal.alarm(0)
        signal.signal(signal.SIGALRM, old)
    return code, out


def read_tsv(text):
    return [row for row in csv.reader(io.StringIO(text), delimiter="\t", quoting=csv.QUOTE_NONE)]


def model_lines(val, opt):
    """parsed `dump_obs` value -> (status, header|None, rows of text cells)"""
    if val is None:
        return "error", None, []
    header, rows = None, []
    for ln in val[1]:
        if ln[1] == "OHeader":
            header = list(ln[2])
        else:
            cells = []
            for c in ln[2]:
                kind = c[1]
                if kind == "OZ":
                    cells.append(str(c[2]))
                elif kind == "OS":
                    cells.append(c[2])
                elif kind == "OQ":
                    cells.append(fmt_float(Fraction(c[2], c[3]), opt))
                else:
                    cells.append(fmt_float(None, opt))
            rows.append(cells)
    return "ok", header, rows


def sort_rows(rows):
    return sorted(rows)


def check_dump_case(ctx, cool, opt, code, text, mval, lib=None):
    case = {"kind": "dump", "cool": cool.spec(), "opt": {k: (list(v) if isinstance(v, tuple) else v) for k, v in opt.items()}}
    lines = read_tsv(text) if code == 0 else []
    exp_cols, exp_rows, ordered = (None, None, True)
    valid_cols = opt["columns"] is None or all(c in all_columns(opt) for c in opt["columns"])
    valid_ann = all(f in ("chrom", "start", "end") or (f == "weight" and cool.weights is not None) for f in (opt["annotate"] or []))
    needs_w = opt["balanced"] and cool.weights is None
    wellformed = valid_cols and valid_ann and not needs_w
    nontrivial = False
    if wellformed:
        exp_cols, exp_rows, ordered = oracle_dump(cool, opt)
        nontrivial = len(exp_rows) > 0 and (any(opt[f] for f in FLAGS) or opt["r"] is not None or opt["columns"] is not None)
    ctx.case(case, nontrivial=bool(nontrivial), kind="dump:" + ("fill" if opt["fill"] and cool.symm else "direct") + (":region" if opt["r"] else ""))
    # ---- model vs implementation
    mstat, mhead, mrows = model_lines(mval, opt)
    istat = "ok" if code == 0 else ("error" if isinstance(code, int) else code)
    exact_order = ordered or opt["k"] is None
    ctx.compare("dump exit status", case, istat, mstat)
    if istat == "ok" and mstat == "ok":
        mfull = ([mhead] if mhead is not None else []) + mrows
        if exact_order:
            ctx.compare("dump lines", case, lines, mfull)
        elif mhead is not None:
            ctx.compare("dump lines (header + multiset)", case, lines[:1] + sort_rows(lines[1:]), [mhead] + sort_rows(mrows))
        else:
            ctx.compare("dump lines (multiset)", case, sort_rows(lines), sort_rows(mrows))
    # ---- property oracle
    if not wellformed:
        if needs_w and code == 0:
            ctx.fail(case, {"why": "balanced values requested from a cooler without weights, exit status 0"}, None)
        return
    if code != 0:
        ctx.fail(case, {"why": "dump failed", "exit": str(code)}, None)
        return
    body = lines
    if opt["header"]:
        if lines[:1] == [exp_cols] and len(lines) == len(exp_rows) + 1:
            body = lines[1:]
        elif lines == [] and exp_rows == [] and zero_chunks(cool, opt):
            # the header is only written inside the chunk loop: engine yields zero chunks -> no header (finding D18)
            ctx.fail(case, {"why": "header requested, nothing printed", "expected": [exp_cols]}, D18)
            body = []
        else:
            ctx.fail(case, {"why": "header line missing or wrong", "expected": exp_cols, "got_first": lines[:2]}, None)
            return
    ok = (body == exp_rows) if ordered else (sort_rows(body) == sort_rows(exp_rows))
    if not ok:
        ctx.fail(case, {"why": "dump rows differ from the documented reading", "expected": exp_rows[:12], "got": body[:12]}, None)
    if lib is not None:
        lrows, keep = lib
        pbody = [[r[k] for k in keep] for r in body]
        lok = (sort_rows(pbody) == sort_rows(lrows))
        if ordered and not (opt["fill"] and cool.symm):
            lok = pbody == lrows
        if not lok:
            ctx.fail(case, {"why": "dump differs from the library query", "library": lrows[:12], "got": body[:12]}, None)


def library_rows(clr, cool, opt):
    """the corresponding library query rendered with the same float format, and the dump columns it speaks about;
    None when there is no direct equivalent.  direct: Cooler.matrix(as_pixels=True, balance, join).fetch(r, r2);
    fill-lower: Cooler.matrix(sparse=True, balance).fetch(r, r2) as (row, col, value) triples (+ cooler.annotate for --join)"""
    import cooler
    if opt["columns"] is not None or opt["annotate"] or opt["ids1"] or opt["starts1"]:
        return None
    i0, i1, j0, j1 = window(cool, opt)
    ncols = len(all_columns(opt))
    if opt["fill"] and cool.symm:
        sel = clr.matrix(balance=opt["balanced"], sparse=True)
        m = sel[:, :] if opt["r"] is None else sel.fetch(opt["r"][0], opt["r2"][0] if opt["r2"] is not None else opt["r"][0])
        vname = "balanced" if opt["balanced"] else "count"
        df = pd.DataFrame({"bin1_id": m.row.astype(np.int64) + i0, "bin2_id": m.col.astype(np.int64) + j0, vname: m.data})
        keep = [k for k, c in enumerate(all_columns(opt)) if c not in ("count", "balanced") or c == vname]
        if opt["join"]:
            df = cooler.annotate(df, clr.bins()[:][["chrom", "start", "end"]], replace=True)
    else:
        sel = clr.matrix(balance=opt["balanced"], as_pixels=True, join=opt["join"])
        df = sel[:, :] if opt["r"] is None else sel.fetch(opt["r"][0], opt["r2"][0] if opt["r2"] is not None else opt["r"][0])
        keep = list(range(ncols))
    rows = []
    for rec in df.itertuples(index=False):
        cells = []
        for name, v in zip(df.columns, rec):
            if name == "balanced":
                cells.append(fmt_float(None if pd.isna(v) else Fraction(float(v)), opt))
            else:
                cells.append(str(v))
        rows.append(cells)
    return rows, keep


def run_dump(ctx, runner, cli, thorough):
    import cooler
    rng = ctx.rng
    cools = make_coolers(rng, thorough)
    ddir = ctx.tmp / "dump"
    ddir.mkdir(exist_ok=True)
    jobs = []          # (cool index, opt)
    regs = []
    for ci, cool in enumerate(cools):
        regions = region_choices(cool, rng, 3 if thorough else 2)
        regs.append(regions)
        opts = []
        if ci < 2:
            # exhaustive: 2^6 flags x {whole, chrom, sub-range, (r, r2) above diagonal, (r, r2) below}
            first, last = regions[0], regions[-1]
            sub = regions[1]
            rchoices = [(None, None), (first, None), (sub, None), (first, last), (last, sub)]
            for bits in itertools.product([False, True], repeat=6):
                for r, r2 in (rchoices if thorough or ci == 0 else rchoices[:3] + rchoices[4:]):
                    o = default_opts()
                    o.update(dict(zip(FLAGS, bits)))
                    o["r"], o["r2"] = r, r2
                    opts.append(o)
        # regression corpus D7 (fixed): --one-based-ids alone, -c alone; known finding D18: header with an empty row range
        o = default_opts(); o["ids1"] = True; opts.append(o)
        o = default_opts(); o["columns"] = ["count", "bin1_id"]; opts.append(o)
        o = default_opts(); o["columns"] = ["bin2_id"]; o["ids1"] = True; o["header"] = True; opts.append(o)
        o = default_opts(); o["header"] = True; o["r"] = regions[-1]; opts.append(o)
        o = default_opts(); o["header"] = True; o["fill"] = True; o["r"] = regions[-1]; o["r2"] = regions[0]; opts.append(o)
        # malformed stream: unknown column, unknown annotation, balanced without weights
        o = default_opts(); o["columns"] = ["nope"]; opts.append(o)
        o = default_opts(); o["annotate"] = ["nope"]; opts.append(o)
        o = default_opts(); o["balanced"] = True; opts.append(o)
        nrand = (120 if thorough else 45) if ci >= 2 else 40
        for _ in range(nrand):
            opts.append(random_opts(cool, rng, regions))
        jobs += [(ci, o) for o in opts]
    # ---- model
    pre = "\n".join(f"Definition cool{ci} := {cool.coq()}." for ci, cool in enumerate(cools))
    exprs = [f"dump_obs cool{ci} {coq_opts(o)}" for ci, o in jobs]
    mvals = C.coq_eval(IMPORTS, exprs, preamble=pre, tmpdir=ctx.tmp / "dumpv", shard=400, jobs=4)
    # ---- implementation
    uris, clrs = [], []
    for ci, cool in enumerate(cools):
        uri = str(ddir / f"c{ci}.cool")
        cool.create(uri)
        uris.append(uri)
        clrs.append(cooler.Cooler(uri))
    nlib = 0
    for (ci, o), mv in zip(jobs, mvals):
        code, text = invoke(runner, cli, cli_args(o, uris[ci]))
        lib = None
        wellformed = not (o["balanced"] and cools[ci].weights is None)
        if wellformed and code == 0:
            try:
                lib = library_rows(clrs[ci], cools[ci], o)
            except Exception as e:           # the library query itself failing is a finding of C03/C12, not of the dump
                lib = None
            nlib += lib is not None
        check_dump_case(ctx, cools[ci], o, code, text, mv, lib)
    ctx.extra["dump_cases"] = len(jobs)
    ctx.extra["dump_cases_with_library_query"] = nlib
    return cools, uris


# ============================================================ run / replay
def run(ctx):
    from click.testing import CliRunner
    from cooler.cli import cli
    import logging
    logging.disable(logging.INFO)
    thorough = ctx.tier == "thorough"
    runner = CliRunner()
    cwd = os.getcwd()
    os.chdir(ctx.tmp)
    try:
        cools, uris = run_dump(ctx, runner, cli, thorough)
    finally:
        os.chdir(cwd)
        logging.disable(logging.NOTSET)


def replay(ctx, case):
    from click.testing import CliRunner
    from cooler.cli import cli
    import logging
    logging.disable(logging.INFO)
    runner = CliRunner()
    if case["kind"] == "dump":
        cool = Cool.from_spec(case["cool"])
        opt = case["opt"]
        for k in ("r", "r2"):
            if opt[k] is not None:
                opt[k] = (opt[k][0], tuple(opt[k][1]))
        uri = str(ctx.tmp / "replay.cool")
        cool.create(uri)
        code, text = invoke(runner, cli, cli_args(opt, uri))
        sub = type(ctx)(ctx.prop, ctx.tier, ctx.seed)
        check_dump_case(sub, cool, opt, code, text, None)
        import shutil
        shutil.rmtree(sub.tmp, ignore_errors=True)
        return not sub.failures
    return True
