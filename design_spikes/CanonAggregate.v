From Coq Require Import ZArith List Bool Lia Sorted Permutation.
Import ListNotations.
Open Scope Z_scope.

Section Canon.
Variable K : Type.
Variable lt : K -> K -> Prop.
Variable cmp : K -> K -> comparison.
Hypothesis cmp_eq : forall a b, cmp a b = Eq <-> a = b.
Hypothesis cmp_lt : forall a b, cmp a b = Lt <-> lt a b.
Hypothesis cmp_gt : forall a b, cmp a b = Gt <-> lt b a.
Hypothesis lt_irrefl : forall a, ~ lt a a.
Hypothesis lt_trans : forall a b c, lt a b -> lt b c -> lt a c.

Definition entry := (K * Z)%type.
Fixpoint ins (k:K) (v:Z) (l:list entry) : list entry :=
  match l with
  | [] => [(k,v)]
  | (k',v') :: t => match cmp k k' with
                    | Eq => (k', v' + v) :: t
                    | Lt => (k,v) :: l
                    | Gt => (k',v') :: ins k v t
                    end
  end.
Definition aggregate (l:list entry) : list entry := fold_left (fun acc p => ins (fst p) (snd p) acc) l [].
Definition keys (l:list entry) := map fst l.
Fixpoint look (l:list entry) (k:K) : Z :=
  match l with [] => 0 | (k',v)::t => (match cmp k k' with Eq => v | _ => 0 end) + look t k end.
Definition SSorted (l:list entry) := StronglySorted lt (keys l).

Lemma cmp_refl a : cmp a a = Eq. Proof. apply cmp_eq; reflexivity. Qed.

Lemma look_ins k v l k' : look (ins k v l) k' = (match cmp k' k with Eq => v | _ => 0 end) + look l k'.
Proof.
  induction l as [|[k0 v0] t IH]; cbn [ins look]; [lia|].
  destruct (cmp k k0) eqn:E; cbn [look].
  - apply cmp_eq in E; subst k0. destruct (cmp k' k); lia.
  - lia.
  - rewrite IH. lia.
Qed.

Lemma keys_ins k v l x : In x (keys (ins k v l)) <-> x = k \/ In x (keys l).
Proof.
  induction l as [|[k0 v0] t IH]; cbn [ins keys map In fst]; [intuition|].
  destruct (cmp k k0) eqn:E; cbn [keys map In fst].
  - apply cmp_eq in E; subst. intuition.
  - intuition.
  - fold (keys (ins k v t)). rewrite IH. fold (keys t). intuition.
Qed.

Lemma sorted_ins k v l : SSorted l -> SSorted (ins k v l).
Proof.
  unfold SSorted. induction l as [|[k0 v0] t IH]; cbn [ins keys map fst]; intro H.
  - constructor; constructor.
  - inversion H as [|? ? Ht Hall]; subst. destruct (cmp k k0) eqn:E; cbn [keys map fst].
    + constructor; assumption.
    + apply cmp_lt in E. constructor; [exact H|]. constructor; [exact E|].
      eapply Forall_impl; [|exact Hall]. intros a Ha. eapply lt_trans; eauto.
    + apply cmp_gt in E. constructor; [apply IH; exact Ht|].
      apply Forall_forall. intros x Hx. apply (keys_ins k v t x) in Hx. destruct Hx as [->|Hx]; [exact E|].
      rewrite Forall_forall in Hall. apply Hall; exact Hx.
Qed.

Lemma look_notin l k : ~ In k (keys l) -> look l k = 0.
Proof. induction l as [|[k0 v0] t IH]; cbn [look keys map In fst]; intro H; [reflexivity|].
  destruct (cmp k k0) eqn:E. { apply cmp_eq in E. subst. exfalso; apply H; left; reflexivity. }
  all: rewrite IH; [lia| intro; apply H; right; assumption]. Qed.

Theorem canon_unique l1 l2 : SSorted l1 -> SSorted l2 ->
  (forall k, In k (keys l1) <-> In k (keys l2)) -> (forall k, look l1 k = look l2 k) -> l1 = l2.
Proof.
  unfold SSorted. revert l2. induction l1 as [|[k1 v1] t1 IH]; intros l2 S1 S2 HK HL.
  - destruct l2 as [|[k2 v2] t2]; [reflexivity|]. exfalso. apply (HK k2). left; reflexivity.
  - destruct l2 as [|[k2 v2] t2]. { exfalso. apply (HK k1). left; reflexivity. }
    cbn [keys map fst] in *. inversion S1 as [|? ? S1t A1]; inversion S2 as [|? ? S2t A2]; subst.
    rewrite Forall_forall in A1, A2.
    assert (k1 = k2) as ->.
    { destruct (proj1 (HK k1) (or_introl eq_refl)) as [E|E]; [symmetry; exact E|].
      destruct (proj2 (HK k2) (or_introl eq_refl)) as [E'|E']; [exact E'|].
      exfalso. apply (lt_irrefl k1). eapply lt_trans; [apply A1; exact E' | apply A2; exact E]. }
    assert (N1: ~ In k2 (map fst t1)) by (intro X; apply (lt_irrefl k2); apply A1; exact X).
    assert (N2: ~ In k2 (map fst t2)) by (intro X; apply (lt_irrefl k2); apply A2; exact X).
    assert (v1 = v2) as ->.
    { pose proof (HL k2) as H. cbn [look] in H. rewrite cmp_refl in H.
      rewrite (look_notin t1 k2 N1), (look_notin t2 k2 N2) in H. lia. }
    f_equal. apply IH; auto.
    + intro k. split; intro X.
      * destruct (proj1 (HK k) (or_intror X)) as [E|E]; [subst; contradiction|exact E].
      * destruct (proj2 (HK k) (or_intror X)) as [E|E]; [subst; contradiction|exact E].
    + intro k. pose proof (HL k) as H. cbn [look] in H. lia.
Qed.
End Canon.
Print Assumptions canon_unique.
