(** C20  Generated bin tables tile the genome; a reported bin size is always true.
    Only statements, each closed by [exact] of a lemma proved in Proofs/BinsProofs.v. *)
From Cooler Require Import Model.Bins Proofs.BinsProofs.

(** binnify, one chromosome: exactly the bins [k*b, min((k+1)*b, L)), k < ceil(L/b) *)
Theorem C20_binnify_chrom_exact : forall c L b,
  1 <= L -> 1 <= b ->
  binnify_chrom c L b = map (ideal_bin c L b) (zrange 0 (Z.to_nat (cdiv L b))).
Proof. exact binnify_chrom_spec. Qed.
Print Assumptions C20_binnify_chrom_exact.

(** binnify, whole table: per chromosome in the given order *)
Theorem C20_binnify_in_order : forall sizes b,
  Forall (fun L => 1 <= L) sizes -> 1 <= b ->
  binnify sizes b = concat (binnify_blocks sizes b) /\
  length (binnify_blocks sizes b) = length sizes /\
  forall i L, nth_error sizes i = Some L ->
    nth_error (binnify_blocks sizes b) i = Some (ideal_chrom (Z.of_nat i) L b).
Proof. intros sizes b HL Hb. split; [apply binnify_concat|]. now apply binnify_blocks_spec. Qed.
Print Assumptions C20_binnify_in_order.

(** the generated table is a valid tiling and its last bins end at the chromosome lengths *)
Theorem C20_binnify_tiles : forall sizes b,
  Forall (fun L => 1 <= L) sizes -> 1 <= b ->
  ValidBlocks (binnify_blocks sizes b) /\ map chrom_end (binnify_blocks sizes b) = sizes.
Proof. exact binnify_valid. Qed.
Print Assumptions C20_binnify_tiles.

(** a reported bin size is true: every chromosome of the table is the ideal fixed-width tiling *)
Theorem C20_binsize_truthful : forall blocks b,
  ValidBlocks blocks -> get_binsize (concat blocks) = Some b ->
  1 <= b /\
  forall i blk, nth_error blocks i = Some blk ->
    blk = map (ideal_bin (Z.of_nat i) (chrom_end blk) b) (zrange 0 (Z.to_nat (cdiv (chrom_end blk) b))).
Proof. exact binsize_truthful. Qed.
Print Assumptions C20_binsize_truthful.

Theorem C20_fixed_table_determined : forall blocks1 blocks2 b,
  ValidBlocks blocks1 -> ValidBlocks blocks2 ->
  get_binsize (concat blocks1) = Some b -> get_binsize (concat blocks2) = Some b ->
  map chrom_end blocks1 = map chrom_end blocks2 -> blocks1 = blocks2.
Proof. exact fixed_table_determined. Qed.
Print Assumptions C20_fixed_table_determined.

(** inferred chromosome lengths are the ends of the last bins, in order *)
Theorem C20_chromsizes_spec : forall blocks,
  ValidBlocks blocks ->
  get_chromsizes (concat blocks) = combine (zrange 0 (length blocks)) (map chrom_end blocks).
Proof. exact chromsizes_spec. Qed.
Print Assumptions C20_chromsizes_spec.

(** the hypothesis ValidBlocks is decidable by the executable check used in the correspondence run *)
Theorem C20_valid_check_sound : forall blocks, valid_blocks_b blocks = true -> ValidBlocks blocks.
Proof. exact valid_blocks_b_sound. Qed.
Print Assumptions C20_valid_check_sound.

(** non-vacuity: a concrete valid table that reports a size, and one (longer last bin, the
    repaired defect D1) that must not *)
Example ex_C20_reports :
  valid_blocks_b [[(0,0,10);(0,10,20);(0,20,25)]; [(1,0,7)]] = true /\
  get_binsize (concat [[(0,0,10);(0,10,20);(0,20,25)]; [(1,0,7)]]) = Some 10.
Proof. vm_compute. split; reflexivity. Qed.
Example ex_C20_longer_last_not_fixed :
  valid_blocks_b [[(0,0,10);(0,10,20);(0,20,35)]] = true /\
  get_binsize (concat [[(0,0,10);(0,10,20);(0,20,35)]]) = None.
Proof. vm_compute. split; reflexivity. Qed.

(** binnify computes the number of bins with float64 true division, [int(np.ceil(clen / binsize))]; for lengths and bin
    sizes below 2^53 that is the exact ceiling division the model uses (Proofs/FloatDiv.v, Flocq: [fdiv] is the
    correctly rounded binary64 quotient).  Depends on the standard library's real-number axioms only. *)
From Cooler Require Import Proofs.FloatDiv Proofs.FloatDivBridge.
From Flocq Require Import Core.
Theorem C20_binary64_bin_count_exact : forall clen b : Z,
  0 <= clen < 2^53 -> 0 < b < 2^53 -> Zceil (fdiv clen b) = cdiv clen b.
Proof. exact ceil_fdiv_is_cdiv. Qed.
Print Assumptions C20_binary64_bin_count_exact.

(** the float64 quotient expression of util.binnify that the binary64 theorem above is about is pinned in the source on every run
    (tools/py2v.py): a reciprocal multiplication or another shortcut is a different computation *)
From Cooler Require Import Gen.Translated.
Theorem C20_float_division_source_pins : Gen.float_division_pins_binnify = true.
Proof. reflexivity. Qed.
Print Assumptions C20_float_division_source_pins.

(** util.get_binsize as translated from util.py on every run (the loop over the per-chromosome groups with its early
    exit, the two sets and the three decisions `len(sizes) > 1`, `len(sizes) == 1`, `max(last_sizes) > binsize`) computes
    the model's [get_binsize] on every bin table: C20_binsize_truthful is therefore a statement about the source's own
    decision procedure.  The set-building statements and the control-flow shape are pinned by the translator. *)
From Cooler Require Import Proofs.GenBridgeBins.
Theorem C20_source_get_binsize_is_model : forall t,
  Gen.get_binsize (map (fun c => map bwidth (rows_of t c)) (chroms_of t)) = get_binsize t.
Proof. exact gen_get_binsize_is_model. Qed.
Print Assumptions C20_source_get_binsize_is_model.

Theorem C20_get_binsize_source_pins : Gen.get_binsize_source_pins = true.
Proof. reflexivity. Qed.
Print Assumptions C20_get_binsize_source_pins.
