(** C08  Coarsening by k is exact block aggregation within each chromosome.
    Only statements; proofs are in Proofs/CoarsenProofs.v. *)
From Cooler Require Import Model.Coarsen Proofs.BinsProofs Proofs.PixelsProofs Proofs.CoarsenProofs.
From Coq Require Import Sorted.

(** _greedy_prune_partition never splits or duplicates a coarse row: for every non-decreasing list of
    coarse-row edges from 0 and every chunk size >= 1 the pruned edges are a sub-sequence of the given
    edges (strictly increasing positions), begin with 0, end with nnz and strictly increase. *)
Theorem C08_prune_subsequence : forall rest maxlen,
  let edges := 0 :: rest in
  StronglySorted Z.le edges -> 1 <= maxlen ->
  let p := greedy_prune_partition edges maxlen in
  (exists idx, p = map (fun i => znth edges i 0) idx /\ StronglySorted Z.lt idx /\
               Forall (fun i => 0 <= i < zlen edges) idx) /\
  hd 0 p = 0 /\ last p 0 = last edges 0 /\ StronglySorted Z.lt p.
Proof. exact prune_subsequence. Qed.
Print Assumptions C08_prune_subsequence.

(** per-chunk canonical aggregates of pairwise ordered chunks concatenate to the canonical aggregate *)
Theorem C08_chunks_canon : forall parts,
  ForallOrdPairs KeysBefore parts -> concat (map aggregate parts) = aggregate (concat parts).
Proof. exact chunks_canon. Qed.
Print Assumptions C08_chunks_canon.

Example ex_C08_prune :
  greedy_prune_partition [0; 2; 2; 5; 7; 7] 3 = [0; 5; 7] /\ greedy_prune_partition [0; 0; 0] 4 = [0].
Proof. vm_compute. split; reflexivity. Qed.
