(** C16  `cooler dump` (pixel branch), `read_fields` (pandas read_csv(usecols, names) as
    `cooler load` / `cooler cload pairs` call it), `parse_field_param`, the load / cload
    schema assembly and the pixel-level effect of `load` and `cload pairs`.
    Anchors: src/cooler/cli/dump.py:19-56,188-304, cli/_util.py:50-100, cli/load.py:188-364,
    cli/cload.py:478-666, core/_rangequery.py (CSRReader.__call__, FillLowerRangeQuery2D.__init__).
    No proofs here. *)
From Coq Require Import String Ascii QArith DecimalString.
From Coq Require Import List.
From Cooler Require Export Model.Pixels Model.Bins.
Open Scope Z_scope.

(* ------------------------------------------------------------------ generic helpers *)
Fixpoint mapM {A B} (f : A -> option B) (l : list A) : option (list B) :=
  match l with
  | [] => Some []
  | x :: t => match f x, mapM f t with Some y, Some r => Some (y :: r) | _, _ => None end
  end.

Fixpoint assoc {B} (k : string) (l : list (string * B)) : option B :=
  match l with
  | [] => None
  | (k', v) :: t => if String.eqb k k' then Some v else assoc k t
  end.

Definition mem_str (k : string) (l : list string) : bool := existsb (String.eqb k) l.

(* ------------------------------------------------------------------ the dumped cooler *)
(** what `cooler dump -t pixels` reads from the file *)
Record dcooler := {
  d_bins   : list bin;                    (* clr.bins()[:]  as (chrom id, start, end)            *)
  d_names  : list string;                 (* chromosome names, by id                             *)
  d_weight : option (list (option Q));    (* bins["weight"] when the column exists; None = NaN   *)
  d_px     : list pixel;                  (* the stored pixel table, in storage order            *)
  d_symm   : bool                         (* storage_mode == "symmetric-upper"                   *)
}.

Definition bbox := (Z * Z * Z * Z)%type.          (* i0 i1 j0 j1 *)
Definition range := (Z * Z)%type.                 (* a bin range [lo, hi) : what region_to_extent returned *)

Record dopts := {
  o_range   : option (range * option range);   (* -r [-r2] after region_to_extent; None = whole matrix *)
  o_fill    : bool;                            (* -f / --fill-lower                                    *)
  o_balanced: bool;                            (* -b / --balanced                                      *)
  o_join    : bool;                            (* --join                                               *)
  o_annot   : option (list string);            (* --annotate f1,f2                                     *)
  o_ids1    : bool;                            (* --one-based-ids                                      *)
  o_starts1 : bool;                            (* --one-based-starts                                   *)
  o_columns : option (list string);            (* -c / --columns                                       *)
  o_header  : bool                             (* -H                                                   *)
}.

(** dump.py:224-246 *)
Definition bbox_of (c : dcooler) (o : dopts) : bbox :=
  let n := zlen (d_bins c) in
  match o_range o with
  | None => (0, n, 0, n)
  | Some (r, None) => (fst r, snd r, fst r, snd r)
  | Some (r, Some r2) => (fst r, snd r, fst r2, snd r2)
  end.

(* ------------------------------------------------------------------ the query engines *)
Definition inb (lo hi x : Z) : bool := (lo <=? x) && (x <? hi).
Definition in_window (bb : bbox) (k : key) : bool :=
  let '(i0, i1, j0, j1) := bb in inb i0 i1 (fst k) && inb j0 j1 (snd k).
Definition flip (p : pixel) : pixel := ((col p, row p), val p).

(** CSRReader.__call__(field, bbox, row_span=(s0,s1), reflect): rows s0..s1-1 of the stored table,
    columns masked to [j0, j1); with reflect the off-diagonal records whose column is < i1 are
    appended once more, mirrored *)
Definition reader (px : list pixel) (bb : bbox) (span : Z * Z) (reflect : bool) : list pixel :=
  let '(i0, i1, j0, j1) := bb in
  let base := filter (fun p => inb (fst span) (snd span) (row p) && inb j0 j1 (col p)) px in
  if reflect
  then base ++ map flip (filter (fun p => negb (row p =? col p) && (col p <? i1)) base)
  else base.

(** bin1_offset[i] of a row-sorted table *)
Definition offset (px : list pixel) (i : Z) : Z := zlen (filter (fun p => row p <? i) px).

(** CSRReader.get_spans for a chunksize >= nnz: edges = i0 + unique(searchsorted(off[i0:i1+1], [lo, hi])),
    i.e. [i0; e] where e is the first row index at which the offset reaches off[i1] (no span at all when e = i0) *)
Definition last_edge (px : list pixel) (i0 i1 : Z) : Z :=
  i0 + searchsorted_left (map (offset px) (zrange i0 (Z.to_nat (i1 - i0 + 1)))) (offset px i1).
Definition degenerate (bb : bbox) : bool :=
  let '(i0, i1, j0, j1) := bb in (i1 - i0 <? 1) || (j1 - j0 <? 1).
Definition edges1 (px : list pixel) (bb : bbox) : list Z :=
  let '(i0, i1, j0, j1) := bb in
  if degenerate bb then []
  else let e := last_edge px i0 i1 in if e =? i0 then [i0] else [i0; e].
(** zip(edges[:-1], edges[1:]) *)
Definition spans_of (edges : list Z) : list (Z * Z) := combine (removelast edges) (tl edges).

(** DirectRangeQuery2D: one task per span, reflect = False *)
Definition direct_chunks (px : list pixel) (bb : bbox) (cuts : bbox -> list Z) : list (list pixel) :=
  map (fun sp => reader px bb sp false) (spans_of (cuts bb)).

(** _comes_before / _contains of core/_rangequery.py *)
Definition comes_before (a0 a1 b0 b1 : Z) (strict : bool) : bool :=
  if a0 <? b0 then (if strict then a1 <=? b0 else a1 <=? b1) else false.
Definition contains (a0 a1 b0 b1 : Z) : bool :=
  if (b0 <? a0) || (a1 <? b1) then false else (a0 <=? b0) && (b1 <=? a1).

(** FillLowerRangeQuery2D.__init__ : list of (transpose result?, sub-box); None = "This shouldn't happen" *)
Definition fill_plan (bb : bbox) : option (list (bool * bbox)) :=
  let '(i0, i1, j0, j1) := bb in
  let tr := j1 <? i1 in
  let '(a0, a1, b0, b1) := if tr then (j0, j1, i0, i1) else (i0, i1, j0, j1) in
  if (a0 =? b0) || comes_before a0 a1 b0 b1 true then Some [(tr, (a0, a1, b0, b1))]
  else if comes_before a0 a1 b0 b1 false then Some [(tr, (a0, b0, b0, b1)); (tr, (b0, a1, b0, b1))]
  else if contains b0 b1 a0 a1 then Some [(negb tr, (b0, a0, a0, a1)); (tr, (a0, a1, a0, b1))]
  else None.

Definition fill_task (px : list pixel) (cuts : bbox -> list Z) (t : bool * bbox) : list (list pixel) :=
  map (fun sp => let r := reader px (snd t) sp true in if fst t then map flip r else r)
      (spans_of (cuts (snd t))).
Definition fill_chunks (px : list pixel) (bb : bbox) (cuts : bbox -> list Z) : option (list (list pixel)) :=
  option_map (fun plan => concat (map (fill_task px cuts) plan)) (fill_plan bb).

(** dump.py:248-251 *)
Definition engine_chunks (c : dcooler) (o : dopts) (cuts : bbox -> list Z) : option (list (list pixel)) :=
  if o_fill o && d_symm c then fill_chunks (d_px c) (bbox_of c o) cuts
  else Some (direct_chunks (d_px c) (bbox_of c o) cuts).

(* the reference the dump is compared with (the library query): *)
Definition window_select (px : list pixel) (bb : bbox) : list pixel :=
  filter (fun p => in_window bb (fst p)) px.
Definition symm_completion (px : list pixel) : list pixel :=
  px ++ map flip (filter (fun p => negb (row p =? col p)) px).

(* ------------------------------------------------------------------ the annotator *)
Inductive cell := CZ (z : Z) | CS (s : string) | CQ (q : option Q).
Definition drow := list (string * cell).           (* a data-frame row: (column name, value), in column order *)

Definition bin_at (c : dcooler) (i : Z) : bin := nth (Z.to_nat i) (d_bins c) (0, 0, 0).
Definition chrom_name (c : dcooler) (x : bin) : string := nth (Z.to_nat (bchrom x)) (d_names c) EmptyString.
Definition weight_at (c : dcooler) (i : Z) : option Q :=
  match d_weight c with Some w => nth (Z.to_nat i) w None | None => None end.

(** bins[f] looked up at bin i; None = KeyError ("Column not found") *)
Definition bin_field (c : dcooler) (f : string) (i : Z) : option cell :=
  if String.eqb f "chrom" then Some (CS (chrom_name c (bin_at c i)))
  else if String.eqb f "start" then Some (CZ (bstart (bin_at c i)))
  else if String.eqb f "end" then Some (CZ (bend (bin_at c i)))
  else if String.eqb f "weight" then
    match d_weight c with Some _ => Some (CQ (weight_at c i)) | None => None end
  else None.

(** api.annotate(..., bins[fields], replace=True) restricted to one side: columns f+suffix, in field order *)
Definition side_cols (c : dcooler) (fields : list string) (suffix : string) (i : Z) : option drow :=
  mapM (fun f => option_map (fun v => (append f suffix, v)) (bin_field c f i)) fields.

Definition balanced_value (c : dcooler) (p : pixel) : option Q :=
  match weight_at c (row p), weight_at c (col p) with
  | Some a, Some b => Some (a * b * inject_Z (val p))%Q
  | _, _ => None
  end.

(** chunk[col] += 1 for the named columns that are present *)
Definition bump (names : list string) (r : drow) : drow :=
  map (fun nc => if mem_str (fst nc) names
                 then (fst nc, match snd nc with CZ z => CZ (z + 1) | x => x end) else nc) r.

(** chunk[list(columns)] ; None = KeyError *)
Fixpoint project (cols : list string) (r : drow) : option drow :=
  match cols with
  | [] => Some []
  | n :: t => match assoc n r, project t r with Some v, Some r' => Some ((n, v) :: r') | _, _ => None end
  end.

Definition oapp {A} (a b : option (list A)) : option (list A) :=
  match a, b with Some x, Some y => Some (x ++ y) | _, _ => None end.

(** make_annotator(...)(chunk) followed by the column restriction, on one record *)
Definition annot_row (c : dcooler) (o : dopts) (p : pixel) : option drow :=
  let extra : option drow :=
    match o_annot o with
    | None => Some []
    | Some fs => oapp (side_cols c fs "1" (row p)) (side_cols c fs "2" (col p))
    end in
  let vals : drow :=
    [("count"%string, CZ (val p))] ++ (if o_balanced o then [("balanced"%string, CQ (balanced_value c p))] else []) in
  let ids : option drow :=
    if o_join o
    then oapp (side_cols c ["chrom"; "start"; "end"]%string "1" (row p))
              (side_cols c ["chrom"; "start"; "end"]%string "2" (col p))
    else Some [("bin1_id"%string, CZ (row p)); ("bin2_id"%string, CZ (col p))] in
  match oapp (oapp ids (Some vals)) extra with
  | None => None
  | Some r =>
      let r := if o_ids1 o then bump ["bin1_id"; "bin2_id"]%string r else r in
      let r := if o_starts1 o then bump ["start1"; "start2"]%string r else r in
      match o_columns o with None => Some r | Some cols => project cols r end
  end.

(** errors of the annotator / projection are column-level: they occur on every chunk, also an empty one *)
Definition annot_chunk (c : dcooler) (o : dopts) (ch : list pixel) : option (list drow) :=
  match annot_row c o ((0, 0), 0) with
  | None => None
  | Some _ => mapM (annot_row c o) ch
  end.

Definition header_of (c : dcooler) (o : dopts) : option (list string) :=
  option_map (map fst) (annot_row c o ((0, 0), 0)).

(** the text as a list of lines, each a list of cells (formatting of one cell by to_csv is not modelled) *)
Inductive line := Header (names : list string) | Data (cells : list cell).

(** dump.py:205-304, pixel branch.  None = non-zero exit status *)
Definition dump_pixels (c : dcooler) (o : dopts) (cuts : bbox -> list Z) : option (list line) :=
  if o_balanced o && (match d_weight c with None => true | Some _ => false end) then None
  else match engine_chunks c o cuts with
  | None => None
  | Some chunks =>
      match mapM (annot_chunk c o) chunks with
      | None => None
      | Some rows =>
          let body := map (fun r => Data (map snd r)) (concat rows) in
          match chunks, o_header o, header_of c o with
          | _ :: _, true, Some h => Some (Header h :: body)
          | _, _, _ => Some body
          end
      end
  end.

(** what the harness evaluates: single-span chunking *)
Definition dump1 (c : dcooler) (o : dopts) : option (list line) :=
  dump_pixels c o (edges1 (d_px c)).

(* ------------------------------------------------------------------ numbers as text *)
Definition print_Z (z : Z) : string := NilEmpty.string_of_int (Z.to_int z).
Definition parse_Z (s : string) : option Z := option_map Z.of_int (NilEmpty.int_of_string s).

(* ------------------------------------------------------------------ read_fields *)
(** python sorted(names, key=num.__getitem__) : stable insertion sort *)
Fixpoint insert_by {A} (key : A -> Z) (x : A) (l : list A) : list A :=
  match l with
  | [] => [x]
  | y :: t => if key x <=? key y then x :: l else y :: insert_by key x t
  end.
Definition sort_by {A} (key : A -> Z) (l : list A) : list A := fold_right (insert_by key) [] l.

(** sorted(set(usecols)) *)
Fixpoint insert_uniq (x : Z) (l : list Z) : list Z :=
  match l with
  | [] => [x]
  | y :: t => if x <? y then x :: l else if x =? y then l else y :: insert_uniq x t
  end.
Definition sort_uniq (l : list Z) : list Z := fold_right insert_uniq [] l.

(** pandas.read_csv(usecols=U, names=N) on one record: the used columns are taken in ascending
    column order whatever the order of U, and N is assigned to them positionally;
    a different number of names is an error; a missing column is an error *)
Definition pandas_read_row (usecols : list Z) (names : list string) (rec : list string)
  : option (list (string * string)) :=
  let u := sort_uniq usecols in
  if (length u =? length names)%nat
  then mapM (fun nk => option_map (fun v => (fst nk, v)) (nth_error rec (Z.to_nat (snd nk)))) (combine names u)
  else None.

Definition num_of (nums : list (string * Z)) (n : string) : Z :=
  match assoc n nums with Some k => k | None => -1 end.

(** load.py:334-346 / cload.py:619-631 after fix D8 *)
Definition read_fields (names : list string) (nums : list (string * Z)) (rec : list string)
  : option (list (string * string)) :=
  let names' := sort_by (num_of nums) names in
  pandas_read_row (map (num_of nums) names') names' rec.

(** the code before fix D8 (names in declaration order), kept for the regression statement *)
Definition read_fields_old (names : list string) (nums : list (string * Z)) (rec : list string) :=
  pandas_read_row (map (num_of nums) names) names rec.

(* ------------------------------------------------------------------ parse_field_param *)
Fixpoint split_aux (sep : ascii) (s : string) (cur : string) : list string :=
  match s with
  | EmptyString => [cur]
  | String a r => if Ascii.eqb a sep then cur :: split_aux sep r EmptyString
                  else split_aux sep r (append cur (String a EmptyString))
  end.
(** str.split(sep) for a one-character separator *)
Definition split (sep : ascii) (s : string) : list string := split_aux sep s EmptyString.

Inductive fp_result :=
| FP (name : string) (colnum : option Z) (dtype : option string) (agg : option string)
| FPBad.

Fixpoint fp_props (items : list string) (includes_agg : bool) (dtype agg : option string)
  : option (option string * option string) :=
  match items with
  | [] => Some (dtype, agg)
  | it :: t =>
      match split "=" it with
      | [p; v] =>
          if String.eqb p "dtype" then fp_props t includes_agg (Some v) agg
          else if String.eqb p "agg" && includes_agg then fp_props t includes_agg dtype (Some v)
          else None
      | _ => None
      end
  end.

(** cli/_util.py:50-100.  int() is modelled on optionally signed decimal numerals;
    np.dtype(value) is kept as the raw text *)
Definition parse_field_param (arg : string) (includes_colnum includes_agg : bool) : fp_result :=
  match split ":" arg with
  | [prefix] | [prefix; _] =>
      let props := match split ":" arg with [_; p] => Some p | _ => None end in
      let nc : option (string * option Z) :=
        if includes_colnum then
          match split "=" prefix with
          | [n] => Some (n, None)
          | [n; k] => match parse_Z k with
                      | Some v => if v - 1 <? 0 then None else Some (n, Some (v - 1))
                      | None => None
                      end
          | _ => None
          end
        else Some (prefix, None) in
      match nc with
      | None => FPBad
      | Some (n, k) =>
          match props with
          | None => FP n k None None
          | Some p => match fp_props (split "," p) includes_agg None None with
                      | Some (d, a) => FP n k d a
                      | None => FPBad
                      end
          end
      end
  | _ => FPBad
  end.

(* ------------------------------------------------------------------ schema assembly *)
Definition add_name (n : string) (l : list string) : list string := if mem_str n l then l else l ++ [n].
Fixpoint set_num (n : string) (k : Z) (l : list (string * Z)) : list (string * Z) :=
  match l with
  | [] => [(n, k)]
  | (n', k') :: t => if String.eqb n n' then (n, k) :: t else (n', k') :: set_num n k t
  end.

Record schema := {
  s_in  : list string;              (* input_field_names  *)
  s_num : list (string * Z);        (* input_field_numbers *)
  s_out : list string               (* output_field_names *)
}.

(** load.py:213-319 : `format` bg2/coo and the --field arguments (already parsed); None = usage error (click) *)
Definition load_schema (bg2 : bool) (fields : list fp_result) : option schema :=
  let names0 := if bg2 then ["chrom1"; "start1"; "end1"; "chrom2"; "start2"; "end2"]%string
                else ["bin1_id"; "bin2_id"]%string in
  let nums0 := if bg2 then [("chrom1", 0); ("start1", 1); ("end1", 2); ("chrom2", 3); ("start2", 4); ("end2", 5); ("count", 6)]%string
               else [("bin1_id", 0); ("bin2_id", 1); ("count", 2)]%string in
  let out0 := ["bin1_id"; "bin2_id"]%string in
  match fields with
  | [] => Some {| s_in := names0 ++ ["count"%string]; s_num := nums0; s_out := out0 ++ ["count"%string] |}
  | _ =>
      fold_left (fun acc f =>
        match acc, f with
        | Some s, FP n None d _ =>
            if (mem_str n ["bin1_id"; "bin2_id"]%string) && (match d with Some _ => true | None => false end) then Some s
            else if String.eqb n "count" && (match d with Some _ => true | None => false end)
            then Some {| s_in := s_in s ++ ["count"%string]; s_num := s_num s; s_out := s_out s ++ ["count"%string] |}
            else None
        | Some s, FP n (Some k) _ _ =>
            Some {| s_in := add_name n (s_in s); s_num := set_num n k (s_num s); s_out := add_name n (s_out s) |}
        | _, _ => None
        end) fields (Some {| s_in := names0; s_num := nums0; s_out := out0 |})
  end.

(** cload.py:528-594 : positional numbers are the one-based -c1 -p1 -c2 -p2 ; None = usage error (click) *)
Definition cload_schema (c1 p1 c2 p2 : Z) (fields : list fp_result) : option schema :=
  if (c1 =? 0) || (p1 =? 0) || (c2 =? 0) || (p2 =? 0) then None else
  let s0 := {| s_in := ["chrom1"; "pos1"; "chrom2"; "pos2"]%string;
               s_num := [("chrom1", c1 - 1); ("pos1", p1 - 1); ("chrom2", c2 - 1); ("pos2", p2 - 1)]%string;
               s_out := [] |} in
  let r := fold_left (fun acc f =>
        match acc, f with
        | Some s, FP n None (Some _) None =>
            if mem_str n ["bin1_id"; "bin2_id"; "count"]%string then Some s else None
        | Some s, FP n (Some k) _ _ =>
            Some {| s_in := add_name n (s_in s); s_num := set_num n k (s_num s); s_out := add_name n (s_out s) |}
        | _, _ => None
        end) fields (Some s0) in
  option_map (fun s => {| s_in := s_in s; s_num := s_num s; s_out := add_name "count" (s_out s) |}) r.

(* ------------------------------------------------------------------ load / cload at pixel level *)
Inductive tril := Reflect | Drop | Keep.        (* tril_action "reflect" / "drop" / None *)

(** _sanitize_pixels on one record (is_one_based, tril_action) *)
Definition sanitize_pixel (one_based : bool) (t : tril) (p : pixel) : list pixel :=
  let p := if one_based then ((row p - 1, col p - 1), val p) else p in
  if col p <? row p then match t with Reflect => [flip p] | Drop => [] | Keep => [p] end else [p].

Fixpoint has_dup_key (l : list pixel) : bool :=
  match l with
  | [] => false
  | p :: t => existsb (fun q => keqb (fst p) (fst q)) t || has_dup_key t
  end.

(** python: [l[i:i+n] for i in range(0, len(l), n)] — the read_csv(chunksize=n) iterator; fuel = len l *)
Fixpoint chunks_fuel {A} (fuel : nat) (n : nat) (l : list A) : list (list A) :=
  match fuel, l with
  | _, [] => []
  | O, _ => [l]
  | S f, _ => firstn n l :: chunks_fuel f n (skipn n l)
  end.
Definition chunks_of {A} (n : nat) (l : list A) : list (list A) := chunks_fuel (length l) n l.

(** `cooler load` on already tokenised records: every chunk is sanitised, a chunk holding the same pixel
    twice is refused (dupcheck), the chunks are merged by summation (create_from_unordered).  None = error *)
Definition load_pixels (one_based : bool) (t : tril) (chunk : nat) (recs : list pixel) : option (list pixel) :=
  let chs := map (fun ch => concat (map (sanitize_pixel one_based t) ch)) (chunks_of chunk recs) in
  if existsb has_dup_key chs then None else Some (aggregate (concat chs)).

(** one text record -> the pixel of value column [vname]; COO: ids are the fields bin1_id / bin2_id *)
Definition coo_record (s : schema) (vname : string) (rec : list string) : option pixel :=
  match read_fields (s_in s) (s_num s) rec with
  | None => None
  | Some r =>
      match assoc "bin1_id" r, assoc "bin2_id" r, assoc vname r with
      | Some a, Some b, Some v =>
          match parse_Z a, parse_Z b, parse_Z v with
          | Some a, Some b, Some v => Some ((a, b), v)
          | _, _, _ => None
          end
      | _, _, _ => None
      end
  end.

Definition load_coo (s : schema) (vname : string) (one_based : bool) (t : tril) (chunk : nat)
           (text : list (list string)) : option (list pixel) :=
  match mapM (coo_record s vname) text with
  | None => None
  | Some recs => load_pixels one_based t chunk recs
  end.

(** the bin that contains position [pos] of chromosome [cid] (the C05 specification of
    sanitize_records' bin assignment): index of the first bin of that chromosome with start <= pos < end *)
Fixpoint find_bin_from (i : Z) (bins : list bin) (cid pos : Z) : option Z :=
  match bins with
  | [] => None
  | x :: t => if (bchrom x =? cid) && (bstart x <=? pos) && (pos <? bend x) then Some i
              else find_bin_from (i + 1) t cid pos
  end.
Definition find_bin := find_bin_from 0.

Fixpoint index_of (n : string) (l : list string) (i : Z) : option Z :=
  match l with [] => None | x :: t => if String.eqb n x then Some i else index_of n t (i + 1) end.

(** a positional record after decoding: ((chrom id, anchor) x 2, value) *)
Definition anchor_rec := ((Z * Z) * (Z * Z) * Z)%type.

(** _sanitize_records on one record: one-based shift, tril test on (chrom id, anchor), bin assignment;
    [] = dropped record, None = no containing bin (BadInputError or out of the table) *)
Definition sanitize_record (bins : list bin) (one_based : bool) (t : tril) (r : anchor_rec)
  : option (list pixel) :=
  let '(a1, a2, v) := r in
  let a1 := if one_based then (fst a1, snd a1 - 1) else a1 in
  let a2 := if one_based then (fst a2, snd a2 - 1) else a2 in
  let is_tril := kltb a2 a1 in
  let keep := match t with Drop => negb is_tril | _ => true end in
  let '(a1, a2) := match t with Reflect => if is_tril then (a2, a1) else (a1, a2) | _ => (a1, a2) end in
  if keep then
    match find_bin bins (fst a1) (snd a1), find_bin bins (fst a2) (snd a2) with
    | Some b1, Some b2 => Some [((b1, b2), v)]
    | _, _ => None
    end
  else Some [].

(** BG2 text record -> anchor record of value column [vname] (anchors are the starts) *)
Definition bg2_record (names : list string) (s : schema) (vname : string) (rec : list string) : option anchor_rec :=
  match read_fields (s_in s) (s_num s) rec with
  | None => None
  | Some r =>
      match assoc "chrom1" r, assoc "start1" r, assoc "chrom2" r, assoc "start2" r, assoc vname r with
      | Some c1, Some s1, Some c2, Some s2, Some v =>
          match index_of c1 names 0, parse_Z s1, index_of c2 names 0, parse_Z s2, parse_Z v with
          | Some c1, Some s1, Some c2, Some s2, Some v => Some ((c1, s1), (c2, s2), v)
          | _, _, _, _, _ => None
          end
      | _, _, _, _, _ => None
      end
  end.

Definition load_anchor_recs (bins : list bin) (one_based : bool) (t : tril) (chunk : nat)
           (recs : list anchor_rec) : option (list pixel) :=
  match mapM (fun ch => option_map (@concat pixel) (mapM (sanitize_record bins one_based t) ch)) (chunks_of chunk recs) with
  | None => None
  | Some chs => if existsb has_dup_key chs then None else Some (aggregate (concat chs))
  end.

Definition load_bg2 (bins : list bin) (names : list string) (s : schema) (vname : string)
           (one_based : bool) (t : tril) (chunk : nat) (text : list (list string)) : option (list pixel) :=
  match mapM (bg2_record names s vname) text with
  | None => None
  | Some recs => load_anchor_recs bins one_based t chunk recs
  end.

(** pairs text record; [vname] = None gives the value 1 (the `count` column of aggregate_records);
    a record naming an unknown chromosome is dropped ([] of the outer list) *)
Definition pairs_record (names : list string) (s : schema) (vname : option string) (rec : list string)
  : option (list anchor_rec) :=
  match read_fields (s_in s) (s_num s) rec with
  | None => None
  | Some r =>
      match assoc "chrom1" r, assoc "pos1" r, assoc "chrom2" r, assoc "pos2" r with
      | Some c1, Some p1, Some c2, Some p2 =>
          let v := match vname with
                   | None => Some 1
                   | Some n => match assoc n r with Some t => parse_Z t | None => None end
                   end in
          match parse_Z p1, parse_Z p2, v with
          | Some p1, Some p2, Some v =>
              match index_of c1 names 0, index_of c2 names 0 with
              | Some c1, Some c2 => Some [((c1, p1), (c2, p2), v)]
              | _, _ => Some []
              end
          | _, _, _ => None
          end
      | _, _, _, _ => None
      end
  end.

(** `cooler cload pairs` : sanitize_records + aggregate_records per chunk, chunks merged by summation *)
Definition cload_pairs (bins : list bin) (names : list string) (s : schema) (vname : option string)
           (one_based : bool) (t : tril) (text : list (list string)) : option (list pixel) :=
  match mapM (pairs_record names s vname) text with
  | None => None
  | Some recs =>
      match mapM (sanitize_record bins one_based t) (concat recs) with
      | None => None
      | Some pxs => Some (aggregate (concat pxs))
      end
  end.

(* ------------------------------------------------------------------ dump | load *)
(** the text of `cooler dump` (no flags / --one-based-ids) as COO records, and of `dump --join`
    (optionally --one-based-starts) as BG2 records *)
Definition coo_text (one_based : bool) (px : list pixel) : list (list string) :=
  map (fun p => let d := if one_based then 1 else 0 in
                [print_Z (row p + d); print_Z (col p + d); print_Z (val p)]) px.
Definition bg2_text (bins : list bin) (names : list string) (one_based : bool) (px : list pixel) : list (list string) :=
  map (fun p =>
         let b1 := nth (Z.to_nat (row p)) bins (0, 0, 0) in
         let b2 := nth (Z.to_nat (col p)) bins (0, 0, 0) in
         let d := if one_based then 1 else 0 in
         [nth (Z.to_nat (bchrom b1)) names EmptyString; print_Z (bstart b1 + d); print_Z (bend b1);
          nth (Z.to_nat (bchrom b2)) names EmptyString; print_Z (bstart b2 + d); print_Z (bend b2);
          print_Z (val p)]) px.

(* ------------------------------------------------------------------ executable hypotheses of the round-trip theorems *)
(** bins listed by (chromosome, start), the bins of a chromosome pairwise disjoint; names distinct; bins non-empty *)
Definition binltb (x y : bin) : bool := (bchrom x <? bchrom y) || ((bchrom x =? bchrom y) && (bend x <=? bstart y)).
Fixpoint bins_sorted_b (l : list bin) : bool :=
  match l with [] => true | x :: t => forallb (binltb x) t && bins_sorted_b t end.
Fixpoint names_nodup_b (l : list string) : bool :=
  match l with [] => true | x :: t => negb (existsb (String.eqb x) t) && names_nodup_b t end.
Definition bins_ok_b (bins : list bin) (names : list string) : bool :=
  names_nodup_b names
  && forallb (fun x => (0 <=? bchrom x) && (bchrom x <? Z.of_nat (length names)) && (bstart x <? bend x)) bins
  && bins_sorted_b bins.


(* ------------------------------------------------------------------ printable observables for the harness *)
Inductive ocell := OZ (z : Z) | OS (s : string) | OQ (num den : Z) | ONaN.
Definition obs_cell (x : cell) : ocell :=
  match x with
  | CZ z => OZ z
  | CS s => OS s
  | CQ (Some q) => OQ (Qnum q) (Zpos (Qden q))
  | CQ None => ONaN
  end.
Inductive oline := OHeader (names : list string) | OData (cells : list ocell).
Definition obs_line (l : line) : oline :=
  match l with Header h => OHeader h | Data cs => OData (map obs_cell cs) end.
Definition dump_obs (c : dcooler) (o : dopts) : option (list oline) := option_map (map obs_line) (dump1 c o).
