"""C20 — binnify tiles the genome; a reported bin size is always true.

Correspondence: util.binnify / util.get_binsize / util.get_chromsizes /
cli._util.parse_bins / `cooler makebins` / Cooler.binsize+info against the Gallina
model (coq/Model/Bins.v), on exhaustive small scopes + seeded random tables.
Property oracle (independent of the code under test): every bin of a table is
checked against [k*b, min((k+1)*b, L)).
"""
from __future__ import annotations

import itertools
import os

import numpy as np
import pandas as pd

import coqio as C
from gen_bins import compositions, names_for, table_from_blocks, random_blocks

PROP = "C20"
RULE = ("binnify: every chromsizes table with <=2 (quick) / <=3 (thorough) chromosomes of length 1..12 x width 1..13, plus seeded random "
        "large tables; inference: every valid bin table (all compositions of the length) with 1 chromosome of length <=8 and 2 chromosomes "
        "of length <=5 (quick) / <=7 (thorough), plus random tables with up to 4 chromosomes incl. longer-last-bin tables; "
        "non-trivial = table with at least one chromosome of >=2 bins or a length that is not a multiple of the width; distinct by input hash")
TRUSTED = ["pandas groupby/drop_duplicates/concat are observed through util.get_binsize/get_chromsizes, not modelled separately"]
# standard-library axioms behind Coq's classical real numbers (used only by the binary64 division theorem, via Flocq)
ALLOW_AXIOMS = ("ClassicalDedekindReals.sig_not_dec", "ClassicalDedekindReals.sig_forall_dec",
                "FunctionalExtensionality.functional_extensionality_dep", "Classical_Prop.classic")
ASSUMPTIONS = ["numpy float64 true division is the correctly rounded IEEE-754 binary64 quotient (then C20_binary64_bin_count_exact PROVES that "
               "int(np.ceil(clen / binsize)) is the exact ceiling division for operands < 2^53; exercised up to 2^31-1)"]
RESIDUE = ["float division inside binnify: exactness below 2^53 is a theorem (Flocq); operands >= 2^53 are outside the claim"]


ARG_TYPES = [("int64", "int"), ("int32", "int64"), ("uint64", "int32"), ("float64", "float"), ("int64", "uint64"), ("uint32", "int")]


def impl_binnify(sizes, b, cs_dtype="int64", b_type="int"):
    """cs_dtype / b_type: how the lengths and the width are handed over (a Series of another numeric dtype, a numpy scalar, a float
    holding an integer) - what a bin table says does not depend on it"""
    from cooler.util import binnify
    names = names_for(len(sizes))
    cs = pd.Series(index=names, data=list(sizes), dtype=getattr(np, cs_dtype))
    conv = {"int": int, "float": float}.get(b_type) or getattr(np, b_type)
    df = binnify(cs, conv(b))
    idx = {n: i for i, n in enumerate(names)}
    # also check the categorical carries the given order
    cats = list(df["chrom"].cat.categories)
    assert cats == names, ("categories", cats)
    return [(idx[c], int(s), int(e)) for c, s, e in zip(df["chrom"].astype(str), df["start"], df["end"])]


def oracle_binnify(sizes, b, rows):
    exp = []
    for i, L in enumerate(sizes):
        k = 0
        while k * b < L:
            exp.append((i, k * b, min((k + 1) * b, L)))
            k += 1
    return rows == exp


def oracle_truthful(blocks, b):
    """independent reading of 'fixed bin size b': every bin is [k*b, min((k+1)*b, L))"""
    for blk in blocks:
        L = blk[-1][2]
        for k, (c, s, e) in enumerate(blk):
            if s != k * b or e != min((k + 1) * b, L):
                return False
    return True

def derive_table(sizes, b, op):
    """a bin table DERIVED from a binnify() output by ordinary pandas edits (copy, boolean filtering, .loc assignment,
    reset_index, concat of pieces): what the result says is decided by its rows, not by where it came from"""
    from cooler.util import binnify
    names = names_for(len(sizes))
    df = binnify(pd.Series(index=names, data=list(sizes), dtype=np.int64), b).copy()
    if op == "fold-last":        # the short last bin of every chromosome with >= 3 bins is folded into its predecessor
        keep = np.ones(len(df), dtype=bool)
        for nm, L in zip(names, sizes):
            idx = np.flatnonzero((df["chrom"] == nm).values)
            if len(idx) >= 3:
                keep[idx[-1]] = False
                df.loc[df.index[idx[-2]], "end"] = L
        df = df[keep].reset_index(drop=True)
    elif op == "every-2nd":      # pairs of bins fused: a true 2b grid
        pieces = []
        for nm, L in zip(names, sizes):
            g = df[df["chrom"] == nm]
            g2 = g.iloc[::2].copy()
            g2["end"] = list(g2["start"].values[1:]) + [L]
            pieces.append(g2)
        df = pd.concat(pieces, axis=0, ignore_index=True)
    elif op == "drop-second":    # the second bin of the first chromosome with >= 3 bins is fused into the first one: variable widths
        for nm, L in zip(names, sizes):
            idx = np.flatnonzero((df["chrom"] == nm).values)
            if len(idx) >= 3:
                df.loc[df.index[idx[0]], "end"] = int(df["end"].iloc[idx[1]])
                df = df.drop(df.index[idx[1]]).reset_index(drop=True)
                break
    elif op == "head":           # the last chromosome's rows filtered out (when there are several)
        if len(sizes) >= 2:
            df = df[df["chrom"] != names[-1]].reset_index(drop=True)
    elif op == "identity":
        df = df.copy()
    else:
        raise ValueError(op)
    blocks = []
    for ci, nm in enumerate(names):
        g = df[df["chrom"].astype(str) == nm]
        if len(g):
            blocks.append([(len(blocks), int(s_), int(e)) for s_, e in zip(g["start"], g["end"])])
    return df, blocks

DERIVE_OPS = ["identity", "fold-last", "every-2nd", "drop-second", "head"]


def run(ctx):
    from cooler.util import get_binsize, get_chromsizes
    thorough = ctx.tier == "thorough"
    rng = ctx.rng

    # ---------------------------------------------------------- 1. binnify
    cases = []
    maxc = 3 if thorough else 2
    for nc in range(1, maxc + 1):
        for sizes in itertools.product(range(1, 13), repeat=nc):
            for b in range(1, 14):
                cases.append((list(sizes), b))
    if not thorough:
        allthree = list(itertools.product(range(1, 13), repeat=3))
        for sizes in rng.sample(allthree, 150):
            cases.append((list(sizes), rng.randint(1, 13)))
    for _ in range(300 if thorough else 60):   # large coordinates
        nc = rng.randint(1, 4)
        b = rng.choice([1, 2, 1000, 2 ** 20, 10 ** 6, 2 ** 31 - 1, rng.randint(1, 10 ** 7)])
        sizes = []
        for _ in range(nc):
            nb = rng.randint(1, 6)
            L = rng.choice([nb * b, nb * b - rng.randint(0, b - 1), nb * b + 0])
            sizes.append(min(max(L, 1), 2 ** 31 - 1))
        cases.append((sizes, b))
    impl = [impl_binnify(s_, b) for s_, b in cases]
    exprs = [f"binnify {C.zl(s_)} {C.z(b)}" for s_, b in cases]
    model = C.coq_eval("From Cooler Require Import Model.Bins.", exprs, tmpdir=ctx.tmp / "binnify")
    for (sizes, b), im, mo in zip(cases, impl, model):
        case = {"fn": "binnify", "sizes": sizes, "binsize": b}
        ctx.case(case, nontrivial=any(L > b or L % b for L in sizes), kind="binnify")
        ctx.compare("binnify", case, [list(r) for r in im], [list(r) for r in mo])
        if not oracle_binnify(sizes, b, im):
            ctx.fail(case, {"got": im[:20]}, None)

    # the same tables with the lengths / the width handed over as other numeric types (values below 2^31 fit all of them)
    for k, ((sizes, b), mo) in enumerate(zip(cases, model)):
        if k % (3 if thorough else 11):
            continue
        cs_dtype, b_type = ARG_TYPES[(k // (3 if thorough else 11)) % len(ARG_TYPES)]
        case = {"fn": "binnify", "sizes": sizes, "binsize": b, "chromsizes_dtype": cs_dtype, "binsize_type": b_type}
        ctx.case(case, nontrivial=any(L > b or L % b for L in sizes), kind="binnify:argument-types")
        ctx.dist["binnify argument types:" + cs_dtype + "/" + b_type] += 1
        try:
            im = impl_binnify(sizes, b, cs_dtype, b_type)
        except Exception as e:
            ctx.fail(case, {"error": repr(e)[:300]}, None)
            continue
        ctx.compare("binnify (argument types)", case, [list(r) for r in im], [list(r) for r in mo])
        if not oracle_binnify(sizes, b, im):
            ctx.fail(case, {"got": im[:20]}, None)

    # exact multiples of "round" bin widths: the bin COUNT is where float shortcuts (a reciprocal, a rounded quotient) go
    # wrong; only the count, the tiling and the absence of empty bins are judged (oracle), widths and multiples swept densely
    widths = [3, 7, 10, 25, 100, 1000, 5000, 10000, 25000, 40000, 50000, 100000, 250000, 500000, 10 ** 6, 2 ** 20, 3 * 10 ** 6]
    ks = list(range(1, 61)) + [rng.randint(61, 2000) for _ in range(40 if thorough else 12)]
    for b in widths:
        sizes = [k * b for k in ks if k * b < 2 ** 31]
        shifted = [k * b + d for k in ks[:20] for d in (-1, 1) if 0 < k * b + d < 2 ** 31]
        for group in (sizes, shifted):
            case = {"fn": "binnify (exact multiples and neighbours)", "binsize": b, "n_lengths": len(group)}
            ctx.case(case, kind="binnify:multiples")
            rows = impl_binnify(group, b)
            per = {}
            for (c, s_, e) in rows:
                per.setdefault(c, []).append((s_, e))
            bad = None
            for ci, L in enumerate(group):
                got = per.get(ci, [])
                exp_n = -(-L // b)
                if len(got) != exp_n or any(e <= s_ for s_, e in got) or got[0][0] != 0 or got[-1][1] != L \
                        or any(got[t][1] != got[t + 1][0] for t in range(len(got) - 1)) or any(e - s_ != b for s_, e in got[:-1]):
                    bad = {"length": L, "expected_bins": exp_n, "got_bins": len(got), "last_bins": got[-2:]}
                    break
            if bad:
                ctx.fail({**case, "length": bad["length"]}, bad, None)

    # ------------------------------------------- 2. get_binsize / get_chromsizes
    tables = []
    comps = {L: compositions(L) for L in range(1, 9)}
    for L in range(1, 9):
        for comp in comps[L]:
            tables.append([comp])
    m2 = 7 if thorough else 5
    for L1 in range(1, m2 + 1):
        for L2 in range(1, m2 + 1):
            for c1 in comps[L1]:
                for c2 in comps[L2]:
                    tables.append([c1, c2])
    for _ in range(2000 if thorough else 400):
        tables.append(random_blocks(rng))
    # regression corpus (defect D1, repaired): longer last bin must not report a size
    tables += [[[10, 10, 15]], [[7, 23]], [[10, 10], [35]], [[5, 5, 5], [5, 9]]]
    blocks_list = []
    for widths in tables:
        blocks = []
        for ci, ws in enumerate(widths):
            pos = 0
            blk = []
            for w in ws:
                blk.append((ci, pos, pos + w))
                pos += w
            blocks.append(blk)
        blocks_list.append(blocks)
    def represent(df, blocks, kind):
        """the same table handed over differently: row labels and column dtypes are not part of what a bin table says"""
        if kind == "restart":        # per-chromosome labels restarting at 0 (pd.concat without ignore_index): duplicates
            df.index = [k for blk in blocks for k in range(len(blk))]
        elif kind == "reversed":
            df.index = list(range(len(df)))[::-1]
        elif kind == "offset":
            df.index = [100 + 3 * k for k in range(len(df))]
        elif kind == "strings":
            df.index = [f"r{k % 3}" for k in range(len(df))]
        elif kind == "int32":
            df["start"] = df["start"].astype(np.int32); df["end"] = df["end"].astype(np.int32)
        elif kind == "uint64":
            df["start"] = df["start"].astype(np.uint64); df["end"] = df["end"].astype(np.uint64)
        elif kind == "extra":
            df["gc"] = np.linspace(0, 1, len(df)); df["name"] = [f"b{k}" for k in range(len(df))]
        elif kind == "unused-category" and isinstance(df["chrom"].dtype, pd.CategoricalDtype):
            df["chrom"] = df["chrom"].cat.add_categories(["zz_unused"])
        elif kind == "unused-category-first":      # a declared chromosome without bins AHEAD of the ones that have bins
            df["chrom"] = pd.Categorical(df["chrom"].astype(str), categories=["aa_unused"] + names_for(len(blocks)) + ["zz_unused"], ordered=True)
        elif kind == "unused-category-middle" and len(blocks) >= 2:
            nm = names_for(len(blocks))
            df["chrom"] = pd.Categorical(df["chrom"].astype(str), categories=nm[:1] + ["mm_unused"] + nm[1:], ordered=True)
        elif kind == "filtered-middle" and len(blocks) >= 3:
            pass      # handled by the caller: a middle chromosome's rows are dropped from a categorical table
        return df
    REPS = ["plain", "restart", "reversed", "offset", "strings", "int32", "uint64", "extra", "unused-category",
            "unused-category-first", "unused-category-middle"]
    ncorpus = 4
    expanded = []
    for k, blocks in enumerate(blocks_list):
        small = sum(len(b_) for b_ in blocks) <= 4 and len(blocks) == 2
        kinds = REPS if (k >= len(blocks_list) - ncorpus or (small and k % 3 == 0)) else [REPS[k % len(REPS)]]
        expanded += [(blocks, kd) for kd in kinds]
    blocks_list = [b_ for b_, _ in expanded]
    impl2 = []
    for blocks, kd in expanded:
        df = represent(table_from_blocks(blocks, categorical=rng.random() < 0.5), blocks, kd)
        ctx.dist["bin-table representation:" + kd] += 1
        df0 = df.copy(deep=True)
        bs = get_binsize(df)
        cs = get_chromsizes(df)
        if not (df.equals(df0) and df.index.equals(df0.index) and list(df.columns) == list(df0.columns) and df.dtypes.equals(df0.dtypes)):
            ctx.fail({"fn": "get_binsize/get_chromsizes", "blocks": blocks, "representation": kd}, {"detail": "the caller's bin table was modified"}, None)
        names = names_for(len(blocks))
        impl2.append((None if bs is None else int(bs),
                      [(names.index(str(n)) if str(n) in names else -1, int(l)) for n, l in zip(cs.index, cs.values)]))
    exprs = []
    for blocks in blocks_list:
        t = C.lst([C.tup(C.z(c), C.z(s_), C.z(e)) for blk in blocks for (c, s_, e) in blk])
        bl = C.lst([C.lst([C.tup(C.z(c), C.z(s_), C.z(e)) for (c, s_, e) in blk]) for blk in blocks])
        exprs.append(f"(get_binsize {t}, get_chromsizes {t}, valid_blocks_b {bl})")
    model2 = C.coq_eval("From Cooler Require Import Model.Bins.", exprs, tmpdir=ctx.tmp / "infer")
    for (blocks, kd), (ibs, ics), mo in zip(expanded, impl2, model2):
        mbs, mcs, mvalid = mo
        mbs = None if mbs is None else mbs[1]
        case = {"fn": "get_binsize/get_chromsizes", "blocks": blocks, "representation": kd}
        ctx.case(case, nontrivial=any(len(b_) >= 2 for b_ in blocks), kind="infer:" + ("fixed" if ibs is not None else "variable"))
        if not mvalid:
            ctx.disagree("generator produced a table the model calls invalid", case, True, False)
        ctx.compare("get_binsize", case, ibs, mbs)
        ctx.compare("get_chromsizes", case, [list(x) for x in ics], [list(x) for x in mcs])
        # property oracle
        if ibs is not None and not oracle_truthful(blocks, ibs):
            ctx.fail(case, {"reported_binsize": ibs}, None)
        if ics != [(i, blk[-1][2]) for i, blk in enumerate(blocks)]:
            ctx.fail(case, {"chromsizes": ics}, None)

    # ------------------------------- 2b. tables derived from a binnify() output by pandas edits
    dcases = [([12], 5), ([23, 17, 8], 5), ([30, 30], 10), ([25, 14], 4), ([9], 2), ([40, 7, 33], 8), ([16, 16], 4)]
    for _ in range(30 if thorough else 8):
        dcases.append(([rng.randint(5, 60) for _ in range(rng.randint(1, 3))], rng.randint(2, 12)))
    dlist = []
    for sizes, b in dcases:
        for op in DERIVE_OPS:
            df, blocks = derive_table(sizes, b, op)
            bs = get_binsize(df)
            dlist.append((sizes, b, op, blocks, None if bs is None else int(bs), df))
    dexprs = []
    for sizes, b, op, blocks, ibs, df in dlist:
        t = C.lst([C.tup(C.z(c), C.z(s_), C.z(e)) for blk in blocks for (c, s_, e) in blk])
        dexprs.append(f"get_binsize {t}")
    dmodel = C.coq_eval("From Cooler Require Import Model.Bins.", dexprs, tmpdir=ctx.tmp / "derived")
    ddir = ctx.tmp / "derived_coolers"
    ddir.mkdir(exist_ok=True)
    import cooler as _cooler
    for k, ((sizes, b, op, blocks, ibs, df), mo) in enumerate(zip(dlist, dmodel)):
        case = {"fn": "derived", "sizes": sizes, "binsize": b, "op": op}
        ctx.case(case, nontrivial=any(len(b_) >= 2 for b_ in blocks), kind="derived:" + op)
        ctx.dist["derived table:" + op] += 1
        mbs = None if mo is None else mo[1]
        ctx.compare("get_binsize(derived table)", case, ibs, mbs)
        if ibs is not None and not oracle_truthful(blocks, ibs):
            ctx.fail(case, {"reported_binsize": ibs, "widths": [[e - s_ for _, s_, e in blk] for blk in blocks]}, None)
        if k % 3 == 0 or thorough:
            uri = str(ddir / f"d{k}.cool")
            _cooler.create_cooler(uri, df, {"bin1_id": np.array([0]), "bin2_id": np.array([0]), "count": np.array([1])})
            clr = _cooler.Cooler(uri)
            rep = None if clr.binsize is None else int(clr.binsize)
            if rep != mbs or (rep is not None and not oracle_truthful(blocks, rep)) or clr.info.get("bin-type") != ("fixed" if mbs is not None else "variable"):
                ctx.fail(case, {"Cooler.binsize": rep, "model": mbs, "bin-type": clr.info.get("bin-type")}, None)
            os.remove(uri)

    # ------------------------------- 3. glue: makebins CLI, parse_bins, Cooler.binsize / info
    from click.testing import CliRunner
    from cooler.cli import cli
    from cooler.cli._util import parse_bins
    import cooler
    runner = CliRunner()
    glue = [([12], 5), ([7, 3, 11], 4), ([1], 1), ([9, 9], 9), ([10, 4], 3), ([2 ** 31 - 1], 2 ** 30),
            # numeric edges: lengths and cumulative lengths around 2^31 and 2^32, a chromosome shorter than the bin width
            ([2 ** 31, 2 ** 31 + 1], 2 ** 30), ([2 ** 32 + 5, 37, 2 ** 31 - 1], 2 ** 31), ([3 * 10 ** 9, 10 ** 9], 10 ** 9),
            ([250, 37, 100], 100), ([2 ** 33], 2 ** 33 - 1)]
    for _ in range(40 if thorough else 10):
        glue.append(([rng.randint(1, 40) for _ in range(rng.randint(1, 4))], rng.randint(1, 15)))
    gdir = ctx.tmp / "glue"
    gdir.mkdir(exist_ok=True)
    gexprs = [f"binnify {C.zl(s_)} {C.z(b)}" for s_, b in glue]
    gmodel = C.coq_eval("From Cooler Require Import Model.Bins.", gexprs, tmpdir=ctx.tmp / "gluev")
    for k, ((sizes, b), mo) in enumerate(zip(glue, gmodel)):
        names = names_for(len(sizes))
        cpath = gdir / f"cs{k}.tsv"
        cpath.write_text("".join(f"{n}\t{L}\n" for n, L in zip(names, sizes)))
        case = {"fn": "makebins/parse_bins/Cooler.binsize", "sizes": sizes, "binsize": b}
        ctx.case(case, kind="glue")
        res = runner.invoke(cli, ["makebins", str(cpath), str(b)])
        rows = [ln.split("\t") for ln in res.output.strip().splitlines()] if res.exit_code == 0 else None
        got = None if rows is None else [[names.index(r[0]), int(r[1]), int(r[2])] for r in rows]
        ctx.compare("cooler makebins", case, got, [list(r) for r in mo])
        if got is None or not oracle_binnify(sizes, b, [tuple(r) for r in got]):
            ctx.fail(case, {"makebins": got, "exit": res.exit_code}, None)
        # the same command writing to a FILE (--out / -o), with and without --header, into a fresh path and into a path that
        # already holds an older table (regenerated at another width): the file is exactly the table asked for now
        if k % 2 == 0 or thorough:
            for hdr in (False, True):
                opath = gdir / f"out{k}_{int(hdr)}.bed"
                for prior in (None, max(1, b // 2), b + 3):
                    if prior is not None:
                        runner.invoke(cli, ["makebins", str(cpath), str(prior), "-o", str(opath)])
                    res_o = runner.invoke(cli, ["makebins", str(cpath), str(b), ["--out", "-o"][k % 4 // 2], str(opath)] + (["--header"] if hdr else []))
                    case_o = {"fn": "makebins --out", "sizes": sizes, "binsize": b, "header": hdr, "prior_width_in_same_file": prior}
                    ctx.case(case_o, kind="glue:makebins-out")
                    lines = opath.read_text().splitlines() if (res_o.exit_code == 0 and opath.exists()) else None
                    if lines is not None and hdr:
                        if lines[:1] != ["chrom\tstart\tend"]:
                            ctx.fail(case_o, {"first_line": lines[:1]}, None)
                        lines = lines[1:]
                    got_o = None if lines is None else [[names.index(r[0]) if r[0] in names else -1, int(r[1]), int(r[2])] for r in (ln.split("\t") for ln in lines)]
                    if got_o != [list(r) for r in mo]:
                        ctx.fail(case_o, {"rows_in_file": None if got_o is None else len(got_o), "expected_rows": len(mo), "first_rows": None if got_o is None else got_o[:6], "exit": res_o.exit_code}, None)
                if opath.exists():
                    os.remove(opath)
        cs, bins = parse_bins(f"{cpath}:{b}")
        got2 = [[names.index(str(c)), int(s_), int(e)] for c, s_, e in zip(bins["chrom"].astype(str), bins["start"], bins["end"])]
        ctx.compare("parse_bins", case, got2, [list(r) for r in mo])
        # the same table handed over as a BED bins FILE (the other branch of parse_bins), with chromosome names that look like a
        # header line's first field ("chrom…", "#chrom…", "Chromosome_…") among others: every row of the file is a bin
        alt = [names, [f"chrom{i + 1}" for i in range(len(sizes))], [f"Chromosome_{i + 1}" for i in range(len(sizes))],
               [f"#chrom{i}" for i in range(len(sizes))], [f"chr{i + 1}" for i in range(len(sizes))], [f"start{i}" for i in range(len(sizes))]][k % 6]
        bpath = gdir / f"bins{k}.bed"
        bpath.write_text("".join(f"{alt[r[0]]}\t{r[1]}\t{r[2]}\n" for r in mo))
        case_b = {"fn": "parse_bins(BED bins file)", "sizes": sizes, "binsize": b, "names": alt}
        ctx.case(case_b, kind="glue:bedfile")
        try:
            cs_b, bins_b = parse_bins(str(bpath))
            got_b = [[alt.index(str(c)) if str(c) in alt else -1, int(s_), int(e)] for c, s_, e in zip(bins_b["chrom"].astype(str), bins_b["start"], bins_b["end"])]
            cs_got = [[alt.index(str(n)) if str(n) in alt else -1, int(v)] for n, v in zip(cs_b.index, cs_b.values)]
            if got_b != [list(r) for r in mo] or cs_got != [[i, L] for i, L in enumerate(sizes)]:
                ctx.fail(case_b, {"bins": got_b[:8], "chromsizes": cs_got, "expected_first_bins": [list(r) for r in mo][:8]}, None)
        except Exception as e:
            ctx.fail(case_b, {"error": repr(e)}, None)
        if max(sizes) < 2 ** 20:
            # a cooler created over this table reports bin-size b exactly when some chromosome has >= 2 bins
            uri = str(gdir / f"g{k}.cool")
            cooler.create_cooler(uri, bins, {"bin1_id": np.array([0]), "bin2_id": np.array([0]), "count": np.array([1])})
            clr = cooler.Cooler(uri)
            rep = clr.binsize
            rep = None if rep is None else int(rep)
            info_bs = clr.info.get("bin-size")
            info_bt = clr.info.get("bin-type")
            blocks = [[tuple(r) for r in mo if r[0] == i] for i in range(len(sizes))]
            if rep is not None and not oracle_truthful(blocks, rep):
                ctx.fail(case, {"Cooler.binsize": rep}, None)
            exp_bt = "fixed" if rep is not None else "variable"
            if info_bt != exp_bt or (rep is not None and info_bs != rep):
                ctx.fail(case, {"info bin-type": info_bt, "info bin-size": str(info_bs), "binsize": rep}, None)
            os.remove(uri)
    ctx.exhaustive = True
    ctx.extra["scopes"] = {"binnify_cases": len(cases), "inference_tables": len(blocks_list), "glue_runs": len(glue)}


def replay(ctx, case):
    from cooler.util import get_binsize, get_chromsizes
    if case["fn"] == "derived":
        df, blocks = derive_table(case["sizes"], case["binsize"], case["op"])
        bs = get_binsize(df)
        return bs is None or oracle_truthful(blocks, int(bs))
    if case["fn"] == "binnify" or case["fn"].startswith("makebins"):
        im = impl_binnify(case["sizes"], case["binsize"], case.get("chromsizes_dtype", "int64"), case.get("binsize_type", "int"))
        return oracle_binnify(case["sizes"], case["binsize"], im)
    blocks = [[tuple(r) for r in blk] for blk in case["blocks"]]
    df = table_from_blocks(blocks)
    bs = get_binsize(df)
    cs = get_chromsizes(df)
    ok = bs is None or oracle_truthful(blocks, int(bs))
    ok = ok and [int(x) for x in cs.values] == [blk[-1][2] for blk in blocks]
    return ok
