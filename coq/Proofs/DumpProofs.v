(** Proofs about the model of `cooler dump` / `load` / `cload pairs` (Model/Dump.v). *)
From Coq Require Import String Ascii QArith DecimalString DecimalZ Decimal Permutation Sorted ZifyBool FinFun.
From Coq Require Import List.
From Cooler Require Import Model.Dump Proofs.PixelsProofs.
Open Scope Z_scope.

(* ================================================================= generic list facts *)
Lemma mapM_app {A B} (f : A -> option B) l1 l2 :
  mapM f (l1 ++ l2) = oapp (mapM f l1) (mapM f l2).
Proof.
  induction l1 as [|x t IH]; cbn.
  - destruct (mapM f l2); reflexivity.
  - rewrite IH. destruct (f x); [|reflexivity].
    destruct (mapM f t); cbn; [|reflexivity]. destruct (mapM f l2); reflexivity.
Qed.

Lemma mapM_map_total {A B} (f : A -> option B) (g : A -> B) l :
  (forall x, In x l -> f x = Some (g x)) -> mapM f l = Some (map g l).
Proof.
  induction l as [|x t IH]; intro H; cbn; [reflexivity|].
  rewrite (H x (or_introl eq_refl)), IH; [reflexivity|]. intros y Hy. apply H. now right.
Qed.

Lemma mapM_none {A B} (f : A -> option B) l x : In x l -> f x = None -> mapM f l = None.
Proof.
  induction l as [|y t IH]; intros Hin Hx; [contradiction|]. cbn.
  destruct Hin as [->|Hin]; [now rewrite Hx|]. rewrite (IH Hin Hx). now destruct (f y).
Qed.

Lemma filter_ext_in' {A} (f g : A -> bool) l : (forall x, In x l -> f x = g x) -> filter f l = filter g l.
Proof.
  induction l as [|x t IH]; intro H; cbn; [reflexivity|].
  rewrite (H x (or_introl eq_refl)), IH; [reflexivity|]. intros y Hy. apply H. now right.
Qed.

Lemma filter_nil_in {A} (f : A -> bool) l : (forall x, In x l -> f x = false) -> filter f l = [].
Proof.
  induction l as [|x t IH]; intro H; cbn; [reflexivity|].
  rewrite (H x (or_introl eq_refl)). apply IH. intros y Hy. apply H. now right.
Qed.

(* ================================================================= 1. the direct engine *)
Definition rowle (p q : pixel) : Prop := row p <= row q.
Definition RowSorted (px : list pixel) : Prop := StronglySorted rowle px.

Lemma ssorted_rowsorted px : SSorted px -> RowSorted px.
Proof.
  unfold SSorted, RowSorted, keys. induction px as [|p t IH]; intro H; [constructor|].
  cbn in H. apply StronglySorted_inv in H as [Ht Hp]. constructor; [now apply IH|].
  rewrite Forall_forall in *. intros q Hq. specialize (Hp (fst q) (in_map fst _ _ Hq)).
  unfold klt, rowle, row in *. lia.
Qed.

(** the predicate of CSRReader's mask for the span [s0, s1) *)
Definition span_pred (j0 j1 s0 s1 : Z) (p : pixel) : bool := inb s0 s1 (row p) && inb j0 j1 (col p).

Lemma reader_noreflect px i0 i1 j0 j1 sp :
  reader px (i0, i1, j0, j1) sp false = filter (span_pred j0 j1 (fst sp) (snd sp)) px.
Proof. reflexivity. Qed.

Lemma window_select_pred px i0 i1 j0 j1 :
  window_select px (i0, i1, j0, j1) = filter (span_pred j0 j1 i0 i1) px.
Proof. reflexivity. Qed.

Lemma filter_span_split px j0 j1 a b c :
  RowSorted px -> a <= b -> b <= c ->
  filter (span_pred j0 j1 a b) px ++ filter (span_pred j0 j1 b c) px = filter (span_pred j0 j1 a c) px.
Proof.
  intros Hs Hab Hbc. induction Hs as [|p t Ht IH Hp]; [reflexivity|].
  destruct (Z_lt_ge_dec (row p) b) as [Hlt|Hge].
  - cbn [filter].
    assert (E1 : span_pred j0 j1 b c p = false) by (unfold span_pred, inb; lia).
    assert (E2 : span_pred j0 j1 a c p = span_pred j0 j1 a b p) by (unfold span_pred, inb; lia).
    rewrite E1, E2. destruct (span_pred j0 j1 a b p); cbn; now rewrite IH.
  - assert (Hall : forall q, In q (p :: t) -> b <= row q).
    { intros q [<-|Hq]; [lia|]. rewrite Forall_forall in Hp. specialize (Hp q Hq). unfold rowle in Hp. lia. }
    rewrite (filter_nil_in (span_pred j0 j1 a b) (p :: t)).
    + cbn [app]. apply filter_ext_in'. intros q Hq. specialize (Hall q Hq). unfold span_pred, inb. lia.
    + intros q Hq. specialize (Hall q Hq). unfold span_pred, inb. lia.
Qed.

Lemma spans_of_cons a b t : spans_of (a :: b :: t) = (a, b) :: spans_of (b :: t).
Proof. reflexivity. Qed.

Lemma last_in {A} (x : A) l d : In (last (x :: l) d) (x :: l).
Proof.
  revert x. induction l as [|y t IH]; intro x; [now left|]. right. apply IH.
Qed.

Lemma sorted_le_last b t : Sorted Z.le (b :: t) -> b <= last (b :: t) 0.
Proof.
  intro Hc. apply Sorted_StronglySorted in Hc; [|intros x y z; lia].
  apply StronglySorted_inv in Hc as [_ Hall]. rewrite Forall_forall in Hall.
  destruct t as [|c t']; [cbn; lia|]. apply Hall. apply (last_in c t' 0).
Qed.

(** the concatenation of the per-span results over a chain of cuts is the single filter from the first to the last cut *)
Lemma direct_concat_chain px j0 j1 i0 i1 cuts :
  RowSorted px -> Sorted Z.le cuts ->
  concat (map (fun sp => reader px (i0, i1, j0, j1) sp false) (spans_of cuts))
  = filter (span_pred j0 j1 (hd 0 cuts) (last cuts 0)) px.
Proof.
  intros Hs Hc. induction cuts as [|a t IH].
  - cbn. symmetry. apply filter_nil_in. intros. unfold span_pred, inb. lia.
  - destruct t as [|b t'].
    + cbn. symmetry. apply filter_nil_in. intros. unfold span_pred, inb. lia.
    + rewrite spans_of_cons. cbn [map concat]. rewrite reader_noreflect. cbn [fst snd].
      apply Sorted_inv in Hc as [Hc Hab]. rewrite (IH Hc).
      apply HdRel_inv in Hab. cbn [hd].
      assert (Hbl : b <= last (b :: t') 0) by now apply sorted_le_last.
      change (last (a :: b :: t') 0) with (last (b :: t') 0).
      now apply filter_span_split.
Qed.

Lemma last_default {A} (x : A) l d d' : last (x :: l) d = last (x :: l) d'.
Proof. revert x. induction l as [|y t IH]; intro x; [reflexivity|]. apply (IH y). Qed.

(** what the theorem needs of a chunking of the row range: a non-decreasing chain of cuts that starts at the
    first row of the box, stays inside it and leaves no pixel of the window behind its last cut
    (CSRReader.get_spans stops at the first row from which on the offsets no longer grow) *)
Definition AdmissibleCuts (px : list pixel) (bb : bbox) (cuts : list Z) : Prop :=
  let '(i0, i1, j0, j1) := bb in
  Sorted Z.le cuts /\ hd i0 cuts = i0 /\ last cuts i0 <= i1 /\
  forall p, In p px -> span_pred j0 j1 i0 i1 p = true -> row p < last cuts i0.

Theorem direct_chunks_concat px bb cuts :
  RowSorted px -> AdmissibleCuts px bb (cuts bb) ->
  concat (direct_chunks px bb cuts) = window_select px bb.
Proof.
  destruct bb as [[[i0 i1] j0] j1]. intros Hs (Hc & Hhd & Hle & Hcov).
  unfold direct_chunks. rewrite direct_concat_chain by assumption. rewrite window_select_pred.
  apply filter_ext_in'. intros q Hq. specialize (Hcov q Hq).
  destruct (cuts (i0, i1, j0, j1)) as [|a t].
  - cbn in *. destruct (span_pred j0 j1 i0 i1 q) eqn:E.
    + specialize (Hcov eq_refl). unfold span_pred, inb in *. lia.
    + unfold span_pred, inb in *. lia.
  - cbn [hd] in *. subst a. rewrite (last_default i0 t 0 i0).
    destruct (span_pred j0 j1 i0 i1 q) eqn:E.
    + specialize (Hcov eq_refl). unfold span_pred, inb in *. lia.
    + unfold span_pred, inb in *. lia.
Qed.

(** chunk-size independence of the direct engine: any two admissible chunkings give the same records in the same order *)
Corollary direct_chunks_independent px bb cuts1 cuts2 :
  RowSorted px -> AdmissibleCuts px bb (cuts1 bb) -> AdmissibleCuts px bb (cuts2 bb) ->
  concat (direct_chunks px bb cuts1) = concat (direct_chunks px bb cuts2).
Proof. intros Hs H1 H2. now rewrite !direct_chunks_concat. Qed.

(* ================================================================= 2. the annotator is record-wise *)
Lemma annot_chunk_app c o a b :
  annot_chunk c o (a ++ b) = oapp (annot_chunk c o a) (annot_chunk c o b).
Proof.
  unfold annot_chunk. destruct (annot_row c o (0, 0, 0)); [apply mapM_app|reflexivity].
Qed.

Lemma annot_chunks_concat c o chunks :
  chunks <> [] ->
  option_map (@concat drow) (mapM (annot_chunk c o) chunks) = annot_chunk c o (concat chunks).
Proof.
  induction chunks as [|ch t IH]; intro Hne; [contradiction|].
  destruct t as [|ch2 t'].
  - cbn [mapM concat]. rewrite app_nil_r. destruct (annot_chunk c o ch); cbn [option_map concat]; [now rewrite app_nil_r|reflexivity].
  - specialize (IH ltac:(discriminate)).
    change (concat (ch :: ch2 :: t')) with (ch ++ concat (ch2 :: t')).
    rewrite annot_chunk_app, <- IH.
    change (mapM (annot_chunk c o) (ch :: ch2 :: t')) with
      (match annot_chunk c o ch, mapM (annot_chunk c o) (ch2 :: t') with
       | Some y, Some r => Some (y :: r) | _, _ => None end).
    destruct (annot_chunk c o ch); [|reflexivity].
    destruct (mapM (annot_chunk c o) (ch2 :: t')); reflexivity.
Qed.

Definition no_weights (c : dcooler) : bool := match d_weight c with None => true | Some _ => false end.
Definition body_of (rows : list drow) : list line := map (fun r => Data (map snd r)) rows.

(** the text of the pixel dump, given the engine's chunks: nothing at all when there is no chunk, otherwise the
    annotated concatenation of the chunks, preceded by the header when requested *)
Lemma dump_of_chunks c o cuts chunks :
  engine_chunks c o cuts = Some chunks ->
  dump_pixels c o cuts =
    if o_balanced o && no_weights c then None
    else match chunks with
         | [] => Some []
         | _ :: _ =>
             match annot_chunk c o (concat chunks) with
             | None => None
             | Some rows =>
                 match o_header o, header_of c o with
                 | true, Some h => Some (Header h :: body_of rows)
                 | _, _ => Some (body_of rows)
                 end
             end
         end.
Proof.
  intro He. unfold dump_pixels, no_weights. rewrite He.
  destruct (o_balanced o && match d_weight c with None => true | Some _ => false end); [reflexivity|].
  destruct chunks as [|ch t]; [reflexivity|].
  rewrite <- (annot_chunks_concat c o (ch :: t)) by discriminate.
  destruct (mapM (annot_chunk c o) (ch :: t)) as [rows|]; [|reflexivity].
  cbn [option_map]. unfold body_of. destruct (o_header o), (header_of c o); reflexivity.
Qed.

(** dump_eq_query, direct engine: the data lines are the annotated window filter of the stored table, in storage
    order, for every admissible chunking *)
Theorem dump_eq_query_direct c o cuts :
  o_fill o && d_symm c = false ->
  RowSorted (d_px c) ->
  AdmissibleCuts (d_px c) (bbox_of c o) (cuts (bbox_of c o)) ->
  dump_pixels c o cuts =
    if o_balanced o && no_weights c then None
    else match spans_of (cuts (bbox_of c o)) with
         | [] => Some []
         | _ :: _ =>
             match annot_chunk c o (window_select (d_px c) (bbox_of c o)) with
             | None => None
             | Some rows =>
                 match o_header o, header_of c o with
                 | true, Some h => Some (Header h :: body_of rows)
                 | _, _ => Some (body_of rows)
                 end
             end
         end.
Proof.
  intros Hd Hs Ha.
  rewrite (dump_of_chunks c o cuts (direct_chunks (d_px c) (bbox_of c o) cuts)).
  2:{ unfold engine_chunks. now rewrite Hd. }
  rewrite (direct_chunks_concat _ _ _ Hs Ha).
  unfold direct_chunks. destruct (spans_of (cuts (bbox_of c o))); reflexivity.
Qed.

(** chunk-size independence of the whole text: two admissible chunkings that both yield at least one chunk (or both none) *)
Corollary dump_chunk_independent c o cuts1 cuts2 :
  o_fill o && d_symm c = false ->
  RowSorted (d_px c) ->
  AdmissibleCuts (d_px c) (bbox_of c o) (cuts1 (bbox_of c o)) ->
  AdmissibleCuts (d_px c) (bbox_of c o) (cuts2 (bbox_of c o)) ->
  (spans_of (cuts1 (bbox_of c o)) = [] <-> spans_of (cuts2 (bbox_of c o)) = []) ->
  dump_pixels c o cuts1 = dump_pixels c o cuts2.
Proof.
  intros Hd Hs H1 H2 Hne. rewrite !dump_eq_query_direct by assumption.
  destruct (spans_of (cuts1 (bbox_of c o))) eqn:E1, (spans_of (cuts2 (bbox_of c o))) eqn:E2; try reflexivity.
  - destruct Hne as [Hx _]. specialize (Hx eq_refl). discriminate.
  - destruct Hne as [_ Hx]. specialize (Hx eq_refl). discriminate.
Qed.

(* ================================================================= 3. read_fields *)
Section SortBy.
  Context {A : Type} (key : A -> Z).
  Definition keyle (a b : A) : Prop := key a <= key b.

  Lemma insert_by_perm x l : Permutation (insert_by key x l) (x :: l).
  Proof.
    induction l as [|y t IH]; cbn; [reflexivity|].
    destruct (key x <=? key y); [reflexivity|].
    rewrite IH. apply perm_swap.
  Qed.

  Lemma sort_by_perm l : Permutation (sort_by key l) l.
  Proof.
    induction l as [|x t IH]; cbn; [reflexivity|].
    unfold sort_by in *. cbn. rewrite insert_by_perm. now constructor.
  Qed.

  Lemma insert_by_sorted x l : StronglySorted keyle l -> StronglySorted keyle (insert_by key x l).
  Proof.
    induction 1 as [|y t Ht IH Hy]; cbn; [repeat constructor|].
    destruct (key x <=? key y) eqn:E.
    - constructor; [now constructor|]. constructor; [unfold keyle; lia|].
      rewrite Forall_forall in *. intros z Hz. specialize (Hy z Hz). unfold keyle in *. lia.
    - constructor; [exact IH|]. rewrite Forall_forall in *. intros z Hz.
      apply (Permutation_in _ (insert_by_perm x t)) in Hz. destruct Hz as [<-|Hz]; [unfold keyle; lia|now apply Hy].
  Qed.

  Lemma sort_by_sorted l : StronglySorted keyle (sort_by key l).
  Proof.
    induction l as [|x t IH]; [constructor|]. unfold sort_by in *. cbn. now apply insert_by_sorted.
  Qed.
End SortBy.

Lemma sort_uniq_sorted l : StronglySorted Z.lt l -> sort_uniq l = l.
Proof.
  induction 1 as [|x t Ht IH Hx]; [reflexivity|].
  unfold sort_uniq in *. cbn. rewrite IH. destruct t as [|y t']; [reflexivity|].
  cbn. apply Forall_inv in Hx. destruct (x <? y) eqn:E; [reflexivity|lia].
Qed.

Lemma ssorted_le_nodup_lt l : StronglySorted Z.le l -> NoDup l -> StronglySorted Z.lt l.
Proof.
  induction 1 as [|x t Ht IH Hx]; intro Hn; [constructor|].
  apply NoDup_cons_iff in Hn as [Hnx Hn]. constructor; [now apply IH|].
  rewrite Forall_forall in *. intros y Hy. specialize (Hx y Hy).
  assert (x <> y) by (intros ->; contradiction). lia.
Qed.

Lemma map_keyle_sorted {A} (key : A -> Z) l : StronglySorted (keyle key) l -> StronglySorted Z.le (map key l).
Proof.
  induction 1 as [|x t Ht IH Hx]; cbn; constructor; [assumption|].
  rewrite Forall_forall in *. intros y Hy. apply in_map_iff in Hy as (z & <- & Hz). now apply Hx.
Qed.

Lemma assoc_map_self {B} (g : string -> B) l n :
  In n l -> assoc n (map (fun m => (m, g m)) l) = Some (g n).
Proof.
  induction l as [|m t IH]; intro Hin; [contradiction|]. cbn.
  destruct (String.eqb n m) eqn:E.
  - apply String.eqb_eq in E. now subst.
  - destruct Hin as [->|Hin]; [now rewrite String.eqb_refl in E|now apply IH].
Qed.

(** pandas gives every name the column whose number is its own, whenever the names are handed over
    sorted by their (pairwise distinct) numbers *)
Lemma pandas_read_row_sorted (num : string -> Z) names rec :
  StronglySorted Z.lt (map num names) ->
  (forall n, In n names -> 0 <= num n < Z.of_nat (length rec)) ->
  pandas_read_row (map num names) names rec
  = Some (map (fun n => (n, nth (Z.to_nat (num n)) rec EmptyString)) names).
Proof.
  intros Hs Hr. unfold pandas_read_row. rewrite (sort_uniq_sorted _ Hs), map_length, Nat.eqb_refl.
  clear Hs. induction names as [|n t IH]; [reflexivity|]. cbn.
  assert (Hn : 0 <= num n < Z.of_nat (length rec)) by (apply Hr; now left).
  rewrite (nth_error_nth' rec EmptyString) by lia. cbn.
  rewrite IH; [reflexivity|]. intros m Hm. apply Hr. now right.
Qed.

(** read_fields_spec: for ANY injective assignment of column numbers (ascending or not, with gaps), every declared
    field receives the text of its own column *)
Theorem read_fields_spec names nums rec :
  NoDup (map (num_of nums) names) ->
  (forall n, In n names -> 0 <= num_of nums n < Z.of_nat (length rec)) ->
  exists r, read_fields names nums rec = Some r /\
            Permutation (map fst r) names /\
            forall n, In n names -> assoc n r = Some (nth (Z.to_nat (num_of nums n)) rec EmptyString).
Proof.
  intros Hinj Hr. set (num := num_of nums) in *. set (names' := sort_by num names).
  assert (Hp : Permutation names' names) by apply sort_by_perm.
  assert (Hs : StronglySorted Z.lt (map num names')).
  { apply ssorted_le_nodup_lt; [apply map_keyle_sorted, sort_by_sorted|].
    apply (Permutation_NoDup (l := map num names)); [|assumption]. apply Permutation_map. now symmetry. }
  exists (map (fun n => (n, nth (Z.to_nat (num n)) rec EmptyString)) names').
  split; [|split].
  - unfold read_fields. fold num. fold names'. apply pandas_read_row_sorted; [assumption|].
    intros n Hn. apply Hr. now apply (Permutation_in _ Hp).
  - rewrite map_map. cbn. now rewrite map_id.
  - intros n Hn. apply (assoc_map_self (fun m => nth (Z.to_nat (num m)) rec EmptyString)).
    apply (Permutation_in _ (Permutation_sym Hp)). assumption.
Qed.

(** the code before fix D8 handed the names over in declaration order: with a non-ascending assignment the fields are swapped *)
Lemma read_fields_old_refuted :
  exists names nums rec n,
    In n names /\ NoDup (map (num_of nums) names) /\
    exists r, read_fields_old names nums rec = Some r /\
              assoc n r <> Some (nth (Z.to_nat (num_of nums n)) rec EmptyString).
Proof.
  exists ["foo"; "count"]%string, [("foo", 4); ("count", 2)]%string, ["0"; "1"; "7"; "x"; "9"]%string, "count"%string.
  split; [now right; left|]. split.
  - cbn. repeat constructor; cbn; intuition discriminate.
  - eexists. split; [vm_compute; reflexivity|]. vm_compute. discriminate.
Qed.

(* ================================================================= 4. numbers as text *)
Lemma parse_print_Z z : parse_Z (print_Z z) = Some z.
Proof.
  unfold parse_Z, print_Z. rewrite NilEmpty.isi. cbn. now rewrite DecimalZ.of_to.
Qed.

(* ================================================================= 5. load (dump c) = c, COO *)
Lemma concat_chunks_fuel {A} fuel n (l : list A) : concat (chunks_fuel fuel n l) = l.
Proof.
  revert l. induction fuel as [|f IH]; intro l; destruct l as [|x t]; try reflexivity.
  - cbn. now rewrite app_nil_r.
  - cbn [chunks_fuel concat]. rewrite IH. apply firstn_skipn.
Qed.

Lemma concat_chunks_of {A} n (l : list A) : concat (chunks_of n l) = l.
Proof. apply concat_chunks_fuel. Qed.

Lemma chunks_fuel_map {A B} (g : A -> B) fuel n l :
  chunks_fuel fuel n (map g l) = map (map g) (chunks_fuel fuel n l).
Proof.
  revert l. induction fuel as [|f IH]; intro l; destruct l as [|x t]; try reflexivity.
  cbn [chunks_fuel map]. change (g x :: map g t) with (map g (x :: t)).
  rewrite firstn_map, skipn_map, IH. reflexivity.
Qed.

Lemma chunks_of_map {A B} (g : A -> B) n l : chunks_of n (map g l) = map (map g) (chunks_of n l).
Proof. unfold chunks_of. rewrite map_length. apply chunks_fuel_map. Qed.

Lemma chunks_fuel_infix {A} fuel n (l : list A) :
  Forall (fun ch => exists a b, a ++ ch ++ b = l) (chunks_fuel fuel n l).
Proof.
  revert l. induction fuel as [|f IH]; intro l; destruct l as [|x t]; try (now constructor).
  - constructor; [|constructor]. exists [], []. cbn. now rewrite app_nil_r.
  - cbn [chunks_fuel]. constructor.
    + exists [], (skipn n (x :: t)). cbn [app]. apply firstn_skipn.
    + specialize (IH (skipn n (x :: t))). rewrite Forall_forall in *. intros ch Hch.
      destruct (IH ch Hch) as (a & b & E). exists (firstn n (x :: t) ++ a), b.
      rewrite <- app_assoc, E. apply firstn_skipn.
Qed.

Lemma ssorted_app_inv {A} (R : A -> A -> Prop) a b :
  StronglySorted R (a ++ b) -> StronglySorted R a /\ StronglySorted R b.
Proof.
  induction a as [|x t IH]; cbn; intro H; [split; [constructor|assumption]|].
  apply StronglySorted_inv in H as [Ht Hx]. destruct (IH Ht) as [Ha Hb]. split; [|assumption].
  constructor; [assumption|]. apply Forall_app in Hx. tauto.
Qed.

Lemma SSorted_infix a ch b : SSorted (a ++ ch ++ b) -> SSorted ch.
Proof.
  unfold SSorted, keys. rewrite !map_app. intro H.
  apply ssorted_app_inv in H as [_ H]. now apply ssorted_app_inv in H as [H _].
Qed.

Lemma keqb_klt_false k k' : klt k k' -> keqb k k' = false.
Proof. unfold klt, keqb. lia. Qed.

Lemma SSorted_no_dup_key l : SSorted l -> has_dup_key l = false.
Proof.
  unfold SSorted, keys. induction l as [|p t IH]; intro H; [reflexivity|].
  cbn in H. apply StronglySorted_inv in H as [Ht Hp]. cbn. rewrite (IH Ht), orb_false_r.
  apply not_true_is_false. intro E. apply existsb_exists in E as (q & Hq & Eq).
  rewrite Forall_forall in Hp. specialize (Hp (fst q) (in_map fst _ _ Hq)).
  rewrite (keqb_klt_false _ _ Hp) in Eq. discriminate.
Qed.

(** the ids as `cooler dump [--one-based-ids]` prints them *)
Definition shift_ids (one_based : bool) (p : pixel) : pixel :=
  if one_based then ((row p + 1, col p + 1), val p) else p.

(** no record is altered or dropped by the sanitiser: the table is upper triangular, or no triangle action is taken *)
Definition tril_harmless (t : tril) (px : list pixel) : Prop :=
  t = Keep \/ forall p, In p px -> row p <= col p.

Lemma sanitize_shifted ob t px p :
  tril_harmless t px -> In p px -> sanitize_pixel ob t (shift_ids ob p) = [p].
Proof.
  intros Ht Hp. destruct p as [[a b] v]. unfold sanitize_pixel, shift_ids, row, col, val. cbn [fst snd].
  destruct ob; cbn [fst snd].
  - replace (a + 1 - 1) with a by lia. replace (b + 1 - 1) with b by lia.
    destruct Ht as [->|Hu]; [now destruct (b <? a)|].
    specialize (Hu _ Hp). unfold row, col in Hu. cbn in Hu. destruct (b <? a) eqn:E; [lia|reflexivity].
  - destruct Ht as [->|Hu]; [now destruct (b <? a)|].
    specialize (Hu _ Hp). unfold row, col in Hu. cbn in Hu. destruct (b <? a) eqn:E; [lia|reflexivity].
Qed.

Lemma concat_map_singleton {A B} (f : A -> list B) (g : A -> B) l :
  (forall x, In x l -> f x = [g x]) -> concat (map f l) = map g l.
Proof.
  induction l as [|x t IH]; intro H; [reflexivity|]. cbn. rewrite (H x (or_introl eq_refl)). cbn.
  f_equal. apply IH. intros y Hy. apply H. now right.
Qed.

Lemma in_chunk_in {A} n (l : list A) ch x : In ch (chunks_of n l) -> In x ch -> In x l.
Proof.
  intros Hch Hx. rewrite <- (concat_chunks_of n l). apply in_concat. now exists ch.
Qed.

Theorem load_pixels_roundtrip ob t chunk px :
  SSorted px -> tril_harmless t px ->
  load_pixels ob t chunk (map (shift_ids ob) px) = Some px.
Proof.
  intros Hs Ht. unfold load_pixels. rewrite chunks_of_map, map_map.
  assert (E : map (fun ch => concat (map (sanitize_pixel ob t) (map (shift_ids ob) ch))) (chunks_of chunk px)
              = chunks_of chunk px).
  { rewrite <- (map_id (chunks_of chunk px)) at 2. apply map_ext_in. intros ch Hch.
    rewrite map_map. rewrite (concat_map_singleton _ (fun p => p)); [apply map_id|].
    intros p Hp. apply (sanitize_shifted ob t px); [assumption|]. now apply (in_chunk_in chunk px ch). }
  rewrite E.
  assert (Hd : existsb has_dup_key (chunks_of chunk px) = false).
  { apply not_true_is_false. intro X. apply existsb_exists in X as (ch & Hch & Hdup).
    pose proof (chunks_fuel_infix (length px) chunk px) as Hin. rewrite Forall_forall in Hin.
    destruct (Hin ch Hch) as (a & b & Eab). rewrite <- Eab in Hs.
    rewrite (SSorted_no_dup_key ch (SSorted_infix _ _ _ Hs)) in Hdup. discriminate. }
  rewrite Hd, concat_chunks_of. f_equal. now apply aggregate_sorted_id.
Qed.

(** the schema `cooler load -f coo` assembles when no --field is given *)
Definition coo_schema : schema :=
  {| s_in := ["bin1_id"; "bin2_id"; "count"]%string;
     s_num := [("bin1_id", 0); ("bin2_id", 1); ("count", 2)]%string;
     s_out := ["bin1_id"; "bin2_id"; "count"]%string |}.
Lemma load_schema_coo_default : load_schema false [] = Some coo_schema.
Proof. reflexivity. Qed.

Lemma coo_record_printed a b v :
  coo_record coo_schema "count" [print_Z a; print_Z b; print_Z v] = Some ((a, b), v).
Proof.
  unfold coo_record.
  generalize (parse_print_Z a), (parse_print_Z b), (parse_print_Z v).
  generalize (print_Z a), (print_Z b), (print_Z v). intros x y z Hx Hy Hz.
  let t := eval vm_compute in (read_fields (s_in coo_schema) (s_num coo_schema) [x; y; z]) in
  change (read_fields (s_in coo_schema) (s_num coo_schema) [x; y; z]) with t.
  cbn [assoc String.eqb Ascii.eqb Bool.eqb]. cbn. now rewrite Hx, Hy, Hz.
Qed.

Lemma mapM_coo_text ob px :
  mapM (coo_record coo_schema "count") (coo_text ob px) = Some (map (shift_ids ob) px).
Proof.
  induction px as [|p t IH]; [reflexivity|].
  unfold coo_text in *. cbn [map mapM]. rewrite coo_record_printed, IH.
  destruct p as [[a b] v]. unfold shift_ids, row, col, val. cbn [fst snd].
  destruct ob; [reflexivity|]. now rewrite !Z.add_0_r.
Qed.

(** load_dump_roundtrip, COO: re-importing the (zero- or one-based) COO text of the stored table with the matching
    --one-based setting, any chunk size and any triangle action that is harmless for the table gives the table back *)
Theorem load_dump_roundtrip_coo ob t chunk px :
  SSorted px -> tril_harmless t px ->
  load_coo coo_schema "count" ob t chunk (coo_text ob px) = Some px.
Proof.
  intros Hs Ht. unfold load_coo. rewrite mapM_coo_text. now apply load_pixels_roundtrip.
Qed.

(* ================================================================= 6. each option has its documented effect *)
Definition with_ids1 (o : dopts) (b : bool) : dopts :=
  {| o_range := o_range o; o_fill := o_fill o; o_balanced := o_balanced o; o_join := o_join o; o_annot := o_annot o;
     o_ids1 := b; o_starts1 := o_starts1 o; o_columns := o_columns o; o_header := o_header o |}.
Definition with_starts1 (o : dopts) (b : bool) : dopts :=
  {| o_range := o_range o; o_fill := o_fill o; o_balanced := o_balanced o; o_join := o_join o; o_annot := o_annot o;
     o_ids1 := o_ids1 o; o_starts1 := b; o_columns := o_columns o; o_header := o_header o |}.
Definition with_columns (o : dopts) (cs : option (list string)) : dopts :=
  {| o_range := o_range o; o_fill := o_fill o; o_balanced := o_balanced o; o_join := o_join o; o_annot := o_annot o;
     o_ids1 := o_ids1 o; o_starts1 := o_starts1 o; o_columns := cs; o_header := o_header o |}.

Definition inc_cell (x : cell) : cell := match x with CZ z => CZ (z + 1) | y => y end.

(** [bump names] adds one to the integer cells of the named columns and touches nothing else *)
Lemma assoc_bump names r n :
  assoc n (bump names r) = option_map (fun v => if mem_str n names then inc_cell v else v) (assoc n r).
Proof.
  induction r as [|[m v] t IH]; [reflexivity|]. cbn.
  destruct (mem_str m names) eqn:Em; cbn; destruct (String.eqb n m) eqn:E; try apply IH.
  - apply String.eqb_eq in E. subst. cbn. rewrite Em. now destruct v.
  - apply String.eqb_eq in E. subst. cbn. now rewrite Em.
Qed.

Lemma bump_names names r : map fst (bump names r) = map fst r.
Proof.
  unfold bump. rewrite map_map. apply map_ext. intros [m v]. cbn. now destruct (mem_str m names).
Qed.

Lemma bump_comm a b r : bump a (bump b r) = bump b (bump a r).
Proof.
  unfold bump. rewrite !map_map. apply map_ext. intros [m v]. cbn [fst snd].
  destruct (mem_str m b) eqn:Eb; cbn [fst snd]; destruct (mem_str m a) eqn:Ea; cbn [fst snd]; rewrite ?Eb, ?Ea; try reflexivity.
Qed.

Lemma project_bump names cols r :
  project cols (bump names r) = option_map (bump names) (project cols r).
Proof.
  induction cols as [|n t IH]; [reflexivity|]. cbn [project]. rewrite assoc_bump, IH.
  destruct (assoc n r) as [v|]; cbn [option_map]; [|reflexivity].
  destruct (project t r) as [d|]; cbn [option_map]; [|reflexivity].
  f_equal. unfold bump. cbn [map fst snd]. destruct (mem_str n names); [destruct v|]; reflexivity.
Qed.

(** --one-based-ids, for every setting of the other options: exactly the cells of the columns named bin1_id / bin2_id
    (where present) are increased by one; same columns, same order, nothing else changes *)
Theorem one_based_ids_effect c o p :
  annot_row c (with_ids1 o true) p
  = option_map (bump ["bin1_id"; "bin2_id"]%string) (annot_row c (with_ids1 o false) p).
Proof.
  unfold annot_row, with_ids1. cbn [o_ids1 o_starts1 o_columns o_annot o_join o_balanced].
  match goal with |- context [oapp (oapp ?a ?b) ?e] => destruct (oapp (oapp a b) e) as [r|] end; [|reflexivity].
  destruct (o_starts1 o), (o_columns o) as [cols|]; cbn [option_map];
    rewrite ?(bump_comm ["start1"; "start2"]%string), ?project_bump; reflexivity.
Qed.

(** --one-based-starts, for every setting of the other options: exactly the columns named start1 / start2 *)
Theorem one_based_starts_effect c o p :
  annot_row c (with_starts1 o true) p
  = option_map (bump ["start1"; "start2"]%string) (annot_row c (with_starts1 o false) p).
Proof.
  unfold annot_row, with_starts1. cbn [o_ids1 o_starts1 o_columns o_annot o_join o_balanced].
  match goal with |- context [oapp (oapp ?a ?b) ?e] => destruct (oapp (oapp a b) e) as [r|] end; [|reflexivity].
  destruct (o_ids1 o), (o_columns o) as [cols|]; cbn [option_map]; rewrite ?project_bump; reflexivity.
Qed.

(** -c / --columns projects: the named columns of the unrestricted row, in the requested order *)
Theorem columns_effect c o cols p :
  annot_row c (with_columns o (Some cols)) p
  = match annot_row c (with_columns o None) p with Some r => project cols r | None => None end.
Proof.
  unfold annot_row, with_columns. cbn [o_ids1 o_starts1 o_columns o_annot o_join o_balanced].
  match goal with |- context [oapp (oapp ?a ?b) ?e] => destruct (oapp (oapp a b) e) as [r|] end; reflexivity.
Qed.

Lemma project_spec cols r r' :
  project cols r = Some r' -> map fst r' = cols /\ forall n, In n cols -> assoc n r' = assoc n r.
Proof.
  revert r'. induction cols as [|n t IH]; intros r' H; cbn in H.
  - injection H as <-. split; [reflexivity|contradiction].
  - destruct (assoc n r) as [v|] eqn:Ev; [|discriminate]. destruct (project t r) as [r''|]; [|discriminate].
    injection H as <-. destruct (IH r'' eq_refl) as [Hn Ha]. split; [cbn; now rewrite Hn|].
    intros m [<-|Hm]; cbn.
    + now rewrite String.eqb_refl.
    + destruct (String.eqb m n) eqn:E; [apply String.eqb_eq in E; now subst|now apply Ha].
Qed.

(** --join replaces the two ids by chrom/start/end of the pixel's OWN two bins (row bin first), for every setting of
    balanced / one-based-ids / one-based-starts *)
Theorem join_effect c o p :
  o_join o = true -> o_annot o = None -> o_columns o = None ->
  annot_row c o p =
    Some (let d := if o_starts1 o then 1 else 0 in
          let b1 := bin_at c (row p) in let b2 := bin_at c (col p) in
          [("chrom1", CS (chrom_name c b1)); ("start1", CZ (bstart b1 + d)); ("end1", CZ (bend b1));
           ("chrom2", CS (chrom_name c b2)); ("start2", CZ (bstart b2 + d)); ("end2", CZ (bend b2));
           ("count", CZ (val p))]%string
          ++ (if o_balanced o then [("balanced"%string, CQ (balanced_value c p))] else [])).
Proof.
  intros Hj Ha Hc. unfold annot_row. rewrite Hj, Ha, Hc.
  destruct (o_balanced o), (o_ids1 o), (o_starts1 o); cbn; rewrite ?Z.add_0_r; reflexivity.
Qed.

(** without --join the row carries the two ids (plus one with --one-based-ids), the count and, with -b, the balanced value *)
Theorem plain_effect c o p :
  o_join o = false -> o_annot o = None -> o_columns o = None ->
  annot_row c o p =
    Some (let d := if o_ids1 o then 1 else 0 in
          [("bin1_id", CZ (row p + d)); ("bin2_id", CZ (col p + d)); ("count", CZ (val p))]%string
          ++ (if o_balanced o then [("balanced"%string, CQ (balanced_value c p))] else [])).
Proof.
  intros Hj Ha Hc. unfold annot_row. rewrite Hj, Ha, Hc.
  destruct (o_balanced o), (o_ids1 o), (o_starts1 o); cbn; rewrite ?Z.add_0_r; reflexivity.
Qed.

(** annotator errors do not depend on the record (they are column-level) *)
Lemma side_cols_none_indep c fs suf i j : side_cols c fs suf i = None -> side_cols c fs suf j = None.
Proof.
  unfold side_cols. induction fs as [|f t IH]; cbn; [discriminate|].
  assert (Hf : bin_field c f i = None <-> bin_field c f j = None).
  { unfold bin_field. repeat match goal with |- context [if ?b then _ else _] => destruct b end; try tauto;
      split; discriminate. }
  destruct (bin_field c f i) eqn:Ei; cbn.
  - destruct (bin_field c f j) eqn:Ej; cbn; [|reflexivity].
    destruct (mapM _ t) eqn:Et at 1; [discriminate|]. intros _.
    rewrite IH; [reflexivity|]. exact Et.
  - intros _. destruct Hf as [Hf _]. now rewrite (Hf eq_refl).
Qed.

(* ================================================================= 7. the fill-lower engine *)
Definition Upper (px : list pixel) : Prop := forall p, In p px -> row p <= col p.
Definition InSymm (px : list pixel) (q : pixel) : Prop := In q px \/ (row q <> col q /\ In (flip q) px).

Definition pixel_eqb (p q : pixel) : bool := (row p =? row q) && (col p =? col q) && (val p =? val q).
Definition memb (q : pixel) (px : list pixel) : bool := existsb (pixel_eqb q) px.
Lemma memb_In q px : In q px <-> memb q px = true.
Proof.
  unfold memb. rewrite existsb_exists. split.
  - intro H. exists q. split; auto. unfold pixel_eqb. rewrite !Z.eqb_refl. reflexivity.
  - intros [x [H1 H2]]. unfold pixel_eqb in H2.
    destruct q as [[a b] c], x as [[a' b'] c']; unfold row, col, val in *; cbn in *.
    assert (a = a' /\ b = b' /\ c = c') as (-> & -> & ->) by lia. exact H1.
Qed.
Lemma flip_flip p : flip (flip p) = p.
Proof. destruct p as [[a b] c]; reflexivity. Qed.

Lemma in_reader px i0 i1 j0 j1 s0 s1 q :
  In q (reader px (i0, i1, j0, j1) (s0, s1) true) <->
  (In q px /\ s0 <= row q < s1 /\ j0 <= col q < j1) \/
  (In (flip q) px /\ s0 <= col q < s1 /\ j0 <= row q < j1 /\ row q <> col q /\ row q < i1).
Proof.
  unfold reader. cbn [fst snd]. rewrite in_app_iff, in_map_iff.
  setoid_rewrite filter_In. setoid_rewrite filter_In. unfold inb. split.
  - intros [[H1 H2]|[p [Hp [[H1 H2] H3]]]].
    + left. split; auto. lia.
    + right. subst q. rewrite flip_flip. unfold flip, row, col in *; cbn in *. split; auto. lia.
  - intros [[H1 H2]|[H1 H2]].
    + left. split; auto. lia.
    + right. exists (flip q). rewrite flip_flip. split; auto.
      unfold flip, row, col in *; cbn in *. repeat split; auto; lia.
Qed.

(** a chain of cuts covers exactly the rows from its first to its last element *)
Lemma chain_cover cuts x :
  Sorted Z.le cuts ->
  (exists sp, In sp (spans_of cuts) /\ fst sp <= x < snd sp) <-> hd 0 cuts <= x < last cuts 0.
Proof.
  intro Hc. induction cuts as [|a t IH].
  - cbn. split; [intros (sp & [] & _)|lia].
  - destruct t as [|b t'].
    + cbn. split; [intros (sp & [] & _)|lia].
    + rewrite spans_of_cons. apply Sorted_inv in Hc as [Hc Hab]. apply HdRel_inv in Hab.
      specialize (IH Hc). pose proof (sorted_le_last b t' Hc) as Hbl.
      change (last (a :: b :: t') 0) with (last (b :: t') 0). cbn [hd] in *. split.
      * intros (sp & [<-|Hin] & Hx); cbn [fst snd] in *; [lia|].
        assert (b <= x < last (b :: t') 0) by (apply IH; now exists sp). lia.
      * intros Hx. destruct (Z_lt_ge_dec x b) as [Hlt|Hge].
        -- exists (a, b). split; [now left|cbn; lia].
        -- destruct IH as [_ IH]. destruct (IH ltac:(lia)) as (sp & Hin & Hsp). exists sp. split; [now right|exact Hsp].
Qed.

(** membership in the chunked reflecting reader = membership in the one-span reader, for admissible cuts *)
Lemma in_reader_chunks px i0 i1 j0 j1 cuts q :
  AdmissibleCuts px (i0, i1, j0, j1) cuts ->
  (In q (concat (map (fun sp => reader px (i0, i1, j0, j1) sp true) (spans_of cuts)))
   <-> In q (reader px (i0, i1, j0, j1) (i0, i1) true)).
Proof.
  intros (Hc & Hhd & Hle & Hcov).
  rewrite in_concat. setoid_rewrite in_map_iff.
  assert (Hex : (exists l, (exists sp, reader px (i0, i1, j0, j1) sp true = l /\ In sp (spans_of cuts)) /\ In q l)
                <-> exists sp, In sp (spans_of cuts) /\ In q (reader px (i0, i1, j0, j1) sp true)).
  { split; [intros (l & (sp & <- & Hsp) & Hq); now exists sp|intros (sp & Hsp & Hq); eexists; split; [exists sp; split; [reflexivity|exact Hsp]|exact Hq]]. }
  rewrite Hex. clear Hex. rewrite in_reader.
  assert (Hrange : forall x, (exists sp, In sp (spans_of cuts) /\ fst sp <= x < snd sp) <-> i0 <= x < last cuts i0).
  { intro x. rewrite (chain_cover cuts x Hc). destruct cuts as [|a t]; [cbn in *; lia|].
    cbn [hd] in *. subst a. now rewrite (last_default i0 t 0 i0). }
  assert (HcovA : In q px -> j0 <= col q < j1 -> i0 <= row q < i1 -> row q < last cuts i0).
  { intros Hq Hcq Hrq. apply (Hcov q Hq). unfold span_pred, inb. lia. }
  assert (HcovB : In (flip q) px -> j0 <= row q < j1 -> i0 <= col q < i1 -> col q < last cuts i0).
  { intros Hq Hcq Hrq. specialize (Hcov (flip q) Hq). destruct q as [[a b] v].
    unfold span_pred, inb, flip, row, col in *. cbn [fst snd] in *. apply Hcov. lia. }
  split.
  - intros ([s0 s1] & Hsp & Hq). rewrite in_reader in Hq.
    assert (Hs : forall x, s0 <= x < s1 -> i0 <= x < last cuts i0).
    { intros x Hx. apply Hrange. exists (s0, s1). now split. }
    destruct Hq as [(Hq & Hr & Hcl)|(Hq & Hr & Hrest)].
    + left. specialize (Hs _ Hr). repeat split; try assumption; lia.
    + right. specialize (Hs _ Hr). repeat split; try tauto; lia.
  - intros [(Hq & Hr & Hcl)|(Hq & Hr & Hcl & Hrest)].
    + specialize (HcovA Hq Hcl Hr). destruct (proj2 (Hrange (row q)) ltac:(lia)) as ([s0 s1] & Hsp & Hx).
      exists (s0, s1). split; [assumption|]. rewrite in_reader. left. cbn [fst snd] in Hx. repeat split; try assumption; lia.
    + specialize (HcovB Hq Hcl Hr). destruct (proj2 (Hrange (col q)) ltac:(lia)) as ([s0 s1] & Hsp & Hx).
      exists (s0, s1). split; [assumption|]. rewrite in_reader. right. cbn [fst snd] in Hx. repeat split; try tauto; lia.
Qed.

Definition fill_whole (px : list pixel) (t : bool * bbox) : list pixel :=
  let '(i0, i1, j0, j1) := snd t in
  let r := reader px (snd t) (i0, i1) true in if fst t then map flip r else r.
Definition fill_select (px : list pixel) (bb : bbox) : option (list pixel) :=
  option_map (fun plan => concat (map (fill_whole px) plan)) (fill_plan bb).

Lemma in_map_flip q l : In q (map flip l) <-> In (flip q) l.
Proof.
  rewrite in_map_iff. split.
  - intros (x & <- & Hx). now rewrite flip_flip.
  - intro H. exists (flip q). now rewrite flip_flip.
Qed.

Theorem fill_select_in px i0 i1 j0 j1 q :
  Upper px -> i0 <= i1 -> j0 <= j1 ->
  match fill_select px (i0, i1, j0, j1) with
  | Some l => In q l <-> (InSymm px q /\ i0 <= row q < i1 /\ j0 <= col q < j1)
  | None => False
  end.
Proof.
  intros HU Hi Hj. unfold fill_select, fill_plan, InSymm.
  assert (HUq : In q px -> row q <= col q) by (intro; auto).
  assert (HUf : In (flip q) px -> col q <= row q).
  { intro H. apply HU in H. destruct q as [[a b] c]; unfold flip, row, col in *; cbn in *; lia. }
  destruct (j1 <? i1) eqn:Eut; cbn [negb];
  repeat match goal with
  | |- context [if ?b then _ else _] => destruct b eqn:?
  end; cbn [option_map map concat fill_whole fst snd negb];
  rewrite ?app_nil_r, ?in_app_iff, ?in_map_flip, ?in_reader, ?flip_flip;
  unfold comes_before, contains in *;
  destruct q as [[a b] c]; unfold flip, row, col in *; cbn [fst snd] in *;
  repeat match goal with H : context [if ?b then _ else _] |- _ => destruct b eqn:? end;
  unfold val in *; cbn [snd] in *; destruct (Z.eq_dec a b) as [->|Hne]; clear HU;
  rewrite ?memb_In in *; unfold pixel, key in *; try (
  repeat match goal with |- context [memb ?q px] => generalize dependent (memb q px); intros end; lia).
Qed.

Lemma in_concat_map {A B} (f : A -> list B) l q :
  In q (concat (map f l)) <-> exists t, In t l /\ In q (f t).
Proof.
  rewrite in_concat. setoid_rewrite in_map_iff. split.
  - intros (x & (t & <- & Ht) & Hq). now exists t.
  - intros (t & Ht & Hq). exists (f t). split; [now exists t|assumption].
Qed.

Lemma in_fill_task px cuts t q :
  AdmissibleCuts px (snd t) (cuts (snd t)) ->
  (In q (concat (fill_task px cuts t)) <-> In q (fill_whole px t)).
Proof.
  destruct t as [tr [[[i0 i1] j0] j1]]. cbn [snd]. intro Ha. unfold fill_task, fill_whole. cbn [fst snd].
  destruct tr.
  - rewrite <- (map_map (fun sp => reader px (i0, i1, j0, j1) sp true) (map flip)), <- concat_map.
    rewrite !in_map_flip. now apply in_reader_chunks.
  - now apply in_reader_chunks.
Qed.

(** every sub-box of the engine's plan is chunked admissibly *)
Definition PlanAdmissible (px : list pixel) (bb : bbox) (cuts : bbox -> list Z) : Prop :=
  forall plan t, fill_plan bb = Some plan -> In t plan -> AdmissibleCuts px (snd t) (cuts (snd t)).

(** dump_eq_query, fill-lower engine, membership: for an upper-triangular table and every admissible chunking the
    engine's records are exactly the records of the symmetric completion that lie inside the window *)
Theorem fill_chunks_in px i0 i1 j0 j1 cuts q :
  Upper px -> i0 <= i1 -> j0 <= j1 -> PlanAdmissible px (i0, i1, j0, j1) cuts ->
  match fill_chunks px (i0, i1, j0, j1) cuts with
  | Some chunks => In q (concat chunks) <-> (InSymm px q /\ i0 <= row q < i1 /\ j0 <= col q < j1)
  | None => False
  end.
Proof.
  intros HU Hi Hj Ha. pose proof (fill_select_in px i0 i1 j0 j1 q HU Hi Hj) as Hsel.
  unfold fill_select, fill_chunks in *. unfold PlanAdmissible in Ha.
  destruct (fill_plan (i0, i1, j0, j1)) as [plan|]; [|exact Hsel]. cbn [option_map] in *.
  rewrite <- Hsel. rewrite in_concat_map. rewrite in_concat. split.
  - intros (ch & Hch & Hq). apply in_concat_map in Hch as (t & Ht & Hch).
    exists t. split; [assumption|]. apply (in_fill_task px cuts t q (Ha plan t eq_refl Ht)).
    apply in_concat. now exists ch.
  - intros (t & Ht & Hq). apply (in_fill_task px cuts t q (Ha plan t eq_refl Ht)) in Hq.
    apply in_concat in Hq as (ch & Hch & Hq). exists ch. split; [|assumption].
    apply in_concat_map. now exists t.
Qed.

(* ----- each record once: NoDup and the permutation with the symmetric completion inside the window *)
Lemma nodup_app {A} (a b : list A) :
  NoDup a -> NoDup b -> (forall x, In x a -> In x b -> False) -> NoDup (a ++ b).
Proof.
  induction a as [|x t IH]; intros Ha Hb Hd; [assumption|]. cbn.
  apply NoDup_cons_iff in Ha as [Hx Ht]. constructor.
  - rewrite in_app_iff. intros [H|H]; [contradiction|]. apply (Hd x); [now left|assumption].
  - apply IH; try assumption. intros y Hy. apply Hd. now right.
Qed.

Lemma flip_inj : Injective flip.
Proof. intros p q H. rewrite <- (flip_flip p), <- (flip_flip q). now rewrite H. Qed.

Lemma nodup_reader px bb sp : Upper px -> NoDup px -> NoDup (reader px bb sp true).
Proof.
  destruct bb as [[[i0 i1] j0] j1]. intros HU Hn. unfold reader.
  apply nodup_app.
  - now apply NoDup_filter.
  - apply Injective_map_NoDup; [exact flip_inj|]. now apply NoDup_filter, NoDup_filter.
  - intros q Hq Hf. apply in_map_flip in Hf. rewrite !filter_In in *.
    destruct Hq as [Hq _]. destruct Hf as [[Hf _] Hg].
    apply HU in Hq. apply HU in Hf. destruct q as [[a b] v]. unfold flip, row, col in *. cbn [fst snd] in *. lia.
Qed.

Lemma nodup_fill_whole px t : Upper px -> NoDup px -> NoDup (fill_whole px t).
Proof.
  destruct t as [tr [[[i0 i1] j0] j1]]. intros HU Hn. unfold fill_whole. cbn [fst snd].
  destruct tr; [apply Injective_map_NoDup; [exact flip_inj|]|]; now apply nodup_reader.
Qed.

Theorem fill_select_nodup px i0 i1 j0 j1 :
  Upper px -> NoDup px -> i0 <= i1 -> j0 <= j1 ->
  match fill_select px (i0, i1, j0, j1) with
  | Some l => NoDup l
  | None => False
  end.
Proof.
  intros HU Hn Hi Hj. unfold fill_select, fill_plan.
  destruct (j1 <? i1) eqn:Eut; cbn [negb];
  repeat match goal with
  | |- context [if ?b then _ else _] => destruct b eqn:?
  end; cbn [option_map map concat]; rewrite ?app_nil_r;
  try (now apply nodup_fill_whole);
  try (apply nodup_app; [now apply nodup_fill_whole|now apply nodup_fill_whole|];
       intros q; unfold fill_whole; cbn [fst snd negb];
       rewrite ?in_map_flip, ?in_reader, ?flip_flip;
       assert (HUq : In q px -> row q <= col q) by (intro; auto);
       assert (HUf : In (flip q) px -> col q <= row q)
         by (intro H; apply HU in H; destruct q as [[a b] c]; unfold flip, row, col in *; cbn in *; lia);
       destruct q as [[a b] c]; unfold flip, row, col in *; cbn [fst snd] in *;
       unfold comes_before, contains in *;
       repeat match goal with H : context [if ?b then _ else _] |- _ => destruct b eqn:? end;
       clear HU Hn; rewrite ?memb_In in *; unfold pixel, key in *;
       repeat match goal with |- context [memb ?q px] => generalize dependent (memb q px); intros end; lia);
  try (unfold comes_before, contains in *;
       repeat match goal with H : context [if ?b then _ else _] |- _ => destruct b eqn:? end; lia).
Qed.

Lemma concat_app_perm {A B} (f g : A -> list B) l :
  Permutation (concat (map (fun k => f k ++ g k) l)) (concat (map f l) ++ concat (map g l)).
Proof.
  induction l as [|x t IH]; [reflexivity|]. cbn [map concat].
  rewrite IH. rewrite <- !app_assoc. apply Permutation_app_head.
  rewrite !app_assoc. apply Permutation_app_tail. apply Permutation_app_comm.
Qed.

Lemma filter_concat {A} (f : A -> bool) l : filter f (concat l) = concat (map (filter f) l).
Proof. induction l as [|x t IH]; [reflexivity|]. cbn. now rewrite filter_app, IH. Qed.

(** the chunked reflecting reader is a rearrangement of the one-span reader *)
Lemma reader_chunks_perm px i0 i1 j0 j1 cuts :
  RowSorted px -> AdmissibleCuts px (i0, i1, j0, j1) cuts ->
  Permutation (concat (map (fun sp => reader px (i0, i1, j0, j1) sp true) (spans_of cuts)))
              (reader px (i0, i1, j0, j1) (i0, i1) true).
Proof.
  intros Hs Ha.
  set (g := fun p : pixel => negb (row p =? col p) && (col p <? i1)).
  set (base := fun sp : Z * Z => filter (span_pred j0 j1 (fst sp) (snd sp)) px).
  assert (E : forall sp, reader px (i0, i1, j0, j1) sp true = base sp ++ map flip (filter g (base sp))) by reflexivity.
  rewrite (map_ext _ _ E). rewrite (concat_app_perm base (fun sp => map flip (filter g (base sp)))).
  assert (Eb : concat (map base (spans_of cuts)) = base (i0, i1)).
  { pose proof (direct_chunks_concat px (i0, i1, j0, j1) (fun _ => cuts) Hs Ha) as H.
    unfold direct_chunks in H. rewrite window_select_pred in H. exact H. }
  rewrite E, <- Eb.
  rewrite <- (map_map base (fun l => map flip (filter g l))).
  rewrite <- (map_map (filter g) (map flip)), <- concat_map, <- filter_concat. reflexivity.
Qed.

Lemma concat_map_perm {A B} (f g : A -> list B) l :
  (forall x, In x l -> Permutation (f x) (g x)) -> Permutation (concat (map f l)) (concat (map g l)).
Proof.
  induction l as [|x t IH]; intro H; [reflexivity|]. cbn.
  apply Permutation_app; [apply H; now left|apply IH; intros y Hy; apply H; now right].
Qed.

Lemma fill_task_perm px cuts t :
  RowSorted px -> AdmissibleCuts px (snd t) (cuts (snd t)) ->
  Permutation (concat (fill_task px cuts t)) (fill_whole px t).
Proof.
  destruct t as [tr [[[i0 i1] j0] j1]]. cbn [snd]. intros Hs Ha. unfold fill_task, fill_whole. cbn [fst snd].
  destruct tr.
  - rewrite <- (map_map (fun sp => reader px (i0, i1, j0, j1) sp true) (map flip)), <- concat_map.
    apply Permutation_map. now apply reader_chunks_perm.
  - now apply reader_chunks_perm.
Qed.

Lemma concat_concat_map {A B} (f : A -> list (list B)) l :
  concat (concat (map f l)) = concat (map (fun t => concat (f t)) l).
Proof. induction l as [|x t IH]; [reflexivity|]. cbn. now rewrite concat_app, IH. Qed.

(** the specification the fill-lower dump is compared with: the symmetric completion inside the window *)
Definition fill_spec (px : list pixel) (bb : bbox) : list pixel :=
  filter (fun p => in_window bb (fst p)) (symm_completion px).

Lemma in_fill_spec px i0 i1 j0 j1 q :
  In q (fill_spec px (i0, i1, j0, j1)) <-> InSymm px q /\ i0 <= row q < i1 /\ j0 <= col q < j1.
Proof.
  unfold fill_spec, symm_completion, InSymm, in_window, inb. rewrite filter_In, in_app_iff, in_map_flip, filter_In.
  destruct q as [[a b] v]. unfold flip, row, col, val. cbn [fst snd]. split.
  - intros [[H|[H Hd]] Hw]; (split; [|lia]); [now left|right]. split; [lia|assumption].
  - intros [[H|[Hd H]] Hw]; (split; [|lia]); [now left|right]. split; [assumption|lia].
Qed.

Lemma nodup_fill_spec px bb : Upper px -> NoDup px -> NoDup (fill_spec px bb).
Proof.
  intros HU Hn. unfold fill_spec, symm_completion. apply NoDup_filter. apply nodup_app.
  - assumption.
  - apply Injective_map_NoDup; [exact flip_inj|]. now apply NoDup_filter.
  - intros q Hq Hf. apply in_map_flip in Hf. rewrite filter_In in Hf. destruct Hf as [Hf Hd].
    apply HU in Hq. apply HU in Hf. destruct q as [[a b] v]. unfold flip, row, col in *. cbn [fst snd] in *. lia.
Qed.

(** dump_eq_query, fill-lower engine: exactly the symmetric completion inside the window, each record once *)
Theorem fill_chunks_perm px i0 i1 j0 j1 cuts :
  Upper px -> NoDup px -> RowSorted px -> i0 <= i1 -> j0 <= j1 -> PlanAdmissible px (i0, i1, j0, j1) cuts ->
  match fill_chunks px (i0, i1, j0, j1) cuts with
  | Some chunks => Permutation (concat chunks) (fill_spec px (i0, i1, j0, j1)) /\ NoDup (concat chunks)
  | None => False
  end.
Proof.
  intros HU Hn Hs Hi Hj Ha.
  pose proof (fill_select_nodup px i0 i1 j0 j1 HU Hn Hi Hj) as Hnd.
  pose proof (fun q => fill_chunks_in px i0 i1 j0 j1 cuts q HU Hi Hj Ha) as Hin.
  unfold fill_select, fill_chunks in *. unfold PlanAdmissible in Ha.
  destruct (fill_plan (i0, i1, j0, j1)) as [plan|]; [|exact Hnd]. cbn [option_map] in *.
  assert (Hp : Permutation (concat (concat (map (fill_task px cuts) plan))) (concat (map (fill_whole px) plan))).
  { rewrite concat_concat_map. apply concat_map_perm. intros t Ht. apply fill_task_perm; [assumption|].
    now apply (Ha plan t eq_refl Ht). }
  assert (Hnd' : NoDup (concat (concat (map (fill_task px cuts) plan)))).
  { apply (Permutation_NoDup (Permutation_sym Hp)). exact Hnd. }
  split; [|exact Hnd'].
  apply NoDup_Permutation; [exact Hnd'|now apply nodup_fill_spec|].
  intro q. rewrite (Hin q). symmetry. apply in_fill_spec.
Qed.

(* ================================================================= 9. load (dump --join c) = c, BG2 *)
Lemma index_of_nth (l : list string) d : forall i k,
  NoDup l -> (i < length l)%nat -> index_of (nth i l d) l k = Some (k + Z.of_nat i).
Proof.
  induction l as [|a t IH]; intros i k Hn Hi; [cbn in Hi; lia|].
  apply NoDup_cons_iff in Hn as [Ha Hn]. destruct i as [|i']; cbn [nth index_of].
  - rewrite String.eqb_refl. f_equal. lia.
  - cbn in Hi. destruct (String.eqb (nth i' t d) a) eqn:E.
    + apply String.eqb_eq in E. exfalso. apply Ha. rewrite <- E. apply nth_In. lia.
    + rewrite IH by (assumption || lia). f_equal. lia.
Qed.

Definition bin_has (c s : Z) (y : bin) : bool := (bchrom y =? c) && (bstart y <=? s) && (s <? bend y).

Lemma find_bin_from_first bins c s : forall i k x,
  nth_error bins i = Some x -> bin_has c s x = true ->
  (forall j y, (j < i)%nat -> nth_error bins j = Some y -> bin_has c s y = false) ->
  find_bin_from k bins c s = Some (k + Z.of_nat i).
Proof.
  induction bins as [|y t IH]; intros i k x Hx Hm Hfirst; [destruct i; discriminate|].
  destruct i as [|i']; cbn [find_bin_from].
  - cbn in Hx. injection Hx as ->. unfold bin_has in Hm. rewrite Hm. f_equal. lia.
  - pose proof (Hfirst 0%nat y ltac:(lia) eq_refl) as H0. unfold bin_has in H0. rewrite H0.
    rewrite (IH i' (k + 1) x Hx Hm); [f_equal; lia|].
    intros j z Hj Hz. apply (Hfirst (S j) z); [lia|exact Hz].
Qed.

(** what the round trip needs of the bin table: every bin is non-empty, names a known chromosome, and its start lies in no
    other bin of the same chromosome (true of every valid tiling); for the triangle test also that the table is listed
    in (chromosome, start) order *)
Record BinsOK (bins : list bin) (names : list string) : Prop := {
  bo_names : NoDup names;
  bo_chrom : forall x, In x bins -> 0 <= bchrom x < Z.of_nat (length names);
  bo_nonempty : forall x, In x bins -> bstart x < bend x;
  bo_disjoint : forall i j x y, nth_error bins i = Some x -> nth_error bins j = Some y ->
                bchrom x = bchrom y -> bstart y <= bstart x < bend y -> i = j;
  bo_ordered : forall i j x y, (i <= j)%nat -> nth_error bins i = Some x -> nth_error bins j = Some y ->
               kltb (bchrom y, bstart y) (bchrom x, bstart x) = false
}.

Lemma find_bin_own bins names i x :
  BinsOK bins names -> nth_error bins i = Some x -> find_bin bins (bchrom x) (bstart x) = Some (Z.of_nat i).
Proof.
  intros Hok Hx. unfold find_bin. rewrite (find_bin_from_first bins (bchrom x) (bstart x) i 0 x Hx); [reflexivity| |].
  - unfold bin_has. pose proof (bo_nonempty _ _ Hok x (nth_error_In _ _ Hx)). lia.
  - intros j y Hj Hy. apply not_true_is_false. intro Hm. unfold bin_has in Hm.
    assert (i = j) by (apply (bo_disjoint _ _ Hok i j x y Hx Hy); lia). lia.
Qed.

Definition bg2_schema : schema :=
  {| s_in := ["chrom1"; "start1"; "end1"; "chrom2"; "start2"; "end2"; "count"]%string;
     s_num := [("chrom1", 0); ("start1", 1); ("end1", 2); ("chrom2", 3); ("start2", 4); ("end2", 5); ("count", 6)]%string;
     s_out := ["bin1_id"; "bin2_id"; "count"]%string |}.
Lemma load_schema_bg2_default : load_schema true [] = Some bg2_schema.
Proof. reflexivity. Qed.

Definition InRange (bins : list bin) (px : list pixel) : Prop :=
  forall p, In p px -> 0 <= row p < Z.of_nat (length bins) /\ 0 <= col p < Z.of_nat (length bins).

(** the anchor record `dump --join [--one-based-starts]` prints for pixel p *)
Definition anchor_of (bins : list bin) (ob : bool) (p : pixel) : anchor_rec :=
  let b1 := nth (Z.to_nat (row p)) bins (0, 0, 0) in
  let b2 := nth (Z.to_nat (col p)) bins (0, 0, 0) in
  let d := if ob then 1 else 0 in
  ((bchrom b1, bstart b1 + d), (bchrom b2, bstart b2 + d), val p).

Lemma bg2_record_printed names (c1 c2 : string) s1 e1 s2 e2 v i1 i2 :
  index_of c1 names 0 = Some i1 -> index_of c2 names 0 = Some i2 ->
  bg2_record names bg2_schema "count" [c1; print_Z s1; print_Z e1; c2; print_Z s2; print_Z e2; print_Z v]
  = Some ((i1, s1), (i2, s2), v).
Proof.
  intros H1 H2. unfold bg2_record.
  generalize (parse_print_Z s1), (parse_print_Z s2), (parse_print_Z v).
  generalize (print_Z s1), (print_Z e1), (print_Z s2), (print_Z e2), (print_Z v). intros x1 y1 x2 y2 z Hx1 Hx2 Hz.
  let t := eval vm_compute in (read_fields (s_in bg2_schema) (s_num bg2_schema) [c1; x1; y1; c2; x2; y2; z]) in
  change (read_fields (s_in bg2_schema) (s_num bg2_schema) [c1; x1; y1; c2; x2; y2; z]) with t.
  cbn. now rewrite H1, H2, Hx1, Hx2, Hz.
Qed.

Lemma nth_error_of_nth {A} (l : list A) i d : (i < length l)%nat -> nth_error l i = Some (nth i l d).
Proof. intro H. now apply nth_error_nth'. Qed.

Lemma mapM_bg2_text bins names ob px :
  BinsOK bins names -> InRange bins px ->
  mapM (bg2_record names bg2_schema "count") (bg2_text bins names ob px) = Some (map (anchor_of bins ob) px).
Proof.
  intros Hok Hr. induction px as [|p t IH]; [reflexivity|].
  unfold bg2_text in *. cbn [map mapM].
  assert (Hp : 0 <= row p < Z.of_nat (length bins) /\ 0 <= col p < Z.of_nat (length bins)) by (apply Hr; now left).
  set (b1 := nth (Z.to_nat (row p)) bins (0, 0, 0)). set (b2 := nth (Z.to_nat (col p)) bins (0, 0, 0)).
  assert (Hb1 : In b1 bins) by (apply nth_In; lia). assert (Hb2 : In b2 bins) by (apply nth_In; lia).
  pose proof (bo_chrom _ _ Hok b1 Hb1) as Hc1. pose proof (bo_chrom _ _ Hok b2 Hb2) as Hc2.
  rewrite (bg2_record_printed names _ _ _ _ _ _ _ (bchrom b1) (bchrom b2)).
  - rewrite IH; [reflexivity|]. intros q Hq. apply Hr. now right.
  - rewrite (index_of_nth names EmptyString (Z.to_nat (bchrom b1)) 0 (bo_names _ _ Hok)) by lia. f_equal. lia.
  - rewrite (index_of_nth names EmptyString (Z.to_nat (bchrom b2)) 0 (bo_names _ _ Hok)) by lia. f_equal. lia.
Qed.

Lemma sanitize_anchor bins names ob t px p :
  BinsOK bins names -> InRange bins px -> tril_harmless t px -> In p px ->
  sanitize_record bins ob t (anchor_of bins ob p) = Some [p].
Proof.
  intros Hok Hr Ht Hp. destruct (Hr p Hp) as [Hrow Hcol].
  unfold sanitize_record, anchor_of.
  set (b1 := nth (Z.to_nat (row p)) bins (0, 0, 0)). set (b2 := nth (Z.to_nat (col p)) bins (0, 0, 0)).
  assert (E1 : nth_error bins (Z.to_nat (row p)) = Some b1) by (apply nth_error_of_nth; lia).
  assert (E2 : nth_error bins (Z.to_nat (col p)) = Some b2) by (apply nth_error_of_nth; lia).
  assert (Ea : forall d, (if ob then (bchrom b1, bstart b1 + (if ob then 1 else 0) - 1 + d - d) else (bchrom b1, bstart b1 + (if ob then 1 else 0))) = (bchrom b1, bstart b1)).
  { intro d. destruct ob; f_equal; lia. }
  assert (F1 : find_bin bins (bchrom b1) (bstart b1) = Some (row p)).
  { rewrite (find_bin_own bins names _ b1 Hok E1). f_equal. lia. }
  assert (F2 : find_bin bins (bchrom b2) (bstart b2) = Some (col p)).
  { rewrite (find_bin_own bins names _ b2 Hok E2). f_equal. lia. }
  assert (Hnt : t <> Keep -> kltb (bchrom b2, bstart b2) (bchrom b1, bstart b1) = false).
  { intro Hk. destruct Ht as [->|Hu]; [contradiction|]. specialize (Hu p Hp).
    apply (bo_ordered _ _ Hok (Z.to_nat (row p)) (Z.to_nat (col p)) b1 b2); [lia|assumption|assumption]. }
  destruct p as [[a b] v]. unfold row, col, val in *. cbn [fst snd] in *.
  destruct ob; cbn [fst snd].
  - replace (bstart b1 + 1 - 1) with (bstart b1) by lia. replace (bstart b2 + 1 - 1) with (bstart b2) by lia.
    destruct t; [rewrite (Hnt ltac:(discriminate))|rewrite (Hnt ltac:(discriminate))|]; cbn [negb fst snd]; now rewrite F1, F2.
  - rewrite !Z.add_0_r.
    destruct t; [rewrite (Hnt ltac:(discriminate))|rewrite (Hnt ltac:(discriminate))|]; cbn [negb fst snd]; now rewrite F1, F2.
Qed.

Theorem load_anchor_recs_roundtrip bins names ob t chunk px :
  BinsOK bins names -> InRange bins px -> SSorted px -> tril_harmless t px ->
  load_anchor_recs bins ob t chunk (map (anchor_of bins ob) px) = Some px.
Proof.
  intros Hok Hr Hs Ht. unfold load_anchor_recs. rewrite chunks_of_map.
  assert (E : mapM (fun ch => option_map (@concat pixel) (mapM (sanitize_record bins ob t) ch))
                   (map (map (anchor_of bins ob)) (chunks_of chunk px)) = Some (chunks_of chunk px)).
  { rewrite <- (map_id (chunks_of chunk px)) at 2.
    assert (G : forall chs, (forall ch, In ch chs -> forall p, In p ch -> In p px) ->
                mapM (fun ch => option_map (@concat pixel) (mapM (sanitize_record bins ob t) ch))
                     (map (map (anchor_of bins ob)) chs) = Some (map (fun x => x) chs)).
    { induction chs as [|ch rest IHc]; intro Hall; [reflexivity|]. cbn [map mapM].
      assert (Ech : mapM (sanitize_record bins ob t) (map (anchor_of bins ob) ch) = Some (map (fun p => [p]) ch)).
      { clear IHc. assert (Hin : forall p, In p ch -> In p px) by (apply Hall; now left).
        clear Hall. induction ch as [|p tl IHp]; [reflexivity|]. cbn [map mapM].
        rewrite (sanitize_anchor bins names ob t px p Hok Hr Ht (Hin p (or_introl eq_refl))).
        rewrite IHp; [reflexivity|]. intros q Hq. apply Hin. now right. }
      rewrite Ech. cbn [option_map].
      rewrite IHc by (intros c0 Hc0; apply Hall; now right).
      f_equal. f_equal. clear. induction ch as [|p tl IH]; [reflexivity|]. cbn. now rewrite IH. }
    apply G. intros ch Hch p Hp. now apply (in_chunk_in chunk px ch). }
  rewrite E.
  assert (Hd : existsb has_dup_key (chunks_of chunk px) = false).
  { apply not_true_is_false. intro X. apply existsb_exists in X as (ch & Hch & Hdup).
    pose proof (chunks_fuel_infix (length px) chunk px) as Hin. rewrite Forall_forall in Hin.
    destruct (Hin ch Hch) as (a & b & Eab). rewrite <- Eab in Hs.
    rewrite (SSorted_no_dup_key ch (SSorted_infix _ _ _ Hs)) in Hdup. discriminate. }
  rewrite Hd, concat_chunks_of. f_equal. now apply aggregate_sorted_id.
Qed.

(** load_dump_roundtrip, BG2 *)
Theorem load_dump_roundtrip_bg2 bins names ob t chunk px :
  BinsOK bins names -> InRange bins px -> SSorted px -> tril_harmless t px ->
  load_bg2 bins names bg2_schema "count" ob t chunk (bg2_text bins names ob px) = Some px.
Proof.
  intros Hok Hr Hs Ht. unfold load_bg2. rewrite (mapM_bg2_text bins names ob px Hok Hr).
  now apply load_anchor_recs_roundtrip with (names := names).
Qed.

Lemma names_nodup_b_sound l : names_nodup_b l = true -> NoDup l.
Proof.
  induction l as [|x t IH]; intro H; [constructor|]. cbn in H. apply andb_prop in H as [Hx Ht].
  constructor; [|now apply IH]. intro Hin. apply negb_true_iff in Hx.
  assert (existsb (String.eqb x) t = true) by (apply existsb_exists; exists x; split; [assumption|apply String.eqb_refl]).
  congruence.
Qed.

Lemma bins_sorted_b_pairs l : bins_sorted_b l = true ->
  forall i j x y, (i < j)%nat -> nth_error l i = Some x -> nth_error l j = Some y -> binltb x y = true.
Proof.
  induction l as [|a t IH]; intros H i j x y Hij Hx Hy; [destruct i; discriminate|].
  cbn in H. apply andb_prop in H as [Ha Ht]. destruct i as [|i'], j as [|j']; try lia.
  - cbn in Hx, Hy. injection Hx as <-. rewrite forallb_forall in Ha. apply Ha. now apply nth_error_In in Hy.
  - cbn in Hx, Hy. apply (IH Ht i' j' x y); [lia|assumption|assumption].
Qed.

Theorem bins_ok_b_sound bins names : bins_ok_b bins names = true -> BinsOK bins names.
Proof.
  unfold bins_ok_b. intro H. apply andb_prop in H as [H Hs]. apply andb_prop in H as [Hn Hf].
  rewrite forallb_forall in Hf. pose proof (bins_sorted_b_pairs bins Hs) as Hp.
  constructor.
  - now apply names_nodup_b_sound.
  - intros x Hx. specialize (Hf x Hx). lia.
  - intros x Hx. specialize (Hf x Hx). lia.
  - intros i j x y Hx Hy Hc Hr.
    pose proof (Hf x (nth_error_In _ _ Hx)) as Hfx. pose proof (Hf y (nth_error_In _ _ Hy)) as Hfy.
    destruct (Nat.lt_trichotomy i j) as [Hlt|[Heq|Hgt]]; [|assumption|].
    + specialize (Hp i j x y Hlt Hx Hy). unfold binltb in Hp. lia.
    + specialize (Hp j i y x Hgt Hy Hx). unfold binltb in Hp. lia.
  - intros i j x y Hij Hx Hy.
    pose proof (Hf x (nth_error_In _ _ Hx)) as Hfx.
    destruct (Nat.eq_dec i j) as [->|Hne].
    + rewrite Hx in Hy. injection Hy as <-. unfold kltb. cbn [fst snd]. lia.
    + specialize (Hp i j x y ltac:(lia) Hx Hy). unfold binltb in Hp. unfold kltb. cbn [fst snd]. lia.
Qed.

(* ================================================================= 10. cload pairs: any layout of the positional columns *)
(** `cload pairs -c1 a -p1 b -c2 c -p2 d` with ANY pairwise distinct one-based field numbers (any permutation, any gaps):
    the schema is accepted and every positional field receives the text of its own column *)
Theorem cload_positional_any_layout c1 p1 c2 p2 rec :
  1 <= c1 <= Z.of_nat (length rec) -> 1 <= p1 <= Z.of_nat (length rec) ->
  1 <= c2 <= Z.of_nat (length rec) -> 1 <= p2 <= Z.of_nat (length rec) ->
  NoDup [c1; p1; c2; p2] ->
  exists s r, cload_schema c1 p1 c2 p2 [] = Some s /\ s_out s = ["count"%string] /\
    read_fields (s_in s) (s_num s) rec = Some r /\
    assoc "chrom1" r = Some (nth (Z.to_nat (c1 - 1)) rec EmptyString) /\
    assoc "pos1" r = Some (nth (Z.to_nat (p1 - 1)) rec EmptyString) /\
    assoc "chrom2" r = Some (nth (Z.to_nat (c2 - 1)) rec EmptyString) /\
    assoc "pos2" r = Some (nth (Z.to_nat (p2 - 1)) rec EmptyString).
Proof.
  intros H1 H2 H3 H4 Hn.
  set (s := {| s_in := ["chrom1"; "pos1"; "chrom2"; "pos2"]%string;
               s_num := [("chrom1", c1 - 1); ("pos1", p1 - 1); ("chrom2", c2 - 1); ("pos2", p2 - 1)]%string;
               s_out := ["count"%string] |}).
  assert (Es : cload_schema c1 p1 c2 p2 [] = Some s).
  { unfold cload_schema. replace ((c1 =? 0) || (p1 =? 0) || (c2 =? 0) || (p2 =? 0)) with false by lia. reflexivity. }
  destruct (read_fields_spec (s_in s) (s_num s) rec) as (r & Hr & _ & Ha).
  - cbn. repeat match goal with H : NoDup (_ :: _) |- _ => apply NoDup_cons_iff in H as [? ?] end.
    cbn [In] in *. repeat constructor; cbn [In]; intuition lia.
  - intros n Hin. cbn in Hin. destruct Hin as [<-|[<-|[<-|[<-|[]]]]]; cbn; lia.
  - exists s, r. split; [exact Es|]. split; [reflexivity|]. split; [exact Hr|].
    repeat split; [rewrite (Ha "chrom1"%string)|rewrite (Ha "pos1"%string)|rewrite (Ha "chrom2"%string)|rewrite (Ha "pos2"%string)];
      try reflexivity; cbn; tauto.
Qed.

(* ================================================================= 11. parse_field_param *)
Fixpoint has_char (c : ascii) (s : string) : bool :=
  match s with EmptyString => false | String a r => Ascii.eqb a c || has_char c r end.

Lemma append_assoc' (a b c : string) : append (append a b) c = append a (append b c).
Proof. induction a as [|x t IH]; cbn; [reflexivity|now rewrite IH]. Qed.
Lemma append_nil_r (a : string) : append a EmptyString = a.
Proof. induction a as [|x t IH]; cbn; [reflexivity|now rewrite IH]. Qed.

Lemma split_aux_nosep sep s cur : has_char sep s = false -> split_aux sep s cur = [append cur s].
Proof.
  revert cur. induction s as [|a r IH]; intros cur H; cbn in *.
  - now rewrite append_nil_r.
  - apply orb_false_elim in H as [Ha Hr]. rewrite Ha. rewrite (IH _ Hr). now rewrite append_assoc'.
Qed.

Lemma split_aux_first sep s1 s2 cur :
  has_char sep s1 = false ->
  split_aux sep (append s1 (String sep s2)) cur = append cur s1 :: split_aux sep s2 EmptyString.
Proof.
  revert cur. induction s1 as [|a r IH]; intros cur H; cbn in *.
  - rewrite Ascii.eqb_refl. now rewrite append_nil_r.
  - apply orb_false_elim in H as [Ha Hr]. rewrite Ha. rewrite (IH _ Hr). now rewrite append_assoc'.
Qed.

Lemma has_char_append c a b : has_char c (append a b) = has_char c a || has_char c b.
Proof. induction a as [|x t IH]; cbn; [reflexivity|]. now rewrite IH, orb_assoc. Qed.

Definition digit_chars : list ascii := ["0"; "1"; "2"; "3"; "4"; "5"; "6"; "7"; "8"; "9"]%char.

Lemma uint_digits_only c d :
  (forall a, In a digit_chars -> Ascii.eqb a c = false) ->
  has_char c (NilEmpty.string_of_uint d) = false.
Proof.
  intro Hc. induction d; cbn [NilEmpty.string_of_uint has_char]; rewrite ?IHd; try reflexivity;
    rewrite Hc; try reflexivity; unfold digit_chars; cbn; tauto.
Qed.

Lemma print_pos_no_sep c k :
  1 <= k -> (c = ":"%char \/ c = "="%char \/ c = ","%char) -> has_char c (print_Z k) = false.
Proof.
  intros Hk Hc. unfold print_Z. destruct k as [|p|p]; try lia. cbn [Z.to_int NilEmpty.string_of_int].
  apply uint_digits_only. intros a Ha. unfold digit_chars in Ha. cbn [In] in Ha.
  destruct Hc as [ -> | [ -> | -> ] ]; repeat (destruct Ha as [ Ha | Ha ]; [ subst a; reflexivity | ]); contradiction.
Qed.

(** the documented form  NAME=NUMBER : for every name free of ':' and '=' and every one-based field number the
    parser returns the name and the zero-based column number, whatever includes_agg *)
Theorem parse_field_param_name_number name k agg :
  has_char ":" name = false -> has_char "=" name = false -> 1 <= k ->
  parse_field_param (append name (String "=" (print_Z k))) true agg = FP name (Some (k - 1)) None None.
Proof.
  intros Hc He Hk. unfold parse_field_param.
  assert (Hs : split ":" (append name (String "=" (print_Z k))) = [append name (String "=" (print_Z k))]).
  { unfold split. rewrite split_aux_nosep; [reflexivity|].
    rewrite has_char_append. cbn. rewrite Hc, (print_pos_no_sep ":" k Hk); [reflexivity|now left]. }
  rewrite Hs.
  assert (Hp : split "=" (append name (String "=" (print_Z k))) = [name; print_Z k]).
  { unfold split. rewrite split_aux_first by assumption. cbn [append].
    rewrite split_aux_nosep; [reflexivity|]. apply print_pos_no_sep; [assumption|right; now left]. }
  rewrite Hp, parse_print_Z. replace (k - 1 <? 0) with false by lia. reflexivity.
Qed.

(** NAME alone (used to retype a standard column) and a malformed number *)
Theorem parse_field_param_zero_refused name agg :
  has_char ":" name = false -> has_char "=" name = false ->
  parse_field_param (append name (String "=" (print_Z 0))) true agg = FPBad.
Proof.
  intros Hc He. unfold parse_field_param.
  assert (Hs : split ":" (append name "=0") = [append name "=0"%string]).
  { unfold split. rewrite split_aux_nosep; [reflexivity|]. rewrite has_char_append. cbn. now rewrite Hc. }
  change (print_Z 0) with "0"%string. rewrite Hs.
  assert (Hp : split "=" (append name "=0") = [name; "0"%string]).
  { unfold split. change "=0"%string with (String "=" "0"). rewrite split_aux_first by assumption. reflexivity. }
  rewrite Hp. reflexivity.
Qed.
