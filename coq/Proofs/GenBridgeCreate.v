(** Tie between the per-record predicates of _ingest._validate_pixels as TRANSLATED from the source on every run
    (Gen.vp_is_neg / vp_is_excess / vp_is_tril: a numpy comparison over the id columns becomes the comparison on one
    record) and the hand model of the validator (Model/Create.v: has_neg, has_excess, has_tril).  The order of the
    checks, the flag guarding each, the NaN test, the duplicate test and the optional sort are pinned
    (Gen.validate_pixels_source_pins), as are the validator chaining in create() and the fit check / store statements of
    write_pixels (Gen.create_write_source_pins). *)
From Cooler Require Import Model.Create Gen.Translated.
From Coq Require Import Lia ZifyBool.
Open Scope Z_scope.

Section V.
  Context {V : Type}.
  Notation rowT := (key * V)%type.

  Lemma gen_has_neg (c : list rowT) :
    has_neg c = existsb (fun r => Gen.vp_is_neg (fst (fst r)) (snd (fst r))) c.
  Proof. reflexivity. Qed.

  Lemma gen_has_excess n (c : list rowT) :
    has_excess n c = existsb (fun r => Gen.vp_is_excess (fst (fst r)) (snd (fst r)) n) c.
  Proof.
    unfold has_excess, Gen.vp_is_excess. induction c as [|r t IH]; [reflexivity|]. cbn [existsb]. rewrite IH. f_equal.
    rewrite !Z.geb_leb. reflexivity.
  Qed.

  Lemma gen_has_tril (c : list rowT) :
    has_tril c = existsb (fun r => Gen.vp_is_tril (fst (fst r)) (snd (fst r))) c.
  Proof.
    unfold has_tril, Gen.vp_is_tril. induction c as [|r t IH]; [reflexivity|]. cbn [existsb]. rewrite IH. f_equal.
    rewrite Z.gtb_ltb. reflexivity.
  Qed.

  (** the model's validator, restated over the translated predicates *)
  Theorem gen_validate_pixels n bc tc dc es (c : list rowT) :
    validate_pixels n bc tc dc es c =
    if bc && existsb (fun r => Gen.vp_is_neg (fst (fst r)) (snd (fst r))) c then inl ErrNeg
    else if bc && existsb (fun r => Gen.vp_is_excess (fst (fst r)) (snd (fst r)) n) c then inl ErrExcess
    else if tc && existsb (fun r => Gen.vp_is_tril (fst (fst r)) (snd (fst r))) c then inl ErrTril
    else if dc && has_dup c then inl ErrDup
    else inr (if es then sort_rows c else c).
  Proof. unfold validate_pixels. now rewrite gen_has_neg, gen_has_excess, gen_has_tril. Qed.
End V.

Theorem gen_validate_pins : Gen.validate_pixels_source_pins = true /\ Gen.create_write_source_pins = true.
Proof. split; reflexivity. Qed.
