import warnings; warnings.filterwarnings("ignore")
import numpy as np, pandas as pd, cooler, h5py, os, sys, subprocess, collections
from click.testing import CliRunner
from cooler.cli import cli
from cooler.util import parse_humanized, get_binsize
from cooler.create import sanitize_records
print("using",cooler.__file__)
R={}
def t(name,f):
    try: R[name]=f()
    except Exception as e: R[name]=f"EXC {type(e).__name__}: {str(e)[:60]}"
runner=CliRunner()
cs=pd.Series({"a":30,"b":20}); bins=cooler.binnify(cs,10)
good=pd.DataFrame({"bin1_id":[0,0,1,3],"bin2_id":[0,2,4,4],"count":[1,2,3,4]})
# D1
t("D1 longer-last",lambda: get_binsize(pd.DataFrame({"chrom":["a"]*3,"start":[0,10,20],"end":[10,20,35]})) is None)
t("D1 two-bin",lambda: get_binsize(pd.DataFrame({"chrom":["a"]*2,"start":[0,7],"end":[7,30]})) is None)
t("D1 shorter-last ok",lambda: get_binsize(pd.DataFrame({"chrom":["a"]*3,"start":[0,10,20],"end":[10,20,25]}))==10)
# D2
def d2():
    san=sanitize_records(bins,schema="pairs",is_one_based=False,sort=True,validate=True)
    try: san(pd.DataFrame({"chrom1":["a"],"pos1":[30],"chrom2":["b"],"pos2":[5]})); return False
    except ValueError: return True
t("D2 pos==len rejected",d2)
# D3/D17
def d3():
    px=pd.DataFrame({"bin1_id":[0,0,1,3],"bin2_id":[0,2,4,4],"count":[1,2,3,4]}); cooler.create_cooler("b10.cool",bins,px)
    bins15=cooler.binnify(cs,15); cooler.create_cooler("b15.cool",bins15,pd.DataFrame({"bin1_id":[0,1],"bin2_id":[1,3],"count":[5,6]}))
    cooler.zoomify_cooler(["b10.cool","b15.cool"],"z.mcool",[10,15,20,30],chunksize=100)
    return cooler.fileops.list_coolers("z.mcool")
t("D3 multi-base",d3)
def d17():
    bins20=cooler.binnify(cs,20); b20=bins20.copy(); b20["weight"]=1.5
    cooler.create_cooler("b20.cool",b20,pd.DataFrame({"bin1_id":[0],"bin2_id":[1],"count":[77]}))
    cooler.zoomify_cooler(["b10.cool","b20.cool"],"z2.mcool",[40],chunksize=100)
    c=cooler.Cooler("z2.mcool::resolutions/20"); return c.pixels()[:].values.tolist(), "weight" in c.bins().columns
t("D17 base kept",d17)
# D4
t("D4 10b",lambda: (runner.invoke(cli,["zoomify","-r","10b","-o","zb.mcool","b10.cool"]).exit_code, cooler.fileops.list_coolers("zb.mcool")))
# D5
t("D5 is_cooler nonexist",lambda: cooler.fileops.is_cooler("b10.cool::/nope"))
# D6
t("D6 1.001k",lambda: (parse_humanized("1.001k"),parse_humanized("0.29M"),parse_humanized("1.5k"),parse_humanized("2,000"),parse_humanized("1.0005k")))
def d6b():
    out=[]
    for s in ("1.2.3k","k","1.5","abc"):
        try: out.append(parse_humanized(s))
        except ValueError: out.append("VE")
        except Exception as e: out.append(type(e).__name__)
    return out
t("D6 errors",d6b)
# D7
cooler.create_cooler("d.cool",bins,good)
t("D7 one-based-ids",lambda: runner.invoke(cli,["dump","--one-based-ids","d.cool"]).output.split("\n")[0])
t("D7 columns",lambda: runner.invoke(cli,["dump","-c","count,bin2_id","-H","d.cool"]).output.split("\n")[:2])
# D8
def d8():
    open("cs.txt","w").write("a\t30\nb\t20\n")
    rows=[("a",3,"a",25),("a",12,"b",7),("b",1,"b",19)]
    open("p_perm.txt","w").write("".join(f"{p2}\t{c2}\t{p1}\t{c1}\n" for c1,p1,c2,p2 in rows))
    r=runner.invoke(cli,["cload","pairs","-c1","4","-p1","3","-c2","2","-p2","1","cs.txt:10","p_perm.txt","perm.cool"])
    open("x.coo","w").write("0\t1\t5\t0.5\t7\n1\t2\t6\t1.5\t9\n")
    r2=runner.invoke(cli,["load","-f","coo","--field","foo=5","--field","bar=4:dtype=float","--field","count=3","cs.txt:10","x.coo","l.cool"])
    return r.exit_code, cooler.Cooler("perm.cool").pixels()[:].values.tolist(), r2.exit_code, cooler.Cooler("l.cool").pixels()[:].to_dict("list")
t("D8 permuted columns",d8)
# D9
def d9():
    out=[]
    for mm,nch in ((1,2),(1,3),(2,3)):
        def uch():
            for k in range(nch): yield pd.DataFrame({"bin1_id":[(7*k)%4],"bin2_id":[4],"count":[1]})
        cooler.create_cooler("u.cool",bins,uch(),ordered=False,max_merge=mm,mergebuf=10); out.append(cooler.Cooler("u.cool").pixels()[:].values.tolist())
    return out
t("D9 small two-pass",d9)
# D10
def d10():
    px1=pd.DataFrame({"bin1_id":[0],"bin2_id":[1],"count":[2**31-1]})
    cooler.create_cooler("o1.cool",bins,px1); cooler.create_cooler("o2.cool",bins,px1)
    try: cooler.merge_coolers("om.cool",["o1.cool","o2.cool"],mergebuf=10); return cooler.Cooler("om.cool").pixels()[:]["count"].tolist()
    except ValueError as e: return "ValueError: "+str(e)[:50], cooler.fileops.is_cooler("om.cool")
t("D10 overflow",d10)
# D11
def d11():
    b=cooler.binnify(pd.Series({"a":50}),10)
    M=np.array([[4,1,2,1,3],[1,6,1,2,1],[2,1,2,3,1],[1,2,3,8,2],[3,1,1,2,2]],float)
    i,j=np.nonzero(np.triu(M)); cooler.create_cooler("bal.cool",b,pd.DataFrame({"bin1_id":i,"bin2_id":j,"count":M[i,j].astype(int)}))
    w,st=cooler.balance_cooler(cooler.Cooler("bal.cool"),ignore_diags=0,min_nnz=0,mad_max=0,tol=1e-12,max_iters=500)
    return st["converged"], (M*np.outer(w,w)).sum(1).round(6).tolist()
t("D11 diag once",d11)
# D12
t("D12 annotate empty",lambda: cooler.annotate(cooler.Cooler("d.cool").pixels()[0:0], cooler.Cooler("d.cool").bins()[2:4]).shape)
# D16
def d16():
    cooler.create_cooler("e1.cool",bins,good.iloc[0:0]); cooler.merge_coolers("em.cool",["e1.cool","e1.cool"],mergebuf=5)
    def ch(): yield pd.DataFrame({"bin1_id":[2,2],"bin2_id":[3,4],"count":[1,1]})
    cooler.create_cooler("u2.cool",bins,ch(),ordered=False,mergebuf=1)
    return cooler.Cooler("em.cool").info["nnz"], cooler.Cooler("u2.cool").pixels()[:].values.tolist()
t("D16 empty epoch",d16)
for k,v in R.items(): print(f"{k:28s} {v}")
