import warnings; warnings.filterwarnings("ignore")
import numpy as np, pandas as pd, cooler, h5py, os, itertools
rng=np.random.default_rng(2)
chromsizes=pd.Series({"a":30,"b":20,"c":10}); bins=cooler.binnify(chromsizes,10); n=len(bins)
M=np.triu((rng.random((n,n))<0.7)*rng.integers(1,9,(n,n))); F=M+np.triu(M,1).T
i,j=np.nonzero(M); px=pd.DataFrame({"bin1_id":i,"bin2_id":j,"count":M[i,j]})
b2=bins.copy(); w=rng.random(n)+0.5; w[2]=np.nan; b2["weight"]=w; kr=rng.random(n)+0.5; kr[4]=np.nan; b2["KR"]=kr
cooler.create_cooler("w.cool",b2,px)
c=cooler.Cooler("w.cool")
bad=0;tot=0
for name,div in (("weight",False),("KR",True),(True,False)):
    ww = w if name in ("weight",True) else 1/kr
    for sparse in (False,True):
        sel=c.matrix(balance=name,sparse=sparse)
        for i0,i1,j0,j1 in itertools.product(range(n+1),repeat=4):
            if i0>i1 or j0>j1: continue
            A=sel[i0:i1,j0:j1]; A=A.toarray() if sparse else A
            E=F[i0:i1,j0:j1]*np.outer(ww[i0:i1],ww[j0:j1])
            tot+=1
            if sparse:
                # sparse: zeros stay zero (no NaN where raw is 0)
                E=np.where(F[i0:i1,j0:j1]==0,0,E)
            if not np.allclose(A,E,equal_nan=True): bad+=1; 
print("C12 windows",tot,"bad",bad)
try: c.matrix(balance="nope")[0:2,0:2]; print("missing weight: no error")
except Exception as e: print("missing weight:",type(e).__name__)
# as_pixels balanced
df=c.matrix(balance=True,as_pixels=True)[1:4,0:5]; 
print(np.allclose(df["balanced"], w[df.bin1_id]*w[df.bin2_id]*df["count"],equal_nan=True))
# C18 rename
cooler.rename_chroms(c,{"a":"chrAAAA","c":"z"})
print(c.chromnames, list(c.bins()[:]["chrom"].unique()), cooler.Cooler("w.cool").chromnames, c.extent("chrAAAA"), np.array_equal(c.matrix(balance=False).fetch("z","chrAAAA"), F[5:6,0:3]))
print(c.chromsizes.to_dict())
# C14 annotate
pix=c.pixels()[:]
for sub in (pix.iloc[[5,1,3]], pix.iloc[::-1], pix.iloc[0:0], pix):
    for bb in (c.bins()[:], c.bins(), c.bins()[int(sub[["bin1_id","bin2_id"]].min().min()) if len(sub) else 0: (int(sub[["bin1_id","bin2_id"]].max().max())+1 if len(sub) else 1)]):
        a=cooler.annotate(sub,bb)
        full=c.bins()[:]
        ok = (a.index.equals(sub.index) and np.array_equal(a["start1"].values, full["start"].values[sub.bin1_id]) and np.array_equal(a["end2"].values, full["end"].values[sub.bin2_id]) and list(a["chrom1"].astype(str))==list(full["chrom"].astype(str).values[sub.bin1_id]))
        if not ok: print("C14 annotate mismatch", len(sub), type(bb))
print("C14 done")
