(** Proofs for C17: what create(append_scool) writes for one cell, that creating a further cell keeps
    everything that could be read before (frame), and by induction over the sorted cell list that
    every cell of create_scool reads back as given, with chroms and the three bin columns being the
    root's own objects. *)
From Cooler Require Import Model.Scool Proofs.H5Proofs.
From Coq Require Import Lia.
Module S := Coq.Strings.String.

(* ------------------------------------------------------------------ "everything readable stays readable" *)
Definition keeps (w w' : world) : Prop :=
  (forall f o n l, lookup_link w f o n = Some l -> lookup_link w' f o n = Some l) /\
  (forall f o d, obj_at w f o = Some (Dataset d) -> obj_at w' f o = Some (Dataset d)).

Lemma keeps_refl : forall w, keeps w w.
Proof. split; auto. Qed.

Lemma keeps_trans : forall a b c, keeps a b -> keeps b c -> keeps a c.
Proof. intros a b c [H1 H2] [H3 H4]. split; eauto. Qed.

Lemma world_le_keeps : forall w w', world_le w w' -> keeps w w'.
Proof.
  intros w w' H. split.
  - intros. eapply world_le_lookup; eauto.
  - intros f o d E. destruct (world_le_obj _ _ _ _ _ H E) as (y & Ey & Ly).
    destruct y; simpl in Ly; try tauto. congruence.
Qed.

Lemma set_attrs_keeps : forall w f o b, keeps w (set_attrs w f o b).
Proof.
  intros w f o b. unfold set_attrs.
  destruct (obj_at w f o) as [[a ls|d]|] eqn:E; try apply keeps_refl.
  split.
  - intros f' o' n l Hl. unfold lookup_link in *.
    destruct (fid_dec f f') as [<-|Nf].
    + destruct (Nat.eq_dec o o') as [<-|No].
      * erewrite set_obj_at by eauto. now rewrite E in Hl.
      * unfold obj_at, set_obj in *. destruct (get_store w f) eqn:Es; try discriminate.
        rewrite get_set_same. now rewrite nth_error_upd_other by auto.
    + unfold obj_at, set_obj in *. destruct (get_store w f) eqn:Es; try discriminate.
      now rewrite get_set_other by auto.
  - intros f' o' d Hd.
    destruct (fid_dec f f') as [<-|Nf].
    + destruct (Nat.eq_dec o o') as [<-|No]; [congruence|].
      unfold obj_at, set_obj in *. destruct (get_store w f) eqn:Es; try discriminate.
      rewrite get_set_same. now rewrite nth_error_upd_other by auto.
    + unfold obj_at, set_obj in *. destruct (get_store w f) eqn:Es; try discriminate.
      now rewrite get_set_other by auto.
Qed.

Lemma keeps_child : forall w w' f g n o, keeps w w' -> child w f g n = Some o -> child w' f g n = Some o.
Proof.
  intros w w' f g n o [H _] Hc. unfold child in *.
  destruct (lookup_link w f g n) as [[o'| |]|] eqn:E; try discriminate.
  now rewrite (H _ _ _ _ E).
Qed.

Lemma keeps_ds : forall w w' f g n d, keeps w w' -> ds_at w f g n = Some d -> ds_at w' f g n = Some d.
Proof.
  intros w w' f g n d K Hd. unfold ds_at in *.
  destruct (child w f g n) as [o|] eqn:Ec; try discriminate.
  rewrite (keeps_child _ _ _ _ _ _ K Ec).
  destruct (obj_at w f o) as [[|x]|] eqn:Eo; try discriminate.
  destruct K as [_ K2]. now rewrite (K2 _ _ _ Eo).
Qed.

(* ------------------------------------------------------------------ writing tables *)
Lemma bind_child : forall w f g n o w', bind w f g n (Hard o) = Some w' -> child w' f g n = Some o.
Proof. intros. unfold child. now rewrite (bind_lookup _ _ _ _ _ _ H). Qed.

Lemma write_cols_spec : forall cols w f t w', write_cols w f t cols = Some w' ->
  keeps w w' /\
  (forall c d, In (c, Fresh d) cols -> ds_at w' f t c = Some d) /\
  (forall c o, In (c, Share o) cols -> child w' f t c = Some o).
Proof.
  induction cols as [|[c src] r IH]; simpl; intros w f t w' H.
  - inversion H; subst. split; [apply keeps_refl|]. split; intros; tauto.
  - destruct src as [d|o].
    + destruct (alloc w f (Dataset d)) as [w1 o] eqn:Ea.
      destruct (bind w1 f t c (Hard o)) as [w2|] eqn:Eb; try discriminate.
      destruct (IH _ _ _ _ H) as (K & HF & HS).
      assert (keeps w w2) as K0.
      { apply world_le_keeps. eapply world_le_trans; [eapply alloc_le; eauto|eapply bind_le; eauto]. }
      split; [eapply keeps_trans; eauto|]. split.
      * intros c' d' [E|Hin]; [|eauto]. inversion E; subst c' d'.
        eapply keeps_ds; eauto. unfold ds_at. rewrite (bind_child _ _ _ _ _ _ Eb).
        (* the allocated object is the dataset *)
        assert (obj_at w1 f o = Some (Dataset d)) as Eo.
        { destruct (get_store w f) as [st|] eqn:Es.
          - eapply alloc_obj; eauto.
          - unfold alloc in Ea. rewrite Es in Ea. inversion Ea; subst.
            unfold bind, obj_at in Eb. rewrite Es in Eb. discriminate. }
        destruct (world_le_obj _ _ _ _ _ (bind_le _ _ _ _ _ _ Eb) Eo) as (y & Ey & Ly).
        destruct y; simpl in Ly; try tauto. now rewrite Ey, Ly.
      * intros c' o' [E|Hin]; [discriminate|eauto].
    + destruct (bind w f t c (Hard o)) as [w2|] eqn:Eb; try discriminate.
      destruct (IH _ _ _ _ H) as (K & HF & HS).
      assert (keeps w w2) as K0 by (apply world_le_keeps; eapply bind_le; eauto).
      split; [eapply keeps_trans; eauto|]. split.
      * intros c' d' [E|Hin]; [discriminate|eauto].
      * intros c' o' [E|Hin]; [|eauto]. inversion E; subst c' o'.
        eapply keeps_child; eauto. eapply bind_child; eauto.
Qed.

(** a written table: its group, its fresh columns with the given payloads, its shared columns the given objects *)
Definition table_ok (w : world) (f : fid) (g : nat) (n : string) (src : tblsrc) : Prop :=
  match src with
  | Table cols => exists t, child w f g n = Some t /\
                    (forall c d, In (c, Fresh d) cols -> ds_at w f t c = Some d) /\
                    (forall c o, In (c, Share o) cols -> child w f t c = Some o)
  | ShareGroup o => child w f g n = Some o
  end.

Lemma table_ok_keeps : forall w w' f g n src, keeps w w' -> table_ok w f g n src -> table_ok w' f g n src.
Proof.
  intros w w' f g n src K H. destruct src as [cols|o]; simpl in *.
  - destruct H as (t & Ht & HF & HS). exists t. split; [eapply keeps_child; eauto|].
    split; intros; [eapply keeps_ds; eauto|eapply keeps_child; eauto].
  - eapply keeps_child; eauto.
Qed.

Lemma write_tables_spec : forall ts w f g w', write_tables w f g ts = Some w' ->
  keeps w w' /\ forall n src, In (n, src) ts -> table_ok w' f g n src.
Proof.
  induction ts as [|[n src] r IH]; simpl; intros w f g w' H.
  - inversion H; subst. split; [apply keeps_refl|tauto].
  - destruct src as [cols|o].
    + destruct (alloc w f (Group [] [])) as [w1 t] eqn:Ea.
      destruct (bind w1 f g n (Hard t)) as [w2|] eqn:Eb; try discriminate.
      destruct (write_cols w2 f t cols) as [w3|] eqn:Ec; try discriminate.
      destruct (IH _ _ _ _ H) as (K & HT).
      destruct (write_cols_spec _ _ _ _ _ Ec) as (Kc & HF & HS).
      assert (keeps w w2) as K0.
      { apply world_le_keeps. eapply world_le_trans; [eapply alloc_le; eauto|eapply bind_le; eauto]. }
      split; [eapply keeps_trans; [eauto|eapply keeps_trans; eauto]|].
      intros n' src' [E|Hin]; [|eauto]. inversion E; subst n' src'.
      eapply table_ok_keeps; eauto. simpl. exists t. split; auto.
      eapply keeps_child; eauto. eapply bind_child; eauto.
    + destruct (bind w f g n (Hard o)) as [w2|] eqn:Eb; try discriminate.
      destruct (IH _ _ _ _ H) as (K & HT).
      split; [eapply keeps_trans; [apply world_le_keeps; eapply bind_le; eauto|eauto]|].
      intros n' src' [E|Hin]; [|eauto]. inversion E; subst n' src'.
      eapply table_ok_keeps; eauto. simpl. eapply bind_child; eauto.
Qed.

(* ------------------------------------------------------------------ creating one cell at /cells/<name> *)
Lemma create_group_ok : forall w f p w' f1 g, create_group w f p = (Ok, w', (f1, g)) ->
  world_le w w' /\
  exists par n w1 fl gpar, split_last p = Some (par, n) /\ ensure w f 0 par = Some (w1, fl, f1, gpar) /\
    world_le w1 w' /\ child w' f1 gpar n = Some g.
Proof.
  unfold create_group; intros w f p w' f1 g H.
  destruct (split_last p) as [[par n]|]; try discriminate.
  destruct (ensure w f 0 par) as [[[[w1 fl] f1'] gpar]|] eqn:E; try discriminate.
  destruct (lookup_link w1 f1' gpar n) eqn:El.
  { exfalso. injection H as He Hw Hf Hg. eapply exists_err_not_ok; eauto. discriminate. }
  destruct (alloc w1 f1' (Group [] [])) as [w2 o] eqn:Ea.
  destruct (bind w2 f1' gpar n (Hard o)) as [w3|] eqn:Eb; try discriminate.
  injection H as Hw Hf Hg. subst w3 f1' o.
  assert (world_le w1 w') as L1.
  { eapply world_le_trans; [eapply alloc_le; eauto|eapply bind_le; eauto]. }
  split.
  - eapply world_le_trans; [eapply ensure_le; eauto|auto].
  - exists par, n, w1, fl, gpar. repeat split; auto. eapply bind_child; eauto.
Qed.

(** the parent /cells: absent (it is created) or an existing group reached by a hard link *)
Lemma ensure_cells : forall w f a0 ls0 w1 fl f1 gc,
  obj_at w f 0 = Some (Group a0 ls0) ->
  (assoc "cells"%string ls0 = None \/ exists g0, assoc "cells"%string ls0 = Some (Hard g0)) ->
  ensure w f 0 ["cells"%string] = Some (w1, fl, f1, gc) ->
  f1 = f /\ child w1 f 0 "cells"%string = Some gc /\
  (forall g0, assoc "cells"%string ls0 = Some (Hard g0) -> gc = g0 /\ w1 = w).
Proof.
  intros w f a0 ls0 w1 fl f1 gc E0 Hc H. unfold ensure in H. simpl in H. rewrite E0 in H.
  destruct Hc as [Hn|[g0 Hs]].
  - rewrite Hn in H. destruct (alloc w f (Group [] [])) as [wa ga] eqn:Ea.
    injection H as Hw Hfl Hf Hg. subst. split; auto. split; [|intros; congruence].
    destruct (world_le_obj _ _ _ _ _ (alloc_le _ _ _ _ _ Ea) E0) as (y & Ey & _).
    unfold child, lookup_link. erewrite set_obj_at by eauto. now rewrite assoc_ins_same.
  - rewrite Hs in H. simpl in H. injection H as Hw Hfl Hf Hg. subst. split; auto. split.
    + unfold child, lookup_link. now rewrite E0, Hs.
    + intros g1 Hg1. rewrite Hs in Hg1. injection Hg1 as ->. auto.
Qed.

Lemma walk_cons : forall k w x f o n rest,
  walk (S k) w x f o (n :: rest) =
  match obj_at w f o with
  | Some (Group _ ls) =>
      match assoc n ls with
      | None => Missing (negb x && negb (is_nil rest))
      | Some (Hard o') => walk k w x f o' rest
      | Some (Soft q) => walk k w x f O (q ++ rest)
      | Some (Ext f' q) => if file_exists w f' then walk k w true f' O (q ++ rest) else Missing false
      end
  | _ => Missing (negb x)
  end.
Proof. reflexivity. Qed.
Lemma walk_nil : forall k w x f o, walk (S k) w x f o [] = Found f o.
Proof. reflexivity. Qed.

Local Transparent FUEL.
Lemma FUEL_SS : FUEL = S (S 62).
Proof. reflexivity. Qed.
Local Opaque FUEL.
Lemma resolve_cells_hard : forall w f a0 ls0 g0,
  obj_at w f 0 = Some (Group a0 ls0) -> assoc "cells"%string ls0 = Some (Hard g0) ->
  resolve w f ["cells"%string] = Found f g0.
Proof.
  intros w f a0 ls0 g0 E0 Hs. unfold resolve. rewrite FUEL_SS, walk_cons, E0, Hs. apply walk_nil.
Qed.
Lemma resolve_cells_none : forall w f a0 ls0,
  obj_at w f 0 = Some (Group a0 ls0) -> assoc "cells"%string ls0 = None ->
  resolve w f ["cells"%string] = Missing false.
Proof.
  intros w f a0 ls0 E0 Hs. unfold resolve. rewrite FUEL_SS, walk_cons, E0, Hs. reflexivity.
Qed.

(** the state of /cells before a cell named [name] is appended: no /cells yet, or a group without that name *)
Definition cell_fresh (w : world) (f : fid) (ls0 : list (string * link)) (name : string) : Prop :=
  assoc "cells"%string ls0 = None \/
  exists g0 ac lsc, assoc "cells"%string ls0 = Some (Hard g0) /\ obj_at w f g0 = Some (Group ac lsc) /\ assoc name lsc = None.

Lemma create_cell_spec : forall w f a0 ls0 name sp w',
  file_exists w f = true -> obj_at w f 0 = Some (Group a0 ls0) -> cell_fresh w f ls0 name ->
  create w f ["cells"%string; name] false sp = (Ok, w') ->
  keeps w w' /\
  exists gc g, child w' f 0 "cells"%string = Some gc /\ child w' f gc name = Some g /\
               (forall g0, assoc "cells"%string ls0 = Some (Hard g0) -> gc = g0) /\
               forall n src, In (n, src) (cs_tables sp) -> table_ok w' f g n src.
Proof.
  intros w f a0 ls0 name sp w' Hex E0 Hfresh H. unfold create in H.
  rewrite Hex in H. simpl orb in H. cbv iota in H.
  destruct (create_group w f ["cells"%string; name]) as [[e w1] [f1 g]] eqn:Ecg.
  destruct e.
  - (* the group was created at the first attempt *)
    destruct (create_group_ok _ _ _ _ _ _ Ecg) as (L & par & n & we & fl & gpar & Hs & He & L1 & Hch).
    simpl in Hs. injection Hs as <- <-.
    assert (assoc "cells"%string ls0 = None \/ exists g0, assoc "cells"%string ls0 = Some (Hard g0)) as Hc.
    { destruct Hfresh as [?|(g0 & ? & ? & ? & _)]; eauto. }
    destruct (ensure_cells _ _ _ _ _ _ _ _ E0 Hc He) as (-> & Hcells & Hsame).
    destruct (write_tables w1 f g (cs_tables sp)) as [w2|] eqn:Ew; [|discriminate].
    injection H as <-.
    destruct (write_tables_spec _ _ _ _ _ Ew) as (K2 & HT).
    assert (keeps w1 (set_attrs w2 f g (cs_attrs sp))) as K3.
    { eapply keeps_trans; eauto. apply set_attrs_keeps. }
    split; [eapply keeps_trans; [apply world_le_keeps; eauto|eauto]|].
    exists gpar, g. split; [|split; [|split]].
    + eapply keeps_child; [|exact Hcells]. eapply keeps_trans; [apply world_le_keeps; eauto|eauto].
    + eapply keeps_child; eauto.
    + intros g0 Hg0. destruct (Hsame g0 Hg0); auto.
    + intros n src Hin. eapply table_ok_keeps; [apply set_attrs_keeps|eauto].
  - discriminate.
  - discriminate.
  - discriminate.
  - (* ValueError path: del f[path] must have succeeded, impossible on a fresh name *)
    exfalso. unfold del_link in H. simpl split_last in H. cbv beta iota in H.
    destruct Hfresh as [Hn|(g0 & ac & lsc & Hs & Eg & Hnone)].
    + rewrite (resolve_cells_none _ _ _ _ E0 Hn) in H. discriminate.
    + rewrite (resolve_cells_hard _ _ _ _ _ E0 Hs) in H. rewrite Eg, Hnone in H. discriminate.
  - discriminate.
  - discriminate.
Qed.

(* ------------------------------------------------------------------ which links a creation can add *)
Lemma set_obj_lookup_other : forall w f x y o m, y <> x ->
  lookup_link (set_obj w f x o) f y m = lookup_link w f y m.
Proof.
  intros. unfold lookup_link, obj_at, set_obj. destruct (get_store w f) eqn:Es; [|now rewrite Es].
  rewrite get_set_same. now rewrite nth_error_upd_other by auto.
Qed.

Lemma bind_lookup_frame : forall w f x n l w' y m, bind w f x n l = Some w' -> (y <> x \/ m <> n) ->
  lookup_link w' f y m = lookup_link w f y m.
Proof.
  unfold bind; intros w f x n l w' y m H Hne.
  destruct (obj_at w f x) as [[a ls|]|] eqn:Ex; try discriminate.
  destruct (assoc n ls) eqn:En; try discriminate. injection H as <-.
  destruct (Nat.eq_dec y x) as [->|N].
  - destruct Hne as [?|Hm]; [congruence|]. unfold lookup_link. erewrite set_obj_at by eauto.
    rewrite Ex. apply assoc_ins_other. congruence.
  - now apply set_obj_lookup_other.
Qed.

Lemma alloc_lookup_frame : forall w f o w1 t y m x, alloc w f o = (w1, t) -> obj_at w f y = Some x ->
  lookup_link w1 f y m = lookup_link w f y m /\ y <> t /\ obj_at w1 f y = Some x.
Proof.
  unfold alloc; intros w f o w1 t y m x H Ey. unfold lookup_link, obj_at in *.
  destruct (get_store w f) as [st|] eqn:Es; try discriminate. injection H as <- <-.
  rewrite get_set_same.
  assert (y < List.length st)%nat by (apply nth_error_Some; congruence).
  rewrite nth_error_app1 by auto. rewrite Ey. repeat split; auto. lia.
Qed.

Lemma bind_obj_other : forall w f x n l w' y o, bind w f x n l = Some w' -> y <> x ->
  obj_at w f y = Some o -> obj_at w' f y = Some o.
Proof.
  unfold bind; intros w f x n l w' y o H N Ey.
  destruct (obj_at w f x) as [[a ls|]|] eqn:Ex; try discriminate.
  destruct (assoc n ls); try discriminate. injection H as <-.
  unfold obj_at, set_obj in *. destruct (get_store w f) eqn:Es; try discriminate.
  rewrite get_set_same. now rewrite nth_error_upd_other by auto.
Qed.

Lemma write_cols_frame : forall cols w f t w' y m x, write_cols w f t cols = Some w' ->
  y <> t -> obj_at w f y = Some x ->
  lookup_link w' f y m = lookup_link w f y m /\ obj_at w' f y = Some x.
Proof.
  induction cols as [|[c src] r IH]; simpl; intros w f t w' y m x H N Ey.
  - injection H as <-. auto.
  - destruct src as [d|o].
    + destruct (alloc w f (Dataset d)) as [w1 o] eqn:Ea.
      destruct (bind w1 f t c (Hard o)) as [w2|] eqn:Eb; try discriminate.
      destruct (alloc_lookup_frame _ _ _ _ _ _ m _ Ea Ey) as (A1 & A2 & A3).
      pose proof (bind_obj_other _ _ _ _ _ _ _ _ Eb N A3) as B3.
      destruct (IH _ _ _ _ _ m _ H N B3) as (C1 & C3). split; auto.
      rewrite C1. rewrite (bind_lookup_frame _ _ _ _ _ _ y m Eb) by auto. auto.
    + destruct (bind w f t c (Hard o)) as [w2|] eqn:Eb; try discriminate.
      pose proof (bind_obj_other _ _ _ _ _ _ _ _ Eb N Ey) as B3.
      destruct (IH _ _ _ _ _ m _ H N B3) as (C1 & C3). split; auto.
      rewrite C1. now rewrite (bind_lookup_frame _ _ _ _ _ _ y m Eb) by auto.
Qed.

Lemma write_tables_frame : forall ts w f g w' y m x, write_tables w f g ts = Some w' ->
  y <> g -> obj_at w f y = Some x ->
  lookup_link w' f y m = lookup_link w f y m /\ obj_at w' f y = Some x.
Proof.
  induction ts as [|[n src] r IH]; simpl; intros w f g w' y m x H N Ey.
  - injection H as <-. auto.
  - destruct src as [cols|o].
    + destruct (alloc w f (Group [] [])) as [w1 t] eqn:Ea.
      destruct (bind w1 f g n (Hard t)) as [w2|] eqn:Eb; try discriminate.
      destruct (write_cols w2 f t cols) as [w3|] eqn:Ec; try discriminate.
      destruct (alloc_lookup_frame _ _ _ _ _ _ m _ Ea Ey) as (A1 & A2 & A3).
      pose proof (bind_obj_other _ _ _ _ _ _ _ _ Eb N A3) as B3.
      destruct (write_cols_frame _ _ _ _ _ _ m _ Ec A2 B3) as (C1 & C3).
      destruct (IH _ _ _ _ _ m _ H N C3) as (D1 & D3). split; auto.
      rewrite D1, C1. rewrite (bind_lookup_frame _ _ _ _ _ _ y m Eb) by auto. auto.
    + destruct (bind w f g n (Hard o)) as [w2|] eqn:Eb; try discriminate.
      pose proof (bind_obj_other _ _ _ _ _ _ _ _ Eb N Ey) as B3.
      destruct (IH _ _ _ _ _ m _ H N B3) as (D1 & D3). split; auto.
      rewrite D1. now rewrite (bind_lookup_frame _ _ _ _ _ _ y m Eb) by auto.
Qed.

Lemma set_attrs_lookup : forall w f o b f' y m, lookup_link (set_attrs w f o b) f' y m = lookup_link w f' y m.
Proof.
  intros. unfold set_attrs. destruct (obj_at w f o) as [[a ls|d]|] eqn:E; auto.
  unfold lookup_link. destruct (fid_dec f f') as [<-|Nf].
  - destruct (Nat.eq_dec o y) as [<-|No].
    + erewrite set_obj_at by eauto. now rewrite E.
    + unfold obj_at, set_obj. destruct (get_store w f) eqn:Es; [|now rewrite Es].
      rewrite get_set_same. now rewrite nth_error_upd_other by auto.
  - unfold obj_at, set_obj. destruct (get_store w f) eqn:Es; auto. now rewrite get_set_other by auto.
Qed.

Lemma create_group_frame : forall w f p w' f1 g par n w1 fl f1' gpar xg,
  create_group w f p = (Ok, w', (f1, g)) -> split_last p = Some (par, n) ->
  ensure w f 0 par = Some (w1, fl, f1', gpar) -> obj_at w1 f1' gpar = Some xg ->
  f1 = f1' /\ g <> gpar /\ forall m, m <> n -> lookup_link w' f1' gpar m = lookup_link w1 f1' gpar m.
Proof.
  unfold create_group; intros w f p w' f1 g par n w1 fl f1' gpar xg H Hs He Eg.
  rewrite Hs, He in H.
  destruct (lookup_link w1 f1' gpar n) eqn:El.
  { exfalso. injection H as Herr _ _ _. eapply exists_err_not_ok; eauto. discriminate. }
  destruct (alloc w1 f1' (Group [] [])) as [w2 o] eqn:Ea.
  destruct (bind w2 f1' gpar n (Hard o)) as [w3|] eqn:Eb; try discriminate.
  injection H as Hw Hf Hg. subst w3 f1' o.
  split; auto.
  destruct (alloc_lookup_frame _ _ _ _ _ _ n _ Ea Eg) as (_ & A2 & _).
  split; [auto|]. intros m Hm.
  destruct (alloc_lookup_frame _ _ _ _ _ _ m _ Ea Eg) as (A1 & _ & _).
  rewrite (bind_lookup_frame _ _ _ _ _ _ gpar m Eb) by auto. exact A1.
Qed.

Lemma lookup_obj : forall w f t n l, lookup_link w f t n = Some l -> exists x, obj_at w f t = Some x.
Proof. unfold lookup_link; intros. destruct (obj_at w f t); eauto. discriminate. Qed.

(** the members of /cells after appending one cell: the new name, or a member it had before *)
Lemma create_cell_keys : forall w f a0 ls0 name sp w' gc,
  file_exists w f = true -> obj_at w f 0 = Some (Group a0 ls0) -> cell_fresh w f ls0 name ->
  create w f ["cells"%string; name] false sp = (Ok, w') ->
  child w' f 0 "cells"%string = Some gc ->
  forall m l, lookup_link w' f gc m = Some l ->
    m = name \/ exists g0, assoc "cells"%string ls0 = Some (Hard g0) /\ lookup_link w f g0 m = Some l.
Proof.
  intros w f a0 ls0 name sp w' gc Hex E0 Hfresh H Hgc m l Hl.
  destruct (S.string_dec m name) as [->|Nm]; [left; auto|right].
  pose proof H as H0. unfold create in H. rewrite Hex in H. simpl orb in H. cbv iota in H.
  destruct (create_group w f ["cells"%string; name]) as [[e w1] [f1 g]] eqn:Ecg.
  destruct e; try discriminate.
  2:{ exfalso. unfold del_link in H. simpl split_last in H. cbv beta iota in H.
      destruct Hfresh as [Hn|(g0 & ac & lsc & Hs & Eg & Hnone)].
      - rewrite (resolve_cells_none _ _ _ _ E0 Hn) in H. discriminate.
      - rewrite (resolve_cells_hard _ _ _ _ _ E0 Hs) in H. rewrite Eg, Hnone in H. discriminate. }
  destruct (create_group_ok _ _ _ _ _ _ Ecg) as (L & par & n & we & fl & gpar & Hs & He & L1 & Hch).
  simpl in Hs. injection Hs as <- <-.
  assert (assoc "cells"%string ls0 = None \/ exists g0, assoc "cells"%string ls0 = Some (Hard g0)) as Hc.
  { destruct Hfresh as [?|(g0 & ? & ? & ? & _)]; eauto. }
  destruct (ensure_cells _ _ _ _ _ _ _ _ E0 Hc He) as (-> & Hcells & Hsame).
  destruct (write_tables w1 f g (cs_tables sp)) as [w2|] eqn:Ew; [|discriminate].
  injection H as <-.
  (* gc is the parent group gpar *)
  assert (gc = gpar) as ->.
  { destruct (create_cell_spec _ _ _ _ _ _ _ Hex E0 Hfresh H0) as (K & gc' & g' & Hc' & _).
    assert (child (set_attrs w2 f g (cs_attrs sp)) f 0 "cells"%string = Some gpar) as Hp.
    { eapply keeps_child; [|exact Hcells].
      eapply keeps_trans; [apply world_le_keeps; eauto|].
      eapply keeps_trans; [eapply write_tables_spec; eauto|apply set_attrs_keeps]. }
    congruence. }
  rewrite set_attrs_lookup in Hl.
  (* the parent existed when the cell group was allocated *)
  assert (exists xg, obj_at we f gpar = Some xg) as [xg Exg].
  { unfold child in Hcells. destruct (lookup_link we f 0 "cells"%string) as [[o| |]|] eqn:E; try discriminate.
    injection Hcells as ->.
    destruct Hfresh as [Hn|(g0 & ac & lsc & Hs & Eg & Hnone)].
    - (* /cells was just created by ensure: it is the freshly allocated group *)
      unfold ensure in He. simpl in He. rewrite E0, Hn in He.
      destruct (alloc w f (Group [] [])) as [wa ga] eqn:Ea. injection He as <- _ <-.
      unfold obj_at in E0. destruct (get_store w f) as [st|] eqn:Es; try discriminate.
      destruct (alloc_obj _ _ _ _ _ _ Es Ea) as (-> & Hst & Ho).
      exists (Group [] []). unfold obj_at, set_obj in *. rewrite Hst. rewrite get_set_same.
      assert (0 < List.length st)%nat by (apply nth_error_Some; congruence).
      rewrite nth_error_upd_other by lia.
      rewrite nth_error_app2 by lia. now rewrite Nat.sub_diag.
    - destruct (Hsame g0 Hs) as [-> ->]. eauto. }
  destruct (create_group_frame _ _ _ _ _ _ _ _ _ _ _ _ _ Ecg eq_refl He Exg) as (_ & Ng & Hfr).
  assert (exists xg1, obj_at w1 f gpar = Some xg1) as [xg1 Exg1].
  { unfold child in Hch.
    destruct (lookup_link w1 f gpar name) as [l0|] eqn:El0; try discriminate.
    eapply lookup_obj; eauto. }
  destruct (write_tables_frame _ _ _ _ _ gpar m _ Ew (not_eq_sym Ng) Exg1) as (F1 & _).
  rewrite F1, (Hfr m Nm) in Hl.
  destruct Hfresh as [Hn|(g0 & ac & lsc & Hs & Eg & Hnone)].
  - (* fresh /cells group: it has no member at all *)
    exfalso. unfold ensure in He. simpl in He. rewrite E0, Hn in He.
    destruct (alloc w f (Group [] [])) as [wa ga] eqn:Ea. injection He as <- _ <-.
    unfold obj_at in E0. destruct (get_store w f) as [st|] eqn:Es; try discriminate.
    destruct (alloc_obj _ _ _ _ _ _ Es Ea) as (-> & Hst & Ho).
    unfold lookup_link, obj_at, set_obj in Hl. rewrite Hst in Hl. rewrite get_set_same in Hl.
    assert (0 < List.length st)%nat by (apply nth_error_Some; congruence).
    rewrite nth_error_upd_other in Hl by lia.
    rewrite nth_error_app2 in Hl by lia. rewrite Nat.sub_diag in Hl. simpl in Hl. discriminate.
  - destruct (Hsame g0 Hs) as [-> ->]. eauto.
Qed.

(* ------------------------------------------------------------------ all cells, by induction over the list *)
(** what "cell c reads back as given" means on the store: /cells/<name> is a group whose chroms table
    is the root's chroms GROUP rc, whose bins table has the root's three datasets o1 o2 o3 as chrom/start/end
    plus the cell's own extra columns, and whose pixels and indexes hold exactly the given columns *)
Definition cell_ok (w : world) (f : fid) (rc o1 o2 o3 : nat) (c : cell) : Prop :=
  exists gc g, child w f 0 "cells"%string = Some gc /\ child w f gc (c_name c) = Some g /\
    child w f g "chroms"%string = Some rc /\
    (exists tb, child w f g "bins"%string = Some tb /\
                child w f tb "chrom"%string = Some o1 /\ child w f tb "start"%string = Some o2 /\
                child w f tb "end"%string = Some o3 /\
                forall k d, In (k, d) (c_extra_bins c) -> ds_at w f tb k = Some d) /\
    (exists tp, child w f g "pixels"%string = Some tp /\ forall k d, In (k, d) (c_pixels c) -> ds_at w f tp k = Some d) /\
    (exists ti, child w f g "indexes"%string = Some ti /\ forall k d, In (k, d) (c_indexes c) -> ds_at w f ti k = Some d).

Lemma cell_ok_keeps : forall w w' f rc o1 o2 o3 c, keeps w w' -> cell_ok w f rc o1 o2 o3 c -> cell_ok w' f rc o1 o2 o3 c.
Proof.
  intros w w' f rc o1 o2 o3 c K (gc & g & H1 & H2 & H3 & (tb & B1 & B2 & B3 & B4 & B5) & (tp & P1 & P2) & (ti & I1 & I2)).
  exists gc, g. repeat split; eauto using keeps_child.
  - exists tb. repeat split; eauto using keeps_child, keeps_ds.
  - exists tp. split; eauto using keeps_child, keeps_ds.
  - exists ti. split; eauto using keeps_child, keeps_ds.
Qed.

Record root_ok (w : world) (f : fid) (rc rb o1 o2 o3 : nat) : Prop := {
  r_exists : file_exists w f = true;
  r_chroms : child w f 0 "chroms"%string = Some rc;
  r_bins : child w f 0 "bins"%string = Some rb;
  r_c : child w f rb "chrom"%string = Some o1;
  r_s : child w f rb "start"%string = Some o2;
  r_e : child w f rb "end"%string = Some o3
}.

Definition cells_state (w : world) (f : fid) (done : list string) : Prop :=
  exists a0 ls0, obj_at w f 0 = Some (Group a0 ls0) /\
    ((done = [] /\ assoc "cells"%string ls0 = None) \/
     (exists gc ac lsc, assoc "cells"%string ls0 = Some (Hard gc) /\ obj_at w f gc = Some (Group ac lsc) /\
                        forall m l, assoc m lsc = Some l -> In m done)).

Lemma keeps_exists : forall w w' f, keeps w w' -> file_exists w f = true ->
  (exists o n l, lookup_link w f o n = Some l) -> file_exists w' f = true.
Proof.
  intros w w' f [K _] _ (o & n & l & Hl). specialize (K _ _ _ _ Hl).
  unfold lookup_link, obj_at, file_exists in *. destruct (get_store w' f); auto. discriminate.
Qed.

Lemma root_ok_keeps : forall w w' f rc rb o1 o2 o3, keeps w w' -> root_ok w f rc rb o1 o2 o3 -> root_ok w' f rc rb o1 o2 o3.
Proof.
  intros w w' f rc rb o1 o2 o3 K [H0 H1 H2 H3 H4 H5].
  constructor; eauto using keeps_child.
  eapply keeps_exists; eauto. unfold child in H1.
  destruct (lookup_link w f 0 "chroms"%string) eqn:E; try discriminate. eauto.
Qed.

Lemma cell_spec_root : forall w f rc rb o1 o2 o3 c, root_ok w f rc rb o1 o2 o3 ->
  cell_spec w f c = Some (mkSpec
     [("chroms"%string, ShareGroup rc);
      ("bins"%string, Table ([("chrom"%string, Share o1); ("start"%string, Share o2); ("end"%string, Share o3)]
                             ++ map (fun kv => (fst kv, Fresh (snd kv))) (c_extra_bins c)));
      ("pixels"%string, Table (map (fun kv => (fst kv, Fresh (snd kv))) (c_pixels c)));
      ("indexes"%string, Table (map (fun kv => (fst kv, Fresh (snd kv))) (c_indexes c)))]
     (c_attrs c)).
Proof. intros w f rc rb o1 o2 o3 c [H0 H1 H2 H3 H4 H5]. unfold cell_spec. now rewrite H1, H2, H3, H4, H5. Qed.

Lemma in_fresh : forall (l : list (string * payload)) k d, In (k, d) l ->
  In (k, Fresh d) (map (fun kv => (fst kv, Fresh (snd kv))) l).
Proof. intros l k d H. apply in_map_iff. exists (k, d). auto. Qed.

Theorem append_cells_spec : forall cells w f rc rb o1 o2 o3 done w',
  root_ok w f rc rb o1 o2 o3 -> cells_state w f done ->
  NoDup (done ++ map c_name cells) ->
  append_cells w f cells = (Ok, w') ->
  keeps w w' /\ (forall c, In c cells -> cell_ok w' f rc o1 o2 o3 c) /\
  cells_state w' f (done ++ map c_name cells).
Proof.
  induction cells as [|c r IH]; intros w f rc rb o1 o2 o3 done w' HR HS Hnd H.
  - simpl in H. injection H as <-. rewrite app_nil_r. split; [apply keeps_refl|]. split; [intros ? []|auto].
  - unfold append_cells in H. simpl in H. fold append_cells in H.
    rewrite (cell_spec_root _ _ _ _ _ _ _ c HR) in H.
    set (sp := mkSpec _ _) in H.
    destruct (create w f (cell_path c) false sp) as [e w1] eqn:Ec.
    destruct e; try discriminate.
    destruct HS as (a0 & ls0 & E0 & Hst).
    assert (cell_fresh w f ls0 (c_name c)) as Hfresh.
    { destruct Hst as [[-> Hn]|(gc & ac & lsc & Hs & Eg & Hkeys)]; [left; auto|right].
      exists gc, ac, lsc. repeat split; auto.
      destruct (assoc (c_name c) lsc) eqn:En; auto. exfalso.
      apply Hkeys in En. simpl in Hnd. apply NoDup_remove_2 in Hnd. apply Hnd.
      apply in_or_app. auto. }
    unfold cell_path in Ec.
    destruct (create_cell_spec _ _ _ _ _ _ _ (r_exists _ _ _ _ _ _ _ HR) E0 Hfresh Ec)
      as (K1 & gc & g & Hcells & Hcell & Hold & HT).
    pose proof (create_cell_keys _ _ _ _ _ _ _ gc (r_exists _ _ _ _ _ _ _ HR) E0 Hfresh Ec Hcells) as Hkeys1.
    (* the state after this cell *)
    assert (cells_state w1 f (done ++ [c_name c])) as HS1.
    { unfold child, lookup_link in Hcells, Hcell.
      destruct (obj_at w1 f 0) as [[a1 ls1|]|] eqn:E1; try discriminate.
      destruct (assoc "cells"%string ls1) as [[gc'| |]|] eqn:Ea1; try discriminate. injection Hcells as ->.
      destruct (obj_at w1 f gc) as [[ac1 lsc1|]|] eqn:Eg1; try discriminate.
      exists a1, ls1. split; auto. right. exists gc, ac1, lsc1. repeat split; auto.
      intros m l Hm.
      assert (lookup_link w1 f gc m = Some l) as Hl by (unfold lookup_link; now rewrite Eg1).
      destruct (Hkeys1 m l Hl) as [->|(g0 & Hg0 & Hl0)]; [apply in_or_app; simpl; auto|].
      apply in_or_app. left.
      destruct Hst as [[_ Hn]|(gc0 & ac & lsc & Hs & Eg & Hk)]; [congruence|].
      rewrite Hs in Hg0. injection Hg0 as <-. unfold lookup_link in Hl0. rewrite Eg in Hl0. eauto. }
    assert (NoDup ((done ++ [c_name c]) ++ map c_name r)) as Hnd1.
    { rewrite <- app_assoc. exact Hnd. }
    destruct (IH w1 f rc rb o1 o2 o3 (done ++ [c_name c]) w' (root_ok_keeps _ _ _ _ _ _ _ _ K1 HR) HS1 Hnd1 H)
      as (K2 & Hcs & HS2).
    split; [eapply keeps_trans; eauto|]. split.
    + intros c' [<-|Hin]; [|auto].
      eapply cell_ok_keeps; eauto.
      exists gc, g. split; auto. split; auto.
      pose proof (HT "chroms"%string _ (or_introl eq_refl)) as T1. simpl in T1.
      pose proof (HT "bins"%string _ (or_intror (or_introl eq_refl))) as T2. simpl in T2.
      pose proof (HT "pixels"%string _ (or_intror (or_intror (or_introl eq_refl)))) as T3. simpl in T3.
      pose proof (HT "indexes"%string _ (or_intror (or_intror (or_intror (or_introl eq_refl))))) as T4. simpl in T4.
      split; auto. split; [|split].
      * destruct T2 as (tb & B & HF & HS'). exists tb.
        split; [exact B|]. split; [apply HS'; simpl; auto|]. split; [apply HS'; simpl; auto|].
        split; [apply HS'; simpl; auto|].
        intros k d Hin. apply HF. right. right. right. now apply in_fresh.
      * destruct T3 as (tp & B & HF & _). exists tp. split; auto. intros k d Hin. apply HF. now apply in_fresh.
      * destruct T4 as (ti & B & HF & _). exists ti. split; auto. intros k d Hin. apply HF. now apply in_fresh.
    + simpl. rewrite <- app_assoc in HS2. exact HS2.
Qed.

(* ------------------------------------------------------------------ sorting the cell names *)
From Coq Require Import Permutation.

Lemma insert_cell_perm : forall c l, Permutation (insert_cell c l) (c :: l).
Proof.
  induction l as [|d r IH]; simpl; auto.
  destruct (S.leb (c_name c) (c_name d)); auto.
  eapply perm_trans; [apply perm_skip; exact IH|apply perm_swap].
Qed.

Lemma sort_cells_perm : forall l, Permutation (sort_cells l) l.
Proof.
  induction l as [|c r IH]; simpl; auto.
  eapply perm_trans; [apply insert_cell_perm|]. now apply perm_skip.
Qed.

(* ------------------------------------------------------------------ the root of the single-cell file *)
Lemma write_tables_target_frame : forall ts w f g w' m x, write_tables w f g ts = Some w' ->
  obj_at w f g = Some x -> ~ In m (map fst ts) ->
  lookup_link w' f g m = lookup_link w f g m.
Proof.
  induction ts as [|[n src] r IH]; simpl; intros w f g w' m x H Eg Hn.
  - injection H as <-. auto.
  - assert (m <> n) as Nm by (intro; subst; apply Hn; left; reflexivity).
    assert (~ In m (map fst r)) as Hr by (intro; apply Hn; right; assumption).
    destruct src as [cols|o].
    + destruct (alloc w f (Group [] [])) as [w1 t] eqn:Ea.
      destruct (bind w1 f g n (Hard t)) as [w2|] eqn:Eb; try discriminate.
      destruct (write_cols w2 f t cols) as [w3|] eqn:Ec; try discriminate.
      destruct (alloc_lookup_frame _ _ _ _ _ _ m _ Ea Eg) as (A1 & A2 & A3).
      destruct (lookup_obj _ _ _ _ _ (bind_lookup _ _ _ _ _ _ Eb)) as (x2 & Ex2).
      destruct (write_cols_frame _ _ _ _ _ _ m _ Ec A2 Ex2) as (C1 & C3).
      rewrite (IH _ _ _ _ m _ H C3 Hr), C1.
      rewrite (bind_lookup_frame _ _ _ _ _ _ g m Eb) by auto. exact A1.
    + destruct (bind w f g n (Hard o)) as [w2|] eqn:Eb; try discriminate.
      destruct (lookup_obj _ _ _ _ _ (bind_lookup _ _ _ _ _ _ Eb)) as (x2 & Ex2).
      rewrite (IH _ _ _ _ m _ H Ex2 Hr).
      now rewrite (bind_lookup_frame _ _ _ _ _ _ g m Eb) by auto.
Qed.

Lemma ds_child : forall w f t n d, ds_at w f t n = Some d -> exists o, child w f t n = Some o.
Proof. unfold ds_at; intros. destruct (child w f t n); eauto. discriminate. Qed.

Lemma del_nothing_on_empty : forall w f names,
  get_store w f = Some empty_store -> del_if_present w f names = w.
Proof.
  intros w f names Es. unfold del_if_present.
  induction names as [|n r IH]; simpl; auto.
  assert (contains_b w f [n] = false) as ->; auto.
  unfold contains_b, contains. simpl. unfold lookup_link, obj_at. rewrite Es. reflexivity.
Qed.

(** C17 central theorem (mode "w", the default of create_scool): every cell reads back as given, the bin
    columns chrom/start/end and the chroms table of every cell are the root's own objects, and /cells has
    no member besides the given names *)
Theorem create_scool_spec : forall w f rchroms rbins rattrs cells w' dc ds de,
  create_scool w f true rchroms rbins rattrs cells = (Ok, w') ->
  NoDup (map c_name cells) ->
  In ("chrom"%string, dc) rbins -> In ("start"%string, ds) rbins -> In ("end"%string, de) rbins ->
  exists rc rb o1 o2 o3,
    root_ok w' f rc rb o1 o2 o3 /\
    (forall k d, In (k, d) rchroms -> ds_at w' f rc k = Some d) /\
    (forall k d, In (k, d) rbins -> ds_at w' f rb k = Some d) /\
    (forall c, In c cells -> cell_ok w' f rc o1 o2 o3 c) /\
    cells_state w' f (map c_name (sort_cells cells)).
Proof.
  intros w f rchroms rbins rattrs cells w' dc ds de H Hnd Hc Hs He.
  unfold create_scool in H. simpl orb in H. cbv iota in H.
  set (w0 := set_store w f (Some empty_store)) in *.
  assert (get_store w0 f = Some empty_store) as Es0 by (unfold w0; apply get_set_same).
  rewrite (del_nothing_on_empty _ _ _ Es0) in H.
  set (ts := [("chroms"%string, Table _); ("bins"%string, Table _)]) in H.
  destruct (write_tables w0 f 0 ts) as [w2|] eqn:Ew; [|discriminate].
  destruct (write_tables_spec _ _ _ _ _ Ew) as (K2 & HT).
  pose proof (HT "chroms"%string _ (or_introl eq_refl)) as T1. simpl in T1.
  pose proof (HT "bins"%string _ (or_intror (or_introl eq_refl))) as T2. simpl in T2.
  destruct T1 as (rc & Hrc & HFc & _). destruct T2 as (rb & Hrb & HFb & _).
  destruct (ds_child _ _ _ _ _ (HFb _ _ (in_fresh _ _ _ Hc))) as (o1 & Ho1).
  destruct (ds_child _ _ _ _ _ (HFb _ _ (in_fresh _ _ _ Hs))) as (o2 & Ho2).
  destruct (ds_child _ _ _ _ _ (HFb _ _ (in_fresh _ _ _ He))) as (o3 & Ho3).
  set (w3 := set_attrs w2 f 0 rattrs) in *.
  assert (keeps w2 w3) as K3 by apply set_attrs_keeps.
  assert (obj_at w0 f 0 = Some (Group [] [])) as E00 by (unfold obj_at; now rewrite Es0).
  assert (file_exists w3 f = true) as Hex3.
  { unfold child in Hrc. destruct (lookup_link w2 f 0 "chroms"%string) eqn:E; try discriminate.
    destruct K3 as [K3 _]. specialize (K3 _ _ _ _ E).
    unfold lookup_link, obj_at, file_exists in *. destruct (get_store w3 f); auto. discriminate. }
  assert (root_ok w3 f rc rb o1 o2 o3) as HR.
  { constructor; eauto using keeps_child. }
  assert (cells_state w3 f []) as HS.
  { assert (lookup_link w3 f 0 "cells"%string = None) as Hn.
    { unfold w3. rewrite set_attrs_lookup.
      rewrite (write_tables_target_frame _ _ _ _ _ "cells"%string _ Ew E00).
      - unfold lookup_link. now rewrite E00.
      - simpl. intros [E|[E|[]]]; discriminate. }
    pose proof (r_chroms _ _ _ _ _ _ _ HR) as Hch. unfold child, lookup_link in Hch, Hn.
    destruct (obj_at w3 f 0) as [[a3 ls3|]|] eqn:E3; try discriminate.
    exists a3, ls3. split; auto. }
  pose proof (sort_cells_perm cells) as Hperm.
  assert (NoDup ([] ++ map c_name (sort_cells cells))) as Hnd'.
  { simpl. eapply Permutation_NoDup; [|exact Hnd]. apply Permutation_map. now apply Permutation_sym. }
  destruct (append_cells_spec _ _ _ _ _ _ _ _ _ _ HR HS Hnd' H) as (K4 & Hcells & HS4).
  exists rc, rb, o1, o2, o3. split; [eapply root_ok_keeps; eauto|].
  pose proof (keeps_trans _ _ _ K3 K4) as K34.
  split; [intros k d Hin; apply (keeps_ds w2 w' f rc k d K34); apply HFc; now apply in_fresh|].
  split; [intros k d Hin; apply (keeps_ds w2 w' f rb k d K34); apply HFb; now apply in_fresh|].
  split; auto.
  intros c Hin. apply Hcells. eapply Permutation_in; [apply Permutation_sym; exact Hperm|auto].
Qed.

(* ------------------------------------------------------------------ witness *)
Definition ex_cells : list cell :=
  [mkCell "cellB"%string [("w"%string, PInts [1; 2; 3])]
          [("bin1_id"%string, PInts [0; 1]); ("bin2_id"%string, PInts [1; 2]); ("count"%string, PInts [4; 5])]
          [("bin1_offset"%string, PInts [0; 1; 2; 2])] [("format"%string, AStr MAGIC)];
   mkCell "cell A"%string [("w"%string, PInts [7; 8; 9])]
          [("bin1_id"%string, PInts []); ("bin2_id"%string, PInts []); ("count"%string, PInts [])]
          [("bin1_offset"%string, PInts [0; 0; 0; 0])] [("format"%string, AStr MAGIC)]].
Definition ex_scool : outcome * world :=
  create_scool world0 FA true
    [("name"%string, PStrs ["a"%string]); ("length"%string, PInts [30])]
    [("chrom"%string, PEnum ["a"%string] [0; 0; 0]); ("start"%string, PInts [0; 10; 20]); ("end"%string, PInts [10; 20; 30])]
    [("format"%string, AStr MAGIC_SCOOL)] ex_cells.

Lemma ex_scool_ok :
  fst ex_scool = Ok /\
  list_scool_cells (snd ex_scool) FA = (Ok, [["cells"; "cell A"]; ["cells"; "cellB"]]%string) /\
  is_scool_file (snd ex_scool) FA = Some true /\
  resolve (snd ex_scool) FA ["cells"; "cellB"; "bins"; "start"]%string = resolve (snd ex_scool) FA ["bins"; "start"]%string /\
  resolve (snd ex_scool) FA ["cells"; "cell A"; "bins"; "w"]%string <> resolve (snd ex_scool) FA ["cells"; "cellB"; "bins"; "w"]%string.
Proof. vm_compute. repeat split; try reflexivity. discriminate. Qed.

(* ------------------------------------------------------------------ append-create in general (C15) *)
(** creating a collection in append mode at a path whose last name is free keeps every link that could be
    looked up and every dataset of both files, whatever the outcome of writing the tables *)
Theorem create_append_frame : forall w f p spec w1 tgt e w',
  file_exists w f = true -> create_group w f p = (Ok, w1, tgt) ->
  create w f p false spec = (e, w') -> keeps w w'.
Proof.
  intros w f p spec w1 [f1 g] e w' Hex Hcg H. unfold create in H.
  rewrite Hex in H. simpl orb in H. cbv iota in H.
  destruct p as [|c r]; [unfold create_group in Hcg; simpl in Hcg; discriminate|].
  rewrite Hcg in H.
  destruct (create_group_ok _ _ _ _ _ _ Hcg) as (L & _).
  destruct (write_tables w1 f1 g (cs_tables spec)) as [w2|] eqn:Ew.
  - injection H as _ <-. destruct (write_tables_spec _ _ _ _ _ Ew) as (K2 & _).
    eapply keeps_trans; [apply world_le_keeps; eauto|].
    eapply keeps_trans; [eauto|apply set_attrs_keeps].
  - injection H as _ <-. now apply world_le_keeps.
Qed.

(* ------------------------------------------------------------------ re-creating at an occupied path (C15) *)
Lemma write_cols_le : forall cols w f t w', write_cols w f t cols = Some w' -> world_le w w'.
Proof.
  induction cols as [|[c src] r IH]; simpl; intros w f t w' H.
  - injection H as <-. apply world_le_refl.
  - destruct src as [d|o].
    + destruct (alloc w f (Dataset d)) as [w1 o] eqn:Ea.
      destruct (bind w1 f t c (Hard o)) as [w2|] eqn:Eb; try discriminate.
      eapply world_le_trans; [eapply alloc_le; eauto|]. eapply world_le_trans; [eapply bind_le; eauto|eauto].
    + destruct (bind w f t c (Hard o)) as [w2|] eqn:Eb; try discriminate.
      eapply world_le_trans; [eapply bind_le; eauto|eauto].
Qed.

Lemma write_tables_le : forall ts w f g w', write_tables w f g ts = Some w' -> world_le w w'.
Proof.
  induction ts as [|[n src] r IH]; simpl; intros w f g w' H.
  - injection H as <-. apply world_le_refl.
  - destruct src as [cols|o].
    + destruct (alloc w f (Group [] [])) as [w1 t] eqn:Ea.
      destruct (bind w1 f g n (Hard t)) as [w2|] eqn:Eb; try discriminate.
      destruct (write_cols w2 f t cols) as [w3|] eqn:Ec; try discriminate.
      eapply world_le_trans; [eapply alloc_le; eauto|]. eapply world_le_trans; [eapply bind_le; eauto|].
      eapply world_le_trans; [eapply write_cols_le; eauto|eauto].
    + destruct (bind w f g n (Hard o)) as [w2|] eqn:Eb; try discriminate.
      eapply world_le_trans; [eapply bind_le; eauto|eauto].
Qed.

(** updating attributes changes no link, no object kind, no file: resolution is literally the same *)
Lemma set_attrs_obj_links : forall w f o b f0 o0,
  (file_exists (set_attrs w f o b) f0 = file_exists w f0) /\
  match obj_at w f0 o0 with
  | Some (Group a ls) => exists a', obj_at (set_attrs w f o b) f0 o0 = Some (Group a' ls)
  | x => obj_at (set_attrs w f o b) f0 o0 = x
  end.
Proof.
  intros w f o b f0 o0. unfold set_attrs.
  destruct (obj_at w f o) as [[a ls|d]|] eqn:E.
  2,3: split; auto; destruct (obj_at w f0 o0) as [[? ?|?]|]; eauto.
  split.
  - unfold file_exists, set_obj, obj_at in *. destruct (get_store w f) eqn:Es; try discriminate.
    destruct (fid_dec f f0) as [<-|N]; [now rewrite get_set_same, Es|now rewrite get_set_other by auto].
  - destruct (fid_dec f f0) as [<-|Nf]; [destruct (Nat.eq_dec o o0) as [<-|No]|].
    + rewrite E. erewrite set_obj_at by eauto. eauto.
    + assert (obj_at (set_obj w f o (Group (upd_attrs a b) ls)) f o0 = obj_at w f o0) as ->.
      { unfold obj_at, set_obj in *. destruct (get_store w f) eqn:Es; try discriminate.
        rewrite get_set_same. now rewrite nth_error_upd_other by auto. }
      destruct (obj_at w f o0) as [[? ?|?]|]; eauto.
    + assert (obj_at (set_obj w f o (Group (upd_attrs a b) ls)) f0 o0 = obj_at w f0 o0) as ->.
      { unfold obj_at, set_obj in *. destruct (get_store w f) eqn:Es; try discriminate.
        now rewrite get_set_other by auto. }
      destruct (obj_at w f0 o0) as [[? ?|?]|]; eauto.
Qed.

Lemma walk_set_attrs : forall k w f o b x f0 o0 p,
  walk k (set_attrs w f o b) x f0 o0 p = walk k w x f0 o0 p.
Proof.
  induction k; simpl; intros; auto. destruct p as [|n rest]; auto.
  destruct (set_attrs_obj_links w f o b f0 o0) as [_ Ho].
  destruct (obj_at w f0 o0) as [[a ls|d]|]; [destruct Ho as (a' & ->)|rewrite Ho; auto|rewrite Ho; auto].
  destruct (assoc n ls) as [l|]; auto. destruct l; auto.
  destruct (set_attrs_obj_links w f o b f1 0) as [-> _]. destruct (file_exists w f1); auto.
Qed.

Lemma create_group_new : forall w f p w' f1 g par n w1 fl f1' gpar xg,
  create_group w f p = (Ok, w', (f1, g)) -> split_last p = Some (par, n) ->
  ensure w f 0 par = Some (w1, fl, f1', gpar) -> obj_at w1 f1' gpar = Some xg ->
  obj_at w' f1' g = Some (Group [] []).
Proof.
  unfold create_group; intros w f p w' f1 g par n w1 fl f1' gpar xg H Hs He Eg.
  rewrite Hs, He in H.
  destruct (lookup_link w1 f1' gpar n) eqn:El.
  { exfalso. injection H as Herr _ _ _. eapply exists_err_not_ok; eauto. discriminate. }
  destruct (alloc w1 f1' (Group [] [])) as [w2 o] eqn:Ea.
  destruct (bind w2 f1' gpar n (Hard o)) as [w3|] eqn:Eb; try discriminate.
  injection H as Hw Hf Hg. subst w3 f1' o.
  destruct (alloc_lookup_frame _ _ _ _ _ _ n _ Ea Eg) as (_ & A2 & _).
  eapply bind_obj_other; eauto.
  pose proof Eg as Eg'. unfold obj_at in Eg'. destruct (get_store w1 f1) as [st|] eqn:Es; try discriminate.
  eapply alloc_obj; eauto.
Qed.

(** recreate_replaces: re-creating (append mode) at an OCCUPIED non-root path whose parent traversal does not
    pass through the occupied link itself: the name is rebound to a NEW group that holds exactly the tables
    of the new collection (nothing of the old one), and every traversal that did not pass through that link
    resolves exactly as before *)
Theorem recreate_replaces : forall w f p spec w' par n fp gp e0 w0 t0,
  file_exists w f = true -> create_group w f p = (e0, w0, t0) -> e0 = EValue ->
  split_last p = Some (par, n) -> resolve w f par = Found fp gp ->
  walk_av (fp, gp, n) FUEL w false f 0 par = Found fp gp ->
  create w f p false spec = (Ok, w') ->
  exists g, child w' fp gp n = Some g /\
    (forall m src, In (m, src) (cs_tables spec) -> table_ok w' fp g m src) /\
    (forall m l, lookup_link w' fp g m = Some l -> In m (map fst (cs_tables spec))) /\
    (forall k x f0 o0 q f1 o1, walk_av (fp, gp, n) k w x f0 o0 q = Found f1 o1 -> walk k w' x f0 o0 q = Found f1 o1).
Proof.
  intros w f p spec w' par n fp gp e0 w0 t0 Hex Hcg -> Hs Erp Hav H.
  unfold create in H. rewrite Hex in H. simpl orb in H. cbv iota in H.
  destruct p as [|c r]; [discriminate|]. rewrite Hcg in H.
  destruct (del_link w f (c :: r)) as [ed wd] eqn:Ed. destruct ed; try discriminate.
  destruct (del_link_ok _ _ _ _ Ed) as (par' & n' & fp' & gp' & Hs' & Erp' & U & Hnone).
  rewrite Hs in Hs'. injection Hs' as <- <-. rewrite Erp in Erp'. injection Erp' as <- <-.
  destruct (create_group wd f (c :: r)) as [[e1 w1] [f1 g]] eqn:Ecg2. destruct e1; try discriminate.
  destruct (write_tables w1 f1 g (cs_tables spec)) as [w2|] eqn:Ew; try discriminate.
  injection H as <-.
  destruct (create_group_ok _ _ _ _ _ _ Ecg2) as (Ld & par2 & n2 & we & fl & gpar & Hs2 & He & L1 & Hch).
  rewrite Hs in Hs2. injection Hs2 as <- <-.
  (* the parent reached by ensure is the parent whose member was unlinked *)
  assert (resolve wd f par = Found fp gp) as Erd by (unfold resolve; eapply walk_av_unlinked; eauto).
  assert (f1 = fp /\ gpar = gp) as [-> ->].
  { unfold ensure in He. destruct (ensure_gen_resolves _ _ _ _ _ _ _ _ _ _ He) as [j Hj].
    pose proof (walk_found_mono _ _ _ _ _ _ _ _ _ (ensure_gen_le _ _ _ _ _ _ _ _ _ _ _ He) Erd) as Hr.
    assert (Found f1 gpar = Found fp gp) as E.
    { eapply walk_found_det; [exact Hj|exact Hr|eauto|eauto]. }
    now injection E as -> ->. }
  assert (exists xg, obj_at we fp gp = Some xg) as [xg Exg].
  { destruct U as (a & ls & Eg & ->).
    assert (obj_at (set_obj w fp gp (Group a (remove_key n ls))) fp gp = Some (Group a (remove_key n ls))) as E1
      by (eapply set_obj_at; eauto).
    unfold ensure in He.
    destruct (world_le_obj _ _ _ _ _ (ensure_gen_le _ _ _ _ _ _ _ _ _ _ _ He) E1) as (y & Ey & _). eauto. }
  destruct (create_group_frame _ _ _ _ _ _ _ _ _ _ _ _ _ Ecg2 Hs He Exg) as (_ & Ng & _).
  pose proof (create_group_new _ _ _ _ _ _ _ _ _ _ _ _ _ Ecg2 Hs He Exg) as Enew.
  destruct (write_tables_spec _ _ _ _ _ Ew) as (K2 & HT).
  exists g. split; [|split; [|split]].
  - eapply keeps_child; [apply set_attrs_keeps|]. eapply keeps_child; eauto.
  - intros m src Hin. eapply table_ok_keeps; [apply set_attrs_keeps|eauto].
  - intros m l Hl. rewrite set_attrs_lookup in Hl.
    destruct (in_dec S.string_dec m (map fst (cs_tables spec))) as [Hin|Hnot]; auto. exfalso.
    rewrite (write_tables_target_frame _ _ _ _ _ m _ Ew Enew Hnot) in Hl.
    unfold lookup_link in Hl. rewrite Enew in Hl. discriminate.
  - intros k x f0 o0 q f1 o1 Hq. rewrite walk_set_attrs.
    eapply walk_found_mono; [eapply write_tables_le; eauto|].
    eapply walk_found_mono; [exact Ld|]. eapply walk_av_unlinked; eauto.
Qed.

Lemma ex_recreate :
  let w := run world0 [OCreate FA sx false (tiny 1); OCreate FA sxy false (tiny 2); OCreate FA ["z"%string] false (tiny 3)] in
  let r := create w FA sx false (tiny 9) in
  fst (fst (create_group w FA sx)) = EValue /\ fst r = Ok /\
  is_cooler (snd r) FA sx = TTrue /\ is_cooler w FA sxy = TTrue /\ is_cooler (snd r) FA sxy = TFalse /\
  walk_av (FA, 0%nat, "x"%string) FUEL w false FA 0 [] = Found FA 0%nat /\
  resolve (snd r) FA ["z"%string] = resolve w FA ["z"%string].
Proof. vm_compute. repeat split; reflexivity. Qed.

(* ------------------------------------------------------------------ attributes through the appends (recognition) *)
Lemma upd_attrs_other : forall b a k, ~ In k (map fst b) -> assoc k (upd_attrs a b) = assoc k a.
Proof.
  unfold upd_attrs. induction b as [|[k0 v0] r IH]; simpl; intros a k Hn; auto.
  rewrite IH by tauto. apply assoc_ins_other. intro; subst; apply Hn; auto.
Qed.

Lemma upd_attrs_assoc : forall b a k v, NoDup (map fst b) -> In (k, v) b -> assoc k (upd_attrs a b) = Some v.
Proof.
  unfold upd_attrs. induction b as [|[k0 v0] r IH]; simpl; intros a k v Hnd Hin; [tauto|].
  inversion Hnd as [|? ? Hnot Hnd']; subst. destruct Hin as [E|Hin].
  - injection E as -> ->. fold (upd_attrs (ins_sorted k v a) r). rewrite upd_attrs_other by auto. apply assoc_ins_same.
  - now apply IH.
Qed.

Definition attrs_kept (w w' : world) : Prop :=
  forall f o x, obj_at w f o = Some x -> exists y, obj_at w' f o = Some y /\ attrs_of y = attrs_of x.

Lemma world_le_attrs : forall w w', world_le w w' -> attrs_kept w w'.
Proof.
  intros w w' H f o x E. destruct (world_le_obj _ _ _ _ _ H E) as (y & Ey & Ly). exists y. split; auto.
  destruct x, y; simpl in *; try tauto. now destruct Ly as [-> _].
Qed.

Lemma attrs_kept_trans : forall a b c, attrs_kept a b -> attrs_kept b c -> attrs_kept a c.
Proof.
  intros a b c H1 H2 f o x E. destruct (H1 _ _ _ E) as (y & Ey & Ay). destruct (H2 _ _ _ Ey) as (z & Ez & Az).
  exists z. split; auto. congruence.
Qed.

Lemma create_group_fresh : forall w f p w' f1 g, create_group w f p = (Ok, w', (f1, g)) -> obj_at w f1 g = None.
Proof.
  unfold create_group; intros w f p w' f1 g H.
  destruct (split_last p) as [[par n]|]; try discriminate.
  destruct (ensure w f 0 par) as [[[[w1 fl] f1'] gpar]|] eqn:E; try discriminate.
  destruct (lookup_link w1 f1' gpar n) eqn:El.
  { exfalso. injection H as He _ _ _. eapply exists_err_not_ok; eauto. discriminate. }
  destruct (alloc w1 f1' (Group [] [])) as [w2 o] eqn:Ea.
  destruct (bind w2 f1' gpar n (Hard o)) as [w3|] eqn:Eb; try discriminate.
  injection H as Hw Hf Hg. subst w3 f1' o.
  destruct (obj_at w f1 g) as [x|] eqn:Ex; auto. exfalso.
  destruct (world_le_obj _ _ _ _ _ (ensure_le _ _ _ _ _ _ _ _ E) Ex) as (y & Ey & _).
  destruct (alloc_lookup_frame _ _ _ _ _ _ n _ Ea Ey) as (_ & A2 & _). congruence.
Qed.

(** appending a cell keeps the attributes of every existing object and tags the new group with its own *)
Lemma create_cell_attrs : forall w f a0 ls0 name sp w' gc g,
  file_exists w f = true -> obj_at w f 0 = Some (Group a0 ls0) -> cell_fresh w f ls0 name ->
  create w f ["cells"%string; name] false sp = (Ok, w') ->
  child w' f 0 "cells"%string = Some gc -> child w' f gc name = Some g ->
  (exists t src, In (t, src) (cs_tables sp)) ->
  attrs_kept w w' /\
  forall k v, NoDup (map fst (cs_attrs sp)) -> In (k, v) (cs_attrs sp) ->
    exists x, obj_at w' f g = Some x /\ assoc k (attrs_of x) = Some v.
Proof.
  intros w f a0 ls0 name sp w' gc g Hex E0 Hfresh H Hgc Hg (t0 & src0 & Ht0).
  destruct (create_cell_spec _ _ _ _ _ _ _ Hex E0 Hfresh H) as (K & gc' & g' & Hc' & Hg' & _ & HT).
  rewrite Hgc in Hc'. injection Hc' as <-. rewrite Hg in Hg'. injection Hg' as <-.
  pose proof H as H0. unfold create in H. rewrite Hex in H. simpl orb in H. cbv iota in H.
  destruct (create_group w f ["cells"%string; name]) as [[e w1] [f1 g1]] eqn:Ecg.
  destruct e; try discriminate.
  2:{ exfalso. unfold del_link in H. simpl split_last in H. cbv beta iota in H.
      destruct Hfresh as [Hn|(g0 & ac & lsc & Hs & Eg & Hnone)].
      - rewrite (resolve_cells_none _ _ _ _ E0 Hn) in H. discriminate.
      - rewrite (resolve_cells_hard _ _ _ _ _ E0 Hs) in H. rewrite Eg, Hnone in H. discriminate. }
  destruct (create_group_ok _ _ _ _ _ _ Ecg) as (L & par & n & we & fl & gpar & Hs & He & L1 & Hch).
  simpl in Hs. injection Hs as <- <-.
  assert (assoc "cells"%string ls0 = None \/ exists g0, assoc "cells"%string ls0 = Some (Hard g0)) as Hc.
  { destruct Hfresh as [?|(g0 & ? & ? & ? & _)]; eauto. }
  destruct (ensure_cells _ _ _ _ _ _ _ _ E0 Hc He) as (-> & Hcells & _).
  destruct (write_tables w1 f g1 (cs_tables sp)) as [w2|] eqn:Ew; [|discriminate].
  injection H as <-.
  pose proof (write_tables_le _ _ _ _ _ Ew) as L2.
  assert (keeps w1 (set_attrs w2 f g1 (cs_attrs sp))) as K13.
  { eapply keeps_trans; [apply world_le_keeps; eauto|apply set_attrs_keeps]. }
  (* the two names denote the group made by create_group *)
  assert (gc = gpar) as ->.
  { pose proof (keeps_child _ _ _ _ _ _ (keeps_trans _ _ _ (world_le_keeps _ _ L1) K13) Hcells). congruence. }
  assert (g = g1) as -> by (pose proof (keeps_child _ _ _ _ _ _ K13 Hch); congruence).
  pose proof (create_group_fresh _ _ _ _ _ _ Ecg) as Hfr.
  (* the object of the new group before its attributes are set *)
  pose proof (HT _ _ Ht0) as Tok.
  assert (exists a ls, obj_at w2 f g1 = Some (Group a ls)) as (a & ls & Eg2).
  { assert (exists l, lookup_link (set_attrs w2 f g1 (cs_attrs sp)) f g1 t0 = Some l) as [l Hl].
    { destruct src0; simpl in Tok; [destruct Tok as (t & Tc & _)|]; unfold child in *;
        destruct (lookup_link (set_attrs w2 f g1 (cs_attrs sp)) f g1 t0); try discriminate; eauto. }
    rewrite set_attrs_lookup in Hl. unfold lookup_link in Hl.
    destruct (obj_at w2 f g1) as [[a ls|]|]; try discriminate; eauto. }
  split.
  - intros f0 o0 x Ex.
    destruct (world_le_attrs _ _ (world_le_trans _ _ _ L L2) _ _ _ Ex) as (y & Ey & Ay).
    destruct (fid_dec f0 f) as [->|Nf]; [destruct (Nat.eq_dec o0 g1) as [->|No]|].
    + congruence.
    + exists y. split; auto. unfold set_attrs. rewrite Eg2.
      unfold obj_at, set_obj in *. destruct (get_store w2 f) eqn:Es; try discriminate.
      rewrite get_set_same. now rewrite nth_error_upd_other by auto.
    + exists y. split; auto. unfold set_attrs. rewrite Eg2.
      unfold obj_at, set_obj in *. destruct (get_store w2 f) eqn:Es; try discriminate.
      now rewrite get_set_other by auto.
  - intros k v Hnd Hin. unfold set_attrs. rewrite Eg2. erewrite set_obj_at by eauto.
    eexists; split; eauto. simpl. now apply upd_attrs_assoc.
Qed.

Definition cell_tagged (c : cell) : Prop :=
  NoDup (map fst (c_attrs c)) /\ In ("format"%string, AStr MAGIC) (c_attrs c).

Theorem append_cells_coolers : forall cells w f rc rb o1 o2 o3 done w',
  root_ok w f rc rb o1 o2 o3 -> cells_state w f done ->
  NoDup (done ++ map c_name cells) -> Forall cell_tagged cells ->
  append_cells w f cells = (Ok, w') ->
  attrs_kept w w' /\
  forall c, In c cells -> forall gc g, child w' f 0 "cells"%string = Some gc -> child w' f gc (c_name c) = Some g ->
    is_cooler_at w' f g = true.
Proof.
  induction cells as [|c r IH]; intros w f rc rb o1 o2 o3 done w' HR HS Hnd Htag H.
  - simpl in H. injection H as <-. split; [intros ? ? ? E; eauto|intros ? []].
  - inversion Htag as [|? ? Hc Hr]; subst.
    pose proof H as Hall.
    unfold append_cells in H. simpl in H. fold append_cells in H.
    rewrite (cell_spec_root _ _ _ _ _ _ _ c HR) in H.
    set (sp := mkSpec _ _) in H.
    destruct (create w f (cell_path c) false sp) as [e w1] eqn:Ec.
    destruct e; try discriminate.
    destruct HS as (a0 & ls0 & E0 & Hst).
    assert (cell_fresh w f ls0 (c_name c)) as Hfresh.
    { destruct Hst as [[-> Hn]|(gc & ac & lsc & Hs & Eg & Hkeys)]; [left; auto|right].
      exists gc, ac, lsc. repeat split; auto.
      destruct (assoc (c_name c) lsc) eqn:En; auto. exfalso.
      apply Hkeys in En. simpl in Hnd. apply NoDup_remove_2 in Hnd. apply Hnd.
      apply in_or_app. auto. }
    unfold cell_path in Ec.
    pose proof (r_exists _ _ _ _ _ _ _ HR) as Hex.
    destruct (create_cell_spec _ _ _ _ _ _ _ Hex E0 Hfresh Ec) as (K1 & gc1 & g1 & Hcells & Hcell & Hold & HT).
    pose proof (create_cell_keys _ _ _ _ _ _ _ gc1 Hex E0 Hfresh Ec Hcells) as Hkeys1.
    assert (exists t src, In (t, src) (cs_tables sp)) as Hne by (eexists; eexists; simpl; left; reflexivity).
    destruct (create_cell_attrs _ _ _ _ _ _ _ gc1 g1 Hex E0 Hfresh Ec Hcells Hcell Hne) as (A1 & Hfmt).
    assert (cells_state w1 f (done ++ [c_name c])) as HS1.
    { pose proof Hcells as Hc1. pose proof Hcell as Hc2. unfold child, lookup_link in Hc1, Hc2.
      destruct (obj_at w1 f 0) as [[a1 ls1|]|] eqn:E1; try discriminate.
      destruct (assoc "cells"%string ls1) as [[gc'| |]|] eqn:Ea1; try discriminate. injection Hc1 as ->.
      destruct (obj_at w1 f gc1) as [[ac1 lsc1|]|] eqn:Eg1; try discriminate.
      exists a1, ls1. split; auto. right. exists gc1, ac1, lsc1. repeat split; auto.
      intros m l Hm.
      assert (lookup_link w1 f gc1 m = Some l) as Hl by (unfold lookup_link; now rewrite Eg1).
      destruct (Hkeys1 m l Hl) as [->|(g0 & Hg0 & Hl0)]; [apply in_or_app; simpl; auto|].
      apply in_or_app. left.
      destruct Hst as [[_ Hn]|(gc0 & ac & lsc & Hs & Eg & Hk)]; [congruence|].
      rewrite Hs in Hg0. injection Hg0 as <-. unfold lookup_link in Hl0. rewrite Eg in Hl0. eauto. }
    assert (NoDup ((done ++ [c_name c]) ++ map c_name r)) as Hnd1 by (rewrite <- app_assoc; exact Hnd).
    pose proof (root_ok_keeps _ _ _ _ _ _ _ _ K1 HR) as HR1.
    destruct (IH w1 f rc rb o1 o2 o3 (done ++ [c_name c]) w' HR1 HS1 Hnd1 Hr H) as (A2 & Hrest).
    destruct (append_cells_spec _ _ _ _ _ _ _ _ _ _ HR1 HS1 Hnd1 H) as (K2 & _ & _).
    split; [eapply attrs_kept_trans; eauto|].
    intros c' [<-|Hin] gc g Hgc Hg; [|eauto].
    pose proof (keeps_child _ _ _ _ _ _ K2 Hcells) as Hgc'. rewrite Hgc in Hgc'. injection Hgc' as ->.
    pose proof (keeps_child _ _ _ _ _ _ K2 Hcell) as Hg'. rewrite Hg in Hg'. injection Hg' as ->.
    destruct Hc as [Hnd0 Hf0]. destruct (Hfmt _ _ Hnd0 Hf0) as (x & Ex & Ax).
    destruct (A2 _ _ _ Ex) as (y & Ey & Ay).
    unfold is_cooler_at. rewrite Ey. unfold is_cooler_obj. rewrite Ay, Ax. reflexivity.
Qed.

(* ------------------------------------------------------------------ recognition of the single-cell file *)
Lemma create_scool_unfold : forall w f rchroms rbins rattrs cells w' dc ds de,
  create_scool w f true rchroms rbins rattrs cells = (Ok, w') ->
  In ("chrom"%string, dc) rbins -> In ("start"%string, ds) rbins -> In ("end"%string, de) rbins ->
  exists w3 rc rb o1 o2 o3,
    root_ok w3 f rc rb o1 o2 o3 /\ cells_state w3 f [] /\
    append_cells w3 f (sort_cells cells) = (Ok, w') /\
    exists a ls, obj_at w3 f 0 = Some (Group (upd_attrs a rattrs) ls).
Proof.
  intros w f rchroms rbins rattrs cells w' dc ds de H Hc Hs He.
  unfold create_scool in H. simpl orb in H. cbv iota in H.
  set (w0 := set_store w f (Some empty_store)) in *.
  assert (get_store w0 f = Some empty_store) as Es0 by (unfold w0; apply get_set_same).
  rewrite (del_nothing_on_empty _ _ _ Es0) in H.
  set (ts := [("chroms"%string, Table _); ("bins"%string, Table _)]) in H.
  destruct (write_tables w0 f 0 ts) as [w2|] eqn:Ew; [|discriminate].
  destruct (write_tables_spec _ _ _ _ _ Ew) as (K2 & HT).
  pose proof (HT "chroms"%string _ (or_introl eq_refl)) as T1. simpl in T1.
  pose proof (HT "bins"%string _ (or_intror (or_introl eq_refl))) as T2. simpl in T2.
  destruct T1 as (rc & Hrc & HFc & _). destruct T2 as (rb & Hrb & HFb & _).
  destruct (ds_child _ _ _ _ _ (HFb _ _ (in_fresh _ _ _ Hc))) as (o1 & Ho1).
  destruct (ds_child _ _ _ _ _ (HFb _ _ (in_fresh _ _ _ Hs))) as (o2 & Ho2).
  destruct (ds_child _ _ _ _ _ (HFb _ _ (in_fresh _ _ _ He))) as (o3 & Ho3).
  set (w3 := set_attrs w2 f 0 rattrs) in *.
  assert (keeps w2 w3) as K3 by apply set_attrs_keeps.
  assert (obj_at w0 f 0 = Some (Group [] [])) as E00 by (unfold obj_at; now rewrite Es0).
  assert (exists a ls, obj_at w2 f 0 = Some (Group a ls)) as (a2 & ls2 & E2).
  { unfold child, lookup_link in Hrc. destruct (obj_at w2 f 0) as [[a ls|]|]; try discriminate; eauto. }
  assert (obj_at w3 f 0 = Some (Group (upd_attrs a2 rattrs) ls2)) as E3.
  { unfold w3, set_attrs. rewrite E2. eapply set_obj_at; eauto. }
  assert (file_exists w3 f = true) as Hex3.
  { unfold file_exists, obj_at in *. destruct (get_store w3 f); auto; discriminate. }
  assert (root_ok w3 f rc rb o1 o2 o3) as HR by (constructor; eauto using keeps_child).
  exists w3, rc, rb, o1, o2, o3. split; auto. split; [|split; eauto].
  assert (lookup_link w3 f 0 "cells"%string = None) as Hn.
  { unfold w3. rewrite set_attrs_lookup.
    rewrite (write_tables_target_frame _ _ _ _ _ "cells"%string _ Ew E00).
    - unfold lookup_link. now rewrite E00.
    - simpl. intros [E|[E|[]]]; discriminate. }
  unfold lookup_link in Hn. rewrite E3 in Hn. exists (upd_attrs a2 rattrs), ls2. split; auto.
Qed.

Lemma lookup_mem_keys : forall w f o k l, lookup_link w f o k = Some l -> mem_str k (keys_of w f o) = true.
Proof.
  unfold lookup_link, keys_of, mem_str; intros w f o k l H.
  destruct (obj_at w f o) as [[a ls|]|]; try discriminate.
  apply existsb_exists. exists k. split; [|apply S.eqb_refl].
  apply in_map_iff. exists (k, l). split; auto. now apply assoc_in.
Qed.

Lemma in_keys_assoc : forall X k (l : list (string * X)), In k (map fst l) -> exists v, assoc k l = Some v.
Proof.
  induction l as [|[m y] r IH]; simpl; intros H; [tauto|].
  destruct (S.eqb k m) eqn:E; eauto. destruct H as [H|H]; [subst; rewrite S.eqb_refl in E; discriminate|auto].
Qed.

Lemma child_lookup : forall w f g n o, child w f g n = Some o -> lookup_link w f g n = Some (Hard o).
Proof. unfold child; intros. destruct (lookup_link w f g n) as [[?| |]|]; try discriminate. congruence. Qed.

(** recognition: the file written by create_scool (mode w, at least one cell, every cell tagged as a cooler,
    the root tagged with the single-cell marker) is recognised as a single-cell file *)
Theorem create_scool_recognised : forall w f rchroms rbins rattrs cells w' dc ds de,
  create_scool w f true rchroms rbins rattrs cells = (Ok, w') ->
  NoDup (map c_name cells) -> cells <> [] -> Forall cell_tagged cells ->
  In ("chrom"%string, dc) rbins -> In ("start"%string, ds) rbins -> In ("end"%string, de) rbins ->
  NoDup (map fst rattrs) -> In ("format"%string, AStr MAGIC_SCOOL) rattrs ->
  is_scool_file w' f = Some true.
Proof.
  intros w f rchroms rbins rattrs cells w' dc ds de H Hnd Hne Htag Hc Hs He Hnda Hfmt.
  destruct (create_scool_unfold _ _ _ _ _ _ _ _ _ _ H Hc Hs He) as (w3 & rc & rb & o1 & o2 & o3 & HR & HS & Happ & a3 & ls3 & E3).
  pose proof (sort_cells_perm cells) as Hperm.
  assert (NoDup ([] ++ map c_name (sort_cells cells))) as Hnd'.
  { simpl. eapply Permutation_NoDup; [|exact Hnd]. apply Permutation_map. now apply Permutation_sym. }
  assert (Forall cell_tagged (sort_cells cells)) as Htag'.
  { rewrite Forall_forall in *. intros c Hin. apply Htag. eapply Permutation_in; eauto. }
  destruct (append_cells_spec _ _ _ _ _ _ _ _ _ _ HR HS Hnd' Happ) as (K4 & Hcells & HS4).
  destruct (append_cells_coolers _ _ _ _ _ _ _ _ _ _ HR HS Hnd' Htag' Happ) as (A4 & Hcool).
  pose proof (root_ok_keeps _ _ _ _ _ _ _ _ K4 HR) as HR'.
  simpl app in HS4.
  (* some cell exists *)
  destruct (sort_cells cells) as [|c0 rest] eqn:Esort.
  { exfalso. apply Hne. apply Permutation_nil. now apply Permutation_sym. }
  destruct HS4 as (a0 & ls0 & E0 & [[Habs _]|(gc & ac & lsc & Hsc & Egc & Hkeys)]); [discriminate|].
  unfold is_scool_file.
  rewrite (r_exists _ _ _ _ _ _ _ HR'). simpl negb. cbv iota.
  (* the marker *)
  destruct (A4 _ _ _ E3) as (y & Ey & Ay).
  assert (has_format w' f 0 MAGIC_SCOOL = true) as ->.
  { unfold has_format. rewrite Ey, Ay. simpl. rewrite (upd_attrs_assoc _ _ _ _ Hnda Hfmt). reflexivity. }
  simpl negb. cbv iota.
  rewrite (lookup_mem_keys _ _ _ _ _ (child_lookup _ _ _ _ _ (r_chroms _ _ _ _ _ _ _ HR'))).
  rewrite (lookup_mem_keys _ _ _ _ _ (child_lookup _ _ _ _ _ (r_bins _ _ _ _ _ _ _ HR'))).
  assert (lookup_link w' f 0 "cells"%string = Some (Hard gc)) as Hlc by (unfold lookup_link; now rewrite E0).
  rewrite (lookup_mem_keys _ _ _ _ _ Hlc). simpl negb. cbv iota.
  unfold follow_name at 1. rewrite Hlc. simpl follow. cbv iota.
  (* every member of /cells is a tagged cell *)
  assert (forall k, In k (keys_of w' f gc) ->
            match follow_name w' f gc k with Some (f1, o1) => is_cooler_at w' f1 o1 | None => false end = true) as Hall.
  { intros k Hk. unfold keys_of in Hk. rewrite Egc in Hk.
    destruct (in_keys_assoc _ _ _ Hk) as (l & Hl). pose proof (Hkeys _ _ Hl) as Hin.
    apply in_map_iff in Hin. destruct Hin as (c & <- & Hc0).
    destruct (Hcells c Hc0) as (gc' & g & Hg1 & Hg2 & _).
    assert (gc' = gc) as -> by (apply child_lookup in Hg1; rewrite Hlc in Hg1; congruence).
    unfold follow_name. rewrite (child_lookup _ _ _ _ _ Hg2). simpl. eapply Hcool; eauto. }
  destruct (keys_of w' f gc) as [|k0 ks] eqn:Ek.
  - exfalso. destruct (Hcells c0 (or_introl eq_refl)) as (gc' & g & Hg1 & Hg2 & _).
    assert (gc' = gc) as -> by (apply child_lookup in Hg1; rewrite Hlc in Hg1; congruence).
    pose proof (lookup_mem_keys _ _ _ _ _ (child_lookup _ _ _ _ _ Hg2)) as Hm. rewrite Ek in Hm. discriminate.
  - f_equal. apply forallb_forall. intros k Hk. apply Hall. exact Hk.
Qed.

(** ... and a file whose root does not carry the marker is not *)
Theorem not_scool_without_marker : forall w f, file_exists w f = true ->
  has_format w f 0 MAGIC_SCOOL = false -> is_scool_file w f = Some false.
Proof. intros w f Hex Hf. unfold is_scool_file. now rewrite Hex, Hf. Qed.

(** listing, one direction in general: on the file written by create_scool, whenever list_scool_cells returns
    (well-formed file without external links), every given cell is listed under /cells/<name> *)
Theorem create_scool_cells_listed : forall w f rchroms rbins rattrs cells w' dc ds de L,
  create_scool w f true rchroms rbins rattrs cells = (Ok, w') ->
  NoDup (map c_name cells) -> Forall cell_tagged cells ->
  In ("chrom"%string, dc) rbins -> In ("start"%string, ds) rbins -> In ("end"%string, de) rbins ->
  no_ext w' f -> nodup_keys w' f -> list_scool_cells w' f = (Ok, L) ->
  forall c, In c cells -> In (cell_path c) L.
Proof.
  intros w f rchroms rbins rattrs cells w' dc ds de L H Hnd Htag Hc Hs He Hne Hnk HL c Hin.
  destruct (create_scool_unfold _ _ _ _ _ _ _ _ _ _ H Hc Hs He) as (w3 & rc & rb & o1 & o2 & o3 & HR & HS & Happ & _).
  pose proof (sort_cells_perm cells) as Hperm.
  assert (NoDup ([] ++ map c_name (sort_cells cells))) as Hnd'.
  { simpl. eapply Permutation_NoDup; [|exact Hnd]. apply Permutation_map. now apply Permutation_sym. }
  assert (Forall cell_tagged (sort_cells cells)) as Htag'.
  { rewrite Forall_forall in *. intros c' Hin'. apply Htag. eapply Permutation_in; eauto. }
  assert (In c (sort_cells cells)) as Hin' by (eapply Permutation_in; [apply Permutation_sym; exact Hperm|auto]).
  destruct (append_cells_spec _ _ _ _ _ _ _ _ _ _ HR HS Hnd' Happ) as (_ & Hcells & _).
  destruct (append_cells_coolers _ _ _ _ _ _ _ _ _ _ HR HS Hnd' Htag' Happ) as (_ & Hcool).
  destruct (Hcells c Hin') as (gc & g & Hg1 & Hg2 & _).
  unfold list_scool_cells in HL. destruct (is_scool_file w' f) as [[|]|]; try discriminate.
  destruct (list_coolers w' f) as [e L0] eqn:EL. destruct e; try discriminate. injection HL as <-.
  apply filter_In. split; [|reflexivity].
  apply (listing_exact _ _ _ Hne Hnk EL). exists g. split; [|eapply Hcool; eauto].
  unfold cell_path. eapply resolves_step; [apply child_lookup; exact Hg1|reflexivity|].
  eapply resolves_step; [apply child_lookup; exact Hg2|reflexivity|apply resolves_nil].
Qed.
