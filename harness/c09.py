"""C09 — every zoom level of a multires file equals direct coarsening of its base.

Correspondence: get_multiplier_sequence / preferred_sequence (function level), cooler.zoomify_cooler,
fileops.list_coolers / is_multires_file, `cooler zoomify -r <spec>` against coq/Model/Zoom.v.
Property oracle: index-based block aggregation of the INPUT base pixels (gen_c08.oracle_*), raw h5py /
API reads of the base for "faithful copy", divisibility for refusals, an independent reading of the
documented -r grammar.
"""
from __future__ import annotations

import itertools
import os

import numpy as np
import pandas as pd

import coqio as C
import common
from gen_bins import blocks_from_widths, names_for, table_from_blocks
import gen_c08 as G

PROP = "C09"
RULE = ("get_multiplier_sequence: every subset of {1..10} of size <=4 (quick) / every subset of {1..12} (thorough) plus seeded random subsets of 1..24 (shuffled, with repeats) "
        "x bases in {None, 1-element, 2-element sets over {1,2,3,4,6}, and {2,9},{4,9},{2,3,5},{4,6,9},{6,10,15},{8,5}}; preferred_sequence: start 1..12 x stop 0..250 x both styles; "
        "zoomify_cooler: a fixed-bin base x subsets of {1,2,3,4,6,8,12}*base as targets in shuffled order (all 127 in the thorough tier, 40 random + corpus in the quick tier), "
        "`resolutions` passed as tuple / ndarray int64+int32 / set / range / map / generator / pandas Index; two-base runs incl. D3/D17 shapes (a base that is a multiple of another base, with its own data and a `weight` bin column), non-derivable targets (refusal), a variable-bin base (resolution 1), chunksize in {1,7,1000}, nproc=2 on two; "
        "CLI -r spellings 4DN,10N,10B,10b,10n,N,B,default, comma lists with blanks; non-trivial = at least one derived level whose predecessor is itself derived, or >1 base, or a refusal; distinct by input hash")
TRUSTED = ["h5py Group.copy makes a faithful copy of a base level (observed: bins incl. extra columns, pixels, indexes, attributes are compared with the source)",
           "coarsen_cooler = model of property C08 (same correspondence run style), multiprocess.Pool.map order preserving"]
ASSUMPTIONS = ["resolutions and base bin sizes are positive integers", "all base coolers share one chromosome table"]
RESIDUE = ["as C08: process scheduling / HDF5 lock not modelled", "a base without the `format` header attribute (e.g. tests/data/hg19.GM12878-MboI.matrix.2000kb.cool) is not a cooler for fileops.is_cooler and is outside the domain: its copied base level is not listed by list_coolers", "the theorems hold for every permutation-invariant aggregation that composes over non-empty blocks; the correspondence drives sum, max and min on integer columns through the model (zoomify_cooler_g); the mean does not compose along a chain (ex_C09_mean_chain_refuted) and is outside the claim", "the CLI tokenizer (strip/lower/split) is modelled by token classes; int() parsing by the harness",
           "--balance and --legacy are outside the claim"]
ALLOW_AXIOMS = ()

HDR = "From Cooler Require Import Model.Zoom."


# ------------------------------------------------------- 1. get_multiplier_sequence
def impl_multseq(res, bases):
    from cooler._reduce import get_multiplier_sequence
    try:
        with G.time_limit(10):
            r, p, m = get_multiplier_sequence(list(res), None if bases is None else list(bases))
        return [[int(x) for x in r], [int(x) for x in p], [int(x) for x in m]]
    except ValueError:
        return "ValueError"
    except G.Timeout:
        return "timeout"
    except Exception as e:
        return type(e).__name__


def oracle_multseq(res, bases, got):
    """sound: every entry is a base (pred -1) or an integer multiple of an earlier entry;
    complete: refusal iff some requested resolution is not a multiple of any base"""
    if bases is None and not res:
        return got == "ValueError"          # no resolution and no base: nothing to derive from, must be refused
    bs = {min(res)} if bases is None else set(bases)
    underivable = any(all(r % b for b in bs) for r in res)
    if got == "ValueError":
        return underivable
    if isinstance(got, str):
        return False
    if underivable:
        return False
    resn, pred, mult = got
    if resn != sorted(bs | set(res)) or len(pred) != len(resn) or len(mult) != len(resn):
        return False
    for i, r in enumerate(resn):
        if pred[i] == -1:
            if r not in bs:
                return False
        else:
            if not (0 <= pred[i] < i) or resn[pred[i]] * mult[i] != r or mult[i] < 2:
                return False
    return True


def part_multseq(ctx):
    thorough = ctx.tier == "thorough"
    rng = ctx.rng
    sets = []
    if thorough:
        for mask in range(1, 1 << 12):
            sets.append([i + 1 for i in range(12) if mask >> i & 1])
    else:
        for size in range(1, 5):
            sets += [list(c) for c in itertools.combinations(range(1, 11), size)]
    for _ in range(600 if thorough else 150):
        n = rng.randint(1, 7)
        s_ = [rng.randint(1, 24) for _ in range(n)]
        sets.append(s_)
    base_cfgs = [None] + [[b] for b in (1, 2, 3, 4, 6)] + [list(p) for p in itertools.combinations((1, 2, 3, 4, 6), 2)]
    # bases that sit high in the sorted sequence (the nearest smaller entry of a target is itself a base)
    base_cfgs += [[2, 9], [4, 9], [2, 3, 5], [4, 6, 9], [6, 10, 15], [8, 5]]
    cases = []
    for s_ in sets:
        cfgs = base_cfgs if (thorough or len(s_) <= 3) else rng.sample(base_cfgs, 5)
        for b in cfgs:
            order = list(s_)
            rng.shuffle(order)
            cases.append((order, b))
    # corpus: D17 (bases {2,4}), mixed predecessors, duplicates, base larger than a target
    cases += [([8], [2, 4]), ([2, 3, 6], None), ([6, 2, 3], [1]), ([4, 8, 16, 32], [4]), ([12, 12, 6], [6, 6]), ([2, 10], [4]),
              ([5, 10, 25, 50, 100], [5]), ([6], [4, 6]), ([9, 6, 18], [3, 2]), ([4, 27], [2, 9]), ([25], [2, 3, 5]), ([8, 27, 16], [4, 9]),
              ([12, 30, 45], [6, 10, 15]), ([4, 6, 27], [2, 3, 9]), ([], None), ([], [2]), ([3, 3], [3, 3])]
    # model: families per Eval
    per = 40
    exprs = []
    for i in range(0, len(cases), per):
        items = [f"get_multiplier_sequence {C.zl(r)} {C.opt(b, C.zl)}" for r, b in cases[i:i + per]]
        exprs.append("[" + "; ".join(items) + "]")
    model = C.coq_eval(HDR, exprs, tmpdir=ctx.tmp / "multseq")
    flat = [x for grp in model for x in grp]
    nt = []
    for (res, bases), mo in zip(cases, flat):
        case = {"fn": "get_multiplier_sequence", "resolutions": res, "bases": bases}
        got = impl_multseq(res, bases)
        exp = "ValueError" if mo is None else [list(x) for x in mo[1]]
        ctx.compare("get_multiplier_sequence", case, got, exp)
        if not oracle_multseq(res, bases, got):
            ctx.fail(case, {"got": got}, None)
        if got == "ValueError" or (isinstance(got, list) and any(p > 0 for p in got[1])):
            nt.append(case)
    ctx.count(len(cases), nontrivial_keys=nt, kind="multseq")
    return len(cases)


# ------------------------------------------------------------ 2. preferred_sequence
def ref_pref(start, stop, binary):
    """reading of the documentation: B = start*2^i, N = start*{1,2,5}*10^j, ascending, <= stop"""
    if start > stop:
        return []
    out = []
    if binary:
        x = start
        while x <= stop:
            out.append(x)
            x *= 2
    else:
        dec = start
        while dec <= stop:
            for m in (1, 2, 5):
                if dec * m <= stop:
                    out.append(dec * m)
            dec *= 10
    return out


def part_prefseq(ctx):
    from cooler._reduce import preferred_sequence
    thorough = ctx.tier == "thorough"
    starts = range(1, 21 if thorough else 13)
    stops = list(range(0, 401 if thorough else 251))
    exprs = []
    keys = []
    for st in starts:
        for binary in (True, False):
            exprs.append(f"map (fun s => preferred_sequence {C.z(st)} s {C.b(binary)}) {C.zl(stops)}")
            keys.append((st, binary))
    model = C.coq_eval(HDR, exprs, tmpdir=ctx.tmp / "pref")
    n = 0
    for (st, binary), mo in zip(keys, model):
        for stop, m in zip(stops, mo):
            n += 1
            got = [int(x) for x in preferred_sequence(st, stop, "binary" if binary else "nice")]
            case = {"fn": "preferred_sequence", "start": st, "stop": stop, "style": "binary" if binary else "nice"}
            if got != list(m):
                ctx.compare("preferred_sequence", case, got, list(m))
            if got != ref_pref(st, stop, binary):
                ctx.fail(case, {"got": got, "expected": ref_pref(st, stop, binary)}, None)
    ctx.count(n, nontrivial_keys=[f"pref{st}" for st in starts], kind="preferred_sequence")
    return n


# ------------------------------------------------------------------ 3. zoomify_cooler
def fixed_blocks(sizes, b):
    blocks = []
    for ci, L in enumerate(sizes):
        blk, s_ = [], 0
        while s_ < L:
            blk.append((ci, s_, min(s_ + b, L)))
            s_ += b
        blocks.append(blk)
    return blocks


def make_base(path, blocks, pixels, symmetric, weight=False):
    w = None
    if weight:
        n = sum(len(b) for b in blocks)
        w = [0.5 + 0.25 * i for i in range(n)]
    G.make_cooler(path, blocks, pixels, symmetric, bin_weight=w)
    return w


def level_obs(uri):
    """canonical observable of one level incl. extra bin columns and the attributes that must be copied"""
    import cooler
    r = G.read_cooler(uri)
    clr = cooler.Cooler(str(uri))
    b = clr.bins()[:]
    r["bincols"] = [c for c in b.columns]
    r["weight"] = [float(x) for x in b["weight"].values] if "weight" in b.columns else None
    return r


CONTAINERS = ("tuple", "ndarray-int64", "ndarray-int32", "set", "range", "map", "generator", "pandas-Index")


def as_container(kind, res):
    """the `resolutions` argument in the type named by kind (same members as the list)"""
    res = [int(r) for r in res]
    if kind == "list":
        return list(res)
    if kind == "tuple":
        return tuple(res)
    if kind == "ndarray-int64":
        return np.array(res, dtype=np.int64)
    if kind == "ndarray-int32":
        return np.array(res, dtype=np.int32)
    if kind == "set":
        return set(res)
    if kind == "range":
        step = res[1] - res[0]
        assert all(b - a == step for a, b in zip(res[:-1], res[1:])) and step > 0
        return range(res[0], res[-1] + 1, step)
    if kind == "map":
        return map(int, [str(r) for r in res])
    if kind == "generator":
        return (r for r in res)
    if kind == "pandas-Index":
        return pd.Index(res)
    raise ValueError(kind)


def zoom_run(tmpdir, tag, case):
    """returns (status, result) with result = {"levels": {r: obs}, "listing": [...], "multires": bool}"""
    import cooler
    from cooler import fileops
    out = tmpdir / f"{tag}.mcool"
    paths = []
    for bi, base in enumerate(case["bases"]):
        p = tmpdir / f"{tag}_b{bi}.cool"
        blocks = [[tuple(x) for x in blk] for blk in base["blocks"]]
        make_base(p, blocks, base["pixels"], case["symmetric"], weight=base.get("weight", False))
        paths.append(str(p))

    def go():
        if out.exists():
            os.remove(out)
        if case.get("via") == "cli":     # first base positional, the others through -i / --base-uri
            from cooler.cli import cli
            from click.testing import CliRunner
            args = ["zoomify", "-o", str(out), "-c", str(case["chunksize"]), "-r", ",".join(str(r) for r in case["resolutions"])]
            for p in paths[1:]:
                args += ["--base-uri", p]
            r = CliRunner().invoke(cli, args + [paths[0]])
            if r.exit_code != 0:
                if isinstance(r.exception, ValueError):
                    raise r.exception
                raise RuntimeError(f"exit {r.exit_code}: {r.exception!r}")
        else:
            cooler.zoomify_cooler(paths if len(paths) > 1 or case.get("aslist") else paths[0], str(out),
                                  as_container(case.get("container", "list"), case["resolutions"]),
                                  chunksize=case["chunksize"], nproc=case.get("nproc", 1))
        listing = sorted(fileops.list_coolers(str(out)))
        levels = {}
        for g in listing:
            levels[g] = level_obs(f"{out}::{g}")
        import h5py
        with h5py.File(str(out), "r") as f:
            fmt = f.attrs.get("format")
            fmt = fmt.decode() if isinstance(fmt, bytes) else fmt
        return {"listing": listing, "levels": levels, "multires": bool(fileops.is_multires_file(str(out))), "format": str(fmt)}
    st, res = G.guarded(go, 120)
    srcs = None
    if st == "ok":
        srcs = [level_obs(p) for p in paths]
    for p in paths + [str(out)]:
        if os.path.exists(p):
            os.remove(p)
    return st, res, srcs


def base_res(base):
    """bin size reported for a base: b for a fixed table, 1 for a variable one (zoomify's convention)"""
    return base["res"]


def zoom_oracle(case, st, res, srcs):
    """None or a dict describing the violation (decided from the inputs only)"""
    bases = case["bases"]
    bres = {}
    for base in bases:                      # a later base with the same bin size replaces an earlier one
        bres[base_res(base)] = base
    targets = list(case["resolutions"])
    underivable = [r for r in targets if all(r % b for b in bres)]
    if underivable:
        if st != "ValueError":
            return {"what": "non-derivable resolutions must be refused", "underivable": underivable, "status": st}
        return None
    if st != "ok":
        return {"what": "zoomify failed on derivable targets", "status": st, "type": res}
    want = sorted(set(targets) | set(bres))
    exp_listing = sorted(f"/resolutions/{r}" for r in want)
    if res["listing"] != exp_listing:
        return {"what": "listing", "got": res["listing"], "expected": exp_listing}
    if not res["multires"] or res["format"] != "HDF5::MCOOL":
        return {"what": "file not recognised as multi-resolution", "multires": res["multires"], "format": res["format"]}
    src_of = {}
    for base, so in zip(bases, srcs):      # several sources may share a bin size: a copy of any of them is accepted
        src_of.setdefault(base_res(base), []).append(so)
    keys = ("bins", "pixels", "nnz", "sum", "chromsizes", "names", "binsize", "mode", "b1off", "choff", "bincols", "weight", "bintype", "attrs", "matrix")
    for r in want:
        lv = res["levels"][f"/resolutions/{r}"]
        if r in bres:
            diffs = []
            for so in src_of[r]:
                bad_keys = [k_ for k_ in keys if lv[k_] != so[k_]]
                if not bad_keys:
                    diffs = None
                    break
                diffs.append(bad_keys)
            if diffs is not None:
                k0 = diffs[-1][0]
                so = src_of[r][-1]
                return {"what": f"base level {r} is not a faithful copy of its source ({k0})", "got": lv[k0] if not isinstance(lv[k0], list) else lv[k0][:20],
                        "expected": so[k0] if not isinstance(so[k0], list) else so[k0][:20]}
        else:
            ok = False
            cands = []
            for base in bases:
                b = base_res(base)
                if r % b == 0:
                    blocks = [[tuple(x) for x in blk] for blk in base["blocks"]]
                    ebins, epx = G.oracle_coarsen(blocks, base["pixels"], r // b)
                    cands.append(b)
                    if lv["bins"] == ebins and lv["pixels"] == epx and lv["sum"] == sum(p[2] for p in base["pixels"]) and lv["nnz"] == len(epx):
                        ok = True
                        ok_exp = (ebins, epx, sum(p[2] for p in base["pixels"]))
                        break
            if not ok:
                return {"what": f"level {r} is not the direct coarsening of any base it is a multiple of", "bases_tried": cands,
                        "pixels": lv["pixels"][:30], "bins": lv["bins"][:20]}
            if lv["mode"] != ("symmetric-upper" if case["symmetric"] else "square"):
                return {"what": f"level {r} storage mode", "got": lv["mode"]}
            sem = G.semantics_bad(lv, ok_exp[0], ok_exp[1], case["symmetric"], ok_exp[2])
            if sem:
                return dict(sem, level=r)
    return None


def zoom_model_expr(case):
    items = []
    for base in case["bases"]:
        blocks = [[tuple(x) for x in blk] for blk in base["blocks"]]
        c = C.tup(C.tup(G.coq_bins(G.flat_of(blocks)), C.zl(G.sizes_of(blocks))), G.coq_pixels(base["pixels"]))
        items.append(C.tup(C.z(base_res(base)), c))
    return (f"(match zoomify_cooler {C.lst(items)} {C.zl(case['resolutions'])} {C.z(case['chunksize'])} {C.z(case.get('nproc', 1))} with "
            f"| None => None | Some lv => Some (map (fun rc => (fst rc, c_bins (snd rc), c_px (snd rc))) lv) end)")


def random_base(rng, sizes, b, symmetric, weight=False, pattern=None):
    blocks = fixed_blocks(sizes, b)
    n = sum(len(x) for x in blocks)
    px = [list(p) for p in G.random_pixels(rng, n, symmetric, pattern or rng.choice(["dense", "sparse", "band", "emptyrows"]))]
    return {"res": b, "blocks": [[list(x) for x in blk] for blk in blocks], "pixels": px, "weight": weight}


def part_zoom(ctx):
    thorough = ctx.tier == "thorough"
    rng = ctx.rng
    tmpdir = ctx.tmp / "zoom"
    tmpdir.mkdir(exist_ok=True)
    cases = []
    sizes = [130, 47, 10]          # 13 + 5 + 1 bins at 10 bp; a chromosome shorter than most factors
    mults = [1, 2, 3, 4, 6, 8, 12]
    subsets = [[m for i, m in enumerate(mults) if mask >> i & 1] for mask in range(1, 1 << len(mults))]
    if not thorough:
        corpus_subsets = [[2, 3, 6], [4, 8, 12], [1, 2, 3, 4, 6, 8, 12], [12], [6, 12], [3, 4], [8], [2, 4, 8]]
        subsets = corpus_subsets + rng.sample([s_ for s_ in subsets if s_ not in corpus_subsets], 32)
    baseA = random_base(rng, sizes, 10, True, weight=True, pattern="dense")
    for ms in subsets:
        res = [10 * m for m in ms]
        rng.shuffle(res)
        cases.append({"fn": "zoomify_cooler", "symmetric": True, "bases": [baseA], "resolutions": res, "chunksize": rng.choice([1, 7, 1000]), "note": "one base"})
    # square storage, other chromsizes
    baseS = random_base(rng, [55, 20], 5, False)
    for ms in ([2, 3, 6], [4, 12], [2, 4, 8], [3]):
        cases.append({"fn": "zoomify_cooler", "symmetric": False, "bases": [baseS], "resolutions": [5 * m for m in ms], "chunksize": rng.choice([1, 7, 1000]), "note": "square"})
    # two bases: D3 (both survive), D17 (base 20 is a multiple of base 10: copied, with its own data and weight column, never re-derived)
    b10 = random_base(rng, sizes, 10, True, weight=False, pattern="sparse")
    b20 = random_base(rng, sizes, 20, True, weight=True, pattern="dense")
    b15 = random_base(rng, sizes, 15, True, weight=True, pattern="band")
    b30 = random_base(rng, sizes, 30, True, pattern="dense")
    two = [
        ([b10, b15], [30, 60], "D3: two bases 10,15"),
        ([b10, b15], [10, 15], "D3: only the bases"),
        ([b10, b20], [40], "D17: bases 10,20 -> 40 from the copied 20"),
        ([b10, b20], [80, 30, 40], "D17 + level 30 from 10"),
        ([b20, b10], [20, 60, 120], "bases given in descending order"),
        ([b20, b30], [60, 120, 90], "bases 20,30"),
        ([b15, b20], [60, 45, 40], "bases 15,20 (coprime-ish)"),
        ([b10, dict(b10, pixels=b20["pixels"][:0] + [[0, 0, 7]])], [20], "two bases with the same bin size: the later one wins"),
        # refusals
        ([b20, b30], [10], "refuse: 10 below every base"),
        ([b20, b30], [60, 50], "refuse: 50"),
        ([b10], [25, 20], "refuse: 25 over base 10"),
        ([b10, b15], [20, 30, 35], "refuse: 35"),
    ]
    for bases, res, note in two:
        cases.append({"fn": "zoomify_cooler", "symmetric": True, "bases": bases, "resolutions": res, "chunksize": rng.choice([1, 7, 1000]), "note": note, "aslist": True})
    # variable-bin base: resolution 1
    vblocks = blocks_from_widths([[3, 8, 4, 6, 9, 2, 2], [5, 1, 7]])
    nv = sum(len(x) for x in vblocks)
    bv = {"res": 1, "blocks": [[list(x) for x in blk] for blk in vblocks], "pixels": [list(p) for p in G.random_pixels(rng, nv, True, "dense")], "weight": True}
    for res in ([2, 4], [2, 3, 6], [1, 5], [6]):
        cases.append({"fn": "zoomify_cooler", "symmetric": True, "bases": [bv], "resolutions": res, "chunksize": rng.choice([1, 7, 1000]), "note": "variable-bin base (resolution 1)"})
    # D1 shape: longer last bins, the table is VARIABLE (resolution 1) although the non-last widths agree
    dblocks = blocks_from_widths([[10, 10, 15], [10, 23], [10, 10]])
    nd = sum(len(x) for x in dblocks)
    bd = {"res": 1, "blocks": [[list(x) for x in blk] for blk in dblocks], "pixels": [list(p) for p in G.random_pixels(rng, nd, True, "dense")], "weight": False}
    for res in ([2], [3, 2]):
        cases.append({"fn": "zoomify_cooler", "symmetric": True, "bases": [bd], "resolutions": res, "chunksize": rng.choice([1, 7, 1000]), "note": "D1: variable base with longer last bins"})
    # the type of the `resolutions` argument at the API boundary: same members, other containers / iterators
    for ci_, kind in enumerate(CONTAINERS):
        res = [20, 40, 60, 80] if kind == "range" else [[40, 20, 60], [30, 60, 120], [20, 80, 40, 120]][ci_ % 3]
        cases.append({"fn": "zoomify_cooler", "symmetric": True, "bases": [baseA], "resolutions": res, "chunksize": rng.choice([1, 7, 1000]),
                      "note": "container:" + kind, "container": kind})
    # nproc = 2
    for ms in ([2, 4, 8], [2, 3, 6, 12]):
        cases.append({"fn": "zoomify_cooler", "symmetric": True, "bases": [baseA], "resolutions": [10 * m for m in ms], "chunksize": 1, "nproc": 2, "note": "nproc=2"})
    if thorough:
        for _ in range(25):
            sz = [rng.randint(5, 90) for _ in range(rng.randint(1, 3))]
            b = rng.choice([2, 5, 10])
            symm = rng.random() < 0.6
            base = random_base(rng, sz, b, symm, weight=rng.random() < 0.5)
            res = [b * m for m in rng.sample(mults + [5, 7, 9], rng.randint(1, 5))]
            cases.append({"fn": "zoomify_cooler", "symmetric": symm, "bases": [base], "resolutions": res, "chunksize": rng.choice([1, 2, 7, 1000]), "note": "random"})
    exprs = [zoom_model_expr(c) for c in cases]
    model = C.coq_eval(HDR, exprs, tmpdir=ctx.tmp / "zoomv")
    for i, (case, mo) in enumerate(zip(cases, model)):
        res_sorted = sorted(set(case["resolutions"]))
        nontriv = len(case["bases"]) > 1 or "refuse" in case["note"] or len(res_sorted) >= 2
        ctx.case(case, nontrivial=nontriv, kind="zoomify:" + case["note"].split(":")[0].split(" ")[0])
        st, res, srcs = zoom_run(tmpdir, f"z{i}", case)
        # correspondence
        if mo is None:
            ctx.compare("zoomify_cooler refusal", case, st, "ValueError")
        else:
            mlv = {}
            for r, bins_, px_ in mo[1]:
                mlv.setdefault(r, ([list(x) for x in bins_], [list(x) for x in px_]))   # first = most recently written
            if st != "ok":
                ctx.compare("zoomify_cooler", case, st, "ok")
            else:
                ctx.compare("zoomify levels", case, res["listing"], sorted(f"/resolutions/{r}" for r in mlv))
                for r, (mb, mp) in sorted(mlv.items()):
                    lv = res["levels"].get(f"/resolutions/{r}")
                    if lv is not None:
                        ctx.compare(f"zoomify level {r} bins", case, lv["bins"], mb)
                        ctx.compare(f"zoomify level {r} pixels", case, lv["pixels"], mp)
        bad = zoom_oracle(case, st, res, srcs)
        if bad:
            ctx.fail(case, bad, None)
    return len(cases)


# ------------------- 3b. value columns and requested aggregations travel through the levels (D20, fixed)
def cols_run(tmpdir, tag, case):
    """zoomify (API or CLI) with columns= / agg= ; returns per level the value columns present and the rows"""
    import cooler
    base = tmpdir / f"{tag}.cool"
    out = tmpdir / f"{tag}.mcool"
    blocks = fixed_blocks(case["sizes"], case["binsize"])
    cols_req = list(case["columns"])
    agg = dict(case["agg"])
    has_w = case.get("extra") is not None

    def go():
        G.make_cooler(base, blocks, case["pixels"], case.get("symmetric", True), extra=case.get("extra"))
        if out.exists():
            os.remove(out)
        if case.get("via") == "cli":
            from cooler.cli import cli
            from click.testing import CliRunner
            args = ["zoomify", "-o", str(out), "-c", str(case["chunksize"]), "-r", ",".join(str(r) for r in case["resolutions"])]
            for c in cols_req:
                args += ["--field", c + (":agg=" + agg[c] if c in agg else "")]
            args.append(str(base))
            r = CliRunner().invoke(cli, args)
            if r.exit_code != 0:
                raise RuntimeError(f"exit {r.exit_code}: {r.exception!r}")
        else:
            cooler.zoomify_cooler(str(base), str(out), list(case["resolutions"]), chunksize=case["chunksize"],
                                  nproc=case.get("nproc", 1), columns=cols_req, agg=agg or None)
        levels = {}
        for r in sorted(set(case["resolutions"]) | {case["binsize"]}):
            p = cooler.Cooler(f"{out}::resolutions/{r}").pixels()[:]
            cols = [c for c in p.columns if c not in ("bin1_id", "bin2_id")]
            levels[r] = (cols, [[int(a), int(b)] for a, b in zip(p["bin1_id"].values, p["bin2_id"].values)],
                         {c: [int(v) for v in p[c].values] for c in cols})
        return levels
    st, res = G.guarded(go, 180)
    for p in (base, out):
        if p.exists():
            os.remove(p)
    return st, res


def cols_oracle(case, st, res):
    """every requested value column of every DERIVED level = the requested aggregate (sum unless said
    otherwise) of the BASE pixels of the block, computed here from the input; only aggregations that
    compose along a chain are used (sum, max, min), so the chain of predecessors cannot matter"""
    if st != "ok":
        return {"what": "zoomify with columns=/agg= failed", "status": st, "type": res}
    blocks = fixed_blocks(case["sizes"], case["binsize"])
    extra = case.get("extra")
    px4 = [[p[0], p[1], p[2], (extra[i] if extra is not None else 0)] for i, p in enumerate(case["pixels"])]
    colidx = {"count": 2, "w": 3}
    for r, (cols, keys, vals) in sorted(res.items()):
        k = r // case["binsize"]
        for c in case["columns"]:
            if c not in cols:
                return {"what": f"level {r}: requested value column '{c}' missing", "got": cols}
            f = "sum" if k == 1 else case["agg"].get(c, "sum")
            exp = [[p[0], p[1], p[colidx[c]]] for p in px4] if k == 1 else G.oracle_pixels(blocks, px4, k, f, colidx[c])
            got = [k_ + [v] for k_, v in zip(keys, vals[c])]
            if got != exp:
                return {"what": f"level {r}: column {c} is not the {f} over the base block", "got": got[:20], "expected": exp[:20]}
    return None


COLS_CORPUS = [
    # D20: extra column kept on derived levels
    {"sizes": [40], "binsize": 10, "pixels": [[0, 0, 1], [0, 1, 2], [2, 3, 4]], "extra": [5, 7, 9], "columns": ["count", "w"],
     "agg": {}, "resolutions": [10, 20], "chunksize": 10},
    # requested aggregation on count, chain 10 -> 20 -> 40 -> 80: max of max = max over the base block
    {"sizes": [130, 47], "binsize": 10, "pixels": "dense", "extra": None, "columns": ["count"],
     "agg": {"count": "max"}, "resolutions": [20, 40, 80], "chunksize": 7},
    {"sizes": [130, 47], "binsize": 10, "pixels": "sparse", "extra": None, "columns": ["count"],
     "agg": {"count": "min"}, "resolutions": [40, 20], "chunksize": 1},
    # aggregation on the extra int column only, count stays a sum; mixed predecessors 20,30 -> 60
    {"sizes": [90, 25], "binsize": 10, "pixels": "dense", "extra": "rand", "columns": ["count", "w"],
     "agg": {"w": "min"}, "resolutions": [20, 30, 60], "chunksize": 1000},
    {"sizes": [90, 25], "binsize": 10, "pixels": "band", "extra": "rand", "columns": ["count", "w"],
     "agg": {"w": "max", "count": "max"}, "resolutions": [20, 40], "chunksize": 2, "symmetric": False},
    {"sizes": [64], "binsize": 8, "pixels": "dense", "extra": "rand", "columns": ["w"],
     "agg": {"w": "max"}, "resolutions": [16, 32], "chunksize": 5},
    # CLI:  --field count:agg=max   and   --field count --field w:agg=min
    {"sizes": [130, 47], "binsize": 10, "pixels": "dense", "extra": None, "columns": ["count"],
     "agg": {"count": "max"}, "resolutions": [20, 40], "chunksize": 7, "via": "cli"},
    {"sizes": [90, 25], "binsize": 10, "pixels": "sparse", "extra": "rand", "columns": ["count", "w"],
     "agg": {"w": "min"}, "resolutions": [20, 40], "chunksize": 1000, "via": "cli"},
]


def part_cols(ctx):
    rng = ctx.rng
    tmpdir = ctx.tmp / "cols"
    tmpdir.mkdir(exist_ok=True)
    specs = [dict(c) for c in COLS_CORPUS]
    for _ in range(10 if ctx.tier == "thorough" else 2):
        has_w = rng.random() < 0.6
        cols = ["count", "w"] if has_w else ["count"]
        agg = {c: rng.choice(["max", "min", "sum"]) for c in cols if rng.random() < 0.8}
        specs.append({"sizes": [rng.randint(20, 90) for _ in range(rng.randint(1, 2))], "binsize": 10,
                      "pixels": rng.choice(["dense", "sparse", "band"]), "extra": "rand" if has_w else None, "columns": cols, "agg": agg,
                      "resolutions": rng.choice([[20, 40], [30, 20, 60], [40, 80], [20, 40, 80]]), "chunksize": rng.choice([1, 7, 1000]),
                      "symmetric": rng.random() < 0.7, "via": rng.choice(["api", "api", "cli"])})
    cases = []
    for sp in specs:
        case = dict(sp)
        case["fn"] = "zoomify(columns=,agg=)"
        symm = case.get("symmetric", True)
        if isinstance(case["pixels"], str):
            n = sum(len(b) for b in fixed_blocks(case["sizes"], case["binsize"]))
            case["pixels"] = [list(p) for p in G.random_pixels(rng, n, symm, case["pixels"], maxcount=30)]
        if case["extra"] == "rand":
            case["extra"] = [rng.randint(-9, 40) for _ in case["pixels"]]
        cases.append(case)
    # the model with the requested aggregation, column by column:  zoomify_cooler_g (agg_of op)
    exprs, owners = [], []
    for i, case in enumerate(cases):
        blocks = fixed_blocks(case["sizes"], case["binsize"])
        t, sz = G.coq_bins(G.flat_of(blocks)), C.zl(G.sizes_of(blocks))
        for c in case["columns"]:
            vals_ = [p[2] for p in case["pixels"]] if c == "count" else list(case["extra"])
            px = G.coq_pixels([[p[0], p[1], v] for p, v in zip(case["pixels"], vals_)])
            base = C.tup(C.z(case["binsize"]), C.tup(C.tup(t, sz), px))
            exprs.append(f"(match zoomify_cooler_g {G.coq_agg(case['agg'].get(c, 'sum'))} [{base}] {C.zl(case['resolutions'])} {C.z(case['chunksize'])} 1 with "
                         f"| None => None | Some lv => Some (map (fun rc => (fst rc, snd (snd rc))) lv) end)")
            owners.append((i, c))
    model = C.coq_eval(HDR, exprs, tmpdir=ctx.tmp / "colsv")
    mlev = {}
    for (i, c), mo in zip(owners, model):
        d = {}
        if mo is not None:
            for r, px_ in mo[1]:
                d.setdefault(r, [list(p) for p in px_])
        mlev[(i, c)] = d
    for i, case in enumerate(cases):
        nontriv = any(v != "sum" for v in case["agg"].values()) or case["extra"] is not None
        ctx.case(case, nontrivial=nontriv, kind="zoomify:agg:" + (case.get("via") or "api") + ":" + "+".join(f"{c}={case['agg'].get(c, 'sum')}" for c in case["columns"]))
        st, res = cols_run(tmpdir, f"w{i}", case)
        bad = cols_oracle(case, st, res)
        if bad:
            ctx.fail(case, bad, None)
        if st == "ok":
            for c in case["columns"]:
                for r, (cols, keys, vals) in sorted(res.items()):
                    if c in cols:
                        ctx.compare(f"zoomify level {r} column {c} (model with the requested aggregation)", case,
                                    [k_ + [v] for k_, v in zip(keys, vals[c])], mlev[(i, c)].get(r))
    return len(cases)


# ------------------------- 3c. several bases with different count dtypes, dtypes left to be inferred
def dtype_run(tmpdir, tag, case):
    import cooler
    import h5py
    out = tmpdir / f"{tag}.mcool"
    paths = []
    for bi, base in enumerate(case["bases"]):
        p = tmpdir / f"{tag}_b{bi}.cool"
        G.make_cooler(p, fixed_blocks(case["sizes"], base["res"]), base["pixels"], True, count_dtype=base["dtype"])
        paths.append(str(p))

    def go():
        if out.exists():
            os.remove(out)
        cooler.zoomify_cooler(paths, str(out), list(case["resolutions"]), chunksize=case["chunksize"])
        levels = {}
        with h5py.File(str(out), "r") as f:
            for r in f["resolutions"].keys():
                g = f["resolutions"][r]["pixels"]
                dt = g["count"].dtype
                conv = float if dt.kind == "f" else int
                levels[int(r)] = (str(np.dtype(dt).name),
                                  [[int(a), int(b), conv(v)] for a, b, v in zip(g["bin1_id"][:], g["bin2_id"][:], g["count"][:])])
        return levels
    st, res = G.guarded(go, 120)
    for p in paths + [str(out)]:
        if os.path.exists(p):
            os.remove(p)
    return st, res


def dtype_oracle(case, st, res):
    """every level has the value dtype AND the values of the direct coarsening of (one of) its own base(s);
    a base level is a copy.  Float values are multiples of 1/4, so every sum is exact in binary64."""
    if st != "ok":
        return {"what": "zoomify of bases with different count dtypes failed", "status": st, "type": res}
    bases = case["bases"]
    want = sorted(set(case["resolutions"]) | {b["res"] for b in bases})
    if sorted(res) != want:
        return {"what": "levels", "got": sorted(res), "expected": want}
    for r in want:
        dt, px = res[r]
        tried = []
        for b in bases:
            if r % b["res"]:
                continue
            blocks = fixed_blocks(case["sizes"], b["res"])
            k = r // b["res"]
            exp = [list(p) for p in b["pixels"]] if k == 1 else G.oracle_pixels(blocks, b["pixels"], k)
            conv = float if np.dtype(b["dtype"]).kind == "f" else int
            exp = [[p[0], p[1], conv(p[2])] for p in exp]
            tried.append({"base": b["res"], "dtype": b["dtype"], "dtype_ok": dt == b["dtype"], "values_ok": px == exp})
            if dt == b["dtype"] and px == exp and all(type(x[2]) is type(y[2]) for x, y in zip(px, exp)):
                break
        else:
            return {"what": f"level {r} (stored dtype {dt}) has neither the dtype+values of the direct coarsening of any base it is a multiple of",
                    "tried": tried, "pixels": px[:12]}
    return None


def part_dtypes(ctx):
    rng = ctx.rng
    tmpdir = ctx.tmp / "dtypes"
    tmpdir.mkdir(exist_ok=True)
    sizes = [120, 45]

    def mk(res, dtype, pattern):
        n = sum(len(b) for b in fixed_blocks(sizes, res))
        px = G.random_pixels(rng, n, True, pattern, maxcount=40)
        if np.dtype(dtype).kind == "f":
            px = [(i, j, v / 4.0 + 0.25) for (i, j, v) in px]       # fractional, exactly representable
        return {"res": res, "dtype": dtype, "pixels": [list(p) for p in px]}
    specs = [
        ([mk(10, "int32", "dense"), mk(15, "float64", "dense")], [20, 30]),        # first derived level int32, then a float64 one
        ([mk(15, "float64", "band"), mk(10, "int32", "dense")], [30, 20]),         # same, bases and targets in the other order
        ([mk(10, "float64", "dense"), mk(15, "int32", "dense")], [20, 45]),        # first derived level float64, then an int32 one
        ([mk(10, "int64", "sparse"), mk(15, "int32", "dense")], [30, 20, 60]),     # 60 <- 30 <- base 15 (int32), 20 <- base 10 (int64)
        ([mk(20, "float64", "dense"), mk(30, "int32", "dense")], [40, 60, 120]),
        ([mk(15, "int64", "dense"), mk(10, "float64", "sparse")], [45, 40]),
    ]
    if ctx.tier == "thorough":
        for _ in range(8):
            d1, d2 = rng.sample(["int32", "int64", "float64"], 2)
            r1, r2 = rng.choice([(10, 15), (15, 10), (20, 30), (10, 25)])
            specs.append(([mk(r1, d1, "dense"), mk(r2, d2, "dense")], rng.sample([2 * r1, 2 * r2, 3 * r1, 3 * r2], 3)))
    cases = [{"fn": "zoomify_cooler(bases with different count dtypes)", "sizes": sizes, "bases": bases, "resolutions": res,
              "chunksize": rng.choice([1, 7, 1000])} for bases, res in specs]
    for i, case in enumerate(cases):
        ctx.case(case, nontrivial=True, kind="zoomify:dtypes:" + "+".join(b["dtype"] for b in case["bases"]))
        st, res = dtype_run(tmpdir, f"d{i}", case)
        bad = dtype_oracle(case, st, res)
        if bad:
            ctx.fail(case, bad, None)
    return len(cases)


# ---------------------------- 3d. audit of the public parameters (glue), fixed deterministic scenarios
Q_SIZES = [10, 130, 47]                # a single-bin chromosome first
Q_PX = [[0, 0, 1], [0, 1, 2], [1, 1, 3], [1, 4, 1], [2, 3, 5], [3, 3, 1], [3, 7, 2], [6, 7, 4], [7, 7, 9], [13, 18, 2], [18, 18, 1]]


def _q_level_bad(label, uri, k, px=None, binsize=10):
    blocks = fixed_blocks(Q_SIZES, binsize)
    px = Q_PX if px is None else px
    r = G.read_cooler(uri)
    eb, ep = (G.flat_of(blocks), px) if k == 1 else G.oracle_coarsen(blocks, px, k)
    if r["bins"] != [list(x) for x in eb] or r["pixels"] != [list(p) for p in ep]:
        return {"what": label, "uri": str(uri), "k": k, "pixels": r["pixels"][:20], "expected": [list(p) for p in ep][:20]}
    return None


def _q_listing_bad(label, path, want):
    from cooler import fileops
    got = sorted(fileops.list_coolers(str(path)), key=lambda g: int(g.rsplit("/", 1)[1]))
    exp = [f"/resolutions/{r}" for r in sorted(want)]
    if got != exp or not fileops.is_multires_file(str(path)):
        return {"what": label + ": levels", "got": got, "expected": exp}
    return None


def sq_base_uri_and_rerun(d):
    import cooler
    a = d / "a.cool"
    G.make_cooler(a, fixed_blocks(Q_SIZES, 10), Q_PX, True)
    m1 = d / "m1.mcool"
    cooler.zoomify_cooler(str(a), str(m1), [20], chunksize=5)
    m2 = d / "m2.mcool"
    cooler.zoomify_cooler(f"{m1}::resolutions/20", str(m2), [80, 40], chunksize=3)     # base = URI into a multi-collection file
    bad = _q_listing_bad("base given as URI into an mcool", m2, [20, 40, 80])
    for r in (20, 40, 80):
        bad = bad or _q_level_bad(f"level {r} from a base inside an mcool", f"{m2}::resolutions/{r}", r // 10)
    cooler.zoomify_cooler(str(a), str(m2), [30], chunksize=3)                           # existing output file is replaced
    bad = bad or _q_listing_bad("re-run onto an existing mcool", m2, [10, 30]) or _q_level_bad("level 30 after re-run", f"{m2}::resolutions/30", 3)
    return bad


def sq_duplicates_and_dtypes(d):
    import cooler
    a = d / "a.cool"
    G.make_cooler(a, fixed_blocks(Q_SIZES, 10), Q_PX, True)
    m = d / "m.mcool"
    cooler.zoomify_cooler(str(a), str(m), [20, 20, 40, 10, 10], chunksize=3)            # duplicates, unsorted, containing the base
    bad = _q_listing_bad("resolutions with duplicates and the base", m, [10, 20, 40])
    for r in (10, 20, 40):
        bad = bad or _q_level_bad(f"level {r} (duplicates)", f"{m}::resolutions/{r}", r // 10)
    m = d / "t.mcool"
    cooler.zoomify_cooler([str(a)], str(m), [40, 20], chunksize=2, dtypes={"count": np.float64})
    for r in (10, 20, 40):
        bad = bad or _q_level_bad(f"level {r} (dtypes dict)", f"{m}::resolutions/{r}", r // 10)
    dts = {r: str(cooler.Cooler(f"{m}::resolutions/{r}").pixels().dtypes["count"]) for r in (10, 20, 40)}
    if not bad and dts != {10: "int32", 20: "float64", 40: "float64"}:      # the base is a copy, derived levels take the requested dtype
        bad = {"what": "dtypes={'count': float64}", "got": dts}
    return bad


def sq_cli_flags(d):
    from cooler.cli import cli
    from click.testing import CliRunner
    a = d / "a.cool"
    G.make_cooler(a, fixed_blocks(Q_SIZES, 10), Q_PX, True)
    r = CliRunner().invoke(cli, ["zoomify", "-r", "40,20", "-p", "2", "-c", "2", str(a)])          # default output name, -p, -c
    if r.exit_code != 0:
        return {"what": "cooler zoomify -p 2 (default output)", "exit": r.exit_code, "exception": repr(r.exception)}
    m = d / "a.mcool"
    if not m.exists():
        return {"what": "default output name a.cool -> a.mcool", "files": sorted(x.name for x in d.iterdir())}
    bad = _q_listing_bad("cooler zoomify default output", m, [10, 20, 40])
    for res in (20, 40):
        bad = bad or _q_level_bad(f"CLI level {res}", f"{m}::resolutions/{res}", res // 10)
    b = d / "b.cool"
    bpx = [[0, 0, 3], [1, 2, 4], [1, 9, 1], [10, 12, 2]]
    G.make_cooler(b, fixed_blocks(Q_SIZES, 15), bpx, True)
    m5 = d / "m5.mcool"
    r = CliRunner().invoke(cli, ["zoomify", "-r", "20,45", "-i", str(b), "-o", str(m5), str(a)])    # an additional base
    if r.exit_code != 0:
        return {"what": "cooler zoomify -i", "exit": r.exit_code, "exception": repr(r.exception)}
    bad = bad or _q_listing_bad("cooler zoomify -i", m5, [10, 15, 20, 45])
    bad = bad or _q_level_bad("level 20 from base 10", f"{m5}::resolutions/20", 2)
    bad = bad or _q_level_bad("level 45 from base 15", f"{m5}::resolutions/45", 3, px=bpx, binsize=15)
    bad = bad or _q_level_bad("base 15 copied", f"{m5}::resolutions/15", 1, px=bpx, binsize=15)
    return bad


def sq_empty_base(d):
    import cooler
    a = d / "e.cool"
    G.make_cooler(a, fixed_blocks(Q_SIZES, 10), [], True)
    m = d / "e.mcool"
    cooler.zoomify_cooler(str(a), str(m), [20, 40], chunksize=3)
    bad = _q_listing_bad("empty base", m, [10, 20, 40])
    for r in (10, 20, 40):
        bad = bad or _q_level_bad(f"level {r} of an empty base", f"{m}::resolutions/{r}", r // 10, px=[])
        if not bad and cooler.Cooler(f"{m}::resolutions/{r}").info["nnz"] != 0:
            bad = {"what": f"nnz of level {r} of an empty base"}
    return bad


def sq_history(d):
    """HISTORY in one process: the same base URI string and the same output path, the base file rewritten in
    between (re-binned coarser, other chromsizes, variable widths), the same dtypes/columns objects reused
    (regression input of D34) -- every level judged for the data stored NOW"""
    import copy
    import cooler
    import h5py
    a, m = d / "h.cool", d / "h.mcool"
    dtypes, columns = {}, ["count"]
    before = copy.deepcopy((dtypes, columns))
    plans = [
        (fixed_blocks([130, 47], 10), 10, "int32", [20, 40], 1, 1),
        (fixed_blocks([130, 47], 20), 20, "float64", [40, 80], 2, 1),                      # same genome coarser, float counts
        (fixed_blocks([60, 30, 25], 10), 10, "int64", [30, 20], 7, 2),                     # other chromsizes, nproc=2
        ([[tuple(x) for x in blk] for blk in blocks_from_widths([[3, 8, 4, 6, 9, 2, 2], [5, 1, 7]])], 1, "int32", [2, 4], 1, 1),   # variable bins
        (fixed_blocks([130, 47], 5), 5, "float64", [10, 20], 3, 1),                        # finer: more bins than ever before
    ]
    for step, (blocks, res0, cdt, targets, cs, nproc) in enumerate(plans):
        n = sum(len(b) for b in blocks)
        conv = float if cdt == "float64" else int
        px = [[i, j, conv((3 * i + j) % 7 * (0.25 if cdt == "float64" else 1) + 1)] for i in range(n) for j in range(i, min(n, i + 3))]
        G.make_cooler(a, blocks, px, True, count_dtype=cdt)
        cooler.zoomify_cooler(str(a), str(m), targets, chunksize=cs, nproc=nproc, dtypes=dtypes, columns=columns)
        if (dtypes, columns) != before:
            return {"what": "zoomify_cooler changed the caller's dtypes/columns objects", "step": step, "after": repr((dtypes, columns))}
        want = sorted(set(targets) | {res0})
        bad = _q_listing_bad(f"history step {step}", m, want)
        if bad:
            return bad
        with h5py.File(str(m), "r") as f:
            for r in want:
                g = f[f"resolutions/{r}/pixels"]
                dt = str(np.dtype(g["count"].dtype).name)
                cv = float if g["count"].dtype.kind == "f" else int
                got = [[int(x), int(y), cv(v)] for x, y, v in zip(g["bin1_id"][:], g["bin2_id"][:], g["count"][:])]
                exp = px if r == res0 else [[x, y, conv(v)] for x, y, v in G.oracle_pixels(blocks, px, r // res0)]
                if dt != cdt or got != exp:
                    return {"what": f"history step {step}: level {r} does not hold the block aggregation (dtype {cdt}) of the base stored now",
                            "stored_dtype": dt, "got": got[:10], "expected": exp[:10]}
    return None


def sq_legacy_attrs(d):
    """bases in legacy form (optional header attributes removed one at a time, format-version 2): every derived level
    follows the reader's documented defaults (missing storage-mode = symmetric-upper) in its attributes AND reads;
    the base level stays a copy of what was supplied"""
    import cooler
    blocks = fixed_blocks(Q_SIZES, 10)
    sq_px = sorted(Q_PX + [[4, 1, 2], [7, 0, 5], [18, 13, 3]])
    # ('format' is not removed here: a base without it is not a cooler for fileops.is_cooler, and the copied base level
    #  would then not be listed -- reported to the lead as an observation on tests/data/hg19.GM12878-MboI.matrix.2000kb.cool)
    plans = [(True, Q_PX, a_) for a_ in ("storage-mode", "bin-type", "sum", "nchroms", "format-version:2", "metadata")]
    plans += [(False, sq_px, a_) for a_ in ("bin-type", "sum", "format-version:2")]
    plans += [("tagged-square", Q_PX, "storage-mode")]      # upper-triangular data tagged square, tag removed -> symmetric-upper by default
    for symm, px, attr in plans:
        a, m = d / "lg.cool", d / "lg.mcool"
        G.make_cooler(a, blocks, px, symm is True)
        G.strip_attr(a, attr)
        src = G.read_cooler(a)
        cooler.zoomify_cooler(str(a), str(m), [40, 20], chunksize=3)
        want_symm = symm is not False
        bad = _q_listing_bad(f"legacy base without {attr}", m, [10, 20, 40])
        if bad:
            return bad
        for r in (20, 40):
            lv = G.read_cooler(f"{m}::resolutions/{r}")
            eb, ep = G.oracle_coarsen(blocks, px, r // 10)
            if lv["bins"] != eb or lv["pixels"] != ep:
                return {"what": f"level {r} from a base without '{attr}'", "pixels": lv["pixels"][:20], "expected": ep[:20]}
            sem = G.semantics_bad(lv, eb, ep, want_symm, sum(p[2] for p in px))
            if sem:
                return dict(sem, level=r, legacy=f"base without '{attr}'", data="symmetric" if want_symm else "square")
        b0 = G.read_cooler(f"{m}::resolutions/10")
        for k_ in ("bins", "pixels", "attrs", "matrix", "b1off", "choff"):
            if b0[k_] != src[k_]:
                return {"what": f"copied base level differs from the legacy source ({k_})", "got": str(b0[k_])[:200], "expected": str(src[k_])[:200]}
    return None


SCENARIOS = {"base URI into an mcool / re-run onto an existing file": sq_base_uri_and_rerun,
             "duplicate+unsorted resolutions / dtypes dict": sq_duplicates_and_dtypes,
             "CLI default output, -p, -c, -i": sq_cli_flags, "empty base cooler": sq_empty_base,
             "legacy / optional header attributes removed from the base": sq_legacy_attrs,
             "history: same base URI and output path, base rewritten, argument objects reused (D34)": sq_history}


def run_scenario(ctx_tmp, label, table):
    import pathlib
    import shutil
    import tempfile
    d = pathlib.Path(tempfile.mkdtemp(dir=str(ctx_tmp), prefix="sc_"))
    try:
        st, res = G.guarded(lambda: table[label](d), 180)
    finally:
        shutil.rmtree(d, ignore_errors=True)
    if st != "ok":
        return {"what": label, "exception": st, "type": res}
    return res


def part_params(ctx):
    for label in SCENARIOS:
        case = {"fn": "param-scenario", "label": label}
        ctx.case(case, nontrivial=True, kind="params")
        bad = run_scenario(ctx.tmp, label, SCENARIOS)
        if bad:
            ctx.fail(case, bad, None)
    return len(SCENARIOS)


# ------------- 3e. zoomify onto coarse bin sizes B = base*k incl. those whose reciprocal rounds down in binary64
def part_binsize_sweep(ctx):
    import cooler
    thorough = ctx.tier == "thorough"
    tmpdir = ctx.tmp / "bsweep"
    tmpdir.mkdir(exist_ok=True)
    plan = G.binsize_sweep_plan(ctx.rng, thorough, per_base=2)
    n, nbad = 0, 0
    for pi, (base, ks) in enumerate(plan):
        if base == 1:
            continue            # zoomify's resolution 1 is reserved for variable-bin bases; width 1 is swept by harness/c08.py
        bad_ks = [k for k in ks if G.reciprocal_rounds_down(base * k)]
        use = ks if thorough else (bad_ks + [k for k in ks if k not in bad_ks][:1])
        widths, pixels = G.binsize_sweep_cooler(base, ks)
        blocks = blocks_from_widths(widths)
        a, m = tmpdir / f"b{pi}.cool", tmpdir / f"b{pi}.mcool"
        G.make_cooler(a, blocks, pixels, True)
        case = {"fn": "zoomify_cooler (coarse bin size sweep)", "base": base, "ks": use, "widths": widths, "pixels": pixels, "chunksize": 1000}
        n += len(use)
        nbad += len([k for k in use if k in bad_ks])
        ctx.case(case, nontrivial=bool(bad_ks), kind="binsize-sweep")
        bad = binsize_sweep_bad(case, a, m)
        if bad:
            ctx.fail(case, bad, None)
        for p in (a, m):
            if p.exists():
                os.remove(p)
    ctx.extra["binsize_sweep_float_unfriendly"] = nbad
    if nbad < 10:
        ctx.broke(f"generator: only {nbad} coarse bin sizes with a down-rounding reciprocal in the sweep")
    return n


def binsize_sweep_bad(case, a, m):
    import cooler
    blocks = blocks_from_widths(case["widths"])
    base = case["base"]

    def go():
        cooler.zoomify_cooler(str(a), str(m), [base * k for k in case["ks"]], chunksize=case["chunksize"])
        return {k: G.read_cooler(f"{m}::resolutions/{base * k}") for k in case["ks"]}
    st, res = G.guarded(go, 120)
    if st != "ok":
        return {"what": "zoomify failed", "status": st, "type": res}
    for k in case["ks"]:
        eb, ep = G.oracle_coarsen(blocks, case["pixels"], k)
        if res[k]["bins"] != eb or res[k]["pixels"] != ep:
            return {"what": f"level {base * k} is not the block aggregation by {k} of the base", "coarse_binsize": base * k,
                    "pixels": res[k]["pixels"][:12], "expected": ep[:12]}
    return None


# -------------------------------------------------------------------------- 4. CLI
def ref_expand(spec, curres, maxres):
    """independent reading of the documented -r grammar (help text of `cooler zoomify`)"""
    out = []
    for tok in spec.split(","):
        t = tok.strip().lower()
        if t == "4dn":
            out += [1000, 2000] + ref_pref(5000, maxres, False)
        elif t in ("n", "b"):
            out += ref_pref(curres, maxres, t == "b")
        elif t.endswith("n") or t.endswith("b"):
            out += ref_pref(int(t[:-1]), maxres, t.endswith("b"))
        else:
            out.append(int(t))
    return out


def spec_items(spec):
    items = []
    for tok in spec.split(","):
        t = tok.strip().lower()
        if t == "4dn":
            items.append("Spec4DN")
        elif t == "n":
            items.append("SpecN")
        elif t == "b":
            items.append("SpecB")
        elif t.endswith("n"):
            items.append(f"(SpecIntN {C.z(int(t[:-1]))})")
        elif t.endswith("b"):
            items.append(f"(SpecIntB {C.z(int(t[:-1]))})")
        else:
            items.append(f"(SpecInt {C.z(int(t))})")
    return C.lst(items)


def cli_run(tmpdir, tag, case):
    import cooler
    from cooler import fileops
    from cooler.cli import cli
    from click.testing import CliRunner
    base = tmpdir / f"{tag}.cool"
    out = tmpdir / f"{tag}.mcool"
    blocks = fixed_blocks(case["sizes"], case["binsize"])
    G.make_cooler(base, blocks, case["pixels"], True)

    def go():
        args = ["zoomify", "-o", str(out), "-c", str(case["chunksize"])]
        if case["spec"] is not None:
            args += ["-r", case["spec"]]
        args.append(str(base))
        r = CliRunner().invoke(cli, args)
        if r.exit_code != 0:
            if isinstance(r.exception, ValueError):
                raise r.exception
            raise RuntimeError(f"exit {r.exit_code}: {r.exception!r}")
        listing = sorted(fileops.list_coolers(str(out)), key=lambda g: int(g.rsplit("/", 1)[1]))
        levels = {g: G.read_cooler(f"{out}::{g}") for g in listing}
        return {"listing": listing, "levels": levels, "multires": bool(fileops.is_multires_file(str(out)))}
    st, res = G.guarded(go, 240)
    for p in (base, out):
        if p.exists():
            os.remove(p)
    return st, res


def cli_oracle(case, st, res):
    b = case["binsize"]
    L = sum(case["sizes"])
    maxres = -(-L // 256)
    spec = "b" if case["spec"] is None else case["spec"]
    want = ref_expand(spec, b, maxres)
    underivable = [r for r in want if r % b]
    if underivable:
        return None if st == "ValueError" else {"what": "non-derivable resolutions must be refused", "underivable": underivable, "status": st}
    if st != "ok":
        return {"what": "cooler zoomify failed", "status": st, "type": res, "expected_resolutions": sorted(set(want) | {b})}
    exp = [f"/resolutions/{r}" for r in sorted(set(want) | {b})]
    if res["listing"] != exp or not res["multires"]:
        return {"what": "levels written by the CLI", "got": res["listing"], "expected": exp}
    blocks = fixed_blocks(case["sizes"], b)
    for r in sorted(set(want)):
        if r == b:
            continue
        lv = res["levels"][f"/resolutions/{r}"]
        ebins, epx = G.oracle_coarsen(blocks, case["pixels"], r // b)
        if lv["bins"] != ebins or lv["pixels"] != epx:
            return {"what": f"level {r} is not the direct coarsening of the base", "pixels": lv["pixels"][:20], "expected": epx[:20]}
    return None


def part_cli(ctx):
    thorough = ctx.tier == "thorough"
    rng = ctx.rng
    tmpdir = ctx.tmp / "cli"
    tmpdir.mkdir(exist_ok=True)
    # genome 51 199 bp at 10 bp: maxres = ceil(51199/256) = 200 (floor would give 199); genome 3 000 000 bp at 1000 bp: maxres = 11719
    small = {"sizes": [30000, 21199], "binsize": 10}
    big = {"sizes": [2_000_000, 1_000_000], "binsize": 1000}
    specs = [(small, "10b"), (small, "10B"), (small, "10N"), (small, "10n"), (small, "N"), (small, "b"), (small, None),
             (small, "20,40"), (small, " 20 , 40B"), (small, "50N,30"), (small, "20b,30"), (small, "15"), (small, "10,25n"),
             (big, "4DN"), (big, "4dn"), (big, "2000N"), (big, "1000B"), (big, "5000,4DN")]
    if not thorough:
        specs = specs[:3] + [specs[4], specs[6], specs[8], specs[9], specs[11], specs[13], specs[15]]
    # maps with fewer than 256 bins in total: maxres < base bin size, the CLI warns "Map is already < 256 x 256" and every
    # progression is empty -- but literal members of a spec (4DN = 1000,2000,5000N; plain integers) must still be produced
    # when they are multiples of the base, and a start that is not a multiple of the base must be refused, never ignored
    t1000 = {"sizes": [100000, 50000], "binsize": 1000}      # 150 bins, maxres 586
    t500 = {"sizes": [60000, 40000], "binsize": 500}         # 200 bins, maxres 391
    t250 = {"sizes": [30000, 20000], "binsize": 250}         # 200 bins, maxres 196
    w1000 = {"sizes": [150000, 140000], "binsize": 1000}     # 290 bins, maxres 1133: just above 256 bins, for contrast
    tiny = [(t1000, "4DN"), (t1000, "4dn"), (t1000, "1000,2000"), (t1000, "N"), (t1000, "B"), (t1000, None), (t1000, "2000,4DN"),
            (t1000, "2000N"), (t1000, "5000B"), (t1000, "250N"), (t1000, "3000,500N"),
            (t500, "4DN"), (t500, "250N"), (t500, "1000,2000"), (t500, "5000B,1500"), (t500, "500N"),
            (t250, "4DN"), (t250, "250N"), (t250, "500,1000"), (t250, "2000,4DN"),
            (w1000, "4DN"), (w1000, "1000N"), (w1000, "500N")]
    specs += tiny if thorough else [tiny[i] for i in (0, 2, 3, 6, 7, 9, 11, 12, 13, 16, 17, 20)]
    cases = []
    for g, spec in specs:
        n = sum(-(-L // g["binsize"]) for L in g["sizes"])
        cells = set()
        for _ in range(60):
            i = rng.randrange(n)
            j = min(n - 1, i + rng.choice([0, 0, 1, 2, 5, 17, 300]))
            cells.add((i, j))
        cells |= {(0, 0), (n - 1, n - 1), (0, n - 1)}
        pixels = [[i, j, rng.randint(1, 9)] for (i, j) in sorted(cells)]
        cases.append({"fn": "cooler zoomify (CLI)", "sizes": g["sizes"], "binsize": g["binsize"], "spec": spec, "pixels": pixels, "chunksize": rng.choice([7, 10 ** 7])})
    exprs = []
    for case in cases:
        L = sum(case["sizes"])
        spec = "b" if case["spec"] is None else case["spec"]
        exprs.append(f"expand_spec {C.z(case['binsize'])} (maxres_fixed {C.z(L)}) {spec_items(spec)}")
    model = C.coq_eval(HDR, exprs, tmpdir=ctx.tmp / "cliv")
    for i, (case, mo) in enumerate(zip(cases, model)):
        ctx.case(case, nontrivial=True, kind="cli")
        st, res = cli_run(tmpdir, f"k{i}", case)
        mres = sorted(set(mo) | {case["binsize"]})
        if any(r % case["binsize"] for r in mo):
            ctx.compare("cooler zoomify refusal", case, st, "ValueError")
        elif st != "ok":
            ctx.compare("cooler zoomify", case, st, "ok")
        else:
            ctx.compare("cooler zoomify -r expansion", case, res["listing"], [f"/resolutions/{r}" for r in mres])
        bad = cli_oracle(case, st, res)
        if bad:
            ctx.fail(case, bad, None)
    return len(cases)


# ----------------------------------------------------------------------------- run
def run(ctx):
    scopes = {}
    scopes["multseq_cases"] = part_multseq(ctx)
    scopes["preferred_sequence_cases"] = part_prefseq(ctx)
    scopes["zoomify_runs"] = part_zoom(ctx)
    scopes["zoomify_column_runs"] = part_cols(ctx)
    scopes["zoomify_dtype_runs"] = part_dtypes(ctx)
    scopes["param_scenarios"] = part_params(ctx)
    scopes["binsize_sweep_levels"] = part_binsize_sweep(ctx)
    scopes["cli_runs"] = part_cli(ctx)
    ctx.exhaustive = True
    ctx.extra["scopes"] = scopes


def replay(ctx, case):
    fn = case["fn"]
    if fn == "param-scenario":
        return run_scenario(ctx.tmp, case["label"], SCENARIOS) is None
    if fn.startswith("zoomify_cooler (coarse bin size"):
        a, m = ctx.tmp / "replay_b.cool", ctx.tmp / "replay_b.mcool"
        G.make_cooler(a, blocks_from_widths(case["widths"]), case["pixels"], True)
        return binsize_sweep_bad(case, a, m) is None
    if fn == "get_multiplier_sequence":
        return oracle_multseq(case["resolutions"], case["bases"], impl_multseq(case["resolutions"], case["bases"]))
    if fn == "preferred_sequence":
        from cooler._reduce import preferred_sequence
        got = [int(x) for x in preferred_sequence(case["start"], case["stop"], case["style"])]
        return got == ref_pref(case["start"], case["stop"], case["style"] == "binary")
    if fn.startswith("zoomify_cooler(bases with different"):
        st, res = dtype_run(ctx.tmp, "replay", case)
        return dtype_oracle(case, st, res) is None
    if fn.startswith("zoomify(columns"):
        st, res = cols_run(ctx.tmp, "replay", case)
        return cols_oracle(case, st, res) is None
    if fn == "zoomify_cooler":
        st, res, srcs = zoom_run(ctx.tmp, "replay", case)
        return zoom_oracle(case, st, res, srcs) is None
    if fn.startswith("cooler zoomify"):
        st, res = cli_run(ctx.tmp, "replay", case)
        return cli_oracle(case, st, res) is None
    raise ValueError("unknown case kind " + fn)
