(** C12  Balanced reads equal raw values times the two bin weights.
    Weights are exact rationals, [None] = NaN (absorbing); [wt w dv k] is the weight bin k contributes: the stored
    weight, or its reciprocal when the column is divisive.  Only statements; proofs in Proofs/BalancedProofs.v. *)
From Cooler Require Import Model.Query Model.Balanced Proofs.QueryProofs Proofs.QueryMain Proofs.BalancedProofs.

(** dense output: cell (a, b) of the window = raw value x weight of row bin i0+a x weight of column bin j0+b.
    Row weights come from the row range and column weights from the column range, whatever the two ranges are. *)
Theorem C12_dense_cell : forall d w i0 i1 j0 j1 dv a b,
  0 <= i0 -> i0 <= i1 -> i1 <= zlen w -> 0 <= j0 -> j0 <= j1 -> j1 <= zlen w ->
  zlen d = i1 - i0 -> (forall r, In r d -> zlen r = j1 - j0) ->
  0 <= a < i1 - i0 -> 0 <= b < j1 - j0 ->
  nth (Z.to_nat b) (nth (Z.to_nat a) (balanced_dense d w (i0, i1, j0, j1) dv) []) None =
  wmul (wmul (wt w dv (i0 + a)) (wt w dv (j0 + b))) (wofZ (nth (Z.to_nat b) (nth (Z.to_nat a) d []) 0)).
Proof. exact balanced_dense_cell. Qed.
Print Assumptions C12_dense_cell.

(** the whole balanced dense query on a valid symmetric-upper table, for every window and chunk size:
    weights x the corresponding entry of the symmetric matrix (composition with C03) *)
Theorem C12_dense_balanced_full : forall n epx off cs cols balance dw name w i0 i1 j0 j1,
  ValidCSR n epx off -> Upper epx -> 1 <= cs ->
  0 <= i0 -> i0 <= i1 -> i1 <= n -> 0 <= j0 -> j0 <= j1 -> j1 <= n -> zlen w = n ->
  weight_name balance = Some name -> lookup_weights cols name = Some w ->
  exists D, matrix_balanced epx off cs true Dense cols balance dw (i0, i1, j0, j1) = Some (BDense D) /\
    forall a b, 0 <= a < i1 - i0 -> 0 <= b < j1 - j0 ->
      nth (Z.to_nat b) (nth (Z.to_nat a) D []) None =
      wmul (wmul (wt w (effective_divisive balance dw) (i0 + a)) (wt w (effective_divisive balance dw) (j0 + b)))
           (wofZ (symm (map snd epx) (i0 + a) (j0 + b))).
Proof. exact dense_balanced_full. Qed.
Print Assumptions C12_dense_balanced_full.

(** sparse output: the same product on every emitted entry *)
Theorem C12_sparse_entries : forall out w i0 i1 j0 j1 dv,
  0 <= i0 -> i0 <= i1 -> i1 <= zlen w -> 0 <= j0 -> j0 <= j1 -> j1 <= zlen w ->
  (forall r, In r out -> in_window (i0, i1, j0, j1) (snd r) = true) ->
  balanced_sparse out w (i0, i1, j0, j1) dv =
  map (fun r => (fst (snd r), wmul (wmul (wt w dv (row (snd r))) (wt w dv (col (snd r)))) (wofZ (val (snd r))))) out.
Proof. exact balanced_sparse_spec. Qed.
Print Assumptions C12_sparse_entries.

(** pixel output: balanced_k = count_k x w(bin1_k) x w(bin2_k) *)
Theorem C12_pixels_column : forall out w dv,
  balanced_pixels out w dv =
  map (fun r => (r, wmul (wmul (wt w dv (row (snd r))) (wt w dv (col (snd r)))) (wofZ (val (snd r))))) out.
Proof. exact balanced_pixels_spec. Qed.
Print Assumptions C12_pixels_column.

(** NaN wherever either bin is masked *)
Theorem C12_masked_bin_gives_nan : forall w dv k x y,
  wnth w k = None -> wmul (wmul (wt w dv k) x) y = None /\ wmul (wmul x (wt w dv k)) y = None.
Proof. intros w dv k x y H. rewrite (wt_masked w dv k H). split; [apply wmul_none_l|apply wmul_none_r]. Qed.
Print Assumptions C12_masked_bin_gives_nan.

(** divisive by default exactly for the conventional 4DN names; an explicit flag always wins *)
Theorem C12_divisive_default : forall balance dw,
  effective_divisive balance dw =
  match dw with
  | Some b => b
  | None => match balance with
            | Some (Some s) => (String.eqb s "KR" || String.eqb s "VC" || String.eqb s "VC_SQRT")%bool
            | _ => false
            end
  end.
Proof. exact effective_divisive_spec. Qed.
Print Assumptions C12_divisive_default.

(** asking for a missing weight column is an error, and a balanced request never yields an unbalanced result *)
Theorem C12_missing_column_is_error : forall epx off cs fill form cols balance dw bb name,
  weight_name balance = Some name -> lookup_weights cols name = None ->
  matrix_balanced epx off cs fill form cols balance dw bb = None.
Proof. exact missing_column_is_error. Qed.
Print Assumptions C12_missing_column_is_error.
Theorem C12_balanced_never_raw : forall epx off cs fill form cols balance dw bb name out,
  weight_name balance = Some name -> matrix_balanced epx off cs fill form cols balance dw bb <> Some (BRaw out).
Proof. exact balanced_never_raw. Qed.
Print Assumptions C12_balanced_never_raw.

(** non-vacuity *)
Definition ex12_px : list pixel := [((0,0),4); ((0,2),6); ((1,2),3); ((2,2),8)].
Definition ex12_w : list weight := [Some (1#2); None; Some (2#1)].
Example ex_C12_dense :
  option_map (fun r => match r with BDense d => d | _ => [] end)
    (matrix_balanced (epx_of ex12_px) (offsets_of 3 ex12_px) 2 true Dense [("weight"%string, ex12_w)] (Some None) None (1,3,0,3))
  = Some [[None; None; None]; [Some ((2#1) * (1#2) * inject_Z 6)%Q; None; Some ((2#1) * (2#1) * inject_Z 8)%Q]].
Proof. vm_compute. reflexivity. Qed.
Example ex_C12_divisive_by_name :
  effective_divisive (Some (Some "KR"%string)) None = true /\ effective_divisive (Some (Some "weight"%string)) None = false /\
  effective_divisive (Some (Some "KR"%string)) (Some false) = false.
Proof. vm_compute. repeat split. Qed.

(** ---- the same statements in IEEE-754 binary64, bit for bit (Model/BalancedF.v, Proofs/BalancedFProofs.v).
    Both sides of each equation are primitive-float terms, so rounding, infinities and NaN are those of the machine
    operations the kernel evaluates; [fwt w dv k] is the stored weight of bin k or [1 / w] when the column is divisive. *)
From Cooler Require Import Model.BalancedF Proofs.BalancedFProofs.
From Coq Require Import SpecFloat FloatOps.

(** the rational model and the binary64 model are one generic definition at two scalar types *)
Theorem C12_models_share_one_definition : forall d w bb dv out,
  balanced_dense d w bb dv = gbalanced_dense winv (fun x y v => wmul (wmul x y) (wofZ v)) d w bb dv /\
  balanced_sparse out w bb dv = gbalanced_sparse winv (fun x y v => wmul (wmul x y) (wofZ v)) None out w bb dv /\
  balanced_pixels out w dv = gbalanced_pixels winv (fun x y v => wmul (wmul x y) (wofZ v)) None out w dv.
Proof. intros d w [[[i0 i1] j0] j1] dv out. repeat split. Qed.
Print Assumptions C12_models_share_one_definition.

(** dense: cell (a, b) = float(raw) * (w_row * w_col) — numpy's  arr * np.outer(bias1, bias2) *)
Theorem C12_float_dense_cell : forall d w i0 i1 j0 j1 dv a b,
  0 <= i0 -> i0 <= i1 -> i1 <= zlen w -> 0 <= j0 -> j0 <= j1 -> j1 <= zlen w ->
  zlen d = i1 - i0 -> (forall r, In r d -> zlen r = j1 - j0) ->
  0 <= a < i1 - i0 -> 0 <= b < j1 - j0 ->
  nth (Z.to_nat b) (nth (Z.to_nat a) (fbalanced_dense d w (i0, i1, j0, j1) dv) []) PrimFloat.nan =
  PrimFloat.mul (f_of_Z (nth (Z.to_nat b) (nth (Z.to_nat a) d []) 0)) (PrimFloat.mul (fwt w dv (i0 + a)) (fwt w dv (j0 + b))).
Proof. exact fbalanced_dense_cell. Qed.
Print Assumptions C12_float_dense_cell.

Theorem C12_float_dense_balanced_full : forall n epx off cs w dv i0 i1 j0 j1,
  ValidCSR n epx off -> Upper epx -> 1 <= cs ->
  0 <= i0 -> i0 <= i1 -> i1 <= n -> 0 <= j0 -> j0 <= j1 -> j1 <= n -> zlen w = n ->
  exists D, fmatrix_balanced epx off cs true Dense (Some (Some w)) dv (i0, i1, j0, j1) = Some (FDense D) /\
    forall a b, 0 <= a < i1 - i0 -> 0 <= b < j1 - j0 ->
      nth (Z.to_nat b) (nth (Z.to_nat a) D []) PrimFloat.nan =
      PrimFloat.mul (f_of_Z (symm (map snd epx) (i0 + a) (j0 + b))) (PrimFloat.mul (fwt w dv (i0 + a)) (fwt w dv (j0 + b))).
Proof. exact fdense_balanced_full. Qed.
Print Assumptions C12_float_dense_balanced_full.

(** sparse / pixels: (w_row * w_col) * float(raw) on every emitted entry *)
Theorem C12_float_sparse_entries : forall out w i0 i1 j0 j1 dv,
  0 <= i0 -> i0 <= i1 -> i1 <= zlen w -> 0 <= j0 -> j0 <= j1 -> j1 <= zlen w ->
  (forall r, In r out -> in_window (i0, i1, j0, j1) (snd r) = true) ->
  fbalanced_sparse out w (i0, i1, j0, j1) dv =
  map (fun r => (fst (snd r), PrimFloat.mul (PrimFloat.mul (fwt w dv (row (snd r))) (fwt w dv (col (snd r)))) (f_of_Z (val (snd r))))) out.
Proof. exact fbalanced_sparse_spec. Qed.
Print Assumptions C12_float_sparse_entries.
Theorem C12_float_pixels_column : forall out w dv,
  fbalanced_pixels out w dv =
  map (fun r => (r, PrimFloat.mul (PrimFloat.mul (fwt w dv (row (snd r))) (fwt w dv (col (snd r)))) (f_of_Z (val (snd r))))) out.
Proof. exact fbalanced_pixels_spec. Qed.
Print Assumptions C12_float_pixels_column.

(** NaN wherever either bin is masked — through the IEEE semantics of the primitive operations *)
Theorem C12_float_masked_bin_gives_nan : forall w dv k x v,
  is_nan_f (gnth PrimFloat.nan w k) ->
  is_nan_f (f_cell_dense (fwt w dv k) x v) /\ is_nan_f (f_cell_dense x (fwt w dv k) v) /\
  is_nan_f (f_cell_entry (fwt w dv k) x v) /\ is_nan_f (f_cell_entry x (fwt w dv k) v).
Proof. exact fmasked_bin_gives_nan. Qed.
Print Assumptions C12_float_masked_bin_gives_nan.

Theorem C12_float_missing_column_is_error : forall epx off cs fill form dv bb,
  fmatrix_balanced epx off cs fill form (Some None) dv bb = None.
Proof. exact fmissing_column_is_error. Qed.
Print Assumptions C12_float_missing_column_is_error.

(** non-vacuity: 0.1 * 0.3 * 7 is not a dyadic computation; the divisive cell is 6 * ((1/0.1) * (1/0.3)) *)
Example ex_C12_float :
  let w := [0x1.999999999999ap-4; PrimFloat.nan; 0x1.3333333333333p-2]%float in
  match fmatrix_balanced (epx_of ex12_px) (offsets_of 3 ex12_px) 2 true Dense (Some (Some w)) false (0,1,0,3),
        fmatrix_balanced (epx_of ex12_px) (offsets_of 3 ex12_px) 2 true Dense (Some (Some w)) true (0,1,2,3) with
  | Some (FDense [[a; b; c]]), Some (FDense [[d]]) =>
      (Prim2SF a, Prim2SF b, Prim2SF c, Prim2SF d) =
      (Prim2SF (4 * (0x1.999999999999ap-4 * 0x1.999999999999ap-4))%float, S754_nan,
       Prim2SF (6 * (0x1.999999999999ap-4 * 0x1.3333333333333p-2))%float,
       Prim2SF (6 * ((1 / 0x1.999999999999ap-4) * (1 / 0x1.3333333333333p-2)))%float)
  | _, _ => False
  end.
Proof. vm_compute. reflexivity. Qed.

(** ---- tie to the source: the balance branches of api.matrix — which slices the weights come from (bias2 = bias1 only
    for coinciding ranges), the reciprocal for divisive weights, and the ORDER of the float multiplications that the
    binary64 model reproduces (dense: arr * outer(b1, b2); sparse and pixels: b1 * b2 * data) — and the divisive default of
    Cooler.matrix are pinned in the source on every run (tools/py2v.py; the constant exists only if they are unchanged). *)
From Cooler Require Import Gen.Translated.
Theorem C12_source_pins : Gen.matrix_balance_pins = true.
Proof. reflexivity. Qed.
Print Assumptions C12_source_pins.
