(** C14: table selectors return exactly the requested rows; annotation attaches each pixel's own two bins. *)
From Cooler Require Import Model.Query Model.Table Proofs.QueryProofs Proofs.SpansProofs Proofs.QueryMain.
From Coq Require Import ZifyBool.
Ltac Zify.zify_post_hook ::= Z.to_euclidean_division_equations.

Definition colof (t : table) (f : Z) : column := match lookup_col t f with Some c => c | None => [] end.
Definition WellFormed (t : table) (n : Z) : Prop := forall f c, lookup_col t f = Some c -> zlen c = n.

Lemma opt_all_map_some {A B} (g : A -> B) l : opt_all (map (fun x => Some (g x)) l) = Some (map g l).
Proof. induction l as [|a t IH]; [reflexivity|]. cbn [map opt_all]. now rewrite IH. Qed.
Lemma opt_all_ext {A B} (f : A -> option B) g l : (forall x, In x l -> f x = Some (g x)) -> opt_all (map f l) = Some (map g l).
Proof.
  induction l as [|a t IH]; intro H; [reflexivity|]. cbn [map opt_all]. rewrite (H a (or_introl eq_refl)).
  rewrite IH by (intros x Hx; apply H; now right). reflexivity.
Qed.
Lemma slice_len {A} (l : list A) lo hi : 0 <= lo -> lo <= hi -> hi <= zlen l -> length (slice l lo hi) = Z.to_nat (hi - lo).
Proof. intros. unfold slice, zlen in *. rewrite firstn_length, skipn_length. lia. Qed.
Lemma nth_slice' {A} (l : list A) lo hi k d : 0 <= lo -> 0 <= k < hi - lo ->
  nth (Z.to_nat k) (slice l lo hi) d = nth (Z.to_nat (lo + k)) l d.
Proof. intros Hlo Hk. unfold slice. rewrite nth_firstn_lt by lia. rewrite nth_skipn_add. f_equal. lia. Qed.

(** * get *)
Theorem get_spec t n lo hi fields : WellFormed t n -> 0 <= lo -> lo <= hi -> hi <= n ->
  (forall f, In f fields -> lookup_col t f <> None) -> fields <> [] ->
  get t lo (Some hi) fields =
  Some (zrange lo (Z.to_nat (hi - lo)), map (fun f => (f, slice (colof t f) lo hi)) fields).
Proof.
  intros Hwf Hlo Hlh Hhi Hin Hne. unfold get.
  rewrite (opt_all_ext _ (fun f => (f, slice (colof t f) lo hi))).
  - destruct fields as [|f0 fr]; [congruence|]. cbn [map]. do 2 f_equal.
    assert (Hc : lookup_col t f0 <> None) by (apply Hin; now left).
    unfold colof. destruct (lookup_col t f0) as [c|] eqn:E; [|congruence]. rewrite slice_len; [reflexivity|lia|lia|].
    rewrite (Hwf f0 c E). lia.
  - intros f Hf. specialize (Hin f Hf). unfold colof. destruct (lookup_col t f); [reflexivity|congruence].
Qed.

(** every returned row is the stored row with that number, and its label is that number *)
Theorem get_rows_are_stored_rows t n lo hi f k : WellFormed t n -> 0 <= lo -> lo <= hi -> hi <= n -> 0 <= k < hi - lo ->
  nth (Z.to_nat k) (zrange lo (Z.to_nat (hi - lo))) 0 = lo + k /\
  nth (Z.to_nat k) (slice (colof t f) lo hi) 0 = nth (Z.to_nat (lo + k)) (colof t f) 0.
Proof.
  intros Hwf Hlo Hlh Hhi Hk. split.
  - unfold zrange. rewrite (nth_indep _ 0 ((fun k => lo + Z.of_nat k) 0%nat)) by (rewrite map_length, seq_length; lia).
    rewrite (map_nth (fun k => lo + Z.of_nat k)). rewrite seq_nth by lia. lia.
  - apply nth_slice'; lia.
Qed.

(** a column selection never changes which rows come back *)
Theorem get_column_subset_commutes t n lo hi fields1 fields2 l1 d1 l2 d2 f c1 c2 :
  WellFormed t n -> 0 <= lo -> lo <= hi -> hi <= n ->
  (forall g, In g fields1 -> lookup_col t g <> None) -> (forall g, In g fields2 -> lookup_col t g <> None) ->
  get t lo (Some hi) fields1 = Some (l1, d1) -> get t lo (Some hi) fields2 = Some (l2, d2) ->
  In (f, c1) d1 -> In (f, c2) d2 -> l1 = l2 /\ c1 = c2.
Proof.
  intros Hwf Hlo Hlh Hhi H1 H2 G1 G2 I1 I2.
  assert (N1 : fields1 <> []) by (intro E; subst; cbn in G1; inversion G1; subst; destruct I1).
  assert (N2 : fields2 <> []) by (intro E; subst; cbn in G2; inversion G2; subst; destruct I2).
  rewrite (get_spec t n lo hi fields1) in G1 by assumption. rewrite (get_spec t n lo hi fields2) in G2 by assumption.
  inversion G1; inversion G2; subst. split; [reflexivity|].
  apply in_map_iff in I1, I2. destruct I1 as [g1 [E1 _]], I2 as [g2 [E2 _]]. inversion E1; inversion E2; subst. reflexivity.
Qed.

(** the selector resolves its slice as arrays do and then reads exactly those rows *)
Theorem selector_slice_spec t n fields start stop : 0 <= n -> WellFormed t n ->
  (forall a, start = Some a -> - n <= a <= n) -> (forall b, stop = Some b -> - n <= b <= n) ->
  (forall f, In f fields -> lookup_col t f <> None) -> fields <> [] ->
  let lo := match start with None => 0 | Some a => a mod n + (if a =? n then n else 0) end in
  let hi := match stop with None => n | Some b => b mod n + (if b =? n then n else 0) end in
  lo <= hi ->
  selector_slice t n fields start stop = Some (zrange lo (Z.to_nat (hi - lo)), map (fun f => (f, slice (colof t f) lo hi)) fields).
Proof.
  intros Hn Hwf Ha Hb Hin Hne lo hi Hlh. unfold selector_slice.
  pose proof (process_slice_spec start stop n Hn Ha Hb) as Hps. destruct (process_slice start stop n) as [l h].
  destruct Hps as [H1 [H2 [H3 H4]]]. fold lo in H3. fold hi in H4. subst l h. apply (get_spec t n); try assumption; lia.
Qed.

(** the same for every bound up to the length, however negative (bounds below -n clamp to 0: defect D33 repaired) *)
Theorem selector_slice_array_semantics t n fields start stop : 0 <= n -> WellFormed t n ->
  (forall a, start = Some a -> a <= n) -> (forall b, stop = Some b -> b <= n) ->
  (forall f, In f fields -> lookup_col t f <> None) -> fields <> [] ->
  let lo := match start with None => 0 | Some a => array_bound a n end in
  let hi := match stop with None => n | Some b => array_bound b n end in
  lo <= hi ->
  selector_slice t n fields start stop = Some (zrange lo (Z.to_nat (hi - lo)), map (fun f => (f, slice (colof t f) lo hi)) fields).
Proof.
  intros Hn Hwf Ha Hb Hin Hne lo hi Hlh. unfold selector_slice.
  rewrite (process_slice_array_semantics start stop n Hn Ha Hb). fold lo. fold hi.
  assert (0 <= lo <= n /\ 0 <= hi <= n) as [Hlo Hhi].
  { subst lo hi. unfold array_bound. destruct start, stop; split; lia. }
  apply (get_spec t n); try assumption; lia.
Qed.

(** * annotate *)
Lemma zmin_le l d b : In b (d :: l) -> zmin_list l d <= b.
Proof.
  induction l as [|x t IH]; intro H.
  - cbn. destruct H as [->|[]]. lia.
  - change (zmin_list (x :: t) d) with (Z.min x (zmin_list t d)).
    destruct H as [->|[->|H]].
    + assert (zmin_list t b <= b) by (apply IH; now left). lia.
    + lia.
    + assert (zmin_list t d <= b) by (apply IH; now right). lia.
Qed.
Lemma zmax_ge l d b : In b (d :: l) -> b <= zmax_list l d.
Proof.
  induction l as [|x t IH]; intro H.
  - cbn. destruct H as [->|[]]. lia.
  - change (zmax_list (x :: t) d) with (Z.max x (zmax_list t d)).
    destruct H as [->|[->|H]].
    + assert (b <= zmax_list t b) by (apply IH; now left). lia.
    + lia.
    + assert (b <= zmax_list t d) by (apply IH; now right). lia.
Qed.
Lemma zmin_in l d : In (zmin_list l d) (d :: l).
Proof.
  induction l as [|x t IH]; [now left|]. change (zmin_list (x :: t) d) with (Z.min x (zmin_list t d)).
  destruct (Z.min_spec x (zmin_list t d)) as [[_ ->]|[_ ->]]; [right; now left|]. destruct IH as [<-|H]; [now left|right; now right].
Qed.
Lemma zmax_in l d : In (zmax_list l d) (d :: l).
Proof.
  induction l as [|x t IH]; [now left|]. change (zmax_list (x :: t) d) with (Z.max x (zmax_list t d)).
  destruct (Z.max_spec x (zmax_list t d)) as [[_ ->]|[_ ->]]; [|right; now left]. destruct IH as [<-|H]; [now left|right; now right].
Qed.

Theorem annotate_ids_spec v nbins ids : 0 <= vfirst v -> (forall b, In b ids -> vfirst v <= b <= vlast v) ->
  annotate_ids v nbins ids = Some (map (fun b => nth (Z.to_nat (b - vfirst v)) (vrows v) []) ids).
Proof.
  intros Hf Hin. unfold annotate_ids. destruct ids as [|x r]; [reflexivity|].
  set (ids := x :: r) in *.
  destruct (nbins >? zlen ids) eqn:Estrat.
  - (* window [min, max] of the bin ids *)
    set (bmin := zmin_list r x). set (bmax := zmax_list r x).
    assert (Hmin : vfirst v <= bmin <= vlast v) by (apply Hin, zmin_in).
    assert (Hmax : vfirst v <= bmax <= vlast v) by (apply Hin, zmax_in).
    assert (Hmm : bmin <= bmax) by (pose proof (zmin_le r x x (or_introl eq_refl)); pose proof (zmax_ge r x x (or_introl eq_refl)); unfold bmin, bmax; lia).
    unfold loc_slice. cbn [vfirst vrows]. replace (Z.max bmin (vfirst v)) with bmin by lia. replace (Z.min bmax (vlast v)) with bmax by lia.
    set (rows := slice (vrows v) (bmin - vfirst v) (bmax + 1 - vfirst v)).
    assert (Hlen : length rows = Z.to_nat (bmax - bmin + 1)).
    { unfold rows. rewrite slice_len; unfold vlast in *; lia. }
    destruct rows as [|r0 rr] eqn:Erows; [cbn in Hlen; lia|]. rewrite <- Erows in *.
    apply opt_all_ext. intros b Hb.
    assert (Hb1 : bmin <= b) by (apply zmin_le; exact Hb). assert (Hb2 : b <= bmax) by (apply zmax_ge; exact Hb).
    unfold iloc. unfold zlen. rewrite Hlen. replace ((0 <=? b - bmin) && (b - bmin <? Z.of_nat (Z.to_nat (bmax - bmin + 1)))) with true by lia.
    f_equal. unfold rows. rewrite nth_slice' by lia. f_equal. lia.
  - (* the whole view *)
    unfold loc_slice. cbn [vfirst vrows]. replace (Z.max 0 (vfirst v)) with (vfirst v) by lia.
    assert (Hx := Hin x (or_introl eq_refl)).
    assert (Hrows : slice (vrows v) (vfirst v - vfirst v) (vlast v + 1 - vfirst v) = vrows v).
    { unfold slice, vlast, zlen. replace (Z.to_nat (vfirst v - vfirst v)) with 0%nat by lia. cbn [skipn].
      replace (Z.to_nat (vfirst v + Z.of_nat (length (vrows v)) - 1 + 1 - vfirst v - (vfirst v - vfirst v))) with (length (vrows v)) by lia. apply firstn_all. }
    rewrite Hrows. destruct (vrows v) as [|r0 rr] eqn:Er; [unfold vlast, zlen in Hx; rewrite Er in Hx; cbn in Hx; lia|]. rewrite <- Er in *.
    apply opt_all_ext. intros b Hb. specialize (Hin b Hb). unfold iloc, vlast in *.
    replace ((0 <=? b - vfirst v) && (b - vfirst v <? zlen (vrows v))) with true by lia. reflexivity.
Qed.

Lemma combine_maps {A B C} (f : A -> B) (g : A -> C) l : combine (combine (map f l) (map g l)) l = map (fun x => ((f x, g x), x)) l.
Proof. induction l as [|a t IH]; [reflexivity|]. cbn [map combine]. now rewrite IH. Qed.

(** every pixel gets the rows of its own two bins; order and index are kept, whatever the relative sizes
    of the bin table and the pixel selection (both strategies of the code) *)
Theorem annotate_spec v nbins px : 0 <= vfirst v ->
  (forall r, In r px -> vfirst v <= fst (fst (snd r)) <= vlast v /\ vfirst v <= snd (fst (snd r)) <= vlast v) ->
  annotate v nbins px =
  Some (map (fun r => (fst r, (nth (Z.to_nat (fst (fst (snd r)) - vfirst v)) (vrows v) [],
                               nth (Z.to_nat (snd (fst (snd r)) - vfirst v)) (vrows v) [],
                               snd r))) px).
Proof.
  intros Hf Hin. unfold annotate.
  rewrite !annotate_ids_spec; try assumption.
  - f_equal. clear Hin. induction px as [|p t IH]; [reflexivity|]. cbn [map combine]. f_equal. exact IH.
  - intros b Hb. apply in_map_iff in Hb. destruct Hb as [r [<- Hr]]. apply Hin in Hr. tauto.
  - intros b Hb. apply in_map_iff in Hb. destruct Hb as [r [<- Hr]]. apply Hin in Hr. tauto.
Qed.

(** integer chromosome ids are mapped through chroms/name *)
Theorem decode_chrom_spec names codes k : 0 <= k < zlen codes ->
  nth (Z.to_nat k) (decode_chrom names codes) (-1) = nth (Z.to_nat (nth (Z.to_nat k) codes 0)) names (-1).
Proof.
  intro Hk. unfold decode_chrom.
  rewrite (nth_indep _ (-1) ((fun c => nth (Z.to_nat c) names (-1)) 0)) by (rewrite map_length; unfold zlen in Hk; lia).
  now rewrite (map_nth (fun c => nth (Z.to_nat c) names (-1))).
Qed.
