import cooler.util as U, cooler._reduce, cooler.create._create as C, cooler.create._ingest as I
def get_binsize(bins):
    sizes=set()
    for _chrom, group in bins.groupby("chrom", observed=True):
        w=(group["end"]-group["start"])
        sizes.update(w.iloc[:-1].unique())
        if len(sizes)>1: return None
    if len(sizes)!=1: return None
    b=next(iter(sizes))
    for _chrom, group in bins.groupby("chrom", observed=True):
        w=(group["end"]-group["start"])
        if w.iloc[-1]>b: return None
    return b
U.get_binsize=get_binsize; C.get_binsize=get_binsize
