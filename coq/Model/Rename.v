(** cooler.create._rename_chroms / rename_chroms (_create.py:375-435) over the object store of
    Model/H5.v, and the name-based readers of the Cooler API that the renaming must keep
    consistent (chromnames, chromsizes, bin labels, name -> extent).       No proofs here. *)
From Cooler Require Export Model.H5.

(** pandas  Index.rename(dict) : simultaneous substitution, names not in the dict are kept *)
Definition subst (m : list (string * string)) (x : string) : string :=
  match assoc x m with Some y => y | None => x end.

(** the object a hard link of group g denotes (tables and columns of a collection are hard links) *)
Definition child (w : world) (f : fid) (g : nat) (n : string) : option nat :=
  match lookup_link w f g n with Some (Hard o) => Some o | _ => None end.
Definition ds_at (w : world) (f : fid) (g : nat) (n : string) : option payload :=
  match child w f g n with
  | Some o => match obj_at w f o with Some (Dataset d) => Some d | _ => None end
  | None => None
  end.

(** del grp[n]; grp.create_dataset(n, data=d): the name is rebound to a NEW dataset object *)
Definition put_ds (w : world) (f : fid) (g : nat) (n : string) (d : payload) : world :=
  match obj_at w f g with
  | Some (Group a ls) =>
      let '(w1, o) := alloc w f (Dataset d) in
      set_obj w1 f g (Group a (ins_sorted n (Hard o) (remove_key n ls)))
  | _ => w
  end.

(** _rename_chroms(grp, rename_dict): chroms/name is rewritten with the substituted names; the enum
    mapping of bins/chrom is rebuilt from the new names over the stored codes; an integer-encoded
    bins/chrom is left alone *)
Definition rename_chroms (w : world) (f : fid) (g : nat) (m : list (string * string)) : option world :=
  match child w f g "chroms"%string, child w f g "bins"%string with
  | Some tc, Some tb =>
      match ds_at w f tc "name"%string with
      | Some (PStrs names) =>
          let new := map (subst m) names in
          let w1 := put_ds w f tc "name"%string (PStrs new) in
          match ds_at w1 f tb "chrom"%string with
          | Some (PEnum _ codes) => Some (put_ds w1 f tb "chrom"%string (PEnum new codes))
          | Some _ => Some w1
          | None => None
          end
      | _ => None
      end
  | _, _ => None
  end.

Fixpoint rename_chain (w : world) (f : fid) (g : nat) (ms : list (list (string * string))) : option world :=
  match ms with
  | [] => Some w
  | m :: r => match rename_chroms w f g m with Some w1 => rename_chain w1 f g r | None => None end
  end.

(** ---- readers (Cooler._refresh, api.bins, extent) *)
Definition chromnames (w : world) (f : fid) (g : nat) : list string :=
  match child w f g "chroms"%string with
  | Some tc => match ds_at w f tc "name"%string with Some (PStrs l) => l | _ => [] end
  | None => []
  end.
Definition ints_of (d : option payload) : list Z :=
  match d with Some (PInts l) => l | Some (PEnum _ l) => l | _ => [] end.
Definition chromlengths (w : world) (f : fid) (g : nat) : list Z :=
  match child w f g "chroms"%string with Some tc => ints_of (ds_at w f tc "length"%string) | None => [] end.
Definition chromsizes (w : world) (f : fid) (g : nat) : list (string * Z) :=
  combine (chromnames w f g) (chromlengths w f g).

Definition nth_name (names : list string) (c : Z) : string := nth (Z.to_nat c) names ""%string.

(** api.bins()["chrom"]: labels through the enum header when there is one, else through chroms/name *)
Definition bin_labels (w : world) (f : fid) (g : nat) : list string :=
  match child w f g "bins"%string with
  | Some tb =>
      match ds_at w f tb "chrom"%string with
      | Some (PEnum names codes) => map (nth_name names) codes
      | Some (PInts codes) => map (nth_name (chromnames w f g)) codes
      | _ => []
      end
  | None => []
  end.
Definition bin_codes (w : world) (f : fid) (g : nat) : list Z :=
  match child w f g "bins"%string with Some tb => ints_of (ds_at w f tb "chrom"%string) | None => [] end.

(** Cooler._chromids = dict(zip(names, range(n))): the LAST position of a repeated name wins *)
Fixpoint chromid_from (names : list string) (i : Z) (x : string) : option Z :=
  match names with
  | [] => None
  | n :: r => match chromid_from r (i + 1) x with
              | Some j => Some j
              | None => if Coq.Strings.String.eqb n x then Some i else None
              end
  end.
Definition chromid (names : list string) (x : string) : option Z := chromid_from names 0 x.

(** Cooler.extent(name) = (chrom_offset[id], chrom_offset[id+1]) *)
Definition extent (w : world) (f : fid) (g : nat) (x : string) : option (Z * Z) :=
  match chromid (chromnames w f g) x, child w f g "indexes"%string with
  | Some i, Some ti =>
      let off := ints_of (ds_at w f ti "chrom_offset"%string) in
      Some (nth (Z.to_nat i) off 0, nth (Z.to_nat (i + 1)) off 0)
  | _, _ => None
  end.

(** everything a renaming must leave alone, read through the links of the collection *)
Definition column (w : world) (f : fid) (g : nat) (tbl col : string) : option payload :=
  match child w f g tbl with Some t => ds_at w f t col | None => None end.

(** Cooler.matrix(balance=False, as_pixels).fetch(name) for one chromosome against itself: the stored
    pixels (bin1, bin2, count) whose two bins both lie in the extent of the named chromosome; and
    Cooler.bins().fetch(name): the coordinates of the bins of that extent *)
Definition in_ext (lo hi : Z) (b : Z) : bool := (lo <=? b) && (b <? hi).
Definition fetch_pixels (w : world) (f : fid) (g : nat) (x : string) : option (list (Z * Z * Z)) :=
  match extent w f g x with
  | Some (lo, hi) =>
      let b1 := ints_of (column w f g "pixels"%string "bin1_id"%string) in
      let b2 := ints_of (column w f g "pixels"%string "bin2_id"%string) in
      let ct := ints_of (column w f g "pixels"%string "count"%string) in
      Some (filter (fun p => in_ext lo hi (fst (fst p)) && in_ext lo hi (snd (fst p))) (combine (combine b1 b2) ct))
  | None => None
  end.
Definition fetch_bin_coords (w : world) (f : fid) (g : nat) (x : string) : option (list (Z * Z)) :=
  match extent w f g x with
  | Some (lo, hi) =>
      let st := ints_of (column w f g "bins"%string "start"%string) in
      let en := ints_of (column w f g "bins"%string "end"%string) in
      Some (slice (combine st en) lo hi)
  | None => None
  end.
