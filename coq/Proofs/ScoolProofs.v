(** Proofs for C17: what create(append_scool) writes for one cell, that creating a further cell keeps
    everything that could be read before (frame), and by induction over the sorted cell list that
    every cell of create_scool reads back as given, with chroms and the three bin columns being the
    root's own objects. *)
From Cooler Require Import Model.Scool Proofs.H5Proofs.
From Coq Require Import Lia.
Module S := Coq.Strings.String.

(* ------------------------------------------------------------------ "everything readable stays readable" *)
Definition keeps (w w' : world) : Prop :=
  (forall f o n l, lookup_link w f o n = Some l -> lookup_link w' f o n = Some l) /\
  (forall f o d, obj_at w f o = Some (Dataset d) -> obj_at w' f o = Some (Dataset d)).

Lemma keeps_refl : forall w, keeps w w.
Proof. split; auto. Qed.

Lemma keeps_trans : forall a b c, keeps a b -> keeps b c -> keeps a c.
Proof. intros a b c [H1 H2] [H3 H4]. split; eauto. Qed.

Lemma world_le_keeps : forall w w', world_le w w' -> keeps w w'.
Proof.
  intros w w' H. split.
  - intros. eapply world_le_lookup; eauto.
  - intros f o d E. destruct (world_le_obj _ _ _ _ _ H E) as (y & Ey & Ly).
    destruct y; simpl in Ly; try tauto. congruence.
Qed.

Lemma set_attrs_keeps : forall w f o b, keeps w (set_attrs w f o b).
Proof.
  intros w f o b. unfold set_attrs.
  destruct (obj_at w f o) as [[a ls|d]|] eqn:E; try apply keeps_refl.
  split.
  - intros f' o' n l Hl. unfold lookup_link in *.
    destruct (fid_dec f f') as [<-|Nf].
    + destruct (Nat.eq_dec o o') as [<-|No].
      * erewrite set_obj_at by eauto. now rewrite E in Hl.
      * unfold obj_at, set_obj in *. destruct (get_store w f) eqn:Es; try discriminate.
        rewrite get_set_same. now rewrite nth_error_upd_other by auto.
    + unfold obj_at, set_obj in *. destruct (get_store w f) eqn:Es; try discriminate.
      now rewrite get_set_other by auto.
  - intros f' o' d Hd.
    destruct (fid_dec f f') as [<-|Nf].
    + destruct (Nat.eq_dec o o') as [<-|No]; [congruence|].
      unfold obj_at, set_obj in *. destruct (get_store w f) eqn:Es; try discriminate.
      rewrite get_set_same. now rewrite nth_error_upd_other by auto.
    + unfold obj_at, set_obj in *. destruct (get_store w f) eqn:Es; try discriminate.
      now rewrite get_set_other by auto.
Qed.

Lemma keeps_child : forall w w' f g n o, keeps w w' -> child w f g n = Some o -> child w' f g n = Some o.
Proof.
  intros w w' f g n o [H _] Hc. unfold child in *.
  destruct (lookup_link w f g n) as [[o'| |]|] eqn:E; try discriminate.
  now rewrite (H _ _ _ _ E).
Qed.

Lemma keeps_ds : forall w w' f g n d, keeps w w' -> ds_at w f g n = Some d -> ds_at w' f g n = Some d.
Proof.
  intros w w' f g n d K Hd. unfold ds_at in *.
  destruct (child w f g n) as [o|] eqn:Ec; try discriminate.
  rewrite (keeps_child _ _ _ _ _ _ K Ec).
  destruct (obj_at w f o) as [[|x]|] eqn:Eo; try discriminate.
  destruct K as [_ K2]. now rewrite (K2 _ _ _ Eo).
Qed.

(* ------------------------------------------------------------------ writing tables *)
Lemma bind_child : forall w f g n o w', bind w f g n (Hard o) = Some w' -> child w' f g n = Some o.
Proof. intros. unfold child. now rewrite (bind_lookup _ _ _ _ _ _ H). Qed.

Lemma write_cols_spec : forall cols w f t w', write_cols w f t cols = Some w' ->
  keeps w w' /\
  (forall c d, In (c, Fresh d) cols -> ds_at w' f t c = Some d) /\
  (forall c o, In (c, Share o) cols -> child w' f t c = Some o).
Proof.
  induction cols as [|[c src] r IH]; simpl; intros w f t w' H.
  - inversion H; subst. split; [apply keeps_refl|]. split; intros; tauto.
  - destruct src as [d|o].
    + destruct (alloc w f (Dataset d)) as [w1 o] eqn:Ea.
      destruct (bind w1 f t c (Hard o)) as [w2|] eqn:Eb; try discriminate.
      destruct (IH _ _ _ _ H) as (K & HF & HS).
      assert (keeps w w2) as K0.
      { apply world_le_keeps. eapply world_le_trans; [eapply alloc_le; eauto|eapply bind_le; eauto]. }
      split; [eapply keeps_trans; eauto|]. split.
      * intros c' d' [E|Hin]; [|eauto]. inversion E; subst c' d'.
        eapply keeps_ds; eauto. unfold ds_at. rewrite (bind_child _ _ _ _ _ _ Eb).
        (* the allocated object is the dataset *)
        assert (obj_at w1 f o = Some (Dataset d)) as Eo.
        { destruct (get_store w f) as [st|] eqn:Es.
          - eapply alloc_obj; eauto.
          - unfold alloc in Ea. rewrite Es in Ea. inversion Ea; subst.
            unfold bind, obj_at in Eb. rewrite Es in Eb. discriminate. }
        destruct (world_le_obj _ _ _ _ _ (bind_le _ _ _ _ _ _ Eb) Eo) as (y & Ey & Ly).
        destruct y; simpl in Ly; try tauto. now rewrite Ey, Ly.
      * intros c' o' [E|Hin]; [discriminate|eauto].
    + destruct (bind w f t c (Hard o)) as [w2|] eqn:Eb; try discriminate.
      destruct (IH _ _ _ _ H) as (K & HF & HS).
      assert (keeps w w2) as K0 by (apply world_le_keeps; eapply bind_le; eauto).
      split; [eapply keeps_trans; eauto|]. split.
      * intros c' d' [E|Hin]; [discriminate|eauto].
      * intros c' o' [E|Hin]; [|eauto]. inversion E; subst c' o'.
        eapply keeps_child; eauto. eapply bind_child; eauto.
Qed.

(** a written table: its group, its fresh columns with the given payloads, its shared columns the given objects *)
Definition table_ok (w : world) (f : fid) (g : nat) (n : string) (src : tblsrc) : Prop :=
  match src with
  | Table cols => exists t, child w f g n = Some t /\
                    (forall c d, In (c, Fresh d) cols -> ds_at w f t c = Some d) /\
                    (forall c o, In (c, Share o) cols -> child w f t c = Some o)
  | ShareGroup o => child w f g n = Some o
  end.

Lemma table_ok_keeps : forall w w' f g n src, keeps w w' -> table_ok w f g n src -> table_ok w' f g n src.
Proof.
  intros w w' f g n src K H. destruct src as [cols|o]; simpl in *.
  - destruct H as (t & Ht & HF & HS). exists t. split; [eapply keeps_child; eauto|].
    split; intros; [eapply keeps_ds; eauto|eapply keeps_child; eauto].
  - eapply keeps_child; eauto.
Qed.

Lemma write_tables_spec : forall ts w f g w', write_tables w f g ts = Some w' ->
  keeps w w' /\ forall n src, In (n, src) ts -> table_ok w' f g n src.
Proof.
  induction ts as [|[n src] r IH]; simpl; intros w f g w' H.
  - inversion H; subst. split; [apply keeps_refl|tauto].
  - destruct src as [cols|o].
    + destruct (alloc w f (Group [] [])) as [w1 t] eqn:Ea.
      destruct (bind w1 f g n (Hard t)) as [w2|] eqn:Eb; try discriminate.
      destruct (write_cols w2 f t cols) as [w3|] eqn:Ec; try discriminate.
      destruct (IH _ _ _ _ H) as (K & HT).
      destruct (write_cols_spec _ _ _ _ _ Ec) as (Kc & HF & HS).
      assert (keeps w w2) as K0.
      { apply world_le_keeps. eapply world_le_trans; [eapply alloc_le; eauto|eapply bind_le; eauto]. }
      split; [eapply keeps_trans; [eauto|eapply keeps_trans; eauto]|].
      intros n' src' [E|Hin]; [|eauto]. inversion E; subst n' src'.
      eapply table_ok_keeps; eauto. simpl. exists t. split; auto.
      eapply keeps_child; eauto. eapply bind_child; eauto.
    + destruct (bind w f g n (Hard o)) as [w2|] eqn:Eb; try discriminate.
      destruct (IH _ _ _ _ H) as (K & HT).
      split; [eapply keeps_trans; [apply world_le_keeps; eapply bind_le; eauto|eauto]|].
      intros n' src' [E|Hin]; [|eauto]. inversion E; subst n' src'.
      eapply table_ok_keeps; eauto. simpl. eapply bind_child; eauto.
Qed.

(* ------------------------------------------------------------------ creating one cell at /cells/<name> *)
Lemma create_group_ok : forall w f p w' f1 g, create_group w f p = (Ok, w', (f1, g)) ->
  world_le w w' /\
  exists par n w1 fl gpar, split_last p = Some (par, n) /\ ensure w f 0 par = Some (w1, fl, f1, gpar) /\
    world_le w1 w' /\ child w' f1 gpar n = Some g.
Proof.
  unfold create_group; intros w f p w' f1 g H.
  destruct (split_last p) as [[par n]|]; try discriminate.
  destruct (ensure w f 0 par) as [[[[w1 fl] f1'] gpar]|] eqn:E; try discriminate.
  destruct (lookup_link w1 f1' gpar n) eqn:El.
  { exfalso. injection H as He Hw Hf Hg. eapply exists_err_not_ok; eauto. discriminate. }
  destruct (alloc w1 f1' (Group [] [])) as [w2 o] eqn:Ea.
  destruct (bind w2 f1' gpar n (Hard o)) as [w3|] eqn:Eb; try discriminate.
  injection H as Hw Hf Hg. subst w3 f1' o.
  assert (world_le w1 w') as L1.
  { eapply world_le_trans; [eapply alloc_le; eauto|eapply bind_le; eauto]. }
  split.
  - eapply world_le_trans; [eapply ensure_le; eauto|auto].
  - exists par, n, w1, fl, gpar. repeat split; auto. eapply bind_child; eauto.
Qed.

(** the parent /cells: absent (it is created) or an existing group reached by a hard link *)
Lemma ensure_cells : forall w f a0 ls0 w1 fl f1 gc,
  obj_at w f 0 = Some (Group a0 ls0) ->
  (assoc "cells"%string ls0 = None \/ exists g0, assoc "cells"%string ls0 = Some (Hard g0)) ->
  ensure w f 0 ["cells"%string] = Some (w1, fl, f1, gc) ->
  f1 = f /\ child w1 f 0 "cells"%string = Some gc /\
  (forall g0, assoc "cells"%string ls0 = Some (Hard g0) -> gc = g0 /\ w1 = w).
Proof.
  intros w f a0 ls0 w1 fl f1 gc E0 Hc H. unfold ensure in H. simpl in H. rewrite E0 in H.
  destruct Hc as [Hn|[g0 Hs]].
  - rewrite Hn in H. destruct (alloc w f (Group [] [])) as [wa ga] eqn:Ea.
    injection H as Hw Hfl Hf Hg. subst. split; auto. split; [|intros; congruence].
    destruct (world_le_obj _ _ _ _ _ (alloc_le _ _ _ _ _ Ea) E0) as (y & Ey & _).
    unfold child, lookup_link. erewrite set_obj_at by eauto. now rewrite assoc_ins_same.
  - rewrite Hs in H. simpl in H. injection H as Hw Hfl Hf Hg. subst. split; auto. split.
    + unfold child, lookup_link. now rewrite E0, Hs.
    + intros g1 Hg1. rewrite Hs in Hg1. injection Hg1 as ->. auto.
Qed.

Local Transparent FUEL.
Lemma resolve_cells_hard : forall w f a0 ls0 g0,
  obj_at w f 0 = Some (Group a0 ls0) -> assoc "cells"%string ls0 = Some (Hard g0) ->
  resolve w f ["cells"%string] = Found f g0.
Proof.
  intros w f a0 ls0 g0 E0 Hs. unfold resolve. change FUEL with (S (S 62)). simpl. now rewrite E0, Hs.
Qed.
Lemma resolve_cells_none : forall w f a0 ls0,
  obj_at w f 0 = Some (Group a0 ls0) -> assoc "cells"%string ls0 = None ->
  resolve w f ["cells"%string] = Missing false.
Proof.
  intros w f a0 ls0 E0 Hs. unfold resolve. change FUEL with (S (S 62)). simpl. now rewrite E0, Hs.
Qed.
Local Opaque FUEL.

(** the state of /cells before a cell named [name] is appended: no /cells yet, or a group without that name *)
Definition cell_fresh (w : world) (f : fid) (ls0 : list (string * link)) (name : string) : Prop :=
  assoc "cells"%string ls0 = None \/
  exists g0 ac lsc, assoc "cells"%string ls0 = Some (Hard g0) /\ obj_at w f g0 = Some (Group ac lsc) /\ assoc name lsc = None.

Lemma create_cell_spec : forall w f a0 ls0 name sp w',
  file_exists w f = true -> obj_at w f 0 = Some (Group a0 ls0) -> cell_fresh w f ls0 name ->
  create w f ["cells"%string; name] false sp = (Ok, w') ->
  keeps w w' /\
  exists gc g, child w' f 0 "cells"%string = Some gc /\ child w' f gc name = Some g /\
               (forall g0, assoc "cells"%string ls0 = Some (Hard g0) -> gc = g0) /\
               forall n src, In (n, src) (cs_tables sp) -> table_ok w' f g n src.
Proof.
  intros w f a0 ls0 name sp w' Hex E0 Hfresh H. unfold create in H.
  rewrite Hex in H. simpl orb in H. cbv iota in H.
  destruct (create_group w f ["cells"%string; name]) as [[e w1] [f1 g]] eqn:Ecg.
  destruct e.
  - (* the group was created at the first attempt *)
    destruct (create_group_ok _ _ _ _ _ _ Ecg) as (L & par & n & we & fl & gpar & Hs & He & L1 & Hch).
    simpl in Hs. injection Hs as <- <-.
    assert (assoc "cells"%string ls0 = None \/ exists g0, assoc "cells"%string ls0 = Some (Hard g0)) as Hc.
    { destruct Hfresh as [?|(g0 & ? & ? & ? & _)]; eauto. }
    destruct (ensure_cells _ _ _ _ _ _ _ _ E0 Hc He) as (-> & Hcells & Hsame).
    destruct (write_tables w1 f g (cs_tables sp)) as [w2|] eqn:Ew; [|discriminate].
    injection H as <-.
    destruct (write_tables_spec _ _ _ _ _ Ew) as (K2 & HT).
    assert (keeps w1 (set_attrs w2 f g (cs_attrs sp))) as K3.
    { eapply keeps_trans; eauto. apply set_attrs_keeps. }
    split; [eapply keeps_trans; [apply world_le_keeps; eauto|eauto]|].
    exists gpar, g. split; [|split; [|split]].
    + eapply keeps_child; [|exact Hcells]. eapply keeps_trans; [apply world_le_keeps; eauto|eauto].
    + eapply keeps_child; eauto.
    + intros g0 Hg0. destruct (Hsame g0 Hg0); auto.
    + intros n src Hin. eapply table_ok_keeps; [apply set_attrs_keeps|eauto].
  - discriminate.
  - discriminate.
  - discriminate.
  - (* ValueError path: del f[path] must have succeeded, impossible on a fresh name *)
    exfalso. unfold del_link in H. simpl split_last in H.
    destruct Hfresh as [Hn|(g0 & ac & lsc & Hs & Eg & Hnone)].
    + rewrite (resolve_cells_none _ _ _ _ E0 Hn) in H. discriminate.
    + rewrite (resolve_cells_hard _ _ _ _ _ E0 Hs) in H. rewrite Eg, Hnone in H. discriminate.
  - discriminate.
  - discriminate.
Qed.
